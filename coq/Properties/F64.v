(* Properties/F64.v — the float64 order laws that the engine properties took as premises, proved
   once, and the premise-free forms of the theorems that depended on them
   (claims only; proofs in Proofs/F64Laws.v and Proofs/F64Corollaries.v).

   Numbers in the engine model are Coq primitive binary64 floats; [fcmp x y] (Base/Value.v) is Go's
   three-way comparison of two float64:  x == y -> 0;  x > y -> 1;  else -1.
   Everything below follows from the standard library's specification of the two primitives involved,
   [FloatAxioms.eqb_spec] (x =? y computes SFeqb on the decoded operands) and [FloatAxioms.ltb_spec]
   (same for <?), by showing that [SFcompare] on non-NaN operands is the lexicographic comparison of an
   integer key (class, exponent, mantissa).  No real numbers, no Flocq, no classical axiom: Print
   Assumptions lists those two axioms and the primitive types/operations that occur in the statement
   or in the decoding function [Prim2SF].

   Reading guide.
   * "non-NaN" is [PrimFloat.is_nan x = false] (F64Laws.nonnan x unfolds to it).
   * [one_kind_keys_f64 D keys] (F64Corollaries.v): every key path is readable on every row of D, and
     the non-NULL values found under each key are strings only, booleans only, or numbers none of which
     is NaN.  It is the scope [SortSpec.one_kind_keys] of property C05 with the [NumLaws] premise
     removed - and equivalent to it ([C05_scope_f64_iff]).
   * [sort_scope_f64_b rows keys]: the same as a boolean, linear-time check of a concrete table.
   * [nonnan_val v]: v is not the number NaN (any non-number passes). *)
From Coq Require Import Floats ZArith Sorting.Permutation.
From GenqlV Require Import Base.Prelude Base.Value Model.Ast Model.Eval Model.Exec Model.Join.
From GenqlV Require Import Spec.WindowSpec Spec.SortSpec Spec.GroupSpec Spec.DistinctSpec.
From GenqlV Require Import Proofs.C05Lemmas Proofs.C03Lemmas Proofs.C06Lemmas Proofs.C04Lemmas.
From GenqlV Require Import Proofs.F64Laws Proofs.F64Corollaries.
Local Open Scope Z_scope.

(* ================================================================== *)
(* 1. Go's three-way comparison of float64 on non-NaN operands          *)
(* ================================================================== *)

(* the result is -1, 0 or 1 (all doubles) *)
Theorem F64_fcmp_range : forall x y, fcmp x y = -1 \/ fcmp x y = 0 \/ fcmp x y = 1.
Proof. exact fcmp_range. Qed.
Print Assumptions F64_fcmp_range.

Theorem F64_fcmp_refl : forall x, PrimFloat.is_nan x = false -> fcmp x x = 0.
Proof. exact fcmp_refl. Qed.
Print Assumptions F64_fcmp_refl.

Theorem F64_fcmp_antisym : forall x y,
  PrimFloat.is_nan x = false -> PrimFloat.is_nan y = false -> fcmp x y = - fcmp y x.
Proof. exact fcmp_antisym. Qed.
Print Assumptions F64_fcmp_antisym.

Theorem F64_fcmp_le_trans : forall x y z,
  PrimFloat.is_nan x = false -> PrimFloat.is_nan y = false -> PrimFloat.is_nan z = false ->
  fcmp x y <= 0 -> fcmp y z <= 0 -> fcmp x z <= 0.
Proof. exact fcmp_le_trans. Qed.
Print Assumptions F64_fcmp_le_trans.

Theorem F64_fcmp_lt_trans : forall x y z,
  PrimFloat.is_nan x = false -> PrimFloat.is_nan y = false -> PrimFloat.is_nan z = false ->
  fcmp x y < 0 -> fcmp y z < 0 -> fcmp x z < 0.
Proof. exact fcmp_lt_trans. Qed.
Print Assumptions F64_fcmp_lt_trans.

(* mixed chains: one strict step makes the whole chain strict *)
Theorem F64_fcmp_mixed_trans : forall x y z,
  PrimFloat.is_nan x = false -> PrimFloat.is_nan y = false -> PrimFloat.is_nan z = false ->
  (fcmp x y < 0 -> fcmp y z <= 0 -> fcmp x z < 0) /\
  (fcmp x y <= 0 -> fcmp y z < 0 -> fcmp x z < 0).
Proof.
  intros x y z Hx Hy Hz.
  exact (conj (fcmp_lt_le_trans x y z Hx Hy Hz) (fcmp_le_lt_trans x y z Hx Hy Hz)).
Qed.
Print Assumptions F64_fcmp_mixed_trans.

Theorem F64_fcmp_eq_trans : forall x y z,
  PrimFloat.is_nan x = false -> PrimFloat.is_nan y = false -> PrimFloat.is_nan z = false ->
  fcmp x y = 0 -> fcmp y z = 0 -> fcmp x z = 0.
Proof. exact fcmp_eq_trans. Qed.
Print Assumptions F64_fcmp_eq_trans.

(* doubles that compare equal (e.g. -0 and +0) are interchangeable in every comparison *)
Theorem F64_fcmp_eq_compat : forall x y z,
  PrimFloat.is_nan x = false -> PrimFloat.is_nan y = false -> PrimFloat.is_nan z = false ->
  (fcmp x y = 0 -> fcmp x z = fcmp y z) /\ (fcmp y z = 0 -> fcmp x y = fcmp x z).
Proof.
  intros x y z Hx Hy Hz.
  exact (conj (fcmp_eq_compat_l x y z Hx Hy Hz) (fcmp_eq_compat_r x y z Hx Hy Hz)).
Qed.
Print Assumptions F64_fcmp_eq_compat.

(* totality, and the sharper form: exactly one of  x < y,  x == y,  x > y *)
Theorem F64_fcmp_total : forall x y,
  PrimFloat.is_nan x = false -> PrimFloat.is_nan y = false -> fcmp x y <= 0 \/ fcmp y x <= 0.
Proof. exact fcmp_total. Qed.
Print Assumptions F64_fcmp_total.

Theorem F64_fcmp_trichotomy : forall x y,
  PrimFloat.is_nan x = false -> PrimFloat.is_nan y = false ->
  (fcmp x y = -1 /\ fcmp y x = 1) \/ (fcmp x y = 0 /\ fcmp y x = 0) \/ (fcmp x y = 1 /\ fcmp y x = -1).
Proof. exact fcmp_trichotomy. Qed.
Print Assumptions F64_fcmp_trichotomy.

(* what the three results mean *)
Theorem F64_fcmp_meaning : forall x y,
  (fcmp x y = 0 <-> PrimFloat.eqb x y = true) /\
  (fcmp x y = 1 <-> PrimFloat.ltb y x = true) /\
  (PrimFloat.is_nan x = false -> PrimFloat.is_nan y = false ->
   (fcmp x y = -1 <-> PrimFloat.ltb x y = true)).
Proof.
  intros x y. exact (conj (fcmp_eq_iff x y) (conj (fcmp_gt_iff x y) (fcmp_lt_iff x y))).
Qed.
Print Assumptions F64_fcmp_meaning.

(* the order embedding behind all of the above: on non-NaN doubles fcmp is the three-way comparison
   of the keys [fkey] under the lexicographic order [key_lt] on Z*Z*Z *)
Theorem F64_fcmp_order_embedding : forall x y,
  PrimFloat.is_nan x = false -> PrimFloat.is_nan y = false ->
  (fcmp x y = 0 /\ fkey x = fkey y) \/
  (fcmp x y = -1 /\ key_lt (fkey x) (fkey y)) \/
  (fcmp x y = 1 /\ key_lt (fkey y) (fkey x)).
Proof. exact fcmp_spec. Qed.
Print Assumptions F64_fcmp_order_embedding.

(* the non-NaN premise is needed: Go's comparison calls NaN "less than" everything, itself included *)
Theorem F64_fcmp_nan_refuted : fcmp nan nan = -1 /\ fcmp nan 1 = -1 /\ fcmp 1 nan = -1.
Proof. exact fcmp_nan_refuted. Qed.
Print Assumptions F64_fcmp_nan_refuted.

(* ================================================================== *)
(* 2. == is an equivalence, < a strict order compatible with it         *)
(* ================================================================== *)

(* reflexive exactly on non-NaN; symmetric and transitive on all doubles (== with a NaN is false) *)
Theorem F64_eqb_equivalence :
  (forall x, PrimFloat.is_nan x = false -> PrimFloat.eqb x x = true) /\
  (forall x y, PrimFloat.eqb x y = PrimFloat.eqb y x) /\
  (forall x y z, PrimFloat.eqb x y = true -> PrimFloat.eqb y z = true -> PrimFloat.eqb x z = true) /\
  (forall x y, PrimFloat.eqb x y = true -> PrimFloat.is_nan x = false /\ PrimFloat.is_nan y = false).
Proof. exact (conj eqb_refl (conj eqb_sym (conj eqb_trans eqb_true_nonnan))). Qed.
Print Assumptions F64_eqb_equivalence.

(* irreflexive, transitive, asymmetric, disjoint from == (all doubles) *)
Theorem F64_ltb_strict_order :
  (forall x, PrimFloat.ltb x x = false) /\
  (forall x y z, PrimFloat.ltb x y = true -> PrimFloat.ltb y z = true -> PrimFloat.ltb x z = true) /\
  (forall x y, PrimFloat.ltb x y = true -> PrimFloat.ltb y x = false) /\
  (forall x y, PrimFloat.ltb x y = true -> PrimFloat.eqb x y = false).
Proof. exact (conj ltb_irrefl (conj ltb_trans (conj ltb_asym ltb_not_eqb))). Qed.
Print Assumptions F64_ltb_strict_order.

(* < does not distinguish doubles that are == (all doubles) *)
Theorem F64_ltb_respects_eqb : forall x y z, PrimFloat.eqb x y = true ->
  PrimFloat.ltb x z = PrimFloat.ltb y z /\ PrimFloat.ltb z x = PrimFloat.ltb z y.
Proof. intros x y z E. exact (conj (ltb_eqb_compat_l x y z E) (ltb_eqb_compat_r x y z E)). Qed.
Print Assumptions F64_ltb_respects_eqb.

(* on non-NaN doubles the order is total: exactly one of  x < y,  x == y,  y < x;  and "not less" is
   transitive *)
Theorem F64_ltb_trichotomy : forall x y,
  PrimFloat.is_nan x = false -> PrimFloat.is_nan y = false ->
  (PrimFloat.ltb x y = true /\ PrimFloat.eqb x y = false /\ PrimFloat.ltb y x = false) \/
  (PrimFloat.ltb x y = false /\ PrimFloat.eqb x y = true /\ PrimFloat.ltb y x = false) \/
  (PrimFloat.ltb x y = false /\ PrimFloat.eqb x y = false /\ PrimFloat.ltb y x = true).
Proof. exact ltb_eqb_trichotomy. Qed.
Print Assumptions F64_ltb_trichotomy.

Theorem F64_ltb_negatively_transitive : forall x y z,
  PrimFloat.is_nan x = false -> PrimFloat.is_nan y = false -> PrimFloat.is_nan z = false ->
  PrimFloat.ltb x y = false -> PrimFloat.ltb y z = false -> PrimFloat.ltb x z = false.
Proof. exact ltb_neg_trans. Qed.
Print Assumptions F64_ltb_negatively_transitive.

(* ================================================================== *)
(* 3. the premises of the property theorems                             *)
(* ================================================================== *)

(* C05: NumLaws holds on a set of doubles iff the set contains no NaN *)
Theorem F64_num_laws : forall F : float -> Prop,
  (forall x, F x -> PrimFloat.is_nan x = false) <-> NumLaws F.
Proof. intros F. exact (conj (num_laws_nonnan F) (num_laws_only_nonnan F)). Qed.
Print Assumptions F64_num_laws.

(* every float fact that a property theorem assumed, in one statement *)
Theorem F64_float_premises_hold :
  (* C05: NumLaws on every set of non-NaN doubles, and on no other set *)
  (forall F : float -> Prop, (forall x, F x -> PrimFloat.is_nan x = false) <-> NumLaws F) /\
  (* C03: == is symmetric and transitive, < irreflexive and transitive (all doubles) *)
  FloatEqLaws /\ FloatLtLaws /\
  (* C06, C08: the identity of doubles used by DISTINCT / UNION is symmetric and transitive *)
  FeqLaws /\
  (* C04: -0 and 0 compare alike against every number (zero_safe); compare.Compare is antisymmetric
     on values that are not NaN (flip_ok); Compare = 0 on two numbers is == *)
  (forall x y, vcompare (norm_zero (VNum x)) (norm_zero (VNum y)) = vcompare (VNum x) (VNum y)) /\
  (forall a b z, nonnan_val a = true -> nonnan_val b = true ->
     vcompare a b = Ok z -> vcompare b a = Ok (- z)) /\
  (forall x y, vcompare (VNum x) (VNum y) = Ok 0 <-> PrimFloat.eqb x y = true).
Proof. exact float_premises_hold. Qed.
Print Assumptions F64_float_premises_hold.

(* ================================================================== *)
(* 4. C05 (ORDER BY) without the NumLaws premise                        *)
(* ================================================================== *)

(* the premise-free scope is the scope of C05, not a narrower one *)
Theorem C05_scope_f64_iff : forall rows keys,
  one_kind_keys_f64 (rows_of rows) keys <-> one_kind_keys (rows_of rows) keys.
Proof. intros rows keys. exact (one_kind_keys_f64_iff (rows_of rows) keys). Qed.
Print Assumptions C05_scope_f64_iff.

Theorem C05_one_kind_in_scope_f64 : forall rows keys,
  one_kind_keys_f64 (rows_of rows) keys -> sort_scope (rows_of rows) keys.
Proof. intros rows keys. exact (one_kind_keys_f64_scope (rows_of rows) keys). Qed.
Print Assumptions C05_one_kind_in_scope_f64.

(* a boolean check of a concrete table: kinds and is_nan only (no check of the laws by computation) *)
Theorem C05_scope_check_sound_f64 : forall rows keys,
  sort_scope_f64_b rows keys = true -> one_kind_keys_f64 (rows_of rows) keys.
Proof. exact sort_scope_f64_b_sound. Qed.
Print Assumptions C05_scope_check_sound_f64.

(* vcompare on a column of non-NaN numbers is a three-way total preorder *)
Theorem C05_number_column_ordered_f64 : forall V : value -> Prop,
  (forall v, V v -> exists f, v = VNum f /\ PrimFloat.is_nan f = false) -> cmp_laws V.
Proof. exact num_col_f64_cmp_laws. Qed.
Print Assumptions C05_number_column_ordered_f64.

(* the comparator of sort.go never fails and is a strict weak order *)
Theorem C05_less_is_strict_weak_order_f64 : forall rows keys,
  one_kind_keys_f64 (rows_of rows) keys ->
  total_on (rows_of rows) (order_less keys) /\
  strict_weak_order (rows_of rows) (lt_of (order_less keys)).
Proof. exact order_less_swo_f64. Qed.
Print Assumptions C05_less_is_strict_weak_order_f64.

(* ExecOrderBy: no error, output meets the sorting contract *)
Theorem C05_exec_order_by_f64 : forall rows keys,
  one_kind_keys_f64 (rows_of rows) keys ->
  exists out, exec_order_by keys rows = Ok out /\ sorted_perm (order_less keys) rows out.
Proof. exact exec_order_by_f64. Qed.
Print Assumptions C05_exec_order_by_f64.

(* any output meeting the contract: a permutation whose adjacent pairs respect the key list
   lexicographically, per-key direction, NULLs in the last key column only *)
Theorem C05_sorted_f64 : forall rows keys out,
  one_kind_keys_f64 (rows_of rows) keys -> nulls_only_in_last_key (rows_of rows) keys ->
  sorted_perm (order_less keys) rows out ->
  Permutation rows out /\
  forall i a b, nth_error out i = Some a -> nth_error out (S i) = Some b -> lex_le keys a b.
Proof. intros rows keys out HS. exact (sorted_adjacent_f64 rows keys HS out). Qed.
Print Assumptions C05_sorted_f64.

Theorem C05_sorted_all_pairs_f64 : forall rows keys out,
  one_kind_keys_f64 (rows_of rows) keys -> nulls_only_in_last_key (rows_of rows) keys ->
  sorted_perm (order_less keys) rows out ->
  forall i j a b, (i < j)%nat -> nth_error out i = Some a -> nth_error out j = Some b ->
  lex_le keys a b.
Proof. intros rows keys out HS. exact (sorted_all_pairs_f64 rows keys HS out). Qed.
Print Assumptions C05_sorted_all_pairs_f64.

(* every table in scope (NULLs anywhere): the order that stops at a key where both rows are NULL *)
Theorem C05_sorted_nullstop_f64 : forall rows keys out,
  one_kind_keys_f64 (rows_of rows) keys -> sorted_perm (order_less keys) rows out ->
  forall i j a b, (i < j)%nat -> nth_error out i = Some a -> nth_error out j = Some b ->
  lex_le_nullstop keys a b.
Proof. intros rows keys out HS. exact (sorted_all_pairs_nullstop_f64 rows keys HS out). Qed.
Print Assumptions C05_sorted_nullstop_f64.

Theorem C05_sorted_nullstop_complete_f64 : forall rows keys out,
  one_kind_keys_f64 (rows_of rows) keys -> Permutation rows out ->
  (forall i a b, nth_error out i = Some a -> nth_error out (S i) = Some b ->
                 lex_le_nullstop keys a b) ->
  sorted_perm (order_less keys) rows out.
Proof. intros rows keys out HS. exact (lex_adjacent_sorted_perm_f64 rows keys HS out). Qed.
Print Assumptions C05_sorted_nullstop_complete_f64.

(* single key, either direction: non-NULL keys precede NULL keys *)
Theorem C05_nulls_last_f64 : forall rows k asc out,
  one_kind_keys_f64 (rows_of rows) [(k, asc)] ->
  sorted_perm (order_less [(k, asc)]) rows out ->
  forall i j a b, (i < j)%nat -> nth_error out i = Some a -> nth_error out j = Some b ->
  reader k a = Ok VNull -> reader k b = Ok VNull.
Proof. exact nulls_last_f64. Qed.
Print Assumptions C05_nulls_last_f64.

Theorem C05_nulls_last_first_key_f64 : forall rows k asc rest out,
  one_kind_keys_f64 (rows_of rows) ((k, asc) :: rest) ->
  sorted_perm (order_less ((k, asc) :: rest)) rows out ->
  forall i j a b, (i < j)%nat -> nth_error out i = Some a -> nth_error out j = Some b ->
  reader k a = Ok VNull -> reader k b = Ok VNull.
Proof. exact nulls_last_first_key_f64. Qed.
Print Assumptions C05_nulls_last_first_key_f64.

(* ORDER BY then LIMIT/OFFSET *)
Theorem C05_order_then_window_f64 : forall rows keys limit offset,
  one_kind_keys_f64 (rows_of rows) keys -> bound_ok limit -> bound_ok offset ->
  exists ordered,
    exec_order_by keys rows = Ok ordered /\
    sorted_perm (order_less keys) rows ordered /\
    (let! o := exec_order_by keys rows in window o (List.length o) limit offset)
      = Ok (window_spec ordered limit offset).
Proof. intros rows keys limit offset HS. exact (order_then_window_f64 rows keys HS limit offset). Qed.
Print Assumptions C05_order_then_window_f64.

Theorem C05_run_select_order_window_f64 :
  forall rec call join ctx (s : select stmt) from filtered grouped selected,
  filter_rows rec ctx s (mk_env rec call join ctx s []) from = Ok filtered ->
  exec_group_by (mk_env rec call join ctx s filtered) s filtered = Ok grouped ->
  exec_select (mk_env rec call join ctx s filtered) s grouped = Ok selected ->
  one_kind_keys_f64 (rows_of (exec_distinct (s_distinct s) selected)) (s_order s) ->
  bound_ok (s_limit s) -> bound_ok (s_offset s) ->
  exists ordered,
    sorted_perm (order_less (s_order s)) (exec_distinct (s_distinct s) selected) ordered /\
    run_select rec call join ctx s (Some from)
      = Ok (VArr (window_spec ordered (s_limit s) (s_offset s))).
Proof. exact run_select_order_window_f64. Qed.
Print Assumptions C05_run_select_order_window_f64.

(* ================================================================== *)
(* 5. C04, C03, C06: the headline theorems without their float premise  *)
(* ================================================================== *)

(* C04 [flip_ok] (premise of C04_on_symmetry): holds when no key value met by ON is NaN *)
Theorem C04_flip_ok_f64 : forall li L R on,
  (forall op pa pb l r a b, In (op, pa, pb) (on_cmps on) -> In l L -> In r R ->
     pair_read li l r pa = Ok a -> pair_read li l r pb = Ok b ->
     nonnan_val a = true /\ nonnan_val b = true) ->
  flip_ok li L R on.
Proof. exact flip_ok_f64. Qed.
Print Assumptions C04_flip_ok_f64.

(* C03: the groups are the textbook partition; MIN / MAX are extrema *)
Theorem C03_groups_are_partition_f64 : forall cols rows,
  rows_ok cols rows = true -> group_rows cols rows [] = Ok (group_spec cols rows).
Proof. exact (group_rows_spec float_eq_laws_f64). Qed.
Print Assumptions C03_groups_are_partition_f64.

Theorem C03_min_max_f64 : forall ns,
  (In (fmin ns) (largest_double :: ns) /\ forall n, In n ns -> PrimFloat.ltb n (fmin ns) = false) /\
  (In (fmax ns) ((- largest_double)%float :: ns) /\
   forall n, In n ns -> PrimFloat.ltb (fmax ns) n = false).
Proof.
  intros ns. exact (conj (fmin_is_minimum float_lt_laws_f64 ns) (fmax_is_maximum float_lt_laws_f64 ns)).
Qed.
Print Assumptions C03_min_max_f64.

(* C06: row identity is an equivalence; DISTINCT keeps the first of each class *)
Theorem C06_veqb_equivalence_f64 : equivalence_b veqb.
Proof. exact (veqb_equivalence feq_laws_f64). Qed.
Print Assumptions C06_veqb_equivalence_f64.

Theorem C06_exec_distinct_exact_f64 : forall rows, exec_distinct true rows = nodup_first veqb rows.
Proof. exact (exec_distinct_exact feq_laws_f64). Qed.
Print Assumptions C06_exec_distinct_exact_f64.

(* ================================================================== *)
(* 6. non-vacuity                                                       *)
(* ================================================================== *)

(* the two example tables of C05 (5 rows, ties, NULLs, ORDER BY n DESC, s ASC) pass the premise-free
   check, so every theorem of section 4 applies to them; a NaN key or a mixed column does not pass *)
Example F64_nonvacuous_scope :
  sort_scope_f64_b ex_rows ex_keys = true /\ sort_scope_f64_b ex_rows' ex_keys = true /\
  sort_scope_f64_b [kv (VNum nan)] [(["k"%string], true)] = false /\
  sort_scope_f64_b [kv (VNum 9%float); kv (VNum 10%float); kv (VStr "5")] [(["k"%string], true)] = false.
Proof. exact ex_in_scope_f64. Qed.

Example F64_nonvacuous_premises :
  one_kind_keys_f64 (rows_of ex_rows) ex_keys /\ one_kind_keys_f64 (rows_of ex_rows') ex_keys.
Proof.
  destruct ex_in_scope_f64 as (H1 & H2 & _).
  exact (conj (sort_scope_f64_b_sound _ _ H1) (sort_scope_f64_b_sound _ _ H2)).
Qed.

(* concrete doubles: signed zeros tie, infinities are the extremes (0x1.f…p+1023 is the largest finite
   double), the smallest subnormal 0x1p-1074 is above 0 and its negation below -0 *)
Example F64_nonvacuous_values :
  fcmp (-0)%float 0%float = 0 /\ fcmp neg_infinity (-1)%float = -1 /\ fcmp infinity 0x1.fffffffffffffp+1023%float = 1 /\
  fcmp 0x1p-1074%float 0%float = 1 /\ fcmp (-0x1p-1074)%float (-0)%float = -1 /\
  PrimFloat.is_nan infinity = false /\ PrimFloat.is_nan (-0)%float = false /\ PrimFloat.is_nan nan = true.
Proof. vm_compute. repeat split. Qed.
