(* Properties/C13.v — Concurrent queries are free of data races, crashes and cross-talk
   (claims only; proofs in Proofs/C13Lockset.v, C13Heap.v, C13Lemmas.v).

   FULL STATEMENT (properties.jsonl): any number of queries may be constructed and executed
   concurrently from different goroutines: each returns what it returns when run alone, and no data
   race, `concurrent map` fatal error or deadlock occurs — separate documents (sharing the selector
   cache and the function registries), one shared document, and the library's internal parallelism.

   The claim is PARTIAL, and the theorems below are named for what they prove:
   the locking / ownership DISCIPLINE that excludes races is proved for all thread counts, all
   selector texts and all schedules; that the Go sources follow the discipline is a regenerated
   obligation (the translator table must satisfy [c13_sites_ok], see C13_sites_sound); that a
   race-free Go program behaves as the interleaving model (Go memory model, DRF-SC), and everything
   in the runtime below the events, is observed by the -race stress stage, not proved. *)
From GenqlV Require Import Base.Prelude Base.Value Model.ConcEvents Model.ConcHeap Model.ConcCache
                           Model.SelToken Model.SelReader
                           Proofs.C13Lockset Proofs.C13Heap Proofs.C13Lemmas.
Local Open Scope string_scope.

(* ---- generic: lockset discipline ----------------------------------------------------------- *)

(* If every thread accesses g only while holding m (writes: the write lock; reads: the write or
   the read lock), then in every interleaving: at most one thread is inside a write critical
   section of m and then nobody is inside a read section; every access to g is made from inside a
   critical section; no two conflicting accesses to g are ever enabled together (no data race);
   and no Unlock finds the mutex unlocked (no `fatal error: sync: unlock of unlocked mutex`). *)
Theorem C13_lockset_race_free :
  forall (g : loc) (m : mutex) (progs : tid -> list ev),
    (forall i, disciplined g m (progs i) = true) ->
    forall sched, let s := run progs sched in
      (forall i j, holds_w m s i = true -> holds_w m s j = true \/ holds_r m s j = true -> i = j) /\
      (forall i a, pending g s i = Some a -> holds_w m s i = true \/ holds_r m s i = true) /\
      (forall i, pending g s i = Some Wr -> holds_w m s i = true) /\
      ~ race g s /\
      (forall i, ~ fatal_unlock m s i).
Proof. exact lockset_race_free. Qed.
Print Assumptions C13_lockset_race_free.

(* threads are arbitrary sequences of calls, each call following one disciplined path *)
Theorem C13_lockset_calls :
  forall (g : loc) (m : mutex) (calls : tid -> list (list ev)),
    (forall i, Forall (fun p => disciplined g m p = true) (calls i)) ->
    forall sched, ~ race g (run (fun i => List.concat (calls i)) sched).
Proof. exact lockset_calls_race_free. Qed.
Print Assumptions C13_lockset_calls.

(* a location that no thread writes (the function registries once initialisation is over) *)
Theorem C13_read_only_location :
  forall (g : loc) (progs : tid -> list ev),
    (forall i, read_only g (progs i) = true) -> forall sched, ~ race g (run progs sched).
Proof. exact read_only_race_free. Qed.
Print Assumptions C13_read_only_location.

(* ---- generic: read-only sharing (queries reading ONE shared document) ---------------------- *)

(* Threads whose writes all go to objects they allocated themselves, and that name no object
   allocated by another thread, are race free — whatever pre-existing data they all read.
   (That the engine writes only to fresh objects is C11's obligation over the mutation sites.) *)
Theorem C13_readonly_sharing :
  forall progs : tid -> list hev,
    (forall i, private i (progs i) = true) -> forall sched, ~ hrace (hrun progs sched).
Proof. exact readonly_sharing. Qed.
Print Assumptions C13_readonly_sharing.

(* ---- the selector cache (ExecReader after fix D32) ------------------------------------------ *)

Section Cache.
Context {P D V : Type}.
Variable parse : string -> res P.      (* strings.Split + ParseSelector: any pure function *)
Variable eval : P -> D -> res V.       (* the ReaderExecutor loop: any pure function        *)
Variable pzero : P.
Variable calls : tid -> call (D := D). (* any number of threads, any selector texts and documents *)

(* every entry of the shared map is the parse of its key, in every reachable state *)
Theorem C13_cache_invariant :
  forall sched k v, cache (crun parse eval pzero true calls sched) k = Some v -> parse k = Ok v.
Proof. exact (cache_invariant parse eval pzero true calls). Qed.

(* hence no cross-talk: whatever the interleaving, a finished call has returned what it returns
   when it runs alone *)
Theorem C13_no_crosstalk :
  forall sched i r, pcs (crun parse eval pzero true calls sched) i = PDone r -> r = solo parse eval (calls i).
Proof. exact (no_crosstalk parse eval pzero true calls). Qed.

Hypothesis parse_nopanic : forall k, parse k <> Panic.   (* C09_never_panics for the real parser *)

(* the holder of mut is unique, and every access to the map is made by the holder: no race *)
Theorem C13_cache_race_free :
  forall sched, let s := crun parse eval pzero true calls sched in
    (forall i j, in_cs (pcs s i) = true -> in_cs (pcs s j) = true -> i = j) /\ ~ cache_race s.
Proof.
  intros sched s. split.
  - intros i j. apply (cache_mutual_exclusion parse eval pzero true calls parse_nopanic).
  - apply (cache_race_free parse eval pzero true calls parse_nopanic). reflexivity.
Qed.

(* every Lock is followed by an Unlock on every path (hit, miss, parse error): whoever holds the
   mutex frees it within 5 of its own steps *)
Theorem C13_lock_released :
  forall sched j, lock (crun parse eval pzero true calls sched) = Some j ->
    exists n, n <= 5 /\ lock (crun parse eval pzero true calls (sched ++ repeat j n)) = None.
Proof. exact (lock_released parse eval pzero true calls parse_nopanic). Qed.

(* no deadlock: from every reachable state every call can still be completed (by letting the
   current holder reach its Unlock and then running the call), and no reachable state with an
   unfinished call is stuck *)
Theorem C13_no_deadlock :
  forall sched i,
    (exists sched', List.length sched' <= 12 /\
                    is_done (pcs (crun parse eval pzero true calls (sched ++ sched')) i) = true) /\
    (is_done (pcs (crun parse eval pzero true calls sched) i) = false ->
     exists j, cstep parse eval pzero true calls (crun parse eval pzero true calls sched) j
               <> crun parse eval pzero true calls sched /\
               (j = i \/ lock (crun parse eval pzero true calls sched) = Some j)).
Proof.
  intros sched i. split.
  - apply (no_deadlock parse eval pzero true calls parse_nopanic).
  - apply (never_stuck parse eval pzero true calls parse_nopanic).
Qed.
End Cache.
Print Assumptions C13_cache_invariant.
Print Assumptions C13_no_crosstalk.
Print Assumptions C13_cache_race_free.
Print Assumptions C13_lock_released.
Print Assumptions C13_no_deadlock.

(* the instance: with the C09 model of ParseSelector / ReaderExecutor, every concurrent
   ExecReader call returns exactly what [exec_reader] (the sequential model of C09) returns *)
Theorem C13_exec_reader_no_crosstalk :
  forall (calls : tid -> call (D := value)) sched i r,
    pcs (crun sel_parse sel_eval [] true calls sched) i = PDone r ->
    r = exec_reader (c_doc (calls i)) (c_sel (calls i)).
Proof.
  intros calls sched i r H. rewrite <- sel_solo_is_exec_reader.
  exact (no_crosstalk sel_parse sel_eval [] true calls sched i r H).
Qed.
Print Assumptions C13_exec_reader_no_crosstalk.

Theorem C13_exec_reader_no_deadlock :
  forall (calls : tid -> call (D := value)) sched i,
    exists sched', List.length sched' <= 12 /\
                   is_done (pcs (crun sel_parse sel_eval [] true calls (sched ++ sched')) i) = true.
Proof. intros calls. exact (no_deadlock sel_parse sel_eval [] true calls sel_parse_nopanic). Qed.
Print Assumptions C13_exec_reader_no_deadlock.

(* ---- the regenerated obligation: what the translator table must satisfy, and what it gives --- *)

(* If the table passes the boolean criterion, then any threads that each execute any sequence of
   calls of the listed run-time functions, along any of their paths, race neither on the cache,
   nor on a query's variables, nor on the three registries. *)
Theorem C13_sites_sound :
  forall t : site_table, table_ok t = true ->
  forall calls : tid -> list (list ev),
    (forall i, Forall (runtime_path t) (calls i)) ->
    forall sched, let s := run (fun i => List.concat (calls i)) sched in
      ~ race "cache" s /\ ~ race "vars" s /\
      ~ race "functions" s /\ ~ race "immediateFunctions" s /\ ~ race "topLevelFunctions" s.
Proof. exact sites_sound. Qed.
Print Assumptions C13_sites_sound.

(* the state machine of Model/ConcCache.v performs exactly the event paths that the criterion
   [c13_sites_ok] demands of selector.go's ExecReader *)
Theorem C13_model_paths :
  forallb (disciplined "cache" "mut") exec_reader_paths = true /\
  forall {P D V} (parse : string -> res P) (eval : P -> D -> res V) pzero (c : call (D := D)) c0,
    parse (c_sel c) <> Panic ->
    path_in (emitted parse eval pzero c true 9 (mkCst None c0 (fun _ => PLock))) exec_reader_paths = true.
Proof. split; [exact exec_reader_paths_disciplined|]. intros. now apply solo_emits_model_path. Qed.
Print Assumptions C13_model_paths.

(* ---- the claim as far as it is proved --------------------------------------------------------- *)

(* FULL STATEMENT: "any number of queries constructed and executed concurrently from different
   goroutines each return what they return alone, and no data race, `concurrent map` fatal error
   or deadlock occurs".
   PROVED (this theorem): for every table of event paths that passes the regenerated criterion,
   all threads executing any sequences of calls of the listed functions are race free on the cache,
   the variables and the registries in EVERY interleaving; and in every interleaving of any number
   of ExecReader calls (the only code that takes a process-wide lock) every call can be completed
   and returns exactly what the sequential C09 model returns.
   MISSING (observed by the -race stage instead): that /repo's Go code performs only the events the
   translator lists (no type checker, by-name call graph), that the Go runtime implements the
   interleaving semantics for race-free programs, the per-query state of the engine above the
   cache (thread-local by construction: one *Query per goroutine), and the goroutines the engine
   itself starts (PARALLEL joins: C04; ASYNC/SPINASYNC: C14). *)
Theorem C13_concurrent_queries_partial :
  (forall t : site_table, c13_sites_ok t = true ->
   forall calls : tid -> list (list ev),
     (forall i, Forall (runtime_path t) (calls i)) ->
     forall sched, let s := run (fun i => List.concat (calls i)) sched in
       ~ race "cache" s /\ ~ race "vars" s /\
       ~ race "functions" s /\ ~ race "immediateFunctions" s /\ ~ race "topLevelFunctions" s) /\
  (forall (calls : tid -> call (D := value)) sched i,
     (forall r, pcs (crun sel_parse sel_eval [] true calls sched) i = PDone r ->
                r = exec_reader (c_doc (calls i)) (c_sel (calls i))) /\
     (exists sched', List.length sched' <= 12 /\
                     is_done (pcs (crun sel_parse sel_eval [] true calls (sched ++ sched')) i) = true) /\
     ~ cache_race (crun sel_parse sel_eval [] true calls sched)).
Proof.
  split.
  - intros t Ht. apply andb_prop in Ht as [Ht _]. exact (sites_sound t Ht).
  - intros calls sched i. split; [|split].
    + intros r H. rewrite <- sel_solo_is_exec_reader.
      exact (no_crosstalk sel_parse sel_eval [] true calls sched i r H).
    + exact (no_deadlock sel_parse sel_eval [] true calls sel_parse_nopanic sched i).
    + exact (cache_race_free sel_parse sel_eval [] true calls sel_parse_nopanic sched eq_refl).
Qed.
Print Assumptions C13_concurrent_queries_partial.

(* ---- the pinned tree (D32) ------------------------------------------------------------------- *)

(* ExecReader of the pinned tree reads the entry after the Unlock.  Two threads with fresh
   selector texts: thread 1 runs up to that read (it is outside the critical section), thread 0 up
   to its store — a read of the map and a write of the map are enabled together.  The pinned paths
   are rejected by the lockset criterion, and the same schedule is a race on the event layer.
   (In the atomic-map model the pinned program still returns the right values — [no_crosstalk]
   holds for both variants —: the defect is the race itself, a `concurrent map read and map write`.) *)
Theorem C13_pinned_refuted :
  (let s := crun sel_parse sel_eval [] false refute_calls refute_sched in
   cache_access (pcs s 1) = Some Rd /\ cache_access (pcs s 0) = Some Wr /\ in_cs (pcs s 1) = false /\
   cache_race s) /\
  disciplined "cache" "mut" er_pinned_hit = false /\
  disciplined "cache" "mut" er_pinned_miss = false /\
  race "cache" (run refute_progs [1; 1; 1; 1; 0; 0]).
Proof.
  split; [|split; [|split]].
  - destruct pinned_refuted as (H1 & H0 & Hc). repeat split; try assumption. exact pinned_race.
  - apply pinned_paths_undisciplined.
  - apply pinned_paths_undisciplined.
  - exact pinned_event_race.
Qed.
Print Assumptions C13_pinned_refuted.

(* ---- non-vacuity ------------------------------------------------------------------------------ *)

(* three threads (two of them with the same fresh text) under an interleaved schedule: all finish,
   each with the value it returns alone, and the map holds both texts *)
Definition ex_doc : value := VObj [("a", VObj [("b", VStr "x")]); ("c", VArr [VStr "y"; VStr "z"])].
Definition ex_calls (i : tid) : call (D := value) :=
  match i with 0 => mkCall "a.b" ex_doc | 1 => mkCall "c[1]" ex_doc | _ => mkCall "a.b" ex_doc end.
Definition ex_sched : list tid :=
  [0; 1; 2; 0; 0; 1; 2; 0; 0; 0; 1; 2; 1; 1; 2; 1; 1; 1; 0; 1; 1; 2; 2; 2; 2; 2; 0; 2; 2].

Example C13_example_run :
  let s := crun sel_parse sel_eval [] true ex_calls ex_sched in
  pcs s 0 = PDone (Ok (VStr "x")) /\ pcs s 1 = PDone (Ok (VStr "z")) /\
  pcs s 2 = PDone (Ok (VStr "x")) /\ lock s = None /\
  is_ok (match cache s "a.b" with Some _ => Ok tt | None => Err end) = true.
Proof. vm_compute. repeat split. Qed.

(* a reader/writer-lock path that the criterion accepts, and one it rejects *)
Example C13_example_discipline :
  disciplined "vars" "varsMut" [ERLock "varsMut"; ERead "vars"; ERUnlock "varsMut"; EReturn] = true /\
  disciplined "vars" "varsMut" [ERLock "varsMut"; EWrite "vars"; ERUnlock "varsMut"; EReturn] = false /\
  disciplined "vars" "varsMut" [ELock "varsMut"; EWrite "vars"; EReturn] = false.
Proof. repeat split. Qed.
