(* Properties/C06.v — DISTINCT removes exactly the duplicates; UNION [ALL] concatenates [and dedups]
   (claims only; proofs in Proofs/C06Lemmas.v, C06Float.v, C06Examples.v).

   Vocabulary.  [nodup_first eqb l] (Spec/DistinctSpec.v): keep the first occurrence of every row,
   in input order.  [veqb]: structural identity of JSON-like rows (the executable model's row
   fingerprint is the row itself; the repaired Go code hashes the row's Go-syntax text %#v, which is
   injective on JSON-like rows; sha256 is assumed collision-free).
   [FeqLaws]: symmetry and transitivity of the float identity [feqb] ("both NaN, or numerically equal
   with equal sign bit") — an explicit premise; [C06_feq_laws_binary64] discharges it from the
   standard library's float specification.  [canon_row]: an object whose keys are strictly increasing
   (how the harness and encoding/json present a Go map). *)
From Coq Require Import Floats.
From GenqlV Require Import Base.Prelude Base.Fmt Base.Value Model.Ast Model.Like Model.Num Model.Eval Model.Exec.
From GenqlV Require Import Spec.DistinctSpec Proofs.C06Lemmas Proofs.C06Float Proofs.C06Examples Run.EngineRun.

(* ---------------- DISTINCT ---------------- *)

(* the engine's scan with a set of fingerprints seen so far computes the textbook function, for ANY
   fingerprint that identifies rows exactly up to the row equivalence *)
Theorem C06_distinct_exact :
  forall (K : Type) (fp : value -> K) (keq : K -> K -> bool) (eqv : value -> value -> bool),
    equivalence_b eqv ->
    (forall a b, keq (fp a) (fp b) = true <-> eqv a b = true) ->
    forall rows, distinct_by K fp keq [] rows = nodup_first eqv rows.
Proof. exact distinct_by_exact_iff. Qed.
Print Assumptions C06_distinct_exact.

(* the executable instance *)
Theorem C06_veqb_equivalence : FeqLaws -> equivalence_b veqb.
Proof. exact veqb_equivalence. Qed.
Print Assumptions C06_veqb_equivalence.

Theorem C06_exec_distinct_exact :
  FeqLaws -> forall rows, exec_distinct true rows = nodup_first veqb rows.
Proof. exact exec_distinct_exact. Qed.
Print Assumptions C06_exec_distinct_exact.

(* no two kept rows are the same row *)
Theorem C06_distinct_no_duplicates :
  forall (A : Type) (eqb : A -> A -> bool) l, all_distinct eqb (nodup_first eqb l).
Proof. exact nodup_first_all_distinct. Qed.
Print Assumptions C06_distinct_no_duplicates.

(* same set of rows: nothing invented, nothing lost *)
Theorem C06_distinct_same_set :
  forall (A : Type) (eqb : A -> A -> bool), equivalence_b eqb -> forall l,
    (forall x, In x (nodup_first eqb l) -> In x l) /\
    (forall x, In x l -> exists y, In y (nodup_first eqb l) /\ eqb y x = true).
Proof.
  intros A eqb EQ l. split; [apply nodup_first_incl | apply nodup_first_complete; exact EQ].
Qed.
Print Assumptions C06_distinct_same_set.

(* "exactly once": every input row has exactly one equal row in the output *)
Theorem C06_distinct_exactly_once :
  forall (A : Type) (eqb : A -> A -> bool), equivalence_b eqb -> forall l x,
    In x l -> List.length (filter (eqb x) (nodup_first eqb l)) = 1%nat.
Proof. exact nodup_first_exactly_once. Qed.
Print Assumptions C06_distinct_exactly_once.

(* order preserved: the output is the input with rows struck out *)
Theorem C06_distinct_subsequence :
  forall (A : Type) (eqb : A -> A -> bool) l, subseq (nodup_first eqb l) l.
Proof. exact nodup_first_subseq. Qed.
Print Assumptions C06_distinct_subsequence.

(* position of the first occurrence: the row at any position is kept iff no earlier row equals it,
   and then it comes right after the kept rows of the prefix *)
Theorem C06_distinct_first_occurrence :
  forall (A : Type) (eqb : A -> A -> bool) l1 x l2,
    nodup_first eqb (l1 ++ x :: l2) =
      nodup_first eqb l1 ++ (if existsb (fun y => eqb y x) l1 then [] else [x])
                       ++ keep_firsts eqb (l1 ++ [x]) l2.
Proof. exact nodup_first_at. Qed.
Print Assumptions C06_distinct_first_occurrence.

Theorem C06_distinct_positionwise :
  forall (A : Type) (eqb : A -> A -> bool) l, nodup_first eqb l = keep_firsts eqb [] l.
Proof. exact nodup_first_positionwise. Qed.
Print Assumptions C06_distinct_positionwise.

Theorem C06_distinct_idempotent :
  FeqLaws -> forall rows,
    exec_distinct true (exec_distinct true rows) = exec_distinct true rows.
Proof. exact exec_distinct_idem. Qed.
Print Assumptions C06_distinct_idempotent.

(* through the SELECT pipeline: SELECT DISTINCT <items> ... returns the rows of SELECT <items> ...
   with exactly the duplicates removed — any FROM rows, WHERE, GROUP BY/HAVING, select list *)
Theorem C06_distinct_query :
  forall rec call join, FeqLaws -> forall ctx s from rows,
    s_order s = [] -> s_limit s = None -> s_offset s = None ->
    run_select rec call join ctx (with_distinct false s) (Some from) = Ok (VArr rows) ->
    run_select rec call join ctx (with_distinct true s) (Some from) = Ok (VArr (nodup_first veqb rows)).
Proof. exact distinct_query. Qed.
Print Assumptions C06_distinct_query.

(* with ORDER BY / LIMIT: they run on the deduplicated rows *)
Theorem C06_distinct_query_general :
  forall rec call join, FeqLaws -> forall ctx s from,
    run_select rec call join ctx (with_distinct true s) (Some from) =
    catch_panic (let! selected := select_stage rec call join ctx s from in
                 let! ordered := exec_order_by (s_order s) (nodup_first veqb selected) in
                 let! win := window ordered (List.length ordered) (s_limit s) (s_offset s) in
                 Ok (VArr win)).
Proof. exact distinct_query_general. Qed.
Print Assumptions C06_distinct_query_general.

(* the repaired defect (D17): Go's %v text of a row is not injective, so a fingerprint made from it
   conflates distinct rows — DISTINCT over the two witnesses keeps one row where the specification
   keeps two *)
Theorem C06_text_not_injective_refuted :
  exists a b,
    veqb a b = false /\ pinned_fp a = pinned_fp b /\ pinned_fp a <> None /\
    distinct_by _ pinned_fp opt_str_eqb [] [a; b] <> nodup_first veqb [a; b].
Proof.
  exists witness_a, witness_b. destruct text_not_injective as (H1 & H2 & H3 & H4 & H5).
  rewrite H2, H3, H4, H5. repeat split; auto; discriminate.
Qed.
Print Assumptions C06_text_not_injective_refuted.

(* ---------------- UNION ---------------- *)

(* SELECT * over a canonical object returns it unchanged *)
Theorem C06_select_star_identity : forall kv, keys_sorted kv = true -> obj_merge [] kv = kv.
Proof. exact obj_merge_nil_sorted. Qed.
Print Assumptions C06_select_star_identity.

(* A UNION ALL B: the rows of A followed by the rows of B ([rec] = the interpreter on the branches) *)
Theorem C06_union_all :
  forall rec call join ctx l r lv rv la ra,
    rec ctx (JStmt l) = Ok lv -> rec ctx (JStmt r) = Ok rv ->
    as_array lv = Ok la -> as_array rv = Ok ra ->
    Forall (fun v => canon_row v = true) la -> Forall (fun v => canon_row v = true) ra ->
    exec_step rec call join ctx (JStmt (SUnion true l r None None)) = Ok (VArr (la ++ ra)).
Proof. exact union_all. Qed.
Print Assumptions C06_union_all.

(* A UNION B: that concatenation with duplicate rows removed *)
Theorem C06_union :
  forall rec call join ctx l r lv rv la ra,
    FeqLaws ->
    rec ctx (JStmt l) = Ok lv -> rec ctx (JStmt r) = Ok rv ->
    as_array lv = Ok la -> as_array rv = Ok ra ->
    Forall (fun v => canon_row v = true) la -> Forall (fun v => canon_row v = true) ra ->
    exec_step rec call join ctx (JStmt (SUnion false l r None None)) =
    Ok (VArr (nodup_first veqb (la ++ ra))).
Proof. exact union_dedup. Qed.
Print Assumptions C06_union.

(* chains of k >= 2 branches with any mix of UNION / UNION ALL: the left-nested statement evaluates to
   the left fold of the branch results, for every fuel that lets the branches finish *)
Theorem C06_union_chain :
  forall call join, FeqLaws -> forall ctx m0 first r0 (rest : list branch),
    rest <> [] ->
    yields call join m0 ctx first r0 -> canon_rows r0 ->
    Forall (fun b => yields call join m0 ctx (snd (fst b)) (snd b) /\ canon_rows (snd b)) rest ->
    forall m, (m0 + List.length rest <= m)%nat ->
      exec call join m ctx (JStmt (chain_stmt first (map br_syntax rest))) =
      Ok (VArr (union_chain_spec veqb r0 (map br_result rest))).
Proof. exact union_chain_value. Qed.
Print Assumptions C06_union_chain.

(* a LIMIT / OFFSET on the union is the window of the combined (deduplicated) rows *)
Theorem C06_union_limit :
  forall rec call join ctx all l r limit offset lv rv la ra,
    FeqLaws ->
    rec ctx (JStmt l) = Ok lv -> rec ctx (JStmt r) = Ok rv ->
    as_array lv = Ok la -> as_array rv = Ok ra ->
    Forall (fun v => canon_row v = true) la -> Forall (fun v => canon_row v = true) ra ->
    let combined := union_spec veqb all la ra in
    exec_step rec call join ctx (JStmt (SUnion all l r limit offset)) =
    catch_panic (let! win := window combined (List.length combined) limit offset in Ok (VArr win)).
Proof. exact union_limit. Qed.
Print Assumptions C06_union_limit.

(* ... i.e. take-after-drop, for the non-negative LIMIT / OFFSET the parser produces *)
Theorem C06_union_limit_take_drop :
  forall rec call join ctx all l r limit offset lv rv la ra,
    FeqLaws ->
    rec ctx (JStmt l) = Ok lv -> rec ctx (JStmt r) = Ok rv ->
    as_array lv = Ok la -> as_array rv = Ok ra ->
    Forall (fun v => canon_row v = true) la -> Forall (fun v => canon_row v = true) ra ->
    (forall n, limit = Some n -> (0 <= n)%Z) -> (forall n, offset = Some n -> (0 <= n)%Z) ->
    exec_step rec call join ctx (JStmt (SUnion all l r limit offset)) =
    Ok (VArr (window_ref (union_spec veqb all la ra) limit offset)).
Proof. exact union_limit_take_drop. Qed.
Print Assumptions C06_union_limit_take_drop.

(* ---------------- the float premise, discharged ---------------- *)

(* depends on the standard library's axiom FloatAxioms.eqb_spec (and the primitive float operations) *)
Theorem C06_feq_laws_binary64 : FeqLaws.
Proof. exact feq_laws_binary64. Qed.
Print Assumptions C06_feq_laws_binary64.

(* ---------------- non-vacuity ---------------- *)

(* SELECT DISTINCT * over five rows with planted duplicates and three look-alike rows *)
Example C06_ex_distinct :
  run_model (false, ex_doc, sel true "t" [IStar]) = Ok [r1; r2; r3] /\
  nodup_first veqb t_rows = [r1; r2; r3].
Proof. exact distinct_star_runs. Qed.

(* the hypotheses of C06_union_chain are met by (t UNION ALL u) UNION t, and the conclusion holds *)
Example C06_ex_chain_applies : forall m, (3 <= m)%nat ->
  exec no_call no_join m ex_ctx (JStmt (chain_stmt (sel false "t" [IStar]) (map br_syntax chain_a))) =
  Ok (VArr (union_chain_spec veqb t_rows (map br_result chain_a))).
Proof. exact union_chain_applies. Qed.

(* three branches, both mixes of flags, end to end through the API model *)
Example C06_ex_chain_runs :
  run_model (false, ex_doc, chain_stmt (sel false "t" [IStar]) (map br_syntax chain_a))
    = Ok (union_chain_spec veqb t_rows (map br_result chain_a)) /\
  union_chain_spec veqb t_rows (map br_result chain_a)
    = [r1; r2; r3; VObj [("a"%string, VNull)]] /\
  run_model (false, ex_doc, chain_stmt (sel false "t" [IStar]) (map br_syntax chain_b))
    = Ok (union_chain_spec veqb t_rows (map br_result chain_b)) /\
  union_chain_spec veqb t_rows (map br_result chain_b)
    = [r1; r2; r3; VObj [("a"%string, VNull)]; r1; r2; r1; r3; r2].
Proof. exact union_chain_runs. Qed.

Example C06_ex_union_limit :
  run_model (false, ex_doc,
             SUnion false (sel false "t" [IStar]) (sel false "u" [IStar]) (Some 2%Z) (Some 1%Z))
    = Ok (window_ref (union_spec veqb false t_rows u_rows) (Some 2%Z) (Some 1%Z)) /\
  window_ref (union_spec veqb false t_rows u_rows) (Some 2%Z) (Some 1%Z) = [r2; r3].
Proof. exact union_limit_runs. Qed.
