(* Properties/C11.v — Queries never modify the caller's input document (trace level).
   The link from the Go source to "every write is fresh" is the structural obligation regenerated
   from /repo on every run (Gen/SiteRules.v applied to the translator's mutation-site table) and the
   deep comparison of the input document before/after every generated query. *)
From Coq Require Import List Arith Bool.
Import ListNotations.
From GenqlV Require Import Base.Trace Proofs.C11Lemmas Proofs.C11History.

(* if every write of an execution goes to an object the execution allocated itself (and the
   allocator never hands out an input object), then at EVERY prefix of the execution — i.e. at
   every point where evaluation can stop with an error — every input object still has its
   initial content: nothing added, removed, reordered, no cycle through the input created *)
Theorem C11_fresh_writes_preserve_input : forall pre tr h,
  writes_fresh pre [] tr = true ->
  forall p q, tr = p ++ q ->
  forall x, pre x = true -> run_trace h p x = h x.
Proof. exact fresh_writes_preserve_input. Qed.
Print Assumptions C11_fresh_writes_preserve_input.

(* the repaired marker protocol (shallow scope copy) only performs fresh writes *)
Theorem C11_scoped_marker_fresh : forall pre row copy,
  pre copy = false -> writes_fresh pre [] (scoped_marker_trace row copy) = true.
Proof. exact scoped_marker_fresh. Qed.
Print Assumptions C11_scoped_marker_fresh.

(* the pinned protocol (marker written into the row itself, removed only on success) changes an
   input object when the query fails part-way *)
Theorem C11_pinned_protocol_refuted :
  exists pre row h, pre row = true /\ run_trace h (pinned_marker_trace row true) row <> h row.
Proof. exact pinned_marker_refuted. Qed.
Print Assumptions C11_pinned_protocol_refuted.

Theorem C11_pinned_protocol_not_fresh : forall pre row fails,
  writes_fresh pre [] (pinned_marker_trace row fails) = false.
Proof. exact pinned_marker_not_fresh. Qed.
Print Assumptions C11_pinned_protocol_not_fresh.

(* HISTORIES: after any sequence of queries against the same document — each of which only writes
   what it allocated itself — stopped at any point (inside the k-th query, between two queries,
   after an error of any of them), every input object still has its initial content *)
Theorem C11_history_preserves_input : forall pre trs h,
  Forall (fun tr => writes_fresh pre [] tr = true) trs ->
  forall p q, concat trs = p ++ q ->
  forall x, pre x = true -> run_trace h p x = h x.
Proof. exact history_preserves_input. Qed.
Print Assumptions C11_history_preserves_input.

(* staged evaluation (a common table expression and the query reading it, a subquery and its
   parent): the later stage may fill objects the earlier stage allocated; the input stays intact *)
Theorem C11_staged_preserves_input : forall pre tr1 tr2 h,
  writes_fresh pre [] tr1 = true ->
  writes_fresh pre (allocs tr1 []) tr2 = true ->
  forall p q, tr1 ++ tr2 = p ++ q ->
  forall x, pre x = true -> run_trace h p x = h x.
Proof. exact staged_preserves_input. Qed.
Print Assumptions C11_staged_preserves_input.

(* the condition is necessary: one write into an input object — wherever it stands — is visible
   to the caller at the crash point right after it, and the freshness check rejects the trace *)
Theorem C11_input_write_observable : forall pre p a v,
  pre a = true -> exists h, run_trace h (p ++ [Write a v]) a <> h a.
Proof. exact input_write_observable. Qed.
Print Assumptions C11_input_write_observable.

Theorem C11_input_write_not_fresh : forall pre p owned a v q,
  pre a = true -> (forall b, In b owned -> pre b = false) ->
  writes_fresh pre owned (p ++ Write a v :: q) = false.
Proof. exact input_write_not_fresh. Qed.
Print Assumptions C11_input_write_not_fresh.

Example C11_history_nonvacuous :
  Forall (fun tr => writes_fresh (fun a => Nat.ltb a 10) [] tr = true)
    [[Read 3; Alloc 10; Write 10 7]; []; [Alloc 11; Write 11 1; Read 10]; [Read 4; Alloc 12; Write 12 2]].
Proof. repeat constructor. Qed.

Example C11_nonvacuous :
  writes_fresh (fun a => Nat.ltb a 10) []
    [Read 3; Alloc 10; Write 10 7; Read 4; Alloc 11; Write 11 1; Write 10 2] = true.
Proof. reflexivity. Qed.
