(* Properties/C11.v — Queries never modify the caller's input document (trace level).
   The link from the Go source to "every write is fresh" is the structural obligation regenerated
   from /repo on every run (Gen/SiteRules.v applied to the translator's mutation-site table) and the
   deep comparison of the input document before/after every generated query. *)
From Coq Require Import List Arith Bool.
Import ListNotations.
From GenqlV Require Import Base.Trace Proofs.C11Lemmas.

(* if every write of an execution goes to an object the execution allocated itself (and the
   allocator never hands out an input object), then at EVERY prefix of the execution — i.e. at
   every point where evaluation can stop with an error — every input object still has its
   initial content: nothing added, removed, reordered, no cycle through the input created *)
Theorem C11_fresh_writes_preserve_input : forall pre tr h,
  writes_fresh pre [] tr = true ->
  forall p q, tr = p ++ q ->
  forall x, pre x = true -> run_trace h p x = h x.
Proof. exact fresh_writes_preserve_input. Qed.
Print Assumptions C11_fresh_writes_preserve_input.

(* the repaired marker protocol (shallow scope copy) only performs fresh writes *)
Theorem C11_scoped_marker_fresh : forall pre row copy,
  pre copy = false -> writes_fresh pre [] (scoped_marker_trace row copy) = true.
Proof. exact scoped_marker_fresh. Qed.
Print Assumptions C11_scoped_marker_fresh.

(* the pinned protocol (marker written into the row itself, removed only on success) changes an
   input object when the query fails part-way *)
Theorem C11_pinned_protocol_refuted :
  exists pre row h, pre row = true /\ run_trace h (pinned_marker_trace row true) row <> h row.
Proof. exact pinned_marker_refuted. Qed.
Print Assumptions C11_pinned_protocol_refuted.

Theorem C11_pinned_protocol_not_fresh : forall pre row fails,
  writes_fresh pre [] (pinned_marker_trace row fails) = false.
Proof. exact pinned_marker_not_fresh. Qed.
Print Assumptions C11_pinned_protocol_not_fresh.

Example C11_nonvacuous :
  writes_fresh (fun a => Nat.ltb a 10) []
    [Read 3; Alloc 10; Write 10 7; Read 4; Alloc 11; Write 11 1; Write 10 2] = true.
Proof. reflexivity. Qed.
