(* Properties/C18.v — Built-in functions obey their algebraic contracts for all arguments
   (claims only; proofs in Proofs/C18Lemmas.v).

   [call V O C name args] is the model of  functions[lower(name)](query, current, nil, args)
   (Model/Funcs.v); V = Repaired is the code with fixes/C18 applied, V = Pinned the code as pinned.
   O is the standard library (gob, base64/32, hashes, Unicode case maps, strconv) as an oracle
   record: every law a theorem needs is an explicit premise (codec_laws, hash_len_law,
   strconv_law); C is the query context (constants, variables).  Theorems stated for every V hold
   of both trees.  Function names are matched in any letter case ([ascii_lower n = ...]). *)
From Coq Require Import Floats.
From GenqlV Require Import Base.Prelude Base.Fmt Base.Value Model.Funcs Model.FuncsInst Proofs.C18Lemmas.
Local Open Scope string_scope.

(* DECODE(ENCODE(v, b), b) = v for every scalar v and every base whose lower-cased name is
   base64, base32 or hex — evaluated as ONE nested expression, as the engine does *)
Theorem C18_decode_encode : forall V O C v b bl nd ne,
  codec_laws O -> scalar v ->
  str_lower O b = OOk bl -> In bl ["base64"; "base32"; "hex"] ->
  ascii_lower nd = "decode" -> ascii_lower ne = "encode" ->
  eval V O C (Call nd [Call ne [Lit v; Lit (VStr b)]; Lit (VStr b)]) = Ok v.
Proof. exact eval_decode_encode. Qed.
Print Assumptions C18_decode_encode.

(* an unknown base is an error both ways *)
Theorem C18_decode_encode_unknown_base : forall V O C v x b bl,
  codec_laws O -> scalar v ->
  str_lower O b = OOk bl -> ~ In bl ["base64"; "base32"; "hex"] ->
  call V O C "encode" [v; VStr b] = Err /\ call V O C "decode" [x; VStr b] = Err.
Proof.
  intros V O C v x b bl L Hv Hb Hn. split.
  - apply (encode_unknown_base_scalar V O C v b bl L Hv Hb (base_of_none bl Hn)).
  - apply (decode_unknown_base V O C x b bl Hb (base_of_none bl Hn)).
Qed.
Print Assumptions C18_decode_encode_unknown_base.

(* HASH(v, alg): defined on scalars, hex of length 2 * digest size, and the same string in
   every query context and on both trees (a pure function of v and alg) *)
Theorem C18_hash_pure_len : forall O v a al alg,
  codec_laws O -> hash_len_law O -> scalar v ->
  str_lower O a = OOk al -> hash_alg_of al = Some alg ->
  exists h, String.length h = 2 * digest_len alg /\
            forall V C, call V O C "hash" [v; VStr a] = Ok (VStr h).
Proof. exact hash_pure_len. Qed.
Print Assumptions C18_hash_pure_len.

Theorem C18_hash_unknown_alg : forall V O C v a al r,
  str_lower O a = OOk al -> hash_alg_of al = None -> call V O C "hash" [v; VStr a] <> Ok r.
Proof. intros V O C v a al r Ha Hn. exact (hash_unknown_alg V O C v a al Ha Hn r). Qed.
Print Assumptions C18_hash_unknown_alg.

(* FIRST / LAST / ELEMENTAT: arr[0], arr[n-1], arr[i]; NULL for an empty or NULL array; an error —
   never a panic — for an index outside the array.  The index is int(f): truncation of the
   float64 argument toward zero (go_int_of_float). *)
Theorem C18_first_last_elementat : forall O C l,
  call Repaired O C "first" [VArr l] = Ok (hd VNull l) /\
  call Repaired O C "last" [VArr l] = Ok (List.last l VNull) /\
  call Repaired O C "first" [VNull] = Ok VNull /\
  call Repaired O C "last" [VNull] = Ok VNull /\
  (forall x, call Repaired O C "elementat" [VNull; x] = Ok VNull) /\
  (forall f, (0 <= go_int_of_float f < Z.of_nat (List.length l))%Z ->
     call Repaired O C "elementat" [VArr l; VNum f] = Ok (nth (Z.to_nat (go_int_of_float f)) l VNull)) /\
  (forall f, (go_int_of_float f < 0 \/ Z.of_nat (List.length l) <= go_int_of_float f)%Z ->
     call Repaired O C "elementat" [VArr l; VNum f] = Err).
Proof.
  intros O C l.
  split; [apply first_arr|]. split; [apply last_arr|].
  split; [apply first_null|]. split; [apply last_null|].
  split; [intros x; apply elementat_null|].
  split; intros f H; [apply elementat_in_range | apply elementat_out_of_range]; exact H.
Qed.
Print Assumptions C18_first_last_elementat.

(* UNWIND flattens exactly one level *)
Theorem C18_unwind_one_level : forall V O C arr,
  call V O C "unwind" [VArr arr] =
  Ok (VArr (List.concat (map (fun x => match x with VArr elems => elems | _ => [x] end) arr))).
Proof. intros V O C arr. apply unwind_arr. Qed.
Print Assumptions C18_unwind_one_level.

(* ARRAY returns its arguments in order *)
Theorem C18_array_id : forall V O C args, call V O C "array" args = Ok (VArr args).
Proof. intros. apply array_id. Qed.
Print Assumptions C18_array_id.

(* CONCAT.  Full statement of the property (FALSE of the code, see C18_concat_null_refuted):
     forall args ts, texts of (filter non-NULL args) = Some ts -> CONCAT(args) = join ts.
   Proved: the same with the extra hypothesis that no argument is NULL.  What is missing is
   exactly the NULL case: the code prints "<nil>" for a NULL argument (D42, pinned by
   TestConcatFunc/With_Nil_Values, so it cannot be repaired). *)
Theorem C18_concat_partial : forall V O C args ts,
  Forall (fun a => a <> VNull) args ->
  sequence_opt (map fmt_gv (filter non_null_b args)) = Some ts ->
  call V O C "concat" args = Ok (VStr (join ts)).
Proof. intros V O C args ts. apply concat_partial. Qed.
Print Assumptions C18_concat_partial.

Theorem C18_concat_null_refuted : forall V O C,
  exists args ts,
    sequence_opt (map fmt_gv (filter non_null_b args)) = Some ts /\
    call V O C "concat" args <> Ok (VStr (join ts)).
Proof. exact concat_null_refuted. Qed.
Print Assumptions C18_concat_null_refuted.

(* IF(c, x, y) *)
Theorem C18_if : forall V O C x y,
  call V O C "if" [VBool true; x; y] = Ok x /\
  call V O C "if" [VBool false; x; y] = Ok y /\
  (forall c, (forall b, c <> VBool b) -> call Repaired O C "if" [c; x; y] = Err).
Proof.
  intros V O C x y.
  split; [apply if_true|]. split; [apply if_false|].
  intros c H. apply if_not_bool. exact H.
Qed.
Print Assumptions C18_if.

(* TO_LOWER / TO_UPPER are the (oracle) Unicode case maps, applied to the whole string *)
Theorem C18_case_maps : forall V O C s r,
  (str_lower O s = OOk r -> call V O C "to_lower" [VStr s] = Ok (VStr r)) /\
  (str_upper O s = OOk r -> call V O C "to_upper" [VStr s] = Ok (VStr r)).
Proof.
  intros V O C s r. split; intros H.
  - apply to_lower_str. exact H.
  - apply to_upper_str. exact H.
Qed.
Print Assumptions C18_case_maps.

(* CHANGETYPE(v, t) for non-NULL v, by the lower-cased type name; NULL stays NULL *)
Theorem C18_changetype : forall V O C v t tl s,
  v <> VNull -> str_lower O t = OOk tl -> fmt_gv v = Some s ->
  (tl = "array" -> call V O C "changetype" [v; VStr t] = Ok (VArr [v])) /\
  (tl = "string" -> call V O C "changetype" [v; VStr t] = Ok (VStr s)) /\
  (tl = "double" -> call V O C "changetype" [v; VStr t] =
      match parse_float O s with OOk x => Ok (VNum x) | OFail => Err | OUnk => OutOfModel end) /\
  (tl = "integer" -> call V O C "changetype" [v; VStr t] =
      match atoi O s with OOk z => Ok (vint z) | OFail => Err | OUnk => OutOfModel end) /\
  (~ In tl ["array"; "string"; "double"; "integer"] -> call V O C "changetype" [v; VStr t] = Err) /\
  (forall t', call V O C "changetype" [VNull; t'] = Ok VNull).
Proof.
  intros V O C v t tl s Hv Ht Hs.
  split; [intros; subst tl; apply changetype_array; assumption|].
  split; [intros; subst tl; apply changetype_string; assumption|].
  split; [intros; subst tl; apply changetype_double; assumption|].
  split; [intros; subst tl; apply changetype_integer; assumption|].
  split; [intros; apply changetype_unknown with tl; assumption|].
  intros t'. apply changetype_null.
Qed.
Print Assumptions C18_changetype.

(* string <-> double round-trips, given that ParseFloat inverts %v *)
Theorem C18_changetype_roundtrip : forall V O C x s ts td,
  strconv_law O -> fmt_float x = Some s ->
  str_lower O ts = OOk "string" -> str_lower O td = OOk "double" ->
  eval V O C (Call "changetype" [Call "changetype" [Lit (VNum x); Lit (VStr ts)]; Lit (VStr td)]) = Ok (VNum x) /\
  eval V O C (Call "changetype" [Call "changetype" [Lit (VStr s); Lit (VStr td)]; Lit (VStr ts)]) = Ok (VStr s).
Proof.
  intros V O C x s ts td L Hs Hts Htd. split.
  - change [Lit (VNum x); Lit (VStr ts)] with (map Lit [VNum x; VStr ts]). rewrite eval_nested by reflexivity.
    exact (changetype_roundtrip_double V O C x s ts td L Hs Hts Htd).
  - change [Lit (VStr s); Lit (VStr td)] with (map Lit [VStr s; VStr td]). rewrite eval_nested by reflexivity.
    exact (changetype_roundtrip_string V O C x s ts td (L x s Hs) Hs Hts Htd).
Qed.
Print Assumptions C18_changetype_roundtrip.

(* DATERANGE(f, t) = [f, t] (after the repairs D31/D35); for non-string arguments the elements
   are their texts, "" for NULL *)
Theorem C18_daterange : forall O C,
  (forall f t, call Repaired O C "daterange" [VStr f; VStr t] = Ok (VArr [VStr f; VStr t])) /\
  (forall a b, call Repaired O C "daterange" [a; b] =
     (let! f := text_or_empty a in let! t := text_or_empty b in Ok (VArr [VStr f; VStr t]))).
Proof.
  intros O C. split.
  - intros f t. apply daterange_strings.
  - intros a b. apply daterange_general.
Qed.
Print Assumptions C18_daterange.

(* CONSTANT(k) returns the configured constant; unknown / unconfigured is an error *)
Theorem C18_constant : forall V O C k key,
  fmt_gv k = Some key ->
  (forall m v, consts C = Some m -> lookup key m = Some v -> call V O C "constant" [k] = Ok v) /\
  (forall m, consts C = Some m -> lookup key m = None -> call V O C "constant" [k] = Err) /\
  (consts C = None -> call V O C "constant" [k] = Err).
Proof.
  intros V O C k key Hk.
  split; [intros m v Hm Hl; apply constant_found with m key; assumption|].
  split; [intros m Hm Hl; apply constant_missing with m key; assumption|].
  intros Hm. apply constant_unconfigured. exact Hm.
Qed.
Print Assumptions C18_constant.

(* every registered name resolves, and every fixed-arity function rejects a wrong argument
   count with an error — on both trees, in any letter case of the name *)
Theorem C18_arity : forall V O C name b n args,
  lookup_builtin (ascii_lower name) = Some b -> arity b = Some n ->
  List.length args <> n -> call V O C name args = Err.
Proof. exact arity_call. Qed.
Print Assumptions C18_arity.

Theorem C18_registry_covered : forall name imm,
  In (name, imm) registry -> exists b, lookup_builtin name = Some b.
Proof. exact registry_covered. Qed.
Print Assumptions C18_registry_covered.

(* the repaired code never panics: any function, any arguments, any nesting, any oracle —
   on a query that has a variable map (WithVars) *)
Theorem C18_never_panics : forall O C,
  vars C <> None ->
  (forall name args, call Repaired O C name args <> Panic) /\
  (forall e, eval Repaired O C e <> Panic).
Proof. intros O C Hv. split; [intros; apply call_np; exact Hv | intros; apply eval_np; exact Hv]. Qed.
Print Assumptions C18_never_panics.

(* ... and without one, the ONLY panic is SETVAR's write into the nil map (it is there on both
   trees).  The engine's recover frame around exec catches it: at the API level
   ([catch_panic], what Exec returns) it is an error, never a panic — for every expression, on
   both trees.  This is not a C18 defect (C10 forbids only escaping panics; C20 is stated with
   variables enabled), so the correspondence expects class `error` for it. *)
Theorem C18_only_panic_is_setvar_nil_map : forall O C,
  (forall name args, call Repaired O C name args = Panic ->
     lookup_builtin (ascii_lower name) = Some BSetVar /\ vars C = None) /\
  (forall V cs, call V O {| consts := cs; vars := None |} "setvar" [VStr "a"; VNum 1%float] = Panic) /\
  (forall V e, catch_panic (eval V O C e) <> Panic).
Proof.
  intros O C.
  split; [apply call_panic_only_setvar|].
  split; [intros V cs; apply setvar_nil_map_panics|].
  intros V e. apply api_eval_np.
Qed.
Print Assumptions C18_only_panic_is_setvar_nil_map.

(* ... whereas the pinned code panics in the built-ins themselves (D41 and relatives) *)
Theorem C18_pinned_refuted : forall O C,
  call Pinned O C "elementat" [VArr [VNum 1%float]; VNum (-1)%float] = Panic /\
  call Pinned O C "if" [VNull; VNum 1%float; VNum 2%float] = Panic /\
  call Pinned O C "to_upper" [VNull] = Panic /\
  call Pinned O C "sum" [VNull] = Panic.
Proof. exact pinned_refuted. Qed.
Print Assumptions C18_pinned_refuted.

(* ---------- non-vacuity ---------- *)

Definition ctx0 : fctx := {| consts := Some [("k", VNum 5%float)]; vars := None |}.

(* the executable instance meets the codec premises (base64/base32 for all inputs; gob at sample
   scalars of every kind), the hash-length premise and the strconv premise at sample points *)
Example C18_nonvacuous_laws :
  let O := inst [] in
  (forall b, b64_dec O (b64_enc O b) = OOk b) /\ (forall b, b32_dec O (b32_enc O b) = OOk b) /\
  (forall v, In v [VNull; VBool true; VBool false; VNum 1.5%float; VNum (-0)%float; VStr ""; VStr "a b"] ->
     exists bs, gob_ser O v = OOk bs /\ gob_deser O bs = OOk v) /\
  String.length (hash_sum O Sha256 "abc") = digest_len Sha256 /\
  (forall x, In x [1.5%float; 1000000%float; (-0.25)%float; 0%float] ->
     exists s, fmt_float x = Some s /\ parse_float O s = OOk x).
Proof.
  cbv zeta. split; [intros b; apply sym_codec_roundtrip|]. split; [intros b; apply sym_codec_roundtrip|].
  split; [|split; [reflexivity|]].
  - intros v H. simpl in H.
    repeat (destruct H as [H|H]; [subst v; eexists; (split; [vm_compute; reflexivity|]); vm_compute; reflexivity|]). destruct H.
  - intros x H. simpl in H.
    repeat (destruct H as [H|H]; [subst x; eexists; (split; [vm_compute; reflexivity|]); vm_compute; reflexivity|]). destruct H.
Qed.

Example C18_nonvacuous_eval :
  let O := inst [] in
  eval Repaired O ctx0 (Call "DECODE" [Call "Encode" [Lit (VNum 1.5%float); Lit (VStr "BaSe64")]; Lit (VStr "BaSe64")]) = Ok (VNum 1.5%float) /\
  call Repaired O ctx0 "ELEMENTAT" [VArr [VNum 10%float; VNum 20%float; VNum 30%float]; VNum 1.75%float] = Ok (VNum 20%float) /\
  call Repaired O ctx0 "elementat" [VArr [VNum 10%float; VNum 20%float; VNum 30%float]; VNum (-0.5)%float] = Ok (VNum 10%float) /\
  call Repaired O ctx0 "elementat" [VArr [VNum 10%float]; VNum (-1)%float] = Err /\
  call Repaired O ctx0 "elementat" [VArr [VNum 10%float]; VNum 1%float] = Err /\
  call Repaired O ctx0 "elementat" [VArr [VNum 10%float]; VNum 0x1p100%float] = Err /\
  call Repaired O ctx0 "unwind" [VArr [VArr [VNum 1%float; VArr []]; VNull; VStr "x"]] = Ok (VArr [VNum 1%float; VArr []; VNull; VStr "x"]) /\
  call Repaired O ctx0 "concat" [VStr "a"; VNum 1.5%float; VBool true] = Ok (VStr "a1.5true") /\
  call Repaired O ctx0 "concat" [VStr "a"; VNull] = Ok (VStr "a<nil>") /\
  call Repaired O ctx0 "CHANGETYPE" [VStr "-12"; VStr "Integer"] = Ok (vint (-12)) /\
  call Repaired O ctx0 "changetype" [VNum 1000000%float; VStr "string"] = Ok (VStr "1e+06") /\
  call Repaired O ctx0 "daterange" [VStr "2020"; VStr "2021"] = Ok (VArr [VStr "2020"; VStr "2021"]) /\
  call Repaired O ctx0 "constant" [VStr "k"] = Ok (VNum 5%float) /\
  call Repaired O ctx0 "if" [VNull; VNum 1%float; VNum 2%float] = Err /\
  call Repaired O ctx0 "first" [] = Err /\
  (exists h, call Repaired O ctx0 "hash" [VStr "a"; VStr "SHA1"] = Ok (VStr h) /\ String.length h = 40).
Proof. vm_compute. repeat split. eexists. split; reflexivity. Qed.
