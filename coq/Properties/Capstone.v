(* Properties/Capstone.v — the capstone: one end-to-end statement about a single-table SELECT,
   composed from the per-clause properties C01 (WHERE), C03 (GROUP BY / HAVING / aggregates), C02
   (select list), C06 (DISTINCT), C05 (ORDER BY, LIMIT / OFFSET), F64 (float order laws) and the
   lifting lemmas of C07 / C08 (exec, api_run).  Claims only; the denotation is Spec/QuerySpec.v,
   the glue is Proofs/CapstoneLemmas.v.

   [query_sem s tbl rows] (Spec/QuerySpec.v): [rows] is the OFFSET/LIMIT window ([window_spec] =
   firstn / skipn) of SOME ordering, admitted by the contract of sort.Slice for the comparator of
   sort.go ([sorted_perm (order_less keys)]; no ORDER BY: the identity), of

       distinct?( project( having?( group?( where( tbl ))))))

   written with the specification functions of the clauses: [filter (row_sat p)], [group_spec],
   [having_sem] (C01's [pred_sem] with aggregate operands), [project] over [sem_x] / [agg_spec],
   [nodup_first veqb].

   [query_scope s tbl] (a boolean function of the query and the table, Spec/QuerySpec.v) is the
   conjunction of the stage scopes: the table holds objects and every row is [in_scope] of WHERE
   (C01); grouping keys are NULL / bool / string / non-NaN number ([rows_ok], C03); HAVING relates
   non-NULL scalars of one kind, possibly aggregates; select items are `*`, C02 expressions
   ([is_c02x]) or aggregate calls over a column of numbers and NULLs (COUNT over anything); LIMIT /
   OFFSET absent or non-negative; and the ORDER BY keys, READ FROM THE OUTPUT ROWS, are readable
   and hold strings only, booleans only, or non-NaN numbers only (plus NULLs) - this last condition
   is stated on the intermediate value [query_unsorted s tbl] that the SPECIFICATION computes, so
   it is still a condition on (s, tbl) alone, decidable by computation.

   [rec], [call], [join] (nested queries, scalar functions, joins) are universally quantified:
   the fragment never invokes them. *)
From Coq Require Import Floats ZArith Sorting.Permutation.
From GenqlV Require Import Base.Prelude Base.Value Model.Ast Model.Eval Model.Exec Run.EngineRun Model.Join.
From GenqlV Require Import Spec.PredSem Spec.GroupSpec Spec.ExprSem Spec.DistinctSpec
  Spec.SortSpec Spec.WindowSpec Spec.QuerySpec.
From GenqlV Require Import Proofs.C03Lemmas Proofs.C05Lemmas Proofs.F64Corollaries Proofs.CapstoneLemmas.
Local Open Scope list_scope.

(* ================================================================== *)
(* 1. The pipeline                                                      *)
(* ================================================================== *)

(* Everything before ORDER BY is the specification's, as an EQUATION: when the projection fails
   (e.g. 'x' + 1, DIV 0) the query fails, and it fails for no other reason before ORDER BY.
   Needs only the scopes of WHERE, GROUP BY / HAVING and the select list. *)
Theorem Capstone_front_equation : forall rec call join ctx s tbl,
  front_scope s tbl = true ->
  run_select rec call join ctx s (Some tbl) =
  catch_panic
    (let! unsorted := query_unsorted s tbl in
     let! ordered := exec_order_by (s_order s) unsorted in
     let! win := window ordered (List.length ordered) (s_limit s) (s_offset s) in
     Ok (VArr win)).
Proof. exact run_select_front. Qed.
Print Assumptions Capstone_front_equation.

(* THE CAPSTONE.  In scope the engine returns rows (never an error or a panic), they satisfy the
   denotation, and they are exactly what the denotation computes when the sorting oracle is
   instantiated by the model's own sort. *)
Theorem Capstone_select_pipeline : forall rec call join ctx s tbl,
  query_scope s tbl = true ->
  exists rows,
    run_select rec call join ctx s (Some tbl) = Ok (VArr rows) /\
    query_sem s tbl rows /\
    query_run exec_order_by s tbl = Ok rows.
Proof. exact run_select_sem. Qed.
Print Assumptions Capstone_select_pipeline.

(* the general form: the ORDER BY scope is the propositional premise of C05 / F64
   ([one_kind_keys_f64]: keys readable; per key column strings only, booleans only or non-NaN numbers
   only) on the rows that reach ORDER BY - the specification's unsorted result [u] *)
Theorem Capstone_select_pipeline_general : forall rec call join ctx s tbl u,
  front_scope s tbl = true ->
  bound_ok (s_limit s) -> bound_ok (s_offset s) ->
  query_unsorted s tbl = Ok u ->
  one_kind_keys_f64 (rows_of u) (s_order s) ->
  exists rows,
    run_select rec call join ctx s (Some tbl) = Ok (VArr rows) /\
    query_sem s tbl rows /\
    query_run exec_order_by s tbl = Ok rows.
Proof. exact run_select_sem_general. Qed.
Print Assumptions Capstone_select_pipeline_general.

(* the same as "always returns" + "whatever it returns is a result of the query" *)
Theorem Capstone_select_sound : forall rec call join ctx s tbl,
  query_scope s tbl = true ->
  (exists rows, run_select rec call join ctx s (Some tbl) = Ok (VArr rows)) /\
  forall rows, run_select rec call join ctx s (Some tbl) = Ok (VArr rows) -> query_sem s tbl rows.
Proof. exact run_select_sound. Qed.
Print Assumptions Capstone_select_sound.

(* without ORDER BY the denotation is a function and the statement is an equivalence *)
Theorem Capstone_select_unordered_iff : forall rec call join ctx s tbl rows,
  query_scope s tbl = true -> s_order s = [] ->
  (run_select rec call join ctx s (Some tbl) = Ok (VArr rows) <-> query_sem s tbl rows).
Proof. exact run_select_unordered_iff. Qed.
Print Assumptions Capstone_select_unordered_iff.

(* ---- the same theorem read clause by clause ---- *)

(* WITHOUT GROUP BY:  filter -> one projected row per kept row -> distinct -> order -> window *)
Theorem Capstone_select_ungrouped : forall rec call join ctx s tbl,
  per_row_query s -> query_scope s tbl = true ->
  exists sel sorted,
    mapM (row_project (s_items s)) (filter (where_sem s) tbl) = Ok sel /\
    oracle_order (s_order s) (distinct_sem (s_distinct s) sel) sorted /\
    run_select rec call join ctx s (Some tbl) =
    Ok (VArr (window_spec sorted (s_limit s) (s_offset s))).
Proof. exact run_select_ungrouped. Qed.
Print Assumptions Capstone_select_ungrouped.

(* WITH GROUP BY:  filter -> textbook groups of the survivors -> HAVING -> one row per remaining
   group, computed from that group alone -> distinct -> order -> window *)
Theorem Capstone_select_grouped : forall rec call join ctx s tbl,
  grouped_query s -> query_scope s tbl = true ->
  exists sel sorted,
    mapM (group_project (s_items s))
         (filter (having_of s) (group_spec (s_group s) (filter (where_sem s) tbl))) = Ok sel /\
    oracle_order (s_order s) (distinct_sem (s_distinct s) sel) sorted /\
    run_select rec call join ctx s (Some tbl) =
    Ok (VArr (window_spec sorted (s_limit s) (s_offset s))).
Proof. exact run_select_grouped. Qed.
Print Assumptions Capstone_select_grouped.

(* no GROUP BY, aggregates only: the kept rows form ONE group; exactly one row before the window *)
Theorem Capstone_select_whole_table : forall rec call join ctx s tbl,
  whole_table_query s -> query_scope s tbl = true ->
  exists o,
    project (item_sem (filter (where_sem s) tbl)) (s_items s) [] = Ok o /\
    run_select rec call join ctx s (Some tbl) =
    Ok (VArr (window_spec [VObj o] (s_limit s) (s_offset s))).
Proof. exact run_select_whole. Qed.
Print Assumptions Capstone_select_whole_table.

(* ---- the glue that did not exist in the per-property files ---- *)

(* an aggregate call in scope is the textbook fold over exactly the given member rows *)
Theorem Capstone_aggregate_value : forall ms f arg,
  agg_scope ms f arg = true -> agg_value ms f arg = agg_sem ms f arg.
Proof. exact agg_value_sem. Qed.
Print Assumptions Capstone_aggregate_value.

(* a select list mixing `*`, C02 expressions and aggregate calls is the specification's projection
   (C02 covers lists without aggregates, C03 lists of columns and aggregates) *)
Theorem Capstone_select_list : forall (E : env stmt) ms cur items,
  e_hard E = false ->
  (forall f arg, e_agg E f arg cur = eval_agg ms f arg) ->
  forallb (agg_item_scope ms) items = true ->
  select_expr E cur items [] = project (item_sem ms) items cur.
Proof. exact select_expr_items_nil. Qed.
Print Assumptions Capstone_select_list.

(* HAVING evaluates, on every group in scope, to the C01 meaning with aggregates as operands
   (C03_having takes the truth value of HAVING as a parameter; this supplies it) *)
Theorem Capstone_having : forall rec call join ctx s filtered g p,
  s_group s <> [] ->
  having_scope (snd g) (group_tuple g) p = true ->
  eval (mk_env rec call join ctx s filtered) (group_row g) p =
  Ok (RVal (VBool (having_sem (snd g) (group_tuple g) p))).
Proof. exact having_eval. Qed.
Print Assumptions Capstone_having.

(* scope propagation: conditions on the table / on all kept rows imply the per-group conditions *)
Theorem Capstone_scope_propagates :
  (forall s cols tbl, rows_ok cols tbl = true -> rows_ok cols (kept_rows s tbl) = true) /\
  (forall s tbl, where_scope s tbl = true -> forallb is_object (kept_rows s tbl) = true) /\
  (forall cols kept items g,
     forallb (agg_item_scope kept) items = true -> In g (group_spec cols kept) ->
     forallb (agg_item_scope (snd g)) items = true).
Proof. exact (conj rows_ok_kept (conj kept_rows_objects agg_items_scope_group)). Qed.
Print Assumptions Capstone_scope_propagates.

(* ORDER BY scope PROPAGATED from the source table (the main theorems take it as a condition on the
   intermediate value [query_unsorted s tbl]): without GROUP BY, when every sort key is the output
   name of a projected plain column `c AS name` whose source column over the rows passing WHERE
   holds one scalar kind, item names are pairwise different and there is no `*`, the condition
   holds - whatever the other select items are.  DISTINCT is covered (it only removes rows). *)
Theorem Capstone_order_scope_from_table : forall s tbl,
  per_row_query s ->
  no_star (s_items s) = true -> NoDup (map item_name (s_items s)) ->
  (forall k, In k (s_order s) -> key_from_column s tbl k) ->
  forall u, query_unsorted s tbl = Ok u -> order_scope u (s_order s) = true.
Proof. exact order_scope_from_table. Qed.
Print Assumptions Capstone_order_scope_from_table.

Theorem Capstone_query_scope_from_table : forall s tbl u,
  per_row_query s -> front_scope s tbl = true ->
  bound_okb (s_limit s) = true -> bound_okb (s_offset s) = true ->
  query_unsorted s tbl = Ok u ->
  no_star (s_items s) = true -> NoDup (map item_name (s_items s)) ->
  (forall k, In k (s_order s) -> key_from_column s tbl k) ->
  query_scope s tbl = true.
Proof. exact query_scope_from_table. Qed.
Print Assumptions Capstone_query_scope_from_table.

(* the tuple a group presents to HAVING and the select list, in textbook terms: each grouping column
   holds the value it has in the group's first member, and `*` holds the member rows
   (grouping columns are paths, [gkey]: the tuple carries each under its name, with the value [key_value] the path
   has in the first member; [names_unambiguous]: one name, one column, as in the code's map of grouping columns) *)
Theorem Capstone_group_tuple : forall cols rows g,
  names_unambiguous cols ->
  rows_ok cols rows = true -> In g (group_spec cols rows) ->
  exists r rest, snd g = r :: rest /\ In r rows /\
    (forall c : gkey, In c cols -> gk_name c <> "*"%string ->
       lookup (gk_name c) (group_tuple g) = Some (key_value c r)) /\
    lookup "*"%string (group_tuple g) = Some (VArr (snd g)).
Proof. exact group_tuple_reading. Qed.
Print Assumptions Capstone_group_tuple.

(* ================================================================== *)
(* 2. Through the API                                                   *)
(* ================================================================== *)

(* SELECT ... FROM path (no alias, no WITH), the path resolving to an array of the document (under
   "root" when the document is wrapped): for EVERY fuel >= 1 the API returns the rows of the
   denotation (the fragment has no subquery, CTE or inner dimension, so the recursive interpreter
   is never entered; C07_fuel_monotone says more fuel never changes a definite answer) *)
Theorem Capstone_api : forall call join n wrapped doc s k rest tbl,
  s_with s = [] -> s_from s = FTable (k :: rest) "" ->
  reader (k :: rest) (VObj (api_data wrapped doc)) = Ok (VArr tbl) ->
  query_scope s tbl = true ->
  exists rows,
    api_run call join (S n) wrapped doc (SSelect s) = Ok rows /\
    query_sem s tbl rows /\
    query_run exec_order_by s tbl = Ok rows.
Proof. exact api_run_sem. Qed.
Print Assumptions Capstone_api.

(* FROM t, t a key of the (unwrapped) document holding an array *)
Theorem Capstone_api_table : forall call join n kv s t tbl,
  s_with s = [] -> s_from s = FTable [t] "" ->
  lookup t kv = Some (VArr tbl) ->
  query_scope s tbl = true ->
  exists rows,
    api_run call join (S n) false (VObj kv) (SSelect s) = Ok rows /\
    query_sem s tbl rows /\
    query_run exec_order_by s tbl = Ok rows.
Proof. exact api_run_sem_table. Qed.
Print Assumptions Capstone_api_table.

(* ================================================================== *)
(* 3. Corollaries of the denotation (hence of every engine result)      *)
(* ================================================================== *)

(* cardinality: at most one row per row passing WHERE (per group: at most one per group, and there
   are no more groups than rows); exactly one per kept row without GROUP BY / DISTINCT / LIMIT /
   OFFSET; an all-aggregate list without GROUP BY yields at most one row (exactly one before the
   window, even when no row passes WHERE - the one case where the result can be longer than the
   kept rows) *)
Theorem Capstone_cardinality : forall s tbl rows,
  query_sem s tbl rows ->
  (whole_table_query s -> (List.length rows <= 1)%nat) /\
  (~ whole_table_query s -> (List.length rows <= List.length (kept_rows s tbl))%nat) /\
  (List.length (kept_rows s tbl) <= List.length tbl)%nat /\
  (per_row_query s -> s_distinct s = false -> s_limit s = None -> s_offset s = None ->
   List.length rows = List.length (kept_rows s tbl)).
Proof. exact cardinality. Qed.
Print Assumptions Capstone_cardinality.

(* no GROUP BY: before DISTINCT the projected rows correspond one-to-one, in source order, to the
   kept rows; every output row is the projection of a table row that satisfies WHERE *)
Theorem Capstone_provenance_rows : forall s tbl rows,
  query_sem s tbl rows -> per_row_query s ->
  (exists sel, selected_sem s (kept_rows s tbl) = Ok sel /\
               Forall2 (fun r o => row_project (s_items s) r = Ok o) (kept_rows s tbl) sel /\
               forall o, In o rows -> In o sel) /\
  forall o, In o rows ->
    exists r, In r tbl /\ where_sem s r = true /\ row_project (s_items s) r = Ok o.
Proof. exact provenance_rows. Qed.
Print Assumptions Capstone_provenance_rows.

(* GROUP BY: every output row is computed from one group that satisfies HAVING, and the groups
   partition the kept rows: each kept row is a member of exactly one group *)
Theorem Capstone_provenance_groups : forall s tbl rows,
  query_sem s tbl rows -> grouped_query s ->
  (forall o, In o rows ->
     exists g, In g (group_spec (s_group s) (kept_rows s tbl)) /\ having_of s g = true /\
               group_project (s_items s) g = Ok o) /\
  (rows_ok (s_group s) (kept_rows s tbl) = true ->
   forall r, In r (kept_rows s tbl) ->
     exists g, In g (group_spec (s_group s) (kept_rows s tbl)) /\ In r (snd g) /\
               forall g', In g' (group_spec (s_group s) (kept_rows s tbl)) -> In r (snd g') -> g' = g).
Proof. exact provenance_groups. Qed.
Print Assumptions Capstone_provenance_groups.

(* the oracle contract, in the ORDER BY scope, says exactly "a permutation whose adjacent rows are in
   lexicographic key order": the denotation can be read without the comparator of sort.go *)
Theorem Capstone_oracle_iff_lex : forall keys unsorted sorted,
  order_scope unsorted keys = true ->
  (oracle_order keys unsorted sorted <-> lex_order keys unsorted sorted).
Proof. exact oracle_iff_lex. Qed.
Print Assumptions Capstone_oracle_iff_lex.

Theorem Capstone_sem_iff_lex : forall s tbl rows,
  (forall u, query_unsorted s tbl = Ok u -> order_scope u (s_order s) = true) ->
  (query_sem s tbl rows <-> query_sem_lex s tbl rows).
Proof. exact query_sem_iff_lex. Qed.
Print Assumptions Capstone_sem_iff_lex.

(* the order of the RESULT (after the window) respects the key list: for any two positions i < j,
   row i may stand before row j - per-key direction, NULL last, two NULLs tie and end the
   comparison ([lex_le_nullstop], the exact guarantee of C05) *)
Theorem Capstone_result_in_key_order : forall s tbl rows,
  query_sem s tbl rows ->
  (forall u, query_unsorted s tbl = Ok u -> order_scope u (s_order s) = true) ->
  forall i j a b, (i < j)%nat -> nth_error rows i = Some a -> nth_error rows j = Some b ->
  lex_le_nullstop (s_order s) a b.
Proof. exact result_in_key_order. Qed.
Print Assumptions Capstone_result_in_key_order.

(* ... and the textbook [lex_le] when NULL keys are confined to the last key column *)
Theorem Capstone_result_in_textbook_order : forall s tbl rows,
  query_sem s tbl rows ->
  (forall u, query_unsorted s tbl = Ok u ->
     order_scope u (s_order s) = true /\ nulls_only_in_last_key (rows_of u) (s_order s)) ->
  forall i j a b, (i < j)%nat -> nth_error rows i = Some a -> nth_error rows j = Some b ->
  lex_le (s_order s) a b.
Proof. exact result_in_textbook_order. Qed.
Print Assumptions Capstone_result_in_textbook_order.

(* the window is exact: position i of the result is position OFFSET + i of the ordered sequence for
   i < LIMIT and nothing else; with both numbers present the result is firstn LIMIT (skipn OFFSET _)
   and has min LIMIT (n - OFFSET) rows, n the number of rows before ORDER BY *)
Theorem Capstone_window_exact : forall s tbl rows,
  query_sem s tbl rows ->
  exists unsorted sorted,
    query_unsorted s tbl = Ok unsorted /\ Permutation unsorted sorted /\
    rows = window_spec sorted (s_limit s) (s_offset s) /\
    (forall i, nth_error rows i = window_at sorted (s_limit s) (s_offset s) i) /\
    (forall l o, s_limit s = Some l -> s_offset s = Some o ->
       rows = firstn (Z.to_nat l) (skipn (Z.to_nat o) sorted) /\
       List.length rows = Nat.min (Z.to_nat l) (List.length unsorted - Z.to_nat o)).
Proof. exact window_exact_sem. Qed.
Print Assumptions Capstone_window_exact.

(* ================================================================== *)
(* 4. Non-vacuity: a 6-row table, every clause at once                  *)
(* ================================================================== *)

Module Ex.
  Local Open Scope string_scope.
  Definition mk (g a b : value) : value := VObj [("a", a); ("b", b); ("g", g)].
  Definition t6 : list value :=
    [ mk (VStr "x") VNull (VNum 5);
      mk (VStr "y") (VNum 9) (VNum 0);         (* fails WHERE b > 0 *)
      mk (VStr "x") (VNum 3) (VNum 7);
      mk (VStr "y") VNull (VNum 2);
      mk (VStr "z") (VNum 7) (VNum 9);         (* its group fails HAVING MAX(b) < 9 *)
      mk (VStr "w") VNull (VNum 1) ].
  Definition doc : value := VObj [("t", VArr t6)].

  (* SELECT DISTINCT COUNT( * ) AS n, SUM(a) AS sa, CASE WHEN g = 'x' THEN 'multi' ELSE 'single' END AS tag
     FROM t WHERE b > 0 GROUP BY g HAVING MAX(b) < 9 AND NOT g = 'none'
     ORDER BY n ASC, sa DESC LIMIT 5 OFFSET 1 *)
  Definition qg : select stmt :=
    {| s_with := []; s_from := FTable ["t"] "";
       s_where := Some (ECmp OpGt (ECol ["b"]) (ENum 0));
       s_group := [gcol "g"];
       s_having := Some (EAnd (ECmp OpLt (EAgg AMax (Some ["b"])) (ENum 9))
                              (ENot (ECmp OpEq (ECol ["g"]) (EStr "none"))));
       s_items := [IExpr (EAgg ACount None) "n"; IExpr (EAgg ASum (Some ["a"])) "sa";
                   IExpr (ECase [(ECmp OpEq (ECol ["g"]) (EStr "x"), EStr "multi")]
                                (Some (EStr "single"))) "tag"];
       s_distinct := true; s_order := [(["n"], true); (["sa"], false)];
       s_limit := Some 5%Z; s_offset := Some 1%Z |}.

  (* SELECT DISTINCT g, b DIV 4 AS q FROM t WHERE b > 0 AND NOT g = 'z'
     ORDER BY q DESC, g ASC LIMIT 2 OFFSET 1 *)
  Definition qr : select stmt :=
    {| s_with := []; s_from := FTable ["t"] "";
       s_where := Some (EAnd (ECmp OpGt (ECol ["b"]) (ENum 0))
                             (ENot (ECmp OpEq (ECol ["g"]) (EStr "z"))));
       s_group := []; s_having := None;
       s_items := [IExpr (ECol ["g"]) "g"; IExpr (EBin BIntDiv (ECol ["b"]) (ENum 4)) "q"];
       s_distinct := true; s_order := [(["q"], false); (["g"], true)];
       s_limit := Some 2%Z; s_offset := Some 1%Z |}.

  (* SELECT COUNT( * ) AS n, SUM(a) AS sa, MIN(b) AS lo FROM t WHERE b > 0 *)
  Definition qw : select stmt :=
    {| s_with := []; s_from := FTable ["t"] "";
       s_where := Some (ECmp OpGt (ECol ["b"]) (ENum 0));
       s_group := []; s_having := None;
       s_items := [IExpr (EAgg ACount None) "n"; IExpr (EAgg ASum (Some ["a"])) "sa";
                   IExpr (EAgg AMin (Some ["b"])) "lo"];
       s_distinct := false; s_order := []; s_limit := None; s_offset := None |}.

  (* a select item that fails on every row: 'x' * 1 *)
  Definition qbad : select stmt :=
    {| s_with := []; s_from := FTable ["t"] ""; s_where := None; s_group := []; s_having := None;
       s_items := [IExpr (EBin BMul (ECol ["g"]) (ENum 1)) "bad"];
       s_distinct := false; s_order := []; s_limit := None; s_offset := None |}.

  Definition row3 (n sa tag : value) : value := VObj [("n", n); ("sa", sa); ("tag", tag)].
  Definition row2 (g q : value) : value := VObj [("g", g); ("q", q)].
End Ex.

(* every clause at once: 6 rows -> 5 pass WHERE -> 4 groups -> 3 pass HAVING -> 3 projected rows
   (SUM skips a NULL; a group with only NULLs sums to NULL) -> DISTINCT leaves 2 -> ORDER BY n, sa DESC
   swaps them -> OFFSET 1 LIMIT 5 leaves the last one.  The query is in scope, the engine (through
   the API entry point used by the correspondence check) returns that row, and by Capstone_api it
   satisfies the denotation. *)
Example Capstone_nonvacuous_grouped :
  query_scope Ex.qg Ex.t6 = true /\
  grouped_query Ex.qg /\
  List.length (kept_rows Ex.qg Ex.t6) = 5%nat /\
  List.length (group_spec (s_group Ex.qg) (kept_rows Ex.qg Ex.t6)) = 4%nat /\
  List.length (groups_sem Ex.qg (kept_rows Ex.qg Ex.t6)) = 3%nat /\
  selected_sem Ex.qg (kept_rows Ex.qg Ex.t6) =
    Ok [Ex.row3 (VNum 2) (VNum 3) (VStr "multi"); Ex.row3 (VNum 1) VNull (VStr "single");
        Ex.row3 (VNum 1) VNull (VStr "single")]%string /\
  query_unsorted Ex.qg Ex.t6 =
    Ok [Ex.row3 (VNum 2) (VNum 3) (VStr "multi"); Ex.row3 (VNum 1) VNull (VStr "single")]%string /\
  run_model (false, Ex.doc, SSelect Ex.qg) = Ok [Ex.row3 (VNum 2) (VNum 3) (VStr "multi")]%string /\
  query_sem Ex.qg Ex.t6 [Ex.row3 (VNum 2) (VNum 3) (VStr "multi")]%string.
Proof.
  assert (Hs : query_scope Ex.qg Ex.t6 = true) by (vm_compute; reflexivity).
  assert (Hrun : run_model (false, Ex.doc, SSelect Ex.qg) =
                 Ok [Ex.row3 (VNum 2) (VNum 3) (VStr "multi")]%string) by (vm_compute; reflexivity).
  split; [exact Hs|]. split; [discriminate|].
  do 5 (split; [vm_compute; reflexivity|]). split; [exact Hrun|].
  destruct (api_run_sem_table no_call Join.exec_join 39 [("t"%string, VArr Ex.t6)] Ex.qg "t"%string Ex.t6
              eq_refl eq_refl eq_refl Hs) as (rows & Hapi & Hsem & _).
  change (api_run no_call Join.exec_join 40 false Ex.doc (SSelect Ex.qg) = Ok rows) in Hapi.
  unfold run_model, fuel in Hrun. rewrite Hrun in Hapi. inversion Hapi; subst rows. exact Hsem.
Qed.

(* without GROUP BY: 6 rows -> 4 pass WHERE -> 4 projected rows (g, b DIV 4) -> DISTINCT leaves 3 ->
   ORDER BY q DESC, g -> OFFSET 1 LIMIT 2 *)
Example Capstone_nonvacuous_ungrouped :
  query_scope Ex.qr Ex.t6 = true /\
  per_row_query Ex.qr /\
  List.length (kept_rows Ex.qr Ex.t6) = 4%nat /\
  query_unsorted Ex.qr Ex.t6 =
    Ok [Ex.row2 (VStr "x") (VNum 1); Ex.row2 (VStr "y") (VNum 0); Ex.row2 (VStr "w") (VNum 0)]%string /\
  run_model (false, Ex.doc, SSelect Ex.qr) =
    Ok [Ex.row2 (VStr "w") (VNum 0); Ex.row2 (VStr "y") (VNum 0)]%string /\
  query_sem Ex.qr Ex.t6 [Ex.row2 (VStr "w") (VNum 0); Ex.row2 (VStr "y") (VNum 0)]%string.
Proof.
  assert (Hs : query_scope Ex.qr Ex.t6 = true) by (vm_compute; reflexivity).
  assert (Hrun : run_model (false, Ex.doc, SSelect Ex.qr) =
                 Ok [Ex.row2 (VStr "w") (VNum 0); Ex.row2 (VStr "y") (VNum 0)]%string)
    by (vm_compute; reflexivity).
  split; [exact Hs|]. split; [split; reflexivity|].
  do 2 (split; [vm_compute; reflexivity|]). split; [exact Hrun|].
  destruct (api_run_sem_table no_call Join.exec_join 39 [("t"%string, VArr Ex.t6)] Ex.qr "t"%string Ex.t6
              eq_refl eq_refl eq_refl Hs) as (rows & Hapi & Hsem & _).
  change (api_run no_call Join.exec_join 40 false Ex.doc (SSelect Ex.qr) = Ok rows) in Hapi.
  unfold run_model, fuel in Hrun. rewrite Hrun in Hapi. inversion Hapi; subst rows. exact Hsem.
Qed.

(* whole-table aggregates: one row over the 5 rows passing WHERE; and a projection that fails makes
   the query fail on both sides (front equation), while being in [front_scope] *)
Example Capstone_nonvacuous_whole_table_and_error :
  query_scope Ex.qw Ex.t6 = true /\ whole_table_query Ex.qw /\
  run_model (false, Ex.doc, SSelect Ex.qw) =
    Ok [VObj [("lo", VNum 1); ("n", VNum 5); ("sa", VNum 10)]]%string /\
  front_scope Ex.qbad Ex.t6 = true /\ query_unsorted Ex.qbad Ex.t6 = Err /\
  run_model (false, Ex.doc, SSelect Ex.qbad) = Err.
Proof. vm_compute. repeat split. Qed.

(* the premises of the propagation theorem are satisfiable: SELECT g, b AS bb, b DIV 4 AS q FROM t
   WHERE b > 0 ORDER BY bb DESC, g - both keys are projected source columns of one kind *)
Example Capstone_nonvacuous_propagation :
  let q := {| s_with := []; s_from := FTable ["t"%string] ""%string;
              s_where := Some (ECmp OpGt (ECol ["b"%string]) (ENum 0));
              s_group := []; s_having := None;
              s_items := [IExpr (ECol ["g"%string]) "g"%string; IExpr (ECol ["b"%string]) "bb"%string;
                          IExpr (EBin BIntDiv (ECol ["b"%string]) (ENum 4)) "q"%string];
              s_distinct := false;
              s_order := [(["bb"%string], false); (["g"%string], true)];
              s_limit := None; s_offset := None |} in
  per_row_query q /\ no_star (s_items q) = true /\ NoDup (map item_name (s_items q)) /\
  (forall k, In k (s_order q) -> key_from_column q Ex.t6 k) /\
  query_scope q Ex.t6 = true.
Proof.
  cbv zeta. split; [split; reflexivity|]. split; [reflexivity|]. split.
  - cbn [map item_name s_items]. repeat constructor; cbn [In]; intros H;
      repeat (destruct H as [H|H]; [discriminate H|]); exact H.
  - split; [|vm_compute; reflexivity].
    intros k [<-|[<-|[]]].
    + exists "bb"%string, "b"%string. split; [reflexivity|]. split; [right; left; reflexivity|].
      vm_compute. reflexivity.
    + exists "g"%string, "g"%string. split; [reflexivity|]. split; [left; reflexivity|].
      vm_compute. reflexivity.
Qed.
