(* Properties/C20.v — SETVAR/GETVAR behave as per-key registers in evaluation order
   (claims only; proofs in Proofs/C20Lemmas.v).

   Reading guide.  [run_query data (Some st) q rows] is the model of exec() on a table [rows] with
   the caller's variable map [st] (Model/Vars.v); it returns the API outcome and the map afterwards.
   [query_history data items rows] is the list of register operations the select list denotes:
   rows in source order, within a row the items left to right (Spec/VarsHistory.v); [run_reg] is the
   textbook register machine (Spec/RegisterSpec.v): it returns the values read, the final register
   file and whether the history was cut short by an evaluation error.  [assemble] lays the values
   read out as output rows (GETVAR items under their names, pure items with their values, SETVAR
   items nothing).

   Select items: SETVAR(k, e) | GETVAR(k) AS name | e AS name | CASE WHEN c THEN b ... [ELSE b] END
   AS name, where a branch b is a call-free expression or the call SETVAR(k, e) ([VCase], [BExpr],
   [BSet]).  A CASE item denotes one guarded choice [RCase] of the register machine: the guards are
   the conditions (they may read registers), decided once, in order, before any write; their
   outcomes are part of the values read, which is how [assemble] knows the branch taken on each row
   (a call-free branch: its value under the item's name; a SETVAR branch: no column; no branch and
   no ELSE: NULL).  Rows of one result may therefore have different columns: [row_cols data m cur
   items] is the list of columns the select list produces on row [cur] when reached with map [m]. *)
From Coq Require Import Floats.
From GenqlV Require Import Base.Prelude Base.Value Model.Ast Model.Eval Model.Vars
                           Spec.RegisterSpec Spec.VarsHistory Proofs.C20Lemmas.
Local Open Scope string_scope.
Local Open Scope list_scope.

(* With variables enabled, a query IS its register history: same values read (laid out as rows),
   same final map; if the history is cut short by an evaluation error the query fails and the map
   holds exactly the writes made before that point.  For every table, select list and map. *)
Theorem C20_linearisation : forall (Q : Type) (data : value) st (q : query Q) rows,
  q_where q = None ->
  let '(rs, r', ab) := run_reg (abs st) (query_history data (q_items q) rows) in
  exists o st', run_query data (Some st) q rows = (o, Some st') /\
    (forall k, lookup k st' = r' k) /\
    (if ab then is_ok o = false else o = Ok (fst (assemble data (q_items q) rows rs))).
Proof. exact linearisation. Qed.
Print Assumptions C20_linearisation.

(* the same with a WHERE clause: exec() filters ALL rows first, against the map as it was when the
   query started (a GETVAR in WHERE cannot see a SETVAR of the same query); the history then runs
   over the surviving rows *)
Theorem C20_linearisation_where : forall (Q : Type) (data : value) st (q : query Q) rows kept,
  exec_where data (Some st) (q_where q) rows = Ok kept ->
  let '(rs, r', ab) := run_reg (abs st) (query_history data (q_items q) kept) in
  exists o st', run_query data (Some st) q rows = (o, Some st') /\
    (forall k, lookup k st' = r' k) /\
    (if ab then is_ok o = false else o = Ok (fst (assemble data (q_items q) kept rs))).
Proof. exact linearisation_where. Qed.
Print Assumptions C20_linearisation_where.

(* a failing WHERE clause leaves the map untouched *)
Theorem C20_where_error_keeps_store : forall (Q : Type) (data : value) m (q : query Q) rows,
  is_ok (exec_where data m (q_where q) rows) = false ->
  snd (run_query data m q rows) = m /\ is_ok (fst (run_query data m q rows)) = false.
Proof. exact where_error_keeps_store. Qed.
Print Assumptions C20_where_error_keeps_store.

(* in any history a read returns the value most recently written to that key before it, or what
   the register held initially (the register laws themselves: *)
Theorem C20_register_laws :
  (forall r k v, rd (wr r k v) k = v) /\
  (forall r k k' v, k' <> k -> rd (wr r k v) k' = rd r k') /\
  (forall r k, r k = None -> rd r k = VNull).
Proof. exact (conj rd_wr_same (conj rd_wr_other rd_unset)). Qed.
Print Assumptions C20_register_laws.

Theorem C20_get_sees_last_set : forall h1 k h2 r,
  aborted (run_reg r h1) = false ->
  reads_of (run_reg r (h1 ++ RGet k :: h2)) =
  reads_of (run_reg r h1) ++
  (match last_write k (writes r h1) with Some v => v | None => rd r k end)
    :: reads_of (run_reg (regs_of (run_reg r h1)) h2).
Proof. exact get_sees_last_set. Qed.
Print Assumptions C20_get_sees_last_set.

(* the same seen directly on the model, inside one row: SETVAR('k', e), GETVAR('k') AS name *)
Theorem C20_set_then_get_row : forall (Q : Type) (data : value) st cur k (e : expr Q) name v,
  arg (env_rd data (Some st)) cur e = Ok v ->
  run_row data (Some st) cur [VSet (EStr k) e; VGet (EStr k) name] [] =
  (Ok [(name, v)], Some (obj_set k v st)).
Proof. exact set_then_get_row. Qed.
Print Assumptions C20_set_then_get_row.

(* SETVAR adds no column: the keys of an output row are exactly the names of the other items -
   where a CASE item counts on the rows on which the branch it takes is not a SETVAR
   ([row_cols], Spec/VarsHistory.v) *)
Theorem C20_setvar_no_column : forall (Q : Type) (data : value) (items : list (item Q)) m cur acc out m',
  run_row data m cur items acc = (Ok out, m') ->
  forall n, In n (keys out) <-> In n (keys acc) \/ In n (row_cols data m cur items).
Proof. exact setvar_no_column. Qed.
Print Assumptions C20_setvar_no_column.

Theorem C20_setvar_no_column_rows : forall (Q : Type) (data : value) rows (items : list (item Q)) m outs m',
  run_rows data m items rows = (Ok outs, m') ->
  Forall2 (fun out cols => forall n, In n (keys out) <-> In n cols)
          outs (rows_cols data m items rows).
Proof. exact setvar_no_column_rows. Qed.
Print Assumptions C20_setvar_no_column_rows.

(* without CASE items every row has the same columns, whatever the map: the two statements in the
   form they had before CASE items were modelled *)
Theorem C20_setvar_no_column_static : forall (Q : Type) (data : value) (items : list (item Q)) m cur acc out m',
  case_free items ->
  run_row data m cur items acc = (Ok out, m') ->
  forall n, In n (keys out) <-> In n (keys acc) \/ In n (item_names items).
Proof. exact setvar_no_column_static. Qed.
Print Assumptions C20_setvar_no_column_static.

Theorem C20_setvar_no_column_rows_static : forall (Q : Type) (data : value) rows (items : list (item Q)) m outs m',
  case_free items ->
  run_rows data m items rows = (Ok outs, m') ->
  Forall (fun out => forall n, In n (keys out) <-> In n (item_names items)) outs.
Proof. exact setvar_no_column_rows_static. Qed.
Print Assumptions C20_setvar_no_column_rows_static.

(* with CASE items: whatever branches are taken, no column appears that is not the name of an item
   other than a SETVAR *)
Theorem C20_setvar_no_foreign_column : forall (Q : Type) (data : value) (items : list (item Q)) m cur acc out m',
  run_row data m cur items acc = (Ok out, m') ->
  forall n, In n (keys out) -> In n (keys acc) \/ In n (item_names items).
Proof. exact setvar_no_foreign_column. Qed.
Print Assumptions C20_setvar_no_foreign_column.

(* ------------------------------------------------------------------ *)
(* CASE items: the branch taken decides                                *)
(* ------------------------------------------------------------------ *)

(* [pick data m cur whens els] is CaseExpr's loop: the conditions in order against the map as it is
   when the item is reached; the first that is true selects its arm, none: ELSE *)
Theorem C20_pick_laws : forall (Q : Type) (data : value) m cur,
  (forall (els : option (branch Q)), pick data m cur [] els = Ok els) /\
  (forall (c : expr Q) b ws els,
     eval (env_rd data m) cur c = Ok (RVal (VBool true)) ->
     pick data m cur ((c, b) :: ws) els = Ok (Some b)) /\
  (forall (c : expr Q) b ws els,
     eval (env_rd data m) cur c = Ok (RVal (VBool false)) ->
     pick data m cur ((c, b) :: ws) els = pick data m cur ws els).
Proof.
  intros Q data m cur.
  exact (conj (pick_nil Q data m cur) (conj (pick_true Q data m cur) (pick_false Q data m cur))).
Qed.
Print Assumptions C20_pick_laws.

(* (a) the branch taken is a call-free expression e: on that row the item IS  e AS name, and the
   map is left alone *)
Theorem C20_case_takes_expr : forall (Q : Type) (data : value) m cur acc whens els name (e : expr Q),
  pick data m cur whens els = Ok (Some (BExpr e)) ->
  run_item data m cur acc (VCase whens els name) = run_item data m cur acc (VPure e name) /\
  snd (run_item data m cur acc (VCase whens els name)) = m.
Proof. exact case_takes_expr. Qed.
Print Assumptions C20_case_takes_expr.

(* (b) the branch taken is SETVAR(k, v): on that row the item IS the item SETVAR(k, v) - same
   outcome, same map afterwards - and when it succeeds the output row gets no column *)
Theorem C20_case_takes_set : forall (Q : Type) (data : value) m cur acc whens els name (k v : expr Q),
  pick data m cur whens els = Ok (Some (BSet k v)) ->
  run_item data m cur acc (VCase whens els name) = run_item data m cur acc (VSet k v) /\
  (forall out m', run_item data m cur acc (VCase whens els name) = (Ok out, m') -> out = acc).
Proof. exact case_takes_set. Qed.
Print Assumptions C20_case_takes_set.

(* ... spelled out: the map afterwards is the map with the key's register overwritten *)
Theorem C20_case_set_effect : forall (Q : Type) (data : value) st cur acc whens els name (k v : expr Q) kv ks vv,
  pick data (Some st) cur whens els = Ok (Some (BSet k v)) ->
  arg (env_pure data) cur k = Ok kv -> key_of kv = Ok ks ->
  arg (env_rd data (Some st)) cur v = Ok vv ->
  run_item data (Some st) cur acc (VCase whens els name) = (Ok acc, Some (obj_set ks vv st)).
Proof. exact case_set_effect. Qed.
Print Assumptions C20_case_set_effect.

(* no condition holds and there is no ELSE: NULL under the item's name *)
Theorem C20_case_takes_nothing : forall (Q : Type) (data : value) m cur acc (whens : list (expr Q * branch Q)) name,
  pick data m cur whens None = Ok None ->
  run_item data m cur acc (VCase whens None name) = (Ok (obj_set name VNull acc), m).
Proof. exact case_takes_nothing. Qed.
Print Assumptions C20_case_takes_nothing.

(* a condition that fails or is not a truth value: the item fails, nothing is stored *)
Theorem C20_case_cond_fails : forall (Q : Type) (data : value) m cur acc (whens : list (expr Q * branch Q)) els name,
  is_ok (pick data m cur whens els) = false ->
  is_ok (fst (run_item data m cur acc (VCase whens els name))) = false /\
  snd (run_item data m cur acc (VCase whens els name)) = m.
Proof. exact case_cond_fails. Qed.
Print Assumptions C20_case_cond_fails.

(* the two shapes  CASE WHEN c THEN SETVAR(k, v) ELSE e END AS name  and
   CASE WHEN c THEN e ELSE SETVAR(k, v) END AS name,  read off the condition *)
Theorem C20_case_then_set : forall (Q : Type) (data : value) m cur acc (c k v e : expr Q) name,
  (eval (env_rd data m) cur c = Ok (RVal (VBool true)) ->
   run_item data m cur acc (VCase [(c, BSet k v)] (Some (BExpr e)) name) =
   run_item data m cur acc (VSet k v)) /\
  (eval (env_rd data m) cur c = Ok (RVal (VBool false)) ->
   run_item data m cur acc (VCase [(c, BSet k v)] (Some (BExpr e)) name) =
   run_item data m cur acc (VPure e name)).
Proof. exact case_then_set. Qed.
Print Assumptions C20_case_then_set.

Theorem C20_case_else_set : forall (Q : Type) (data : value) m cur acc (c k v e : expr Q) name,
  (eval (env_rd data m) cur c = Ok (RVal (VBool true)) ->
   run_item data m cur acc (VCase [(c, BExpr e)] (Some (BSet k v)) name) =
   run_item data m cur acc (VPure e name)) /\
  (eval (env_rd data m) cur c = Ok (RVal (VBool false)) ->
   run_item data m cur acc (VCase [(c, BExpr e)] (Some (BSet k v)) name) =
   run_item data m cur acc (VSet k v)).
Proof. exact case_else_set. Qed.
Print Assumptions C20_case_else_set.

(* after the query the map holds, per key, the last value written; untouched keys are unchanged
   (also when the query failed half-way: the writes made until then) *)
Theorem C20_final_store : forall (Q : Type) (data : value) st (q : query Q) rows kept,
  exec_where data (Some st) (q_where q) rows = Ok kept ->
  exists st', snd (run_query data (Some st) q rows) = Some st' /\
    forall k, lookup k st' =
              match last_write k (writes (abs st) (query_history data (q_items q) kept)) with
              | Some v => Some v
              | None => lookup k st
              end.
Proof. exact final_store. Qed.
Print Assumptions C20_final_store.

(* queries sharing one map: each query starts from the map the previous one left ... *)
Theorem C20_across_queries_step : forall (Q : Type) (data : value) m (q : query Q) rows qs,
  run_queries data m ((q, rows) :: qs) =
  (let '(o, m') := run_query data m q rows in (o, m') :: run_queries data m' qs).
Proof. exact run_queries_step. Qed.
Print Assumptions C20_across_queries_step.

(* ... so any sequence of queries behaves as ONE history, the concatenation of theirs *)
Theorem C20_across_queries : forall (Q : Type) (data : value) (qs : list (query Q * list row)) st,
  Forall (fun q => q_where (fst q) = None) qs ->
  let '(rs, r', ab) := run_reg (abs st) (seq_history data (plain_seq Q qs)) in
  ab = false ->
  exists st', final_vars (Some st) (run_queries data (Some st) qs) = Some st' /\
    (forall k, lookup k st' = r' k) /\
    map fst (run_queries data (Some st) qs) = map Ok (assemble_seq data (plain_seq Q qs) rs).
Proof. exact across_queries. Qed.
Print Assumptions C20_across_queries.

(* a key that was never set reads as NULL *)
Theorem C20_unset_is_null : forall (Q : Type) (data : value) st cur k name,
  lookup k st = None ->
  run_row data (Some st) cur [@VGet Q (EStr k) name] [] = (Ok [(name, VNull)], Some st).
Proof. exact unset_is_null. Qed.
Print Assumptions C20_unset_is_null.

(* without WithVars the map is nil: a SETVAR that is reached fails (recovered nil-map write) ... *)
Theorem C20_setvar_nil_map_fails : forall (Q : Type) (data : value) cur acc (k e : expr Q),
  is_ok (fst (run_item data None cur acc (VSet k e))) = false.
Proof. exact setvar_nil_map_fails. Qed.
Print Assumptions C20_setvar_nil_map_fails.

Theorem C20_case_set_nil_map_fails : forall (Q : Type) (data : value) cur acc whens els name (k e : expr Q),
  pick data None cur whens els = Ok (Some (BSet k e)) ->
  is_ok (fst (run_item data None cur acc (VCase whens els name))) = false.
Proof. exact case_set_nil_map_fails. Qed.
Print Assumptions C20_case_set_nil_map_fails.

(* ... and no panic escapes exec(), whatever the map *)
Theorem C20_no_panic : forall (Q : Type) (data : value) m (q : query Q) rows,
  fst (run_query data m q rows) <> Panic.
Proof. exact no_panic. Qed.
Print Assumptions C20_no_panic.

(* ------------------------------------------------------------------ *)
(* non-vacuity: 3 keys, 4 rows, a counter                              *)
(* ------------------------------------------------------------------ *)

Definition ex_rows : list row :=
  [ [("a", VNum 1); ("s", VStr "x")]; [("a", VNum 2); ("s", VStr "y")];
    [("a", VNum 3); ("s", VStr "x")]; [("a", VNum 4); ("s", VStr "y")] ].

(* SELECT SETVAR('c', GETVAR('c') + a), GETVAR('c') AS total, SETVAR(s, a), GETVAR('x') AS gx,
          GETVAR('never') AS n, a FROM t *)
Definition ex_items : list (item Empty_set) :=
  [ VSet (EStr "c") (EBin BAdd (ECall "" "getvar" [EStr "c"]) (ECol ["a"]));
    VGet (EStr "c") "total";
    VSet (ECol ["s"]) (ECol ["a"]);
    VGet (EStr "x") "gx";
    VGet (EStr "never") "n";
    VPure (ECol ["a"]) "a" ].

Definition ex_q : query Empty_set := Build_query None ex_items.

Example C20_nonvacuous_counter :
  run_query VNull (Some [("c", VNum 0)]) ex_q ex_rows =
  (Ok [ [("a", VNum 1); ("gx", VNum 1); ("n", VNull); ("total", VNum 1)];
        [("a", VNum 2); ("gx", VNum 1); ("n", VNull); ("total", VNum 3)];
        [("a", VNum 3); ("gx", VNum 3); ("n", VNull); ("total", VNum 6)];
        [("a", VNum 4); ("gx", VNum 3); ("n", VNull); ("total", VNum 10)] ],
   Some [("c", VNum 10); ("x", VNum 3); ("y", VNum 4)]).
Proof. vm_compute. reflexivity. Qed.

(* the history of that query: 4 rows x (Set, Get, Set, Get, Get) = 20 operations, 12 reads, none aborted *)
Example C20_nonvacuous_history :
  let '(rs, r', ab) := run_reg (abs [("c", VNum 0)]) (query_history VNull ex_items ex_rows) in
  List.length (query_history VNull ex_items ex_rows) = 20 /\ List.length rs = 12 /\ ab = false /\
  r' "c" = Some (VNum 10) /\ r' "x" = Some (VNum 3) /\ r' "y" = Some (VNum 4) /\ r' "never" = None.
Proof. vm_compute. repeat split. Qed.

(* a second query given the map the first one left sees its values; a third without the map fails *)
Example C20_nonvacuous_sequence :
  map fst (run_queries VNull (Some [("c", VNum 0)])
             [ (ex_q, ex_rows);
               (Build_query None [VGet (EStr "c") "c"; VGet (EStr "y") "y"], [ [("a", VNum 1)] ]) ]) =
  [ fst (run_query VNull (Some [("c", VNum 0)]) ex_q ex_rows);
    Ok [ [("c", VNum 10); ("y", VNum 4)] ] ] /\
  run_query VNull None ex_q ex_rows = (Err, None) /\
  (* a failure half-way keeps the writes made so far: 'a' + 1 fails on the second row *)
  run_query VNull (Some [])
    (Build_query (Q:=Empty_set) None [VSet (EStr "k") (ECol ["a"]); VPure (EBin BAdd (ECol ["s"]) (ENum 1)) "z"])
    [ [("a", VNum 1); ("s", VNum 1)]; [("a", VNum 2); ("s", VStr "boom")]; [("a", VNum 3); ("s", VNum 1)] ] =
  (Err, Some [("k", VNum 2)]).
Proof. vm_compute. repeat split. Qed.

(* ------------------------------------------------------------------ *)
(* non-vacuity for CASE items: a 3-row table, rows taking different branches *)
(* (each Example below was run on the real engine: /tmp/goB, REPORT-B.md) *)
(* ------------------------------------------------------------------ *)

Definition cx_rows : list row :=
  [ [("b", VBool true);  ("id", VNum 1); ("n", VNum 5);  ("s", VStr "x")];
    [("b", VBool false); ("id", VNum 2); ("n", VNum 20); ("s", VStr "y")];
    [("b", VBool true);  ("id", VNum 3); ("n", VNum 7);  ("s", VStr "x")] ].

Definition gv (k : string) : expr Empty_set := ECall "" "getvar" [EStr k].
Definition cq (items : list (item Empty_set)) : query Empty_set := Build_query None items.

(* E1  SELECT id, CASE WHEN n < 10 THEN SETVAR('last_small', id) ELSE n END AS big,
              GETVAR('last_small') AS seen FROM t
   rows 1 and 3 take the SETVAR branch (no column big), row 2 the ELSE branch *)
Definition cx1 : list (item Empty_set) :=
  [ VPure (ECol ["id"]) "id";
    VCase [(ECmp OpLt (ECol ["n"]) (ENum 10), BSet (EStr "last_small") (ECol ["id"]))]
          (Some (BExpr (ECol ["n"]))) "big";
    VGet (EStr "last_small") "seen" ].

Example C20_case_then_set_example :
  run_query VNull (Some []) (cq cx1) cx_rows =
  (Ok [ [("id", VNum 1); ("seen", VNum 1)];
        [("big", VNum 20); ("id", VNum 2); ("seen", VNum 1)];
        [("id", VNum 3); ("seen", VNum 3)] ],
   Some [("last_small", VNum 3)]) /\
  rows_cols VNull (Some []) cx1 cx_rows = [ ["id"; "seen"]; ["id"; "big"; "seen"]; ["id"; "seen"] ].
Proof. vm_compute. split; reflexivity. Qed.

(* its history: per row one RCase (one guard outcome read) and one RGet; two writes *)
Example C20_case_history_example :
  let h := query_history VNull cx1 cx_rows in
  let '(rs, r', ab) := run_reg (abs []) h in
  List.length h = 6 /\ ab = false /\
  rs = [VBool true; VNum 1; VBool false; VNum 1; VBool true; VNum 3] /\
  writes (abs []) h = [("last_small", VNum 1); ("last_small", VNum 3)] /\
  r' "last_small" = Some (VNum 3) /\
  fst (assemble VNull cx1 cx_rows rs) =
    [ [("id", VNum 1); ("seen", VNum 1)];
      [("big", VNum 20); ("id", VNum 2); ("seen", VNum 1)];
      [("id", VNum 3); ("seen", VNum 3)] ].
Proof. vm_compute. repeat split. Qed.

(* E2  SELECT CASE WHEN GETVAR('first') IS NOT NULL THEN id ELSE SETVAR('first', id) END AS later,
              GETVAR('first') AS first FROM t
   the condition reads the map as it is when the item is reached: row 1 takes ELSE (the SETVAR),
   rows 2 and 3 the THEN branch *)
Definition cx2 : list (item Empty_set) :=
  [ VCase [(EIs IsNotNull (gv "first"), BExpr (ECol ["id"]))]
          (Some (BSet (EStr "first") (ECol ["id"]))) "later";
    VGet (EStr "first") "first" ].

Example C20_case_else_set_example :
  run_query VNull (Some []) (cq cx2) cx_rows =
  (Ok [ [("first", VNum 1)];
        [("first", VNum 1); ("later", VNum 2)];
        [("first", VNum 1); ("later", VNum 3)] ],
   Some [("first", VNum 1)]).
Proof. vm_compute. reflexivity. Qed.

(* E3  SELECT CASE WHEN n > 15 THEN SETVAR('hi', GETVAR('hi') + n) WHEN n > 6 THEN SETVAR('mid', id)
              END AS none FROM t          (map before: hi = 100)
   two arms, no ELSE: row 1 no arm (NULL), row 2 the first arm, row 3 the second *)
Definition cx3 : list (item Empty_set) :=
  [ VCase [(ECmp OpGt (ECol ["n"]) (ENum 15), BSet (EStr "hi") (EBin BAdd (gv "hi") (ECol ["n"])));
           (ECmp OpGt (ECol ["n"]) (ENum 6), BSet (EStr "mid") (ECol ["id"]))]
          None "none" ].

Example C20_case_arms_no_else_example :
  run_query VNull (Some [("hi", VNum 100)]) (cq cx3) cx_rows =
  (Ok [ [("none", VNull)]; []; [] ], Some [("hi", VNum 120); ("mid", VNum 3)]).
Proof. vm_compute. reflexivity. Qed.

(* E4 / E8  a condition that is not a Go bool (a column holding one is a ColumnName; NULL): error,
   nothing stored.
   E5a / E5b  without WithVars: reaching the SETVAR branch fails (recovered nil-map write), not
   reaching it is fine.
   E6a / E6b  a failing ELSE ('x' + 1) matters only on the rows that take it; the writes made
   before the failure stay.
   E7  SELECT SETVAR('c', n), CASE WHEN GETVAR('c') > 6 THEN SETVAR('big', GETVAR('c'))
              ELSE SETVAR('small', GETVAR('c')) END AS x, id FROM t
   E9  SELECT CASE WHEN n < 10 THEN SETVAR(s, id) ELSE n END AS id2, id AS id2 FROM t *)
Definition cx_set_or (c : expr Empty_set) (e : expr Empty_set) : list (item Empty_set) :=
  [ VCase [(c, BSet (EStr "k") (ECol ["id"]))] (Some (BExpr e)) "x" ].

Example C20_case_more_examples :
  run_query VNull (Some []) (cq (cx_set_or (ECol ["b"]) (ECol ["n"]))) cx_rows = (Err, Some []) /\
  run_query VNull (Some []) (cq (cx_set_or (gv "unset") (ECol ["n"]))) cx_rows = (Err, Some []) /\
  run_query VNull None (cq (cx_set_or (ECmp OpLt (ECol ["n"]) (ENum 10)) (ECol ["n"]))) cx_rows = (Err, None) /\
  run_query VNull None (cq (cx_set_or (ECmp OpGt (ECol ["n"]) (ENum 100)) (ECol ["n"]))) cx_rows =
    (Ok [ [("x", VNum 5)]; [("x", VNum 20)]; [("x", VNum 7)] ], None) /\
  run_query VNull (Some []) (cq (cx_set_or (ECmp OpLt (ECol ["n"]) (ENum 100)) (EBin BAdd (ECol ["s"]) (ENum 1)))) cx_rows =
    (Ok [ []; []; [] ], Some [("k", VNum 3)]) /\
  run_query VNull (Some []) (cq (cx_set_or (ECmp OpLt (ECol ["n"]) (ENum 10)) (EBin BAdd (ECol ["s"]) (ENum 1)))) cx_rows =
    (Err, Some [("k", VNum 1)]) /\
  run_query VNull (Some [])
    (cq [ VSet (EStr "c") (ECol ["n"]);
          VCase [(ECmp OpGt (gv "c") (ENum 6), BSet (EStr "big") (gv "c"))]
                (Some (BSet (EStr "small") (gv "c"))) "x";
          VPure (ECol ["id"]) "id" ]) cx_rows =
    (Ok [ [("id", VNum 1)]; [("id", VNum 2)]; [("id", VNum 3)] ],
     Some [("big", VNum 7); ("c", VNum 7); ("small", VNum 5)]) /\
  run_query VNull (Some [])
    (cq [ VCase [(ECmp OpLt (ECol ["n"]) (ENum 10), BSet (ECol ["s"]) (ECol ["id"]))]
                (Some (BExpr (ECol ["n"]))) "id2";
          VPure (ECol ["id"]) "id2" ]) cx_rows =
    (Ok [ [("id2", VNum 1)]; [("id2", VNum 2)]; [("id2", VNum 3)] ], Some [("x", VNum 3)]).
Proof. vm_compute. repeat split. Qed.

(* E10  two queries sharing one map:
     SELECT CASE WHEN n < 10 THEN SETVAR('last_small', id) ELSE n END AS big FROM t
     SELECT CASE WHEN GETVAR('last_small') = id THEN 'me' ELSE SETVAR('other', id) END AS who FROM t *)
Example C20_case_sequence_example :
  run_queries VNull (Some [])
    [ (cq [ VCase [(ECmp OpLt (ECol ["n"]) (ENum 10), BSet (EStr "last_small") (ECol ["id"]))]
                  (Some (BExpr (ECol ["n"]))) "big" ], cx_rows);
      (cq [ VCase [(ECmp OpEq (gv "last_small") (ECol ["id"]), BExpr (EStr "me"))]
                  (Some (BSet (EStr "other") (ECol ["id"]))) "who" ], cx_rows) ] =
  [ (Ok [ []; [("big", VNum 20)]; [] ], Some [("last_small", VNum 3)]);
    (Ok [ []; []; [("who", VStr "me")] ], Some [("last_small", VNum 3); ("other", VNum 2)]) ].
Proof. vm_compute. reflexivity. Qed.
