(* Properties/C20.v — SETVAR/GETVAR behave as per-key registers in evaluation order
   (claims only; proofs in Proofs/C20Lemmas.v).

   Reading guide.  [run_query data (Some st) q rows] is the model of exec() on a table [rows] with
   the caller's variable map [st] (Model/Vars.v); it returns the API outcome and the map afterwards.
   [query_history data items rows] is the list of register operations the select list denotes:
   rows in source order, within a row the items left to right (Spec/VarsHistory.v); [run_reg] is the
   textbook register machine (Spec/RegisterSpec.v): it returns the values read, the final register
   file and whether the history was cut short by an evaluation error.  [assemble] lays the values
   read out as output rows (GETVAR items under their names, pure items with their values, SETVAR
   items nothing). *)
From Coq Require Import Floats.
From GenqlV Require Import Base.Prelude Base.Value Model.Ast Model.Eval Model.Vars
                           Spec.RegisterSpec Spec.VarsHistory Proofs.C20Lemmas.
Local Open Scope string_scope.
Local Open Scope list_scope.

(* With variables enabled, a query IS its register history: same values read (laid out as rows),
   same final map; if the history is cut short by an evaluation error the query fails and the map
   holds exactly the writes made before that point.  For every table, select list and map. *)
Theorem C20_linearisation : forall (Q : Type) (data : value) st (q : query Q) rows,
  q_where q = None ->
  let '(rs, r', ab) := run_reg (abs st) (query_history data (q_items q) rows) in
  exists o st', run_query data (Some st) q rows = (o, Some st') /\
    (forall k, lookup k st' = r' k) /\
    (if ab then is_ok o = false else o = Ok (fst (assemble data (q_items q) rows rs))).
Proof. exact linearisation. Qed.
Print Assumptions C20_linearisation.

(* the same with a WHERE clause: exec() filters ALL rows first, against the map as it was when the
   query started (a GETVAR in WHERE cannot see a SETVAR of the same query); the history then runs
   over the surviving rows *)
Theorem C20_linearisation_where : forall (Q : Type) (data : value) st (q : query Q) rows kept,
  exec_where data (Some st) (q_where q) rows = Ok kept ->
  let '(rs, r', ab) := run_reg (abs st) (query_history data (q_items q) kept) in
  exists o st', run_query data (Some st) q rows = (o, Some st') /\
    (forall k, lookup k st' = r' k) /\
    (if ab then is_ok o = false else o = Ok (fst (assemble data (q_items q) kept rs))).
Proof. exact linearisation_where. Qed.
Print Assumptions C20_linearisation_where.

(* a failing WHERE clause leaves the map untouched *)
Theorem C20_where_error_keeps_store : forall (Q : Type) (data : value) m (q : query Q) rows,
  is_ok (exec_where data m (q_where q) rows) = false ->
  snd (run_query data m q rows) = m /\ is_ok (fst (run_query data m q rows)) = false.
Proof. exact where_error_keeps_store. Qed.
Print Assumptions C20_where_error_keeps_store.

(* in any history a read returns the value most recently written to that key before it, or what
   the register held initially (the register laws themselves: *)
Theorem C20_register_laws :
  (forall r k v, rd (wr r k v) k = v) /\
  (forall r k k' v, k' <> k -> rd (wr r k v) k' = rd r k') /\
  (forall r k, r k = None -> rd r k = VNull).
Proof. exact (conj rd_wr_same (conj rd_wr_other rd_unset)). Qed.
Print Assumptions C20_register_laws.

Theorem C20_get_sees_last_set : forall h1 k h2 r,
  aborted (run_reg r h1) = false ->
  reads_of (run_reg r (h1 ++ RGet k :: h2)) =
  reads_of (run_reg r h1) ++
  (match last_write k (writes r h1) with Some v => v | None => rd r k end)
    :: reads_of (run_reg (regs_of (run_reg r h1)) h2).
Proof. exact get_sees_last_set. Qed.
Print Assumptions C20_get_sees_last_set.

(* the same seen directly on the model, inside one row: SETVAR('k', e), GETVAR('k') AS name *)
Theorem C20_set_then_get_row : forall (Q : Type) (data : value) st cur k (e : expr Q) name v,
  arg (env_rd data (Some st)) cur e = Ok v ->
  run_row data (Some st) cur [VSet (EStr k) e; VGet (EStr k) name] [] =
  (Ok [(name, v)], Some (obj_set k v st)).
Proof. exact set_then_get_row. Qed.
Print Assumptions C20_set_then_get_row.

(* SETVAR adds no column: the keys of an output row are exactly the names of the other items *)
Theorem C20_setvar_no_column : forall (Q : Type) (data : value) (items : list (item Q)) m cur acc out m',
  run_row data m cur items acc = (Ok out, m') ->
  forall n, In n (keys out) <-> In n (keys acc) \/ In n (item_names items).
Proof. exact setvar_no_column. Qed.
Print Assumptions C20_setvar_no_column.

Theorem C20_setvar_no_column_rows : forall (Q : Type) (data : value) rows (items : list (item Q)) m outs m',
  run_rows data m items rows = (Ok outs, m') ->
  Forall (fun out => forall n, In n (keys out) <-> In n (item_names items)) outs.
Proof. exact setvar_no_column_rows. Qed.
Print Assumptions C20_setvar_no_column_rows.

(* after the query the map holds, per key, the last value written; untouched keys are unchanged
   (also when the query failed half-way: the writes made until then) *)
Theorem C20_final_store : forall (Q : Type) (data : value) st (q : query Q) rows kept,
  exec_where data (Some st) (q_where q) rows = Ok kept ->
  exists st', snd (run_query data (Some st) q rows) = Some st' /\
    forall k, lookup k st' =
              match last_write k (writes (abs st) (query_history data (q_items q) kept)) with
              | Some v => Some v
              | None => lookup k st
              end.
Proof. exact final_store. Qed.
Print Assumptions C20_final_store.

(* queries sharing one map: each query starts from the map the previous one left ... *)
Theorem C20_across_queries_step : forall (Q : Type) (data : value) m (q : query Q) rows qs,
  run_queries data m ((q, rows) :: qs) =
  (let '(o, m') := run_query data m q rows in (o, m') :: run_queries data m' qs).
Proof. exact run_queries_step. Qed.
Print Assumptions C20_across_queries_step.

(* ... so any sequence of queries behaves as ONE history, the concatenation of theirs *)
Theorem C20_across_queries : forall (Q : Type) (data : value) (qs : list (query Q * list row)) st,
  Forall (fun q => q_where (fst q) = None) qs ->
  let '(rs, r', ab) := run_reg (abs st) (seq_history data (plain_seq Q qs)) in
  ab = false ->
  exists st', final_vars (Some st) (run_queries data (Some st) qs) = Some st' /\
    (forall k, lookup k st' = r' k) /\
    map fst (run_queries data (Some st) qs) = map Ok (assemble_seq data (plain_seq Q qs) rs).
Proof. exact across_queries. Qed.
Print Assumptions C20_across_queries.

(* a key that was never set reads as NULL *)
Theorem C20_unset_is_null : forall (Q : Type) (data : value) st cur k name,
  lookup k st = None ->
  run_row data (Some st) cur [@VGet Q (EStr k) name] [] = (Ok [(name, VNull)], Some st).
Proof. exact unset_is_null. Qed.
Print Assumptions C20_unset_is_null.

(* without WithVars the map is nil: a SETVAR that is reached fails (recovered nil-map write) ... *)
Theorem C20_setvar_nil_map_fails : forall (Q : Type) (data : value) cur acc (k e : expr Q),
  is_ok (fst (run_item data None cur acc (VSet k e))) = false.
Proof. exact setvar_nil_map_fails. Qed.
Print Assumptions C20_setvar_nil_map_fails.

(* ... and no panic escapes exec(), whatever the map *)
Theorem C20_no_panic : forall (Q : Type) (data : value) m (q : query Q) rows,
  fst (run_query data m q rows) <> Panic.
Proof. exact no_panic. Qed.
Print Assumptions C20_no_panic.

(* ------------------------------------------------------------------ *)
(* non-vacuity: 3 keys, 4 rows, a counter                              *)
(* ------------------------------------------------------------------ *)

Definition ex_rows : list row :=
  [ [("a", VNum 1); ("s", VStr "x")]; [("a", VNum 2); ("s", VStr "y")];
    [("a", VNum 3); ("s", VStr "x")]; [("a", VNum 4); ("s", VStr "y")] ].

(* SELECT SETVAR('c', GETVAR('c') + a), GETVAR('c') AS total, SETVAR(s, a), GETVAR('x') AS gx,
          GETVAR('never') AS n, a FROM t *)
Definition ex_items : list (item Empty_set) :=
  [ VSet (EStr "c") (EBin BAdd (ECall "" "getvar" [EStr "c"]) (ECol ["a"]));
    VGet (EStr "c") "total";
    VSet (ECol ["s"]) (ECol ["a"]);
    VGet (EStr "x") "gx";
    VGet (EStr "never") "n";
    VPure (ECol ["a"]) "a" ].

Definition ex_q : query Empty_set := Build_query None ex_items.

Example C20_nonvacuous_counter :
  run_query VNull (Some [("c", VNum 0)]) ex_q ex_rows =
  (Ok [ [("a", VNum 1); ("gx", VNum 1); ("n", VNull); ("total", VNum 1)];
        [("a", VNum 2); ("gx", VNum 1); ("n", VNull); ("total", VNum 3)];
        [("a", VNum 3); ("gx", VNum 3); ("n", VNull); ("total", VNum 6)];
        [("a", VNum 4); ("gx", VNum 3); ("n", VNull); ("total", VNum 10)] ],
   Some [("c", VNum 10); ("x", VNum 3); ("y", VNum 4)]).
Proof. vm_compute. reflexivity. Qed.

(* the history of that query: 4 rows x (Set, Get, Set, Get, Get) = 20 operations, 12 reads, none aborted *)
Example C20_nonvacuous_history :
  let '(rs, r', ab) := run_reg (abs [("c", VNum 0)]) (query_history VNull ex_items ex_rows) in
  List.length (query_history VNull ex_items ex_rows) = 20 /\ List.length rs = 12 /\ ab = false /\
  r' "c" = Some (VNum 10) /\ r' "x" = Some (VNum 3) /\ r' "y" = Some (VNum 4) /\ r' "never" = None.
Proof. vm_compute. repeat split. Qed.

(* a second query given the map the first one left sees its values; a third without the map fails *)
Example C20_nonvacuous_sequence :
  map fst (run_queries VNull (Some [("c", VNum 0)])
             [ (ex_q, ex_rows);
               (Build_query None [VGet (EStr "c") "c"; VGet (EStr "y") "y"], [ [("a", VNum 1)] ]) ]) =
  [ fst (run_query VNull (Some [("c", VNum 0)]) ex_q ex_rows);
    Ok [ [("c", VNum 10); ("y", VNum 4)] ] ] /\
  run_query VNull None ex_q ex_rows = (Err, None) /\
  (* a failure half-way keeps the writes made so far: 'a' + 1 fails on the second row *)
  run_query VNull (Some [])
    (Build_query (Q:=Empty_set) None [VSet (EStr "k") (ECol ["a"]); VPure (EBin BAdd (ECol ["s"]) (ENum 1)) "z"])
    [ [("a", VNum 1); ("s", VNum 1)]; [("a", VNum 2); ("s", VStr "boom")]; [("a", VNum 3); ("s", VNum 1)] ] =
  (Err, Some [("k", VNum 2)]).
Proof. vm_compute. repeat split. Qed.
