(* Properties/C02.v — Projection emits one row per kept row with correctly computed columns
   (claims only; proofs in Proofs/C02Lemmas.v and Proofs/C02Obj.v, specification in Spec/ExprSem.v).

   Reading guide.  [eval E cur e : res raw] is the engine's Expr; [raw] has the engine-internal
   wrapper constructors (ColumnName, NeutalString, *float64, Ommit, tuples).  [value_of cur] is ValueOf.
   [sem_expr csem cur e : res value] / [sem_x cur e : res value] are the wrapper-free meanings of
   Spec/ExprSem.v.  Output rows are [value]s: the type [value] has no wrapper constructor, so "no
   wrapper escapes" is carried by the types once the output is shown to be built by ValueOf — which is
   what [C02_row_shape] says: every column of every output row is the specification's value.
   [e_hard E = false] says the environment is not the join-ON one (HardCodedValueExprOpt); the
   pipeline's own environments satisfy it ([C02_pipeline_env]). *)
From Coq Require Import Floats.
From GenqlV Require Import Base.Prelude Base.Value Model.Ast Model.Num Model.Eval Model.Exec
                           Spec.ExprSem Proofs.C02Obj Proofs.C02Lemmas Proofs.C02Pipeline.
Local Open Scope list_scope.

(* ------------------------------------------------------------------ *)
(* 1. values                                                            *)
(* ------------------------------------------------------------------ *)

(* For every expression of the C02 grammar (any depth), on every row: evaluating and resolving the
   wrapper gives exactly the specification's value, error or panic.  CASE conditions may be arbitrary
   expressions; their meaning [csem] is a parameter, tied to the engine by the premise that the engine
   evaluates each condition occurring in value position as WHERE would (eval_cond). *)
Theorem C02_value_correct : forall Q (E : env Q) (csem : srow -> expr Q -> res bool) e cur,
  e_hard E = false -> is_c02 e = true ->
  (forall c, In c (case_conds e) -> eval_cond E cur (Some c) = csem cur c) ->
  bind (eval E cur e) (value_of cur) = sem_expr csem cur e.
Proof. intros Q E csem e cur Hh Hg Hc. exact (value_correct Q E csem Hh e cur Hg Hc). Qed.
Print Assumptions C02_value_correct.

(* the premise on conditions is satisfiable for every expression: take the engine's own predicate
   evaluation as the meaning of conditions *)
Theorem C02_value_correct_relative : forall Q (E : env Q) e cur,
  e_hard E = false -> is_c02 e = true ->
  bind (eval E cur e) (value_of cur) = sem_expr (fun r c => eval_cond E r (Some c)) cur e.
Proof. intros Q E e cur Hh Hg. apply (value_correct Q E _ Hh e cur Hg). intros c _. reflexivity. Qed.
Print Assumptions C02_value_correct_relative.

(* closed form: conditions from the boolean operators, comparisons and IS [NOT] NULL over C02
   expressions (column paths not starting with the back-navigation marker): no premise is left, and the
   result does not depend on the environment at all *)
Theorem C02_value_correct_closed : forall Q (E : env Q) e cur,
  e_hard E = false -> is_c02x e = true ->
  bind (eval E cur e) (value_of cur) = sem_x cur e.
Proof. intros Q E e cur Hh Hg. exact (value_correct_x Q E Hh e cur Hg). Qed.
Print Assumptions C02_value_correct_closed.

(* CASE consults a condition exactly as WHERE does, for arbitrary conditions *)
Theorem C02_case_first_true : forall Q (E : env Q) cur whens els,
  bind (eval E cur (ECase whens els)) (value_of cur) =
  first_true (fun c => eval_cond E cur (Some c)) (fun v => bind (eval E cur v) (value_of cur))
             (match els with None => Ok VNull | Some x => bind (eval E cur x) (value_of cur) end) whens.
Proof. exact ev_case. Qed.
Print Assumptions C02_case_first_true.

(* ------------------------------------------------------------------ *)
(* 2. row shape                                                         *)
(* ------------------------------------------------------------------ *)

(* [row_ok pj names r o]: r is an object kv, o is the object pj kv, its keys are pairwise distinct and
   are, as a set, names kv *)
Theorem C02_row_shape : forall (E : env stmt) csem s rows out,
  e_hard E = false -> c02_items (s_items s) = true -> forallb is_obj rows = true ->
  (forall kv c, In (VObj kv) rows -> In c (items_conds (s_items s)) ->
                eval_cond E kv (Some c) = csem kv c) ->
  exec_select E s rows = Ok out ->
  List.length out = List.length rows /\
  Forall2 (fun r o => exists kv okv,
             r = VObj kv /\ sem_project csem (s_items s) kv = Ok okv /\ o = VObj okv /\
             NoDup (keys okv) /\ forall k, In k (keys okv) <-> In k (select_keys (s_items s) kv))
          rows out.
Proof. intros E csem s rows out Hh. exact (row_shape E Hh csem s rows out). Qed.
Print Assumptions C02_row_shape.

Theorem C02_row_shape_closed : forall (E : env stmt) s rows out,
  e_hard E = false -> c02x_items (s_items s) = true -> forallb is_obj rows = true ->
  exec_select E s rows = Ok out ->
  List.length out = List.length rows /\
  Forall2 (fun r o => exists kv okv,
             r = VObj kv /\ sem_project_x (s_items s) kv = Ok okv /\ o = VObj okv /\
             NoDup (keys okv) /\ forall k, In k (keys okv) <-> In k (select_keys (s_items s) kv))
          rows out.
Proof. intros E s rows out Hh. exact (row_shape_x E Hh s rows out). Qed.
Print Assumptions C02_row_shape_closed.

(* errors and panics too: the model's ExecSelect IS the specification's row-by-row projection *)
Theorem C02_exec_select_is_spec : forall (E : env stmt) s rows,
  e_hard E = false -> c02x_items (s_items s) = true -> forallb is_obj rows = true ->
  exec_select E s rows =
  mapM (fun r => match r with
                 | VObj kv => let! o := sem_project_x (s_items s) kv in Ok (VObj o)
                 | _ => Err
                 end) rows.
Proof. intros E s rows Hh. exact (exec_select_eq_x E Hh s rows). Qed.
Print Assumptions C02_exec_select_is_spec.

(* which value a key gets: the output object is the map of the bindings in select-list order
   (`*` contributes the source row's pairs), the last binding of a name wins *)
Theorem C02_later_wins : forall Q (den : srow -> expr Q -> res value) items r o,
  project den items r = Ok o ->
  exists bs, bindings den items r = Ok bs /\ map fst bs = select_keys items r /\
             forall k, lookup k o = lookup k (rev bs).
Proof. intros Q den items r o. exact (project_later_wins den items r o). Qed.
Print Assumptions C02_later_wins.

(* `*` alone reproduces a row with unique keys *)
Theorem C02_star : forall Q (den : srow -> expr Q -> res value) r k,
  NoDup (keys r) -> exists o, project den [IStar] r = Ok o /\ lookup k o = lookup k r.
Proof. intros Q den r k. exact (project_star den r k). Qed.
Print Assumptions C02_star.

(* the map primitives behave like a map *)
Theorem C02_obj_set_lookup : forall k k' v m,
  lookup k (obj_set k v m) = Some v /\ (k' <> k -> lookup k' (obj_set k v m) = lookup k' m).
Proof. intros k k' v m. split; [apply lookup_obj_set_same|apply lookup_obj_set_other]. Qed.
Print Assumptions C02_obj_set_lookup.

(* ------------------------------------------------------------------ *)
(* 3. locality                                                          *)
(* ------------------------------------------------------------------ *)

(* any select list, per-row branch of ExecSelect (i.e. not the all-aggregates-without-GROUP-BY list):
   the output at a position is what the query yields on that row alone *)
Theorem C02_locality : forall (E : env stmt) s l1 r l2 out,
  per_row s = true -> exec_select E s (l1 ++ r :: l2) = Ok out ->
  exists o, nth_error out (List.length l1) = Some o /\ exec_select E s [r] = Ok [o].
Proof. exact exec_select_local. Qed.
Print Assumptions C02_locality.

(* C02 select lists take the per-row branch *)
Theorem C02_per_row : forall s : select stmt, c02_items (s_items s) = true -> per_row s = true.
Proof. exact c02_per_row. Qed.
Print Assumptions C02_per_row.

(* closed grammar: not even the environment (other tables, filtered rows, query data) matters *)
Theorem C02_locality_closed : forall E1 E2 s l1 l2 l1' l2' r out1 out2,
  e_hard E1 = false -> e_hard E2 = false -> c02x_items (s_items s) = true ->
  exec_select E1 s (l1 ++ r :: l2) = Ok out1 ->
  exec_select E2 s (l1' ++ r :: l2') = Ok out2 ->
  exists o, nth_error out1 (List.length l1) = Some o /\ nth_error out2 (List.length l1') = Some o.
Proof. exact locality_x. Qed.
Print Assumptions C02_locality_closed.

(* ------------------------------------------------------------------ *)
(* 4. no engine-internal key                                            *)
(* ------------------------------------------------------------------ *)

(* ANY select list (arbitrary expressions, functions, subqueries), per-row branch: every key of an
   output object is an item's name or, when the list has `*`, a key of the source row.  The proof
   goes through SelectExpr: each item either is skipped (Ommit) or is passed through ValueOf and
   stored under its name. *)
Theorem C02_no_internal_key : forall (E : env stmt) s rows out,
  per_row s = true -> exec_select E s rows = Ok out ->
  forall i kv o, nth_error rows i = Some (VObj kv) -> nth_error out i = Some o ->
  exists okv, o = VObj okv /\
    forall k, In k (keys okv) ->
      (exists e, In (IExpr e k) (s_items s)) \/ (In IStar (s_items s) /\ In k (keys kv)).
Proof. exact exec_select_keys_any. Qed.
Print Assumptions C02_no_internal_key.

(* so the back-navigation marker appears only if an alias is literally "<-" or the source row has it *)
Corollary C02_no_back_marker : forall (E : env stmt) s rows out,
  per_row s = true -> exec_select E s rows = Ok out ->
  (forall e, ~ In (IExpr e "<-") (s_items s)) ->
  forall i kv okv, nth_error rows i = Some (VObj kv) -> nth_error out i = Some (VObj okv) ->
  ~ In "<-"%string (keys kv) -> ~ In "<-"%string (keys okv).
Proof.
  intros E s rows out Hp H Hal i kv okv Hr Ho Hsrc Hin.
  destruct (exec_select_keys_any E s rows out Hp H i kv _ Hr Ho) as [okv' [Heq Hk]].
  inversion Heq; subst okv'. destruct (Hk _ Hin) as [[e He]|[_ Hs]]; [exact (Hal e He)|exact (Hsrc Hs)].
Qed.
Print Assumptions C02_no_back_marker.

(* ------------------------------------------------------------------ *)
(* 5. NULL rules (arbitrary operand expressions)                         *)
(* ------------------------------------------------------------------ *)

Theorem C02_null_missing_key : forall Q (E : env Q) cur k rest,
  e_hard E = false -> lookup k cur = None ->
  bind (eval E cur (ECol (k :: rest))) (value_of cur) = Ok VNull.
Proof. exact null_missing_key. Qed.
Print Assumptions C02_null_missing_key.

Theorem C02_null_missing_nested : forall Q (E : env Q) cur k1 k2 rest kvs,
  e_hard E = false -> lookup k1 cur = Some (VObj kvs) -> lookup k2 kvs = None ->
  bind (eval E cur (ECol (k1 :: k2 :: rest))) (value_of cur) = Ok VNull.
Proof. exact null_missing_nested. Qed.
Print Assumptions C02_null_missing_nested.

Theorem C02_null_binop_left : forall Q (E : env Q) cur op a b,
  bind (eval E cur a) (value_of cur) = Ok VNull ->
  eval E cur (EBin op a b) = Ok (RNumPtr None) /\
  bind (eval E cur (EBin op a b)) (value_of cur) = Ok VNull.
Proof. exact null_bin_left. Qed.
Print Assumptions C02_null_binop_left.

Theorem C02_null_binop_right : forall Q (E : env Q) cur op a b x,
  bind (eval E cur a) (value_of cur) = Ok (VNum x) ->
  bind (eval E cur b) (value_of cur) = Ok VNull ->
  eval E cur (EBin op a b) = Ok (RNumPtr None) /\
  bind (eval E cur (EBin op a b)) (value_of cur) = Ok VNull.
Proof. exact null_bin_right. Qed.
Print Assumptions C02_null_binop_right.

Theorem C02_null_unary_is_error : forall Q (E : env Q) cur op a,
  bind (eval E cur a) (value_of cur) = Ok VNull ->
  bind (eval E cur (EUn op a)) (value_of cur) = Err.
Proof. exact null_un. Qed.
Print Assumptions C02_null_unary_is_error.

(* the pipeline's environments meet the [e_hard] premise *)
Theorem C02_pipeline_env : forall rec call join ctx s filtered,
  e_hard (mk_env rec call join ctx s filtered) = false.
Proof. exact mk_env_hard. Qed.
Print Assumptions C02_pipeline_env.

(* ------------------------------------------------------------------ *)
(* 6. the whole SELECT (exec() of plsql.go), plain queries               *)
(* ------------------------------------------------------------------ *)

(* SELECT list FROM t [WHERE c] without GROUP BY / DISTINCT / ORDER BY / LIMIT / OFFSET over object
   rows: the result is one object per row that passed WHERE (the kept rows are a subsequence of the
   source, each with a true condition), in order, each the specification's projection of its row *)
Theorem C02_pipeline : forall rec call join ctx s from v,
  plain_select s -> c02x_items (s_items s) = true -> forallb is_obj from = true ->
  run_select rec call join ctx s (Some from) = Ok v ->
  exists kept out,
    filter_rows rec ctx s (mk_env rec call join ctx s []) from = Ok kept /\
    subseq kept from /\
    (forall r, In r kept -> exists kv, r = VObj kv /\
               eval_cond (mk_env rec call join ctx s []) kv (s_where s) = Ok true) /\
    v = VArr out /\ List.length out = List.length kept /\
    Forall2 (fun r o => exists kv okv,
               r = VObj kv /\ sem_project_x (s_items s) kv = Ok okv /\ o = VObj okv /\
               NoDup (keys okv) /\ forall k, In k (keys okv) <-> In k (select_keys (s_items s) kv))
            kept out.
Proof. exact run_select_shape. Qed.
Print Assumptions C02_pipeline.

(* SELECT list without FROM: one object computed from the query data *)
Theorem C02_pipeline_dual : forall rec call join ctx s v,
  c02x_items (s_items s) = true ->
  run_select rec call join ctx s None = Ok v ->
  exists okv, sem_project_x (s_items s) (c_data ctx) = Ok okv /\ v = VObj okv.
Proof. exact run_select_dual. Qed.
Print Assumptions C02_pipeline_dual.

(* ------------------------------------------------------------------ *)
(* 7. non-vacuity                                                       *)
(* ------------------------------------------------------------------ *)

Module Demo.
  Local Open Scope string_scope.
  Local Open Scope float_scope.

  Definition E0 : env stmt :=
    Build_env (VObj [("other", VNum 99)])
              (fun _ _ => OutOfModel) (fun _ _ => OutOfModel) (fun _ _ _ => OutOfModel)
              (fun _ _ _ _ => OutOfModel) false.

  (* {a:12, b:10, flag:false, n:null, o:{x:3, y:{z:2}}} *)
  Definition r1 : srow :=
    [("a", VNum 12); ("b", VNum 10); ("flag", VBool false); ("n", VNull);
     ("o", VObj [("x", VNum 3); ("y", VObj [("z", VNum 2)])])].
  Definition r2 : srow := [("a", VNum 7); ("o", VObj [("x", VNum 1)])].

  (* (a - b / 4) * -o.x
     + CASE WHEN (a & b) > 7 AND NOT (n IS NOT NULL) THEN (a | 1) << o.y.z
            WHEN !flag THEN 0 ELSE ~5 END                      depth 5 *)
  Definition e1 : expr stmt :=
    EBin BAdd
      (EBin BMul (EBin BSub (ECol ["a"]) (EBin BDiv (ECol ["b"]) (ENum 4))) (EUn UNeg (ECol ["o"; "x"])))
      (ECase [ (EAnd (ECmp OpGt (EBin BAnd (ECol ["a"]) (ECol ["b"])) (ENum 7))
                     (ENot (EIs IsNotNull (ECol ["n"]))),
                EBin BShl (EBin BOr (ECol ["a"]) (ENum 1)) (ECol ["o"; "y"; "z"]));
               (EUn UBang (ECol ["flag"]), ENum 0) ]
             (Some (EUn UTilde (ENum 5)))).

  (* (17 DIV 5) ^ ((29 % 8) >> 1) *)
  Definition e2 : expr stmt :=
    EBin BXor (EBin BIntDiv (ENum 17) (ENum 5)) (EBin BShr (EBin BMod (ENum 29) (ENum 8)) (ENum 1)).

  Definition e_null1 : expr stmt := EBin BAdd (ECol ["missing"]) (ENum 1).
  Definition e_null2 : expr stmt := EBin BMul (ENum 2) (ECol ["o"; "nope"; "deep"]).
  Definition e_div0 : expr stmt := EBin BIntDiv (ECol ["a"]) (EBin BSub (ECol ["b"]) (ENum 10)).
  Definition e_negshift : expr stmt := EBin BShl (ENum 1) (EUn UNeg (ENum 1)).
  Definition e_str : expr stmt := EBin BAdd (EStr "x") (ENum 1).
  Definition e_unnull : expr stmt := EUn UNeg (ECol ["n"]).

  Example grammar : forallb is_c02x [e1; e2; e_null1; e_null2; e_div0; e_negshift; e_str; e_unnull] = true
                    /\ forallb is_c02 [e1; e2; e_null1; e_null2; e_div0; e_negshift; e_str; e_unnull] = true.
  Proof. split; vm_compute; reflexivity. Qed.

  Definition both (cur : srow) (e : expr stmt) : res value * res value :=
    (bind (eval E0 cur e) (value_of cur), sem_x cur e).

  Example ex_e1_r1 : both r1 e1 = (Ok (VNum 23.5), Ok (VNum 23.5)).
  Proof. vm_compute. reflexivity. Qed.
  (* on r2: b is missing, so the product is NULL and so is the sum *)
  Example ex_e1_r2 : both r2 e1 = (Ok VNull, Ok VNull).
  Proof. vm_compute. reflexivity. Qed.
  Example ex_e2 : both r1 e2 = (Ok (VNum 1), Ok (VNum 1)).
  Proof. vm_compute. reflexivity. Qed.
  Example ex_null : both r1 e_null1 = (Ok VNull, Ok VNull) /\ both r1 e_null2 = (Ok VNull, Ok VNull).
  Proof. split; vm_compute; reflexivity. Qed.
  Example ex_panics : both r1 e_div0 = (Panic, Panic) /\ both r1 e_negshift = (Panic, Panic).
  Proof. split; vm_compute; reflexivity. Qed.
  Example ex_errors : both r1 e_str = (Err, Err) /\ both r1 e_unnull = (Err, Err).
  Proof. split; vm_compute; reflexivity. Qed.

  (* SELECT e1 AS v, *, 1 AS a, e2 AS v  — `v` and `a` are overwritten by the later bindings *)
  Definition q : select stmt :=
    Build_select [] FDual None [] None
                 [IExpr e1 "v"; IStar; IExpr (ENum 1) "a"; IExpr e2 "v"] false [] None None.

  Example ex_select :
    c02x_items (s_items q) = true /\
    exec_select E0 q [VObj r1; VObj r2] =
    Ok [VObj [("a", VNum 1); ("b", VNum 10); ("flag", VBool false); ("n", VNull);
              ("o", VObj [("x", VNum 3); ("y", VObj [("z", VNum 2)])]); ("v", VNum 1)];
        VObj [("a", VNum 1); ("o", VObj [("x", VNum 1)]); ("v", VNum 1)]] /\
    sem_project_x (s_items q) r2 = Ok [("a", VNum 1); ("o", VObj [("x", VNum 1)]); ("v", VNum 1)].
  Proof. repeat split; vm_compute; reflexivity. Qed.

  (* the premises of C02_row_shape_closed hold for this query and table *)
  Example ex_shape_applies :
    exists out, exec_select E0 q [VObj r1; VObj r2] = Ok out /\ List.length out = 2%nat.
  Proof.
    destruct (exec_select E0 q [VObj r1; VObj r2]) as [out| | |] eqn:He.
    - exists out. split; [reflexivity|].
      destruct (C02_row_shape_closed E0 q [VObj r1; VObj r2] out eq_refl eq_refl eq_refl He) as [Hl _].
      exact Hl.
    - vm_compute in He. discriminate He.
    - vm_compute in He. discriminate He.
    - vm_compute in He. discriminate He.
  Qed.

  (* through the public entry point: SELECT e1 AS v, o.y.z AS z FROM t WHERE a > 10 *)
  Definition q2 : stmt :=
    SSelect (Build_select [] (FTable ["t"] "") (Some (ECmp OpGt (ECol ["a"]) (ENum 10))) [] None
                          [IExpr e1 "v"; IExpr (ECol ["o"; "y"; "z"]) "z"] false [] None None).
  Example ex_api :
    api_run no_call no_join 5 false (VObj [("t", VArr [VObj r1; VObj r2])]) q2 =
    Ok [VObj [("v", VNum 23.5); ("z", VNum 2)]].
  Proof. vm_compute. reflexivity. Qed.
End Demo.
