(* Properties/C19.v — "A failure anywhere surfaces as an error - never as a partial result".
   Claims only; proofs in Proofs/C19Lemmas.v (logical relation), Proofs/C19Surfaces.v (a reached
   fault surfaces), Proofs/C19Errors.v (type errors, RAISE family).

   Reading guide.  [api_run call join fuel wrapped doc q] is the model of New + Exec (Model/Exec.v);
   [call] is FunExpr after argument evaluation, [join] is ExecJoin.  Two runs of the same query on
   the same document are compared: the fault-free one (hook [call]) and the faulty one (hook
   [call']).  [call_rel ap call call'] says that on every argument list the faulty hook either
   answers exactly what the fault-free hook answers, or returns an error, or (when [ap = true])
   panics.  "The library stays usable afterwards" is not a statement about this pure model (a
   Gallina function has no state to corrupt): it is property C11 (input unchanged at every failure
   point) plus the absence of cross-query state, and is checked dynamically on the real code by
   the C19 correspondence (follow-up queries + deep comparison after every injected failure). *)
From Coq Require Import Floats.
From GenqlV Require Import Base.Prelude Base.Value Model.Ast Model.Eval Model.Exec Model.Join
                           Model.Faults Proofs.C19Lemmas Proofs.C19Surfaces Proofs.C19Errors.
Local Open Scope list_scope.
Local Open Scope string_scope.

(* ------------------------------------------------------------------ *)
(* 1. no partial result                                                 *)
(* ------------------------------------------------------------------ *)

(* The heart: whatever the query (any depth of CTEs, derived tables, subqueries, EXISTS, unions,
   joins, inner dimensions), whatever the fuel, the faulty run of the interpreter is related to the
   fault-free run: same outcome, or a failure. *)
Theorem C19_exec_related : forall ap (call call' : call_fn) (join join' : join_fn),
  call_rel ap call call' -> join_rel ap join join' ->
  forall fuel ctx j,
    exec call' join' fuel ctx j = exec call join fuel ctx j \/
    exec call' join' fuel ctx j = Err \/
    (ap = true /\ exec call' join' fuel ctx j = Panic).
Proof. intros. apply exec_R; assumption. Qed.
Print Assumptions C19_exec_related.

(* New + Exec: the faulty run returns exactly what the fault-free run returns, or an error. *)
Theorem C19_no_partial_result : forall ap (call call' : call_fn) (join join' : join_fn),
  call_rel ap call call' -> join_rel ap join join' ->
  forall fuel wrapped doc q,
    api_run call' join' fuel wrapped doc q = api_run call join fuel wrapped doc q \/
    api_run call' join' fuel wrapped doc q = Err.
Proof. intros. apply (api_run_Rs ap); assumption. Qed.
Print Assumptions C19_no_partial_result.

(* ... in particular a successful-looking faulty result IS the fault-free result: nothing was
   shortened, skipped or NULL-patched *)
Theorem C19_no_altered_ok : forall ap (call call' : call_fn) (join join' : join_fn),
  call_rel ap call call' -> join_rel ap join join' ->
  forall fuel wrapped doc q rows,
    api_run call' join' fuel wrapped doc q = Ok rows ->
    api_run call join fuel wrapped doc q = Ok rows.
Proof.
  intros ap call call' join join' Hc Hj fuel wrapped doc q rows H.
  destruct (api_run_Rs ap call call' join join' Hc Hj fuel wrapped doc q) as [E|E];
    rewrite E in H; [exact H|discriminate H].
Qed.
Print Assumptions C19_no_altered_ok.

(* OutOfModel, precisely: a fault never pushes a query out of the model.  If the fault-free query is
   inside the model (its result is Ok or Err), so is every faulty run of it. *)
Theorem C19_out_of_model : forall ap (call call' : call_fn) (join join' : join_fn),
  call_rel ap call call' -> join_rel ap join join' ->
  forall fuel wrapped doc q,
    api_run call' join' fuel wrapped doc q = OutOfModel ->
    api_run call join fuel wrapped doc q = OutOfModel.
Proof.
  intros ap call call' join join' Hc Hj fuel wrapped doc q H.
  destruct (api_run_Rs ap call call' join join' Hc Hj fuel wrapped doc q) as [E|E];
    rewrite E in H; [exact H|discriminate H].
Qed.
Print Assumptions C19_out_of_model.

(* the instance the correspondence runs: FAULT(tag, x) with trigger [t] (error or panic variant),
   calls allowed in ON clauses as well *)
Theorem C19_no_partial_result_fault : forall t fuel wrapped doc q,
  faulty_run t fuel wrapped doc q = faulty_run None fuel wrapped doc q \/
  faulty_run t fuel wrapped doc q = Err.
Proof. exact faulty_run_Rs. Qed.
Print Assumptions C19_no_partial_result_fault.

(* ------------------------------------------------------------------ *)
(* 2. a fault that is reached surfaces                                  *)
(* ------------------------------------------------------------------ *)

(* expression level: WHERE, select items, HAVING, CASE branches actually taken, call arguments *)
Theorem C19_fault_surfaces_expr : forall Q (E E' : env Q) T (Hsub Hex : Q -> row -> Prop) ap,
  env_rel ap Q E E' ->
  (forall q n vs c, T q n vs c = true -> fails ap (e_call E' q n vs c)) ->
  (forall q c, Hsub q c -> fails ap (e_sub E' q c)) ->
  (forall q c, Hex q c -> fails ap (e_exists E' q c)) ->
  forall e cur, invokes Q E T Hsub Hex cur e -> fails ap (eval E' cur e).
Proof. intros Q E E' T Hsub Hex ap. exact (eval_surfaces Q E T Hsub Hex ap E'). Qed.
Print Assumptions C19_fault_surfaces_expr.

Theorem C19_fault_surfaces_cond : forall Q (E E' : env Q) T (Hsub Hex : Q -> row -> Prop) ap,
  env_rel ap Q E E' ->
  (forall q n vs c, T q n vs c = true -> fails ap (e_call E' q n vs c)) ->
  (forall q c, Hsub q c -> fails ap (e_sub E' q c)) ->
  (forall q c, Hex q c -> fails ap (e_exists E' q c)) ->
  forall cur c, cond_invokes Q E T Hsub Hex cur c -> fails ap (eval_cond E' cur c).
Proof. intros Q E E' T Hsub Hex ap. exact (eval_cond_surfaces Q E T Hsub Hex ap E'). Qed.
Print Assumptions C19_fault_surfaces_cond.

Theorem C19_fault_surfaces_select_expr : forall Q (E E' : env Q) T (Hsub Hex : Q -> row -> Prop) ap,
  env_rel ap Q E E' ->
  (forall q n vs c, T q n vs c = true -> fails ap (e_call E' q n vs c)) ->
  (forall q c, Hsub q c -> fails ap (e_sub E' q c)) ->
  (forall q c, Hex q c -> fails ap (e_exists E' q c)) ->
  forall items cur acc, items_invoke Q E T Hsub Hex cur items -> fails ap (select_expr E' cur items acc).
Proof. intros Q E E' T Hsub Hex ap. exact (select_expr_surfaces Q E T Hsub Hex ap E'). Qed.
Print Assumptions C19_fault_surfaces_select_expr.

(* the whole pipeline: [hits T call join fuel ctx j] = the fault-free run of job j reaches an
   invocation on which T holds — in WHERE of any row, HAVING of any group, the select list of any
   projected row, inside a CTE body / derived table / row-scoped subquery / EXISTS / IN-subquery /
   inner dimension / union branch, at any depth (Proofs/C19Surfaces.v, by recursion on the fuel).
   Then New + Exec under the faulty hook return an error.
   [join] is any ExecJoin that does not itself call the hook (no_join, exec_join, a specification
   join); calls inside ON clauses are covered by C19_fault_surfaces_on below. *)
Theorem C19_fault_surfaces : forall T ap (call call' : call_fn) (join : join_fn),
  call_rel ap call call' ->
  (forall q n vs c, T q n vs c = true -> fails ap (call' q n vs c)) ->
  forall fuel wrapped doc q,
    hits T call join fuel (api_ctx wrapped doc) (JStmt q) ->
    api_run call' join fuel wrapped doc q = Err.
Proof. exact api_surfaces. Qed.
Print Assumptions C19_fault_surfaces.

(* the FAULT instance: the fault-free run invokes FAULT with the trigger pair  ==>  error *)
Theorem C19_fault_surfaces_fault : forall tr (join : join_fn) fuel wrapped doc q,
  hits (is_trigger tr) (fault_call None) join fuel (api_ctx wrapped doc) (JStmt q) ->
  api_run (fault_call (Some tr)) join fuel wrapped doc q = Err.
Proof. exact fault_surfaces. Qed.
Print Assumptions C19_fault_surfaces_fault.

(* every position, the ON clause of a join included: [hits_on] additionally follows JoinMatchFunc
   (the ON expression on every pair of left key x right key, in catalog order) *)
Theorem C19_fault_surfaces_on : forall tr fuel wrapped doc q,
  hits_on (is_trigger tr) (fault_call None) (fault_call None) (fault_join (fault_call None)) fuel
          (api_ctx wrapped doc) (JStmt q) ->
  faulty_run (Some tr) fuel wrapped doc q = Err.
Proof. exact fault_surfaces_on. Qed.
Print Assumptions C19_fault_surfaces_on.

(* ------------------------------------------------------------------ *)
(* 3. type errors                                                       *)
(* ------------------------------------------------------------------ *)

(* a WHERE / HAVING condition whose value is not a Go bool is an error ... *)
Theorem C19_type_error_condition : forall Q (E : env Q) cur e r,
  eval E cur e = Ok r -> is_bool_raw r = false -> eval_cond E cur (Some e) = Err.
Proof. exact cond_non_boolean. Qed.
Print Assumptions C19_type_error_condition.

(* ... so is a CASE condition ... *)
Theorem C19_type_error_case : forall Q (E : env Q) cur c v rest els r,
  eval E cur c = Ok r -> is_bool_raw r = false -> eval E cur (ECase ((c, v) :: rest) els) = Err.
Proof. exact case_non_boolean. Qed.
Print Assumptions C19_type_error_case.

(* ... and a non-NULL, non-numeric arithmetic operand (either side) *)
Theorem C19_type_error_arith_left : forall Q (E : env Q) cur op a b v,
  val Q E cur a = Ok v -> non_numeric v = true -> eval E cur (EBin op a b) = Err.
Proof. exact arith_left_non_numeric. Qed.
Print Assumptions C19_type_error_arith_left.

Theorem C19_type_error_arith_right : forall Q (E : env Q) cur op a b x v,
  val Q E cur a = Ok (VNum x) -> val Q E cur b = Ok v -> non_numeric v = true ->
  eval E cur (EBin op a b) = Err.
Proof. exact arith_right_non_numeric. Qed.
Print Assumptions C19_type_error_arith_right.

(* On ANY source row: a failing WHERE fails exec() — the row is not skipped.  (The outcome is Err
   unless an earlier row already left the model.) *)
Theorem C19_type_error_is_error_where : forall rec (call : call_fn) (join : join_fn) ctx s from kv,
  In (VObj kv) from ->
  not_ok (eval_cond (mk_env rec call join ctx s []) kv (s_where s)) ->
  run_select rec call join ctx s (Some from) = Err \/
  run_select rec call join ctx s (Some from) = OutOfModel.
Proof. exact run_select_where_fails. Qed.
Print Assumptions C19_type_error_is_error_where.

(* on ANY group: a failing HAVING fails exec() *)
Theorem C19_type_error_is_error_having : forall rec (call : call_fn) (join : join_fn) ctx s from filtered c0 cols gs g,
  filter_rows rec ctx s (mk_env rec call join ctx s []) from = Ok filtered ->
  s_group s = c0 :: cols -> group_rows (c0 :: cols) filtered [] = Ok gs -> In g gs ->
  not_ok (eval_cond (mk_env rec call join ctx s filtered) (group_row g) (s_having s)) ->
  run_select rec call join ctx s (Some from) = Err \/
  run_select rec call join ctx s (Some from) = OutOfModel.
Proof. exact run_select_having_fails. Qed.
Print Assumptions C19_type_error_is_error_having.

(* on ANY projected row: a failing select item fails exec() — no NULL-patched column *)
Theorem C19_type_error_is_error_select : forall rec (call : call_fn) (join : join_fn) ctx s from filtered grouped kv e name,
  filter_rows rec ctx s (mk_env rec call join ctx s []) from = Ok filtered ->
  exec_group_by (mk_env rec call join ctx s filtered) s filtered = Ok grouped ->
  ((match s_group s with [] => true | _ => false end) && all_aggregate (s_items s)) = false ->
  In (VObj kv) grouped -> In (IExpr e name) (s_items s) ->
  not_ok (eval (mk_env rec call join ctx s filtered) kv e) ->
  run_select rec call join ctx s (Some from) = Err \/
  run_select rec call join ctx s (Some from) = OutOfModel.
Proof. exact run_select_item_fails. Qed.
Print Assumptions C19_type_error_is_error_select.

(* ------------------------------------------------------------------ *)
(* 4. RAISE / RAISE_WHEN                                                *)
(* ------------------------------------------------------------------ *)

(* RAISE, or RAISE_WHEN with a true condition, reached on any evaluated row anywhere in the query *)
Theorem C19_raise : forall t (join : join_fn) fuel wrapped doc q,
  hits raises (fault_call t) join fuel (api_ctx wrapped doc) (JStmt q) ->
  api_run (fault_call t) join fuel wrapped doc q = Err.
Proof. exact raise_surfaces. Qed.
Print Assumptions C19_raise.

(* RAISE_WHEN with a false condition: no column, no error *)
Theorem C19_raise_when_false : forall (E : env stmt) t cur cond msg name rest acc qual m,
  e_call E = fault_call t -> plain_qualifier qual = true ->
  val stmt E cur cond = Ok (VBool false) -> val stmt E cur msg = Ok m ->
  select_expr E cur (IExpr (ECall qual "raise_when" [cond; msg]) name :: rest) acc =
  select_expr E cur rest acc.
Proof. exact raise_when_false_no_column. Qed.
Print Assumptions C19_raise_when_false.

(* ------------------------------------------------------------------ *)
(* non-vacuity                                                          *)
(* ------------------------------------------------------------------ *)

Definition ex_row (id n : float) : value :=
  VObj [("id", VNum id); ("n1", VNum n)].
Definition ex_doc : value := VObj [("t", VArr [ex_row 1 5; ex_row 2 7; ex_row 3 7])].

Definition ex_fault (tag : string) (x : expr stmt) : expr stmt := ECall "" "fault" [EStr tag; x].

(* SELECT id FROM t WHERE FAULT('w', id) > 1 *)
Definition ex_q : stmt :=
  SSelect (Build_select [] (FTable ["t"] "") (Some (ECmp OpGt (ex_fault "w" (ECol ["id"])) (ENum 1)))
                        [] None [IExpr (ECol ["id"]) "id"] false [] None None).

Definition ex_trigger (k : fault_kind) : trigger := Build_trigger (VStr "w") (VNum 2) k.

(* the fault-free run returns two rows; failing the 2nd invocation (error or panic) is an error,
   not the one-row result that "skipping the failed row" would give *)
Example C19_ex_fault_free :
  faulty_run None 10 false ex_doc ex_q = Ok [VObj [("id", VNum 2)]; VObj [("id", VNum 3)]].
Proof. vm_compute. reflexivity. Qed.
Example C19_ex_faulty_error : faulty_run (Some (ex_trigger FkError)) 10 false ex_doc ex_q = Err.
Proof. vm_compute. reflexivity. Qed.
Example C19_ex_faulty_panic : faulty_run (Some (ex_trigger FkPanic)) 10 false ex_doc ex_q = Err.
Proof. vm_compute. reflexivity. Qed.

(* the premise of C19_fault_surfaces_fault is satisfiable: the fault-free run of ex_q reaches the
   trigger (on the second row, after the first row's WHERE succeeded) *)
Example C19_ex_hits :
  hits (is_trigger (ex_trigger FkError)) (fault_call None) no_join 10 (api_ctx false ex_doc) (JStmt ex_q).
Proof.
  cbn [hits step_hits ex_q s_with s_from register_ctes]. right.
  eexists. split; [vm_compute; reflexivity|].
  cbn [run_hits]. left.
  cbn [filter_hits ex_doc ex_row]. right. split; [eexists; vm_compute; reflexivity|].
  left. cbn [cond_hits cond_invokes s_where invokes]. left. right.
  eexists. split; [vm_compute; reflexivity|]. vm_compute. reflexivity.
Qed.

(* ... and the theorem then yields the error without running the faulty query *)
Example C19_ex_surfaces :
  api_run (fault_call (Some (ex_trigger FkError))) no_join 10 false ex_doc ex_q = Err.
Proof. apply C19_fault_surfaces_fault, C19_ex_hits. Qed.

(* a call in the ON clause of a join:
   SELECT * FROM t AS a JOIN u AS b ON a.id = b.aid AND FAULT('on', 1, true) *)
Definition ex_doc_j : value :=
  VObj [("t", VArr [VObj [("id", VNum 1)]; VObj [("id", VNum 2)]]); ("u", VArr [VObj [("aid", VNum 2)]])].
Definition ex_q_on : stmt :=
  SSelect (Build_select [] (FJoin JInner SAuto (FTable ["t"] "a") (FTable ["u"] "b")
                              (EAnd (ECmp OpEq (ECol ["a"; "id"]) (ECol ["b"; "aid"]))
                                    (ECall "" "fault" [EStr "on"; ENum 1; EBool true])))
                        None [] None [IStar] false [] None None).
Definition ex_trigger_on : trigger := Build_trigger (VStr "on") (VNum 1) FkPanic.

Example C19_ex_on_free :
  faulty_run None 10 false ex_doc_j ex_q_on =
  Ok [VObj [("a", VObj [("id", VNum 2)]); ("b", VObj [("aid", VNum 2)])]].
Proof. vm_compute. reflexivity. Qed.
Example C19_ex_on_faulty : faulty_run (Some ex_trigger_on) 10 false ex_doc_j ex_q_on = Err.
Proof. vm_compute. reflexivity. Qed.

Example C19_ex_on_hits :
  hits_on (is_trigger ex_trigger_on) (fault_call None) (fault_call None) (fault_join (fault_call None)) 10
          (api_ctx false ex_doc_j) (JStmt ex_q_on).
Proof.
  unfold hits_on. cbn [hits_gen step_hits ex_q_on s_with s_from register_ctes]. left.
  cbn [build_hits]. right. right.
  eexists. eexists. split; [vm_compute; reflexivity|]. split; [vm_compute; reflexivity|].
  unfold fault_join_hits. split; [reflexivity|]. split; [vm_compute; reflexivity|].
  cbn [is_straight negb].
  eexists. eexists. split; [vm_compute; reflexivity|]. split; [vm_compute; reflexivity|].
  cbn [mapM_hits]. left. unfold loop_hits. cbn [mapM_hits]. left. unfold right_hits.
  cbn [invokes]. right. split; [eexists; vm_compute; reflexivity|].
  right. eexists. split; vm_compute; reflexivity.
Qed.

Example C19_ex_on_surfaces : faulty_run (Some ex_trigger_on) 10 false ex_doc_j ex_q_on = Err.
Proof. apply C19_fault_surfaces_on, C19_ex_on_hits. Qed.

(* the relation is discriminating: two different successful results are NOT related *)
Example C19_ex_relation_strict : ~ R true (Ok 1%nat) (Ok 2%nat).
Proof. intros [H|[H|[_ H]]]; discriminate H. Qed.

(* type error on one row: SELECT id, n1 + 1 AS v FROM t with n1 = "oops" in the second row *)
Definition ex_doc_bad : value :=
  VObj [("t", VArr [ex_row 1 5; VObj [("id", VNum 2); ("n1", VStr "oops")]; ex_row 3 7])].
Definition ex_q_arith : stmt :=
  SSelect (Build_select [] (FTable ["t"] "") None [] None
                        [IExpr (ECol ["id"]) "id"; IExpr (EBin BAdd (ECol ["n1"]) (ENum 1)) "v"]
                        false [] None None).
Example C19_ex_type_error : faulty_run None 10 false ex_doc_bad ex_q_arith = Err.
Proof. vm_compute. reflexivity. Qed.
Example C19_ex_type_error_good_doc :
  exists rows, faulty_run None 10 false ex_doc ex_q_arith = Ok rows /\ List.length rows = 3%nat.
Proof. eexists. split; [vm_compute; reflexivity|reflexivity]. Qed.

(* RAISE_WHEN(id = 2, 'boom') fires on the second row; RAISE_WHEN(id = 9, ...) adds no column *)
Definition ex_q_raise (v : float) : stmt :=
  SSelect (Build_select [] (FTable ["t"] "") None [] None
                        [IExpr (ECol ["id"]) "id";
                         IExpr (ECall "" "raise_when" [ECmp OpEq (ECol ["id"]) (ENum v); EStr "boom"]) "r"]
                        false [] None None).
Example C19_ex_raise_fires : faulty_run None 10 false ex_doc (ex_q_raise 2) = Err.
Proof. vm_compute. reflexivity. Qed.
Example C19_ex_raise_silent :
  faulty_run None 10 false ex_doc (ex_q_raise 9) =
  Ok [VObj [("id", VNum 1)]; VObj [("id", VNum 2)]; VObj [("id", VNum 3)]].
Proof. vm_compute. reflexivity. Qed.
