(* Properties/C05.v — ORDER BY sorts, LIMIT/OFFSET return the exact window and never fail
   (claims only; proofs in Proofs/C05Window.v, C05Order.v, C05Sort.v, C05Lemmas.v;
    specification in Spec/WindowSpec.v and Spec/SortSpec.v).

   Reading guide.  [rows_of rows r] is [In r rows].  [sort_scope D keys] = every key path is readable
   on every row of D and, per key column, [vcompare] is a three-way total preorder on the non-NULL
   values found there (the NumLaws-style premise; [C05_one_kind_in_scope] derives it from "one scalar
   kind per column", with the float64 order laws as the only premise, and [C05_scope_check_sound]
   from a boolean check of a concrete table).  sort.Slice is an oracle: everything after
   [C05_sort_by_*] is proved for ANY output that meets its contract [sorted_perm], not for the
   insertion sort that stands in for it in the executable model. *)
From Coq Require Import Floats Sorting.Permutation.
From GenqlV Require Import Base.Prelude Base.Value Model.Ast Model.Eval Model.Exec.
From GenqlV Require Import Spec.WindowSpec Spec.SortSpec.
From GenqlV Require Import Proofs.C05Window Proofs.C05Order Proofs.C05Sort Proofs.C05Lemmas.
Local Open Scope Z_scope.

(* ================================================================== *)
(* LIMIT / OFFSET                                                      *)
(* ================================================================== *)

(* For every slice capacity >= length (the engine hands over a slice with spare capacity) and every
   absent-or-non-negative LIMIT and OFFSET - 0, beyond the end, straddling it - the window is
   computed without panic or error and is exactly  firstn limit (skipn offset rows). *)
Theorem C05_window_exact : forall rows cap limit offset,
  (List.length rows <= cap)%nat -> bound_ok limit -> bound_ok offset ->
  window rows cap limit offset = Ok (window_spec rows limit offset).
Proof. exact window_exact. Qed.
Print Assumptions C05_window_exact.

(* position by position: element i of the result is element offset+i of the sequence, for
   i < limit, and there is nothing else *)
Theorem C05_window_positions : forall rows cap limit offset out,
  (List.length rows <= cap)%nat -> bound_ok limit -> bound_ok offset ->
  window rows cap limit offset = Ok out ->
  forall i, nth_error out i = window_at rows limit offset i.
Proof.
  intros rows cap limit offset out Hc Hl Ho H i.
  rewrite (window_exact rows cap limit offset Hc Hl Ho) in H. inversion H.
  apply window_spec_at.
Qed.
Print Assumptions C05_window_positions.

(* never padding, never an element from outside the sequence *)
Theorem C05_window_no_padding : forall rows cap limit offset out x,
  (List.length rows <= cap)%nat -> bound_ok limit -> bound_ok offset ->
  window rows cap limit offset = Ok out -> In x out -> In x rows.
Proof.
  intros rows cap limit offset out x Hc Hl Ho H.
  rewrite (window_exact rows cap limit offset Hc Hl Ho) in H. inversion H.
  apply window_spec_incl.
Qed.
Print Assumptions C05_window_no_padding.

(* the number of rows returned: min(limit, max(0, len - offset)) *)
Theorem C05_window_length : forall (rows : list value) limit offset,
  bound_ok limit -> bound_ok offset ->
  Z.of_nat (List.length (window_spec rows limit offset)) =
    let len := Z.of_nat (List.length rows) in
    let off := match offset with Some o => o | None => 0 end in
    let rest := Z.max 0 (len - off) in
    match limit with Some l => Z.min l rest | None => rest end.
Proof. exact (@window_spec_length value). Qed.
Print Assumptions C05_window_length.

(* the pinned arithmetic  rs[offset:][:limit]  (limit clamped to len, not to len - offset):
   LIMIT 3 OFFSET 2 over four rows panics (slice bounds), and with spare capacity
   LIMIT 2 OFFSET 2 over three rows returns a phantom NULL taken from the backing array *)
Theorem C05_pinned_window_refuted :
  (exists rows cap limit offset,
     (List.length rows <= cap)%nat /\ bound_ok limit /\ bound_ok offset /\
     pinned_window rows cap limit offset = Panic) /\
  (exists rows cap limit offset out,
     (List.length rows <= cap)%nat /\ bound_ok limit /\ bound_ok offset /\
     pinned_window rows cap limit offset = Ok out /\ In VNull out /\ ~ In VNull rows).
Proof.
  split.
  - exists [r_ 1; r_ 2; r_ 3; r_ 4], 4%nat, (Some 3), (Some 2).
    split; [cbn; lia|]. split; [cbn; lia|]. split; [cbn; lia|]. exact pinned_window_panics.
  - exists [r_ 2; r_ 3; r_ 4], 4%nat, (Some 2), (Some 2), [r_ 4; VNull].
    split; [cbn; lia|]. split; [cbn; lia|]. split; [cbn; lia|].
    split; [exact pinned_window_phantom|]. split; [right; left; reflexivity|].
    intros [H|[H|[H|[]]]]; discriminate H.
Qed.
Print Assumptions C05_pinned_window_refuted.

(* ================================================================== *)
(* the comparator of sort.go                                           *)
(* ================================================================== *)

(* On rows in scope the comparator never fails and is a strict weak order: irreflexive, transitive,
   and "tied" is transitive - what sort.Slice needs before anything can be said about its output. *)
Theorem C05_less_is_strict_weak_order : forall rows keys,
  sort_scope (rows_of rows) keys ->
  total_on (rows_of rows) (order_less keys) /\
  strict_weak_order (rows_of rows) (lt_of (order_less keys)).
Proof. exact order_less_swo. Qed.
Print Assumptions C05_less_is_strict_weak_order.

(* the scope in the words of the property: every key column holds strings only, booleans only, or
   numbers only (plus NULLs); for a number column the order laws of float64 comparison (NumLaws) on
   the numbers that occur are the premise *)
Theorem C05_one_kind_in_scope : forall rows keys,
  one_kind_keys (rows_of rows) keys -> sort_scope (rows_of rows) keys.
Proof. intros rows keys. exact (one_kind_in_scope (rows_of rows) keys). Qed.
Print Assumptions C05_one_kind_in_scope.

(* a boolean check of a concrete table that implies the scope with no premise left *)
Theorem C05_scope_check_sound : forall rows keys,
  sort_scope_b rows keys = true ->
  one_kind_keys (rows_of rows) keys /\ sort_scope (rows_of rows) keys.
Proof.
  intros rows keys H. split; [apply sort_scope_b_one_kind|apply sort_scope_b_sound]; exact H.
Qed.
Print Assumptions C05_scope_check_sound.

(* NULL placement on the most significant key, ASC and DESC alike ([asc] is arbitrary): a row whose
   key is NULL is never "less", and a row whose key is not NULL is "less" than one whose key is *)
Theorem C05_null_never_less : forall k asc rest a b,
  reader k a = Ok VNull -> order_less ((k, asc) :: rest) a b = Ok false.
Proof. exact order_less_null_never_less. Qed.
Print Assumptions C05_null_never_less.

Theorem C05_nonnull_less_than_null : forall k asc rest a b x,
  reader k a = Ok x -> x <> VNull -> reader k b = Ok VNull ->
  order_less ((k, asc) :: rest) a b = Ok true.
Proof. exact order_less_nonnull_before_null. Qed.
Print Assumptions C05_nonnull_less_than_null.

(* the scope is not an artefact: in a column mixing numbers and strings the comparator has a cycle
   (9 < 10 by value, 10 < "5" < 9 by text), and NaN is "less" than itself; the boolean scope check
   rejects both tables *)
Theorem C05_out_of_scope_refuted :
  let less := order_less [(["k"%string], true)] in
  less (kv (VNum 9%float)) (kv (VNum 10%float)) = Ok true /\
  less (kv (VNum 10%float)) (kv (VStr "5")) = Ok true /\
  less (kv (VStr "5")) (kv (VNum 9%float)) = Ok true /\
  less (kv (VNum nan)) (kv (VNum nan)) = Ok true /\
  sort_scope_b [kv (VNum 9%float); kv (VNum 10%float); kv (VStr "5")] [(["k"%string], true)] = false /\
  sort_scope_b [kv (VNum nan)] [(["k"%string], true)] = false.
Proof. exact mixed_kinds_cycle. Qed.
Print Assumptions C05_out_of_scope_refuted.

(* ================================================================== *)
(* the sorting contract and its executable instance                    *)
(* ================================================================== *)

(* the oracle law of sort.Slice: if [less] is a total strict weak order on the elements, the output
   is a permutation with no adjacent pair out of order.  The model's stand-in meets it. *)
Theorem C05_sort_oracle : forall less rows,
  total_on (rows_of rows) less -> strict_weak_order (rows_of rows) (lt_of less) ->
  exists out, sort_by less rows = Ok out /\ sorted_perm less rows out.
Proof. exact sort_by_meets_contract. Qed.
Print Assumptions C05_sort_oracle.

Theorem C05_sort_by_sorted : forall less rows,
  total_on (rows_of rows) less -> strict_weak_order (rows_of rows) (lt_of less) ->
  exists out, sort_by less rows = Ok out /\
    forall i a b, nth_error out i = Some a -> nth_error out (S i) = Some b -> less b a = Ok false.
Proof. exact sort_by_sorted. Qed.
Print Assumptions C05_sort_by_sorted.

Theorem C05_sort_by_perm : forall less rows,
  total_on (rows_of rows) less -> strict_weak_order (rows_of rows) (lt_of less) ->
  exists out, sort_by less rows = Ok out /\ Permutation rows out.
Proof. exact sort_by_perm. Qed.
Print Assumptions C05_sort_by_perm.

(* ExecOrderBy on rows in scope: no error, and the contract holds (an empty key list leaves the
   rows as they are) *)
Theorem C05_exec_order_by : forall keys rows,
  sort_scope (rows_of rows) keys ->
  exists out, exec_order_by keys rows = Ok out /\ sorted_perm (order_less keys) rows out.
Proof. exact exec_order_by_sorted_perm. Qed.
Print Assumptions C05_exec_order_by.

(* ================================================================== *)
(* what ANY output meeting the contract looks like                     *)
(* ================================================================== *)

(* The output is a permutation of the input and every adjacent pair respects the key list
   lexicographically with each key's direction ([lex_le], Spec/SortSpec.v) - for tables whose NULLs
   sit in the last key column only (any single key; several keys of which only the least
   significant has NULLs). *)
Theorem C05_sorted : forall rows keys out,
  sort_scope (rows_of rows) keys -> nulls_only_in_last_key (rows_of rows) keys ->
  sorted_perm (order_less keys) rows out ->
  Permutation rows out /\
  forall i a b, nth_error out i = Some a -> nth_error out (S i) = Some b -> lex_le keys a b.
Proof. exact sorted_adjacent. Qed.
Print Assumptions C05_sorted.

(* not only adjacent pairs: every earlier row may stand before every later one *)
Theorem C05_sorted_all_pairs : forall rows keys out,
  sort_scope (rows_of rows) keys -> nulls_only_in_last_key (rows_of rows) keys ->
  sorted_perm (order_less keys) rows out ->
  forall i j a b, (i < j)%nat -> nth_error out i = Some a -> nth_error out j = Some b ->
  lex_le keys a b.
Proof. exact sorted_all_pairs. Qed.
Print Assumptions C05_sorted_all_pairs.

(* For EVERY table in scope (NULLs anywhere) the same holds for the order [lex_le_nullstop], which
   differs from [lex_le] in one place: two rows that are both NULL on a key count as tied there and
   then, the keys after it are not consulted. *)
Theorem C05_sorted_nullstop : forall rows keys out,
  sort_scope (rows_of rows) keys -> sorted_perm (order_less keys) rows out ->
  forall i j a b, (i < j)%nat -> nth_error out i = Some a -> nth_error out j = Some b ->
  lex_le_nullstop keys a b.
Proof. exact sorted_all_pairs_nullstop. Qed.
Print Assumptions C05_sorted_nullstop.

(* ... and that is all the contract says: any permutation whose adjacent pairs are in that order
   is an admissible output of the sort *)
Theorem C05_sorted_nullstop_complete : forall rows keys out,
  sort_scope (rows_of rows) keys -> Permutation rows out ->
  (forall i a b, nth_error out i = Some a -> nth_error out (S i) = Some b ->
                 lex_le_nullstop keys a b) ->
  sorted_perm (order_less keys) rows out.
Proof. exact lex_adjacent_sorted_perm. Qed.
Print Assumptions C05_sorted_nullstop_complete.

(* The textbook order is NOT guaranteed when a non-final key is NULL in two rows:
   ORDER BY n, s over [{n:null,s:"b"}; {n:null,s:"a"}] is returned as it is. *)
Theorem C05_sorted_null_prefix_refuted :
  exists keys rows out a b,
    sort_scope_b rows keys = true /\ exec_order_by keys rows = Ok out /\ out = [a; b] /\
    ~ lex_le keys a b.
Proof.
  exists nt_keys, nt_rows, nt_rows, (row_ns None (Some "b"%string)), (row_ns None (Some "a"%string)).
  destruct null_tie_not_refined as (H1 & H2 & H3).
  split; [exact H1|]. split; [exact H2|]. split; [reflexivity|exact H3].
Qed.
Print Assumptions C05_sorted_null_prefix_refuted.

(* Single key, either direction: all rows whose key is not NULL precede all rows whose key is NULL
   (no NULL-key row stands before a non-NULL-key row). *)
Theorem C05_nulls_last : forall rows k asc out,
  sort_scope (rows_of rows) [(k, asc)] ->
  sorted_perm (order_less [(k, asc)]) rows out ->
  forall i j a b, (i < j)%nat -> nth_error out i = Some a -> nth_error out j = Some b ->
  reader k a = Ok VNull -> reader k b = Ok VNull.
Proof. exact nulls_last. Qed.
Print Assumptions C05_nulls_last.

(* the same for the most significant key of any key list *)
Theorem C05_nulls_last_first_key : forall rows k asc rest out,
  sort_scope (rows_of rows) ((k, asc) :: rest) ->
  sorted_perm (order_less ((k, asc) :: rest)) rows out ->
  forall i j a b, (i < j)%nat -> nth_error out i = Some a -> nth_error out j = Some b ->
  reader k a = Ok VNull -> reader k b = Ok VNull.
Proof. exact nulls_last_first_key. Qed.
Print Assumptions C05_nulls_last_first_key.

(* ================================================================== *)
(* ORDER BY, then LIMIT/OFFSET                                         *)
(* ================================================================== *)

(* the two stage functions composed as exec() composes them: the window is cut from the sorted
   sequence *)
Theorem C05_order_then_window : forall keys rows limit offset,
  sort_scope (rows_of rows) keys -> bound_ok limit -> bound_ok offset ->
  exists ordered,
    exec_order_by keys rows = Ok ordered /\
    sorted_perm (order_less keys) rows ordered /\
    (let! o := exec_order_by keys rows in window o (List.length o) limit offset)
      = Ok (window_spec ordered limit offset).
Proof. exact order_then_window. Qed.
Print Assumptions C05_order_then_window.

(* lifted to exec() over resolved source rows ([run_select]): if the stages before ORDER BY succeed
   and the rows reaching it are in scope, the query's answer is the window of a sequence that meets
   the sorting contract on those rows - never an error, never padding *)
Theorem C05_run_select_order_window :
  forall rec call join ctx (s : select stmt) from filtered grouped selected,
  filter_rows rec ctx s (mk_env rec call join ctx s []) from = Ok filtered ->
  exec_group_by (mk_env rec call join ctx s filtered) s filtered = Ok grouped ->
  exec_select (mk_env rec call join ctx s filtered) s grouped = Ok selected ->
  sort_scope (rows_of (exec_distinct (s_distinct s) selected)) (s_order s) ->
  bound_ok (s_limit s) -> bound_ok (s_offset s) ->
  exists ordered,
    sorted_perm (order_less (s_order s)) (exec_distinct (s_distinct s) selected) ordered /\
    run_select rec call join ctx s (Some from)
      = Ok (VArr (window_spec ordered (s_limit s) (s_offset s))).
Proof. exact run_select_order_window. Qed.
Print Assumptions C05_run_select_order_window.

(* ================================================================== *)
(* non-vacuity                                                         *)
(* ================================================================== *)

(* a 5-row table with ties, a NULL in each key column, ORDER BY n DESC, s ASC is in scope (so all
   the theorems above apply to it); a variant with NULLs in the last key only also satisfies the
   premise of C05_sorted, the first one does not *)
Example C05_nonvacuous_scope :
  sort_scope_b ex_rows ex_keys = true /\
  sort_scope_b ex_rows' ex_keys = true /\ nulls_only_in_last_key_b ex_rows' ex_keys = true /\
  nulls_only_in_last_key_b ex_rows ex_keys = false.
Proof. exact ex_in_scope. Qed.

Example C05_nonvacuous_premises :
  sort_scope (rows_of ex_rows) ex_keys /\
  sort_scope (rows_of ex_rows') ex_keys /\ nulls_only_in_last_key (rows_of ex_rows') ex_keys.
Proof.
  destruct ex_in_scope as (H1 & H2 & H3 & _).
  split; [apply sort_scope_b_sound; exact H1|].
  split; [apply sort_scope_b_sound; exact H2|].
  apply nulls_only_in_last_key_b_sound; exact H3.
Qed.

(* and what the model returns for them: 2a 2b 2b 1- -c  and  3- 2a 2b 2- 1- *)
Example C05_nonvacuous_sorted :
  exec_order_by ex_keys ex_rows =
    Ok [ row_ns (Some 2%float) (Some "a"%string);
         row_ns (Some 2%float) (Some "b"%string);
         row_ns (Some 2%float) (Some "b"%string);
         row_ns (Some 1%float) None;
         row_ns None (Some "c"%string) ] /\
  exec_order_by ex_keys ex_rows' =
    Ok [ row_ns (Some 3%float) None;
         row_ns (Some 2%float) (Some "a"%string);
         row_ns (Some 2%float) (Some "b"%string);
         row_ns (Some 2%float) None;
         row_ns (Some 1%float) None ].
Proof. exact ex_sorted. Qed.

(* windows on a 5-row slice of capacity 8: straddling the end, LIMIT 0, OFFSET beyond the end,
   OFFSET without LIMIT *)
Example C05_nonvacuous_window :
  window ex_rows 8 (Some 3) (Some 3) =
    Ok [ row_ns None (Some "c"%string); row_ns (Some 2%float) (Some "b"%string) ] /\
  window ex_rows 8 (Some 0) (Some 1) = Ok [] /\
  window ex_rows 8 (Some 2) (Some 7) = Ok [] /\
  window ex_rows 8 None (Some 4) = Ok [ row_ns (Some 2%float) (Some "b"%string) ] /\
  (List.length ex_rows <= 8)%nat.
Proof. exact ex_window. Qed.

(* the repaired arithmetic on the two inputs that break the pinned one *)
Example C05_last_page :
  window [r_ 1; r_ 2; r_ 3; r_ 4] 4 (Some 3) (Some 2) = Ok [r_ 3; r_ 4] /\
  window [r_ 2; r_ 3; r_ 4] 4 (Some 2) (Some 2) = Ok [r_ 4].
Proof. exact window_last_page. Qed.

(* ------------------------------------------------------------------ *)
(* The ORDER BY comparator over every Go numeric kind (sort.go Compare as modelled by C15Run.sort_expect over the
   exact comparison of Model/Compare.v; tied to the real comparator by the stage order-by-comparator-bridge).
   Engine tables in the correspondence are JSON-like (float64); these lift C15's order laws to the comparator
   for rows whose keys are Go integers of any kind. *)
From GenqlV Require Import Model.Compare Run.C15Run Proofs.C05Bridge.

Theorem C05_comparator_irreflexive : forall a z, Compare a a = Ok z -> sort_expect a a z = (0, 0)%Z.
Proof. exact comparator_irreflexive. Qed.
Print Assumptions C05_comparator_irreflexive.

Theorem C05_comparator_asymmetric : forall a b x y, non_nil a -> non_nil b ->
  Compare a b = Ok x -> Compare b a = Ok y ->
  ~ (less_asc a b x /\ less_asc b a y) /\ ~ (less_desc a b x /\ less_desc b a y).
Proof. exact comparator_asymmetric. Qed.
Print Assumptions C05_comparator_asymmetric.

Theorem C05_comparator_desc_is_converse : forall a b x y, non_nil a -> non_nil b ->
  Compare a b = Ok x -> Compare b a = Ok y -> (less_desc a b x <-> less_asc b a y).
Proof. exact comparator_desc_converse. Qed.
Print Assumptions C05_comparator_desc_is_converse.

Theorem C05_comparator_total : forall a b x y, non_nil a -> non_nil b ->
  Compare a b = Ok x -> Compare b a = Ok y -> x = 0%Z \/ less_asc a b x \/ less_asc b a y.
Proof. exact comparator_total. Qed.
Print Assumptions C05_comparator_total.

Theorem C05_comparator_no_cycle : forall a b c x y z w,
  is_num a = true -> is_num b = true -> is_num c = true ->
  Compare a b = Ok x -> Compare b c = Ok y -> Compare a c = Ok z -> Compare c a = Ok w ->
  less_asc a b x -> less_asc b c y -> ~ less_asc c a w.
Proof. exact comparator_no_3_cycle. Qed.
Print Assumptions C05_comparator_no_cycle.

(* two int64 keys beyond 2^53 that are the same float64: the exact comparison still orders them *)
Example C05_comparator_nonvacuous :
  Compare (GInt KInt64 9007199254740993) (GInt KInt64 9007199254740992) = Ok 1%Z /\
  sort_expect (GInt KInt64 9007199254740992) (GInt KInt64 9007199254740993) (-1) = (1, 0)%Z /\
  sort_expect GNil (GInt KInt 1) 0 = (0, 0)%Z /\ sort_expect (GInt KInt 1) GNil 0 = (1, 1)%Z.
Proof. vm_compute. repeat split; reflexivity. Qed.
