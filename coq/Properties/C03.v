(* Properties/C03.v — GROUP BY partitions rows; aggregates cover exactly their group and honour
   WHERE (claims only; specification in Spec/GroupSpec.v, proofs in Proofs/C03Lemmas.v).

   A grouping column ([gkey]) is the name the group row carries it under and a path of key steps and index
   steps (`g`, `owner.team`, `tags[0]`, `owner.tags[1]`), read off each row as ExecGroupBy reads it (section 1b).
   Scope of the grouping claims ([rows_ok cols rows]): every row is an object, each grouping column has a value
   in it ([path_value]: NULL below a NULL / missing step), and that value is NULL, a boolean, a string or a
   non-NaN number.  The single fact about
   IEEE doubles they use is the premise [FloatEqLaws] (x == y is symmetric and transitive); it is
   discharged from the standard library's specification of the primitive in Proofs/C03FloatEq.v
   (see C03_float_laws_hold at the end).  [rec], [call], [join] are the interpreter's oracles
   (nested queries, scalar functions, joins): the claims hold for every instance of them. *)
From Coq Require Import Floats Permutation.
From GenqlV Require Import Base.Prelude Base.Value Model.Ast Model.Eval Model.Exec
  Spec.GroupSpec Proofs.C03Lemmas Proofs.C03FloatEq.
From GenqlV Require Model.SelToken Model.SelReader Proofs.C03PathReader.
Local Open Scope list_scope.

(* ================================================================== *)
(* 1. The groups are the textbook partition                             *)
(* ================================================================== *)

(* the engine's ordered scan computes exactly: one group per distinct key, in order of first
   appearance, each holding the rows with that key in source order *)
Theorem C03_groups_are_partition : FloatEqLaws -> forall cols rows,
  rows_ok cols rows = true -> group_rows cols rows [] = Ok (group_spec cols rows).
Proof. exact group_rows_spec. Qed.
Print Assumptions C03_groups_are_partition.

(* every row lands in exactly one group: the member lists together are a rearrangement of the table *)
Theorem C03_members_are_permutation : FloatEqLaws -> forall cols rows gs,
  rows_ok cols rows = true -> group_rows cols rows [] = Ok gs ->
  Permutation (List.concat (map snd gs)) rows.
Proof. exact model_perm. Qed.
Print Assumptions C03_members_are_permutation.

Theorem C03_row_in_exactly_one_group : FloatEqLaws -> forall cols rows gs,
  rows_ok cols rows = true -> group_rows cols rows [] = Ok gs ->
  forall r, In r rows ->
  exists g, In g gs /\ In r (snd g) /\ forall g', In g' gs -> In r (snd g') -> g' = g.
Proof. exact model_exactly_one. Qed.
Print Assumptions C03_row_in_exactly_one_group.

(* two rows share a group iff they agree on every grouping column *)
Theorem C03_same_group_iff_equal_keys : FloatEqLaws -> forall cols rows gs,
  rows_ok cols rows = true -> group_rows cols rows [] = Ok gs ->
  forall r1 r2, In r1 rows -> In r2 rows ->
  ((exists g, In g gs /\ In r1 (snd g) /\ In r2 (snd g)) <->
   key_eq (key_of cols r1) (key_of cols r2) = true).
Proof. exact model_same_group_iff. Qed.
Print Assumptions C03_same_group_iff_equal_keys.

(* no two groups have equal keys *)
Theorem C03_group_keys_distinct : FloatEqLaws -> forall cols rows gs,
  rows_ok cols rows = true -> group_rows cols rows [] = Ok gs ->
  pairwise_distinct key_eq (map fst gs) /\ NoDup (map fst gs).
Proof. exact model_keys_distinct. Qed.
Print Assumptions C03_group_keys_distinct.

(* the members of a group are exactly the rows with its key, in source order *)
Theorem C03_members_in_source_order : FloatEqLaws -> forall cols rows gs,
  rows_ok cols rows = true -> group_rows cols rows [] = Ok gs ->
  forall g, In g gs -> snd g = filter (fun r => key_eq (fst g) (key_of cols r)) rows.
Proof. exact model_members. Qed.
Print Assumptions C03_members_in_source_order.

(* a group is never empty, and the key values it shows are those of its first member *)
Theorem C03_group_key_is_first_members : FloatEqLaws -> forall cols rows gs,
  rows_ok cols rows = true -> group_rows cols rows [] = Ok gs ->
  forall g, In g gs -> exists r rest, snd g = r :: rest /\ fst g = key_of cols r.
Proof. exact model_first_member. Qed.
Print Assumptions C03_group_key_is_first_members.

(* conservation law: the COUNT( * ) of the groups add up to the number of rows *)
Theorem C03_conservation : FloatEqLaws -> forall cols rows gs,
  rows_ok cols rows = true -> group_rows cols rows [] = Ok gs ->
  list_sum (map (fun g => List.length (snd g)) gs) = List.length rows.
Proof. exact model_count. Qed.
Print Assumptions C03_conservation.

(* C03_deterministic_order.  [group_rows] is a Gallina function of (cols, rows) and nothing else:
   the repaired algorithm keeps an ordered slice of groups and has no map iteration, so there is no
   iteration-order parameter to quantify over and two runs cannot differ.  What the order IS: *)
Theorem C03_deterministic_order : FloatEqLaws -> forall cols rows gs,
  rows_ok cols rows = true -> group_rows cols rows [] = Ok gs ->
  map fst gs = first_keys (key_of cols) key_eq rows.
Proof. exact model_order. Qed.
Print Assumptions C03_deterministic_order.

(* "first appearance" read as a statement about arriving rows: the groups of a longer table start
   with the groups of its prefix, in the same order; rows that come later only append groups with
   keys not seen before *)
Theorem C03_order_is_prefix_stable : forall cols pre post,
  exists tail,
    map fst (group_spec cols (pre ++ post)) = map fst (group_spec cols pre) ++ tail /\
    forall k s, In k tail -> In s (map fst (group_spec cols pre)) -> key_eq s k = false.
Proof. exact group_spec_prefix_stable. Qed.
Print Assumptions C03_order_is_prefix_stable.

(* outside the scope: two rows whose first grouping column holds arrays (or objects) make Go's
   interface comparison panic; exec()'s recover turns it into an error.  ([readable]: every grouping column
   has a value in both rows — with path keys a column can fail to be read, which is the error of the next
   theorem and not a panic; for flat columns [readable] always holds on objects, see C03_flat_columns_readable) *)
Theorem C03_uncomparable_key_is_error : forall (E : env stmt) s c cs kv1 kv2 rest,
  s_group s = c :: cs ->
  readable (c :: cs) (VObj kv1) = true -> readable (c :: cs) (VObj kv2) = true ->
  both_containers (key_value c (VObj kv1)) (key_value c (VObj kv2)) = true ->
  exec_group_by E s (VObj kv1 :: VObj kv2 :: rest) = Panic.
Proof. exact exec_group_by_uncomparable. Qed.
Print Assumptions C03_uncomparable_key_is_error.

(* ================================================================== *)
(* 1b. Grouping columns that are paths                                  *)
(* ================================================================== *)

(* A grouping column is a selector: key steps and index steps ([kstep]); the engine reads it off every row that
   passed WHERE with ExecReader ([key_reader]).  All the claims of section 1 are about such columns: [key_of] /
   [rows_ok] go through [path_value], the reading of a path written from the text of the property (a step below
   NULL reads NULL, a key step reads the entry of an object or NULL when there is none, an index step reads the
   element of an array that has it).  Three facts connect the two readings. *)

(* a column that has a value is read to that value: NULL under a NULL / missing step, the entry otherwise *)
Theorem C03_path_key_read : forall p v x, path_value p v = Some x -> key_reader p v = Ok x.
Proof. exact key_reader_path_value. Qed.
Print Assumptions C03_path_key_read.

(* a column whose path runs through a scalar, meets an object at an index step, or indexes beyond the end of
   the array ([path_stuck]) is not read at all *)
Theorem C03_path_key_stuck : forall p v, path_stuck p v = true -> key_reader p v = Err.
Proof. exact key_reader_stuck. Qed.
Print Assumptions C03_path_key_stuck.

(* and then there is NO partition: rows in scope ([good]), followed by a row [bad] for which one grouping column
   [c] is stuck (the columns before it, [pre], have values) — the grouping stage fails, whatever follows; the row
   is not placed in any group, in particular not among the rows whose key IS NULL.  (The rows are those that
   passed WHERE: a row WHERE removes is never read.) *)
Theorem C03_unreadable_key_is_refused : forall (E : env stmt) s good bad rest pre c post,
  rows_ok (s_group s) good = true -> s_group s = pre ++ c :: post ->
  readable pre bad = true -> path_stuck (gk_path c) bad = true ->
  exec_group_by E s (good ++ bad :: rest) = Err.
Proof. exact exec_group_by_stuck. Qed.
Print Assumptions C03_unreadable_key_is_refused.

(* flat columns are the special case read like a column reference, with the value [column]; key paths without
   index steps are read like a column path *)
Theorem C03_flat_column : forall c v,
  key_reader (gk_path (gcol c)) v = reader [c] v /\ key_value (gcol c) v = column c v.
Proof. intros c v. split; [apply key_reader_flat|apply key_value_gcol]. Qed.
Print Assumptions C03_flat_column.

Theorem C03_flat_columns_readable : forall cs kvs, readable (map gcol cs) (VObj kvs) = true.
Proof. intros cs kvs. unfold readable. apply forallb_forall. intros c Hc. apply in_map_iff in Hc.
  destruct Hc as (n & <- & _). reflexivity. Qed.
Print Assumptions C03_flat_columns_readable.

Theorem C03_key_path_as_column_path : forall ks v, key_reader (map KKey ks) v = reader ks v.
Proof. exact key_reader_keys. Qed.
Print Assumptions C03_key_path_as_column_path.

(* the reading of a grouping column IS the selector model of C09 (Model/SelReader.v: selector.go Reader, SelectMany,
   SelectDimension, Unwind) on the tokens the steps stand for: a key step is a KeySelector, [i] an index selector
   with one dimension.  Hence ExecReader(row, text) = key_reader p row for every text that parses to those tokens
   (Proofs/C03PathReader.v key_reader_is_exec_reader; key_texts_parse runs the parser model on the generated texts) *)
Theorem C03_path_key_is_selector_read : forall p v,
  key_reader p v = SelReader.reader (map C03PathReader.tok p) v.
Proof. exact C03PathReader.key_reader_is_selector_reader. Qed.
Print Assumptions C03_path_key_is_selector_read.

Theorem C03_path_key_is_exec_reader : forall text p v,
  SelToken.parse_all text = Ok [map C03PathReader.tok p] -> SelReader.exec_reader v text = key_reader p v.
Proof. exact C03PathReader.key_reader_is_exec_reader. Qed.
Print Assumptions C03_path_key_is_exec_reader.

(* ================================================================== *)
(* 2. Aggregates cover exactly the member rows they are given           *)
(* ================================================================== *)

(* COUNT( * ) = number of members *)
Theorem C03_count_star : forall ms,
  eval_agg ms ACount None = Ok (RVal (count_val (List.length ms))).
Proof. exact eval_agg_count_star. Qed.
Print Assumptions C03_count_star.

(* f(c) over object members whose column c holds numbers and NULLs: the textbook fold over exactly
   the members' column ([agg_spec]: COUNT = length; SUM / MIN / MAX over the non-NULL entries in
   member order, NULL when there is none; AVG = that sum / number of entries) *)
Theorem C03_aggregate_scope : forall ms f c,
  obj_rows ms = true -> numeric_col (map (column c) ms) = true ->
  eval_agg ms f (Some [c]) =
  let! v := res_of_option (agg_spec f (List.length ms) (Some (map (column c) ms))) in Ok (RVal v).
Proof. exact eval_agg_column. Qed.
Print Assumptions C03_aggregate_scope.

(* a nested column path: the column is whatever the per-member reads return *)
Theorem C03_aggregate_scope_path : forall ms f k rest col,
  mapM (reader (k :: rest)) ms = Ok col ->
  eval_agg ms f (Some (k :: rest)) = let! v := agg_apply f ms (Some col) in Ok (RVal v).
Proof. exact eval_agg_path. Qed.
Print Assumptions C03_aggregate_scope_path.

Theorem C03_aggregate_bodies : forall f ms col,
  match col with Some c => numeric_col c = true | None => True end ->
  agg_apply f ms col = res_of_option (agg_spec f (List.length ms) col).
Proof. exact agg_apply_spec. Qed.
Print Assumptions C03_aggregate_bodies.

(* AVG = SUM / COUNT on a column without NULL *)
Theorem C03_avg_is_sum_over_count : forall n col,
  numeric_col col = true -> has_null col = false -> col <> [] ->
  exists s, agg_spec ASum n (Some col) = Some (VNum s) /\
            agg_spec AAvg n (Some col) = Some (VNum (s / float_of_Z (Z.of_nat (List.length col)))) /\
            agg_spec ACount n (Some col) = Some (VNum (float_of_Z (Z.of_nat (List.length col)))) /\
            List.length (nums col) = List.length col.
Proof. exact avg_is_sum_over_count. Qed.
Print Assumptions C03_avg_is_sum_over_count.

(* the MIN / MAX folds return a non-NULL member (or the fold's start value) that no non-NULL member
   is below / above, given the strict-order laws of IEEE < *)
Theorem C03_min_is_minimum : FloatLtLaws -> forall ns,
  In (fmin ns) (largest_double :: ns) /\ forall n, In n ns -> PrimFloat.ltb n (fmin ns) = false.
Proof. exact fmin_is_minimum. Qed.
Print Assumptions C03_min_is_minimum.

Theorem C03_max_is_maximum : FloatLtLaws -> forall ns,
  In (fmax ns) ((- largest_double)%float :: ns) /\
  forall n, In n ns -> PrimFloat.ltb (fmax ns) n = false.
Proof. exact fmax_is_maximum. Qed.
Print Assumptions C03_max_is_maximum.

(* the output row of a group: "*" holds the members (source order), the grouping columns hold the
   group's key values *)
Theorem C03_group_row_star : forall g, lookup "*" (group_row g) = Some (VArr (snd g)).
Proof. exact lookup_star_group_row. Qed.
Print Assumptions C03_group_row_star.

(* [names_unambiguous]: one name, one column (the code keeps the grouping columns in a map keyed by the name) *)
Theorem C03_group_row_key_columns : forall cols (r : value) ms (c : gkey),
  names_unambiguous cols ->
  In c cols -> gk_name c <> "*"%string ->
  lookup (gk_name c) (group_row (key_of cols r, ms)) = Some (key_value c r).
Proof. exact lookup_key_group_row. Qed.
Print Assumptions C03_group_row_key_columns.

(* with GROUP BY, an aggregate call evaluated on a group's row reads that group's members only
   ([filtered], the whole table, does not occur on the right) *)
Theorem C03_aggregate_reads_own_group : forall rec call join ctx s filtered f arg g,
  s_group s <> [] ->
  e_agg (mk_env rec call join ctx s filtered) f arg (group_row g) = eval_agg (snd g) f arg.
Proof. exact mk_env_agg_group. Qed.
Print Assumptions C03_aggregate_reads_own_group.

(* ... also inside a comparison such as HAVING COUNT( * ) > 1, whose operands are evaluated on a copy
   of the row carrying the back-reference marker *)
Theorem C03_aggregate_reads_own_group_in_comparison :
  forall rec call join ctx s filtered f arg g d,
  s_group s <> [] ->
  e_agg (mk_env rec call join ctx s filtered) f arg (scope (group_row g) d) = eval_agg (snd g) f arg.
Proof. exact mk_env_agg_group_scoped. Qed.
Print Assumptions C03_aggregate_reads_own_group_in_comparison.

(* without GROUP BY it reads exactly the rows that passed WHERE *)
Theorem C03_aggregate_reads_filtered : forall rec call join ctx s filtered f arg cur,
  s_group s = [] ->
  e_agg (mk_env rec call join ctx s filtered) f arg cur = eval_agg filtered f arg.
Proof. exact mk_env_agg_nogroup. Qed.
Print Assumptions C03_aggregate_reads_filtered.

(* one output row per group, each computed from its own group: for select lists of columns, `*`
   and aggregate calls, the row of group g is built from [snd g] and g's own row *)
Theorem C03_group_output_rows : forall rec call join ctx s filtered c cs gs,
  s_group s = c :: cs -> forallb simple_item (s_items s) = true ->
  exec_select (mk_env rec call join ctx s filtered) s (map out_row gs) =
  mapM (fun g => let! kvss := mapM (item_cells (snd g) (group_row g)) (s_items s) in
                 Ok (VObj (obj_of_list (List.concat kvss)))) gs.
Proof. exact exec_select_group_rows. Qed.
Print Assumptions C03_group_output_rows.

(* ================================================================== *)
(* 3. Whole-table aggregates; independent calls                         *)
(* ================================================================== *)

(* no GROUP BY and only aggregates in the select list: exactly one row, computed over [filtered],
   whatever [rows] the stage is handed *)
Theorem C03_whole_table : forall rec call join ctx s filtered rows,
  s_group s = [] -> all_aggregate (s_items s) = true ->
  exec_select (mk_env rec call join ctx s filtered) s rows =
  let! kvss := mapM (item_cells filtered []) (s_items s) in
  Ok [VObj (obj_of_list (List.concat kvss))].
Proof. exact exec_select_whole_table. Qed.
Print Assumptions C03_whole_table.

(* ... with COUNT = 0 and SUM / MIN / MAX / AVG = NULL when no row passed WHERE *)
Theorem C03_whole_table_no_rows : forall rec call join ctx s rows,
  s_group s = [] -> s_items s <> [] -> forallb agg_has_arg (s_items s) = true ->
  exec_select (mk_env rec call join ctx s []) s rows =
  Ok [VObj (obj_of_list (map empty_cell (s_items s)))].
Proof. exact exec_select_whole_table_empty. Qed.
Print Assumptions C03_whole_table_no_rows.

(* through the whole of exec(): WHERE, no grouping, one row over the survivors *)
Theorem C03_whole_table_query : forall rec call join ctx s w from,
  s_group s = [] -> all_aggregate (s_items s) = true ->
  s_limit s = None -> s_offset s = None ->
  where_ok (mk_env rec call join ctx s []) s w from ->
  run_select rec call join ctx s (Some from) =
  catch_panic
    (let! kvss := mapM (item_cells (filter w from) []) (s_items s) in
     Ok (VArr [VObj (obj_of_list (List.concat kvss))])).
Proof. exact run_select_whole_table. Qed.
Print Assumptions C03_whole_table_query.

(* every aggregate call is computed from its own argument: the column named after item
   (f, arg, name) holds f over arg, however many other calls of f the select list has *)
Theorem C03_independent_calls : forall rec call join ctx s filtered rows out f arg name,
  s_group s = [] -> all_aggregate (s_items s) = true ->
  NoDup (map item_name (s_items s)) ->
  In (IExpr (EAgg f arg) name) (s_items s) ->
  exec_select (mk_env rec call join ctx s filtered) s rows = Ok out ->
  exists r v, out = [VObj r] /\ agg_value filtered f arg = Ok v /\ lookup name r = Some v.
Proof. exact whole_table_independent. Qed.
Print Assumptions C03_independent_calls.

(* SUM(a), SUM(b)  =>  (Σa, Σb) *)
Theorem C03_two_sums : forall rec call join ctx s filtered rows a b n1 n2,
  s_group s = [] ->
  s_items s = [IExpr (EAgg ASum (Some [a])) n1; IExpr (EAgg ASum (Some [b])) n2] ->
  obj_rows filtered = true ->
  numeric_col (map (column a) filtered) = true ->
  numeric_col (map (column b) filtered) = true ->
  exec_select (mk_env rec call join ctx s filtered) s rows =
  Ok [VObj (obj_set n2 (null_or fsum (map (column b) filtered))
           (obj_set n1 (null_or fsum (map (column a) filtered)) []))].
Proof. exact two_sums. Qed.
Print Assumptions C03_two_sums.

(* ================================================================== *)
(* 4. HAVING                                                            *)
(* ================================================================== *)

(* the output groups are the textbook groups that satisfy HAVING, in order; [h g] is the truth
   value HAVING evaluates to on group g (the claim is for conditions that evaluate without error) *)
Theorem C03_having : FloatEqLaws -> forall (E : env stmt) s rows c cs h,
  s_group s = c :: cs -> rows_ok (c :: cs) rows = true ->
  (forall g, In g (group_spec (c :: cs) rows) -> eval_cond E (group_row g) (s_having s) = Ok (h g)) ->
  exec_group_by E s rows = Ok (map out_row (filter h (group_spec (c :: cs) rows))).
Proof. exact exec_group_by_spec. Qed.
Print Assumptions C03_having.

Theorem C03_no_having : FloatEqLaws -> forall (E : env stmt) s rows c cs,
  s_group s = c :: cs -> s_having s = None -> rows_ok (c :: cs) rows = true ->
  exec_group_by E s rows = Ok (map out_row (group_spec (c :: cs) rows)).
Proof. exact exec_group_by_spec_no_having. Qed.
Print Assumptions C03_no_having.

(* the same without any scope condition on the rows, relative to the engine's own groups *)
Theorem C03_having_filters_groups : forall (E : env stmt) s rows c cs gs h,
  s_group s = c :: cs -> group_rows (c :: cs) rows [] = Ok gs ->
  (forall g, In g gs -> eval_cond E (group_row g) (s_having s) = Ok (h g)) ->
  exec_group_by E s rows = Ok (map out_row (filter h gs)).
Proof. exact exec_group_by_having. Qed.
Print Assumptions C03_having_filters_groups.

(* ================================================================== *)
(* 5. WHERE first                                                       *)
(* ================================================================== *)

(* [where_ok E s w from]: every source row is an object on which WHERE evaluates to [w row] *)

(* grouping, HAVING, the aggregates' environment and every later stage are fed [filter w from] *)
Theorem C03_stages_see_filtered_rows : forall rec call join ctx s w from,
  where_ok (mk_env rec call join ctx s []) s w from ->
  run_select rec call join ctx s (Some from) =
  catch_panic
    (let filtered := filter w from in
     let E := mk_env rec call join ctx s filtered in
     let! grouped := exec_group_by E s filtered in
     let! selected := exec_select E s grouped in
     let! ordered := exec_order_by (s_order s) (exec_distinct (s_distinct s) selected) in
     let! win := window ordered (List.length ordered) (s_limit s) (s_offset s) in
     Ok (VArr win)).
Proof. exact run_select_sees_filtered. Qed.
Print Assumptions C03_stages_see_filtered_rows.

(* the query = the query without WHERE over the rows that passed *)
Theorem C03_where_then_group : forall rec call join ctx s w from,
  where_ok (mk_env rec call join ctx s []) s w from ->
  run_select rec call join ctx s (Some from) =
  run_select rec call join ctx (drop_where s) (Some (filter w from)).
Proof. exact run_select_where. Qed.
Print Assumptions C03_where_then_group.

(* the grouped query end to end: rows passing WHERE -> textbook groups -> HAVING -> one row per
   group from that group alone -> DISTINCT / ORDER BY / LIMIT *)
Theorem C03_grouped_query : FloatEqLaws -> forall rec call join ctx s w h from c cs,
  s_group s = c :: cs ->
  forallb simple_item (s_items s) = true ->
  where_ok (mk_env rec call join ctx s []) s w from ->
  rows_ok (c :: cs) (filter w from) = true ->
  (forall g, In g (group_spec (c :: cs) (filter w from)) ->
     eval_cond (mk_env rec call join ctx s (filter w from)) (group_row g) (s_having s) = Ok (h g)) ->
  run_select rec call join ctx s (Some from) =
  catch_panic
    (let! selected :=
       mapM (fun g => let! kvss := mapM (item_cells (snd g) (group_row g)) (s_items s) in
                      Ok (VObj (obj_of_list (List.concat kvss))))
            (filter h (group_spec (c :: cs) (filter w from))) in
     let! ordered := exec_order_by (s_order s) (exec_distinct (s_distinct s) selected) in
     let! win := window ordered (List.length ordered) (s_limit s) (s_offset s) in
     Ok (VArr win)).
Proof. intros FL rec call join. exact (run_select_grouped rec call join FL). Qed.
Print Assumptions C03_grouped_query.

(* ================================================================== *)
(* 6. The float premises hold for Coq's primitive doubles               *)
(* ================================================================== *)

Theorem C03_float_laws_hold : FloatEqLaws /\ FloatLtLaws.
Proof. exact (conj float_eq_laws float_lt_laws). Qed.
Print Assumptions C03_float_laws_hold.

(* ================================================================== *)
(* 7. Non-vacuity: 8 rows, NULL and missing group keys, 2 grouping      *)
(*    columns, groups with several members, WHERE + HAVING              *)
(* ================================================================== *)

Module Ex.
  Local Open Scope string_scope.
  Definition mk (g : option value) (h a b : value) : value :=
    VObj ([("a", a); ("b", b)] ++ (match g with Some v => [("g", v)] | None => [] end) ++ [("h", h)]).
  Definition t8 : list value :=
    [ mk (Some (VStr "x")) (VNum 1) (VNum 10) (VNum 1);
      mk (Some (VStr "y")) (VNum 1) (VNum 20) (VNum 2);
      mk (Some (VStr "x")) (VNum 1) VNull (VNum 3);
      mk (Some VNull) (VNum 2) (VNum 5) (VNum 4);
      mk None (VNum 2) (VNum 7) (VNum 5);
      mk (Some (VStr "y")) (VNum 1) (VNum (-1)) (VNum 6);
      mk (Some (VStr "x")) (VNum 2) (VNum 1) (VNum 7);
      mk (Some (VStr "x")) (VNum 1) (VNum 2) (VNum 8) ].
  (* SELECT g, h, COUNT( * ) n, SUM(a) sa, SUM(b) sb, MIN(a) mina, MAX(b) maxb, AVG(b) avgb
     FROM t WHERE b > 1 GROUP BY g, h HAVING COUNT( * ) > 1 *)
  Definition q : select stmt :=
    {| s_with := []; s_from := FTable ["t"] "";
       s_where := Some (ECmp OpGt (ECol ["b"]) (ENum 1));
       s_group := [gcol "g"; gcol "h"];
       s_having := Some (ECmp OpGt (EAgg ACount None) (ENum 1));
       s_items := [IExpr (ECol ["g"]) "g"; IExpr (ECol ["h"]) "h"; IExpr (EAgg ACount None) "n";
                   IExpr (EAgg ASum (Some ["a"])) "sa"; IExpr (EAgg ASum (Some ["b"])) "sb";
                   IExpr (EAgg AMin (Some ["a"])) "mina"; IExpr (EAgg AMax (Some ["b"])) "maxb";
                   IExpr (EAgg AAvg (Some ["b"])) "avgb"];
       s_distinct := false; s_order := []; s_limit := None; s_offset := None |}.
  (* SELECT COUNT( * ) n, SUM(a) sa, SUM(b) sb FROM t WHERE b > 100 *)
  Definition q0 : select stmt :=
    {| s_with := []; s_from := FTable ["t"] "";
       s_where := Some (ECmp OpGt (ECol ["b"]) (ENum 100));
       s_group := []; s_having := None;
       s_items := [IExpr (EAgg ACount None) "n"; IExpr (EAgg ASum (Some ["a"])) "sa";
                   IExpr (EAgg ASum (Some ["b"])) "sb"];
       s_distinct := false; s_order := []; s_limit := None; s_offset := None |}.
  Definition ctx0 := {| c_data := [("t", VArr t8)]; c_ctes := []; c_busy := []; c_up := [] |}.
  Definition norec : qctx -> job -> res value := fun _ _ => OutOfModel.
  Definition passes (r : value) : bool :=
    match column "b" r with VNum b => PrimFloat.ltb 1 b | _ => false end.
End Ex.

(* the table is in scope and groups as the specification says: 4 groups of 3, 2, 2 and 1 members;
   the row whose g is missing joins the group of the row whose g is null *)
Example C03_nonvacuous_groups :
  rows_ok [gcol "g"; gcol "h"]%string Ex.t8 = true /\
  group_rows [gcol "g"; gcol "h"]%string Ex.t8 [] = Ok (group_spec [gcol "g"; gcol "h"]%string Ex.t8) /\
  map (fun g => (fst g, List.length (snd g))) (group_spec [gcol "g"; gcol "h"]%string Ex.t8) =
    [ ([("g", VStr "x"); ("h", VNum 1)], 3); ([("g", VStr "y"); ("h", VNum 1)], 2);
      ([("g", VNull); ("h", VNum 2)], 2); ([("g", VStr "x"); ("h", VNum 2)], 1) ]%string%nat.
Proof. vm_compute. repeat split. Qed.

(* the premises of C03_grouped_query are met by a query with WHERE and HAVING, and its result is
   what SQL says: the first row fails WHERE, group (x,2) fails HAVING, SUM(a) skips the NULL,
   SUM(a) <> SUM(b) *)
Example C03_nonvacuous_query :
  where_ok (mk_env Ex.norec no_call no_join Ex.ctx0 Ex.q []) Ex.q Ex.passes Ex.t8 /\
  rows_ok [gcol "g"; gcol "h"]%string (filter Ex.passes Ex.t8) = true /\
  forallb simple_item (s_items Ex.q) = true /\
  List.length (filter Ex.passes Ex.t8) = 7%nat /\
  run_select Ex.norec no_call no_join Ex.ctx0 Ex.q (Some Ex.t8) =
  Ok (VArr
    [VObj [("avgb", VNum 4); ("g", VStr "y"); ("h", VNum 1); ("maxb", VNum 6); ("mina", VNum (-1));
           ("n", VNum 2); ("sa", VNum 19); ("sb", VNum 8)];
     VObj [("avgb", VNum 5.5); ("g", VStr "x"); ("h", VNum 1); ("maxb", VNum 8); ("mina", VNum 2);
           ("n", VNum 2); ("sa", VNum 2); ("sb", VNum 11)];
     VObj [("avgb", VNum 4.5); ("g", VNull); ("h", VNum 2); ("maxb", VNum 5); ("mina", VNum 5);
           ("n", VNum 2); ("sa", VNum 12); ("sb", VNum 9)]])%string.
Proof.
  split.
  - intros r Hr. cbn [Ex.t8 In] in Hr.
    repeat (destruct Hr as [<-|Hr]; [eexists; split; [reflexivity|vm_compute; reflexivity]|]).
    destruct Hr.
  - vm_compute. repeat split.
Qed.

(* whole-table aggregate when no row passes WHERE: one row, COUNT 0, SUMs NULL *)
Example C03_nonvacuous_whole_table_empty :
  run_select Ex.norec no_call no_join Ex.ctx0 Ex.q0 (Some Ex.t8) =
  Ok (VArr [VObj [("n", VNum 0); ("sa", VNull); ("sb", VNull)]])%string.
Proof. vm_compute. reflexivity. Qed.

(* ================================================================== *)
(* 8. Non-vacuity for path keys: GROUP BY `owner.team`, `tags[0]`       *)
(* ================================================================== *)

Module ExP.
  Local Open Scope string_scope.
  Definition owner_team : gkey := ("owner.team", [KKey "owner"; KKey "team"]).
  Definition tags0 : gkey := ("tags[0]", [KKey "tags"; KIdx 0]).
  Definition tags1 : gkey := ("tags[1]", [KKey "tags"; KIdx 1]).
  Definition row (id : Z) (owner tags : option value) : value :=
    VObj ([("id", VNum (float_of_Z id))] ++ (match owner with Some v => [("owner", v)] | None => [] end)
          ++ (match tags with Some v => [("tags", v)] | None => [] end)).
  (* owner: object with team / NULL / missing / object without team; tags: arrays of 1-2, NULL, missing *)
  Definition t6 : list value :=
    [ row 1 (Some (VObj [("team", VStr "red")])) (Some (VArr [VStr "a"; VStr "b"]));
      row 2 (Some (VObj [("team", VStr "blue")])) (Some (VArr [VStr "a"]));
      row 3 (Some VNull) (Some VNull);
      row 4 None None;
      row 5 (Some (VObj [("team", VStr "red")])) (Some (VArr [VStr "c"; VStr "b"]));
      row 6 (Some (VObj [("other", VNum 1)])) (Some (VArr [VNull; VStr "b"])) ].
  Definition ids (g : list (string * value) * list value) := (fst g, map (column "id") (snd g)).
  (* a row whose owner is a string; a row whose tags array is too short for [1] *)
  Definition scalar_owner : value := row 7 (Some (VStr "nobody")) (Some (VArr [VStr "a"; VStr "b"])).
  Definition q (c : gkey) : select stmt :=
    {| s_with := []; s_from := FTable ["t"] ""; s_where := None; s_group := [c]; s_having := None;
       s_items := [IExpr (EAgg ACount None) "n"]; s_distinct := false; s_order := []; s_limit := None;
       s_offset := None |}.
  Definition ctx (rows : list value) :=
    {| c_data := [("t", VArr rows)]; c_ctes := []; c_busy := []; c_up := [] |}.
End ExP.

(* `owner.team`: red {1,5}, blue {2}, and ONE group for NULL owner, missing owner, owner without team {3,4,6};
   `tags[0]`: a {1,2}, NULL {3,4,6} (NULL tags, missing tags, NULL element), c {5} *)
Example C03_nonvacuous_path_groups :
  rows_ok [ExP.owner_team] ExP.t6 = true /\ rows_ok [ExP.tags0] ExP.t6 = true /\
  group_rows [ExP.owner_team] ExP.t6 [] = Ok (group_spec [ExP.owner_team] ExP.t6) /\
  map ExP.ids (group_spec [ExP.owner_team] ExP.t6) =
    [ ([("owner.team", VStr "red")], [VNum 1; VNum 5]); ([("owner.team", VStr "blue")], [VNum 2]);
      ([("owner.team", VNull)], [VNum 3; VNum 4; VNum 6]) ]%string%float /\
  map ExP.ids (group_spec [ExP.tags0] ExP.t6) =
    [ ([("tags[0]", VStr "a")], [VNum 1; VNum 2]); ([("tags[0]", VNull)], [VNum 3; VNum 4; VNum 6]);
      ([("tags[0]", VStr "c")], [VNum 5]) ]%string%float.
Proof. vm_compute. repeat split. Qed.

(* the premises of C03_unreadable_key_is_refused are met: `tags[1]` over t6 is stuck at row 2 (array of one),
   `owner.team` over t6 followed by a row whose owner is a string is stuck there; the whole query fails *)
Example C03_nonvacuous_refused :
  rows_ok [ExP.tags1] (firstn 1 ExP.t6) = true /\
  path_stuck (gk_path ExP.tags1) (nth 1 ExP.t6 VNull) = true /\
  run_select Ex.norec no_call no_join (ExP.ctx ExP.t6) (ExP.q ExP.tags1) (Some ExP.t6) = Err /\
  rows_ok [ExP.owner_team] ExP.t6 = true /\
  path_stuck (gk_path ExP.owner_team) ExP.scalar_owner = true /\
  run_select Ex.norec no_call no_join (ExP.ctx (ExP.t6 ++ [ExP.scalar_owner])) (ExP.q ExP.owner_team)
    (Some (ExP.t6 ++ [ExP.scalar_owner])) = Err /\
  run_select Ex.norec no_call no_join (ExP.ctx ExP.t6) (ExP.q ExP.owner_team) (Some ExP.t6) =
    Ok (VArr [VObj [("n", VNum 2)]; VObj [("n", VNum 1)]; VObj [("n", VNum 3)]])%string%float.
Proof. vm_compute. repeat split. Qed.
