(* Properties/C16.v — Sanitized parameters are injection-safe for the library's own parser
   (claims only; proofs in Proofs/C16*.v).

   Two lexers are involved: the sanitizer's (Model/Sanitizer.v: [lex], [sanitize], [quote_string],
   model of /repo/sanitizer/sanitizer.go after the repairs in fixes/C16) and the consumer's
   (Model/MySqlString.v: [mysql_scan_string], [mstep]/[mmodes]/[mysql_mode], transcription of
   sqlparser's MySQL-dialect token.go).  Every theorem quantifies over ARBITRARY byte strings. *)
From Coq Require Import SpecFloat.
From GenqlV Require Import Base.Prelude Base.Fmt Model.MySqlString Model.Sanitizer Spec.C16Spec
  Proofs.C16Quote Proofs.C16SimA Proofs.C16SimB Proofs.C16Pos Proofs.C16Tokens Proofs.C16Errors
  Proofs.C16ShapeA Proofs.C16ShapeB Proofs.C16ShapeC Proofs.C16ShapeD Proofs.C16ShapeE.
Local Open Scope string_scope.

(* ------------------------------------------------------------------------------------------
   1. The heart: the text written for a string argument is scanned back by the consumer as ONE
      string token whose value is EXACTLY the argument, and the scanner stops exactly at its end
      -- for every byte string (quotes, backslashes, NUL, newlines, comment introducers,
      multi-byte runes, invalid UTF-8, keywords are just bytes). *)
Theorem C16_string_roundtrip : forall (s rest : bytes),
  nxt_is rest c_sq = false ->                       (* the text after it does not start with a quote *)
  mysql_scan_string (quote_string s ++ rest) = Some (s, rest).
Proof. exact string_roundtrip. Qed.
Print Assumptions C16_string_roundtrip.

(* the pinned QuoteString (single quotes doubled, backslashes left alone) fails it:
   witness  \' OR 1=1 --   (defect D36) *)
Theorem C16_pinned_refuted :
  exists s rest, nxt_is rest c_sq = false /\
    mysql_scan_string (pinned_quote_string s ++ rest) <> Some (s, rest).
Proof. exact pinned_quote_refuted. Qed.
Print Assumptions C16_pinned_refuted.

(* the same literal at the level of lexical modes: its first byte starts a token, every other byte
   is inside the string, and the byte after it is lexed from a fresh token boundary *)
Theorem C16_string_token : forall s rest,
  nxt_is rest c_sq = false ->
  mmodes MDef (quote_string s ++ rest) =
  (lit_modes (InStr c_sq) (quote_string s) ++ mmodes MDef rest)%list.
Proof. exact string_token. Qed.
Print Assumptions C16_string_token.

(* ------------------------------------------------------------------------------------------
   2. Numbers, booleans, NULL.  strconv.FormatInt always, and the model of
      strconv.FormatFloat(x,'f',-1,64) wherever it is defined (Err for NaN/Inf after D53), produce
      a text  -?digits[.digits]  ... *)
Theorem C16_int_text : forall z, num_text (Z_to_dec z) = true.
Proof. exact int_text_is_number. Qed.
Print Assumptions C16_int_text.

Theorem C16_float_text : forall f s, fmt_f f = Ok s -> num_text s = true.
Proof. exact float_text_is_number. Qed.
Print Assumptions C16_float_text.

(* ... and such a text is one number token (preceded by a one-byte minus operator when negative) *)
Theorem C16_number_token : forall s rest,
  num_text s = true -> lit_follow_ok rest = true ->
  mmodes MDef (s ++ rest) = (lit_modes InWord s ++ mmodes MDef rest)%list.
Proof. exact number_token. Qed.
Print Assumptions C16_number_token.

(* the hazard of "3-$1" with a negative argument ("3--5"): a minus sign directly before the
   literal's own minus sign is an operator, not the opener of a "-- " comment, because the byte
   after the two minus signs is a digit and the consumer requires a blank there *)
Theorem C16_number_no_comment : forall b rest,
  num_body b = true -> step_def "-" (String "-" (b ++ rest)) = MDef.
Proof. exact minus_minus_number. Qed.
Print Assumptions C16_number_no_comment.

Theorem C16_bool_null_token : forall kw rest,
  (kw = "null" \/ kw = "true" \/ kw = "false") -> lit_follow_ok rest = true ->
  mmodes MDef (kw ++ rest) = (lit_modes InWord kw ++ mmodes MDef rest)%list.
Proof. exact keyword_token. Qed.
Print Assumptions C16_bool_null_token.

(* ------------------------------------------------------------------------------------------
   3. The two lexers agree about where a placeholder is.  [rel] (Proofs/C16SimA.v) relates the
      state of the sanitizer's lexer to the state of the consumer's tokenizer; one byte of a
      well-formed template preserves it ... *)
Theorem C16_lexer_simulation : forall prev s m c rest,
  rel s m (String c rest) = true -> wf_at prev m c rest = true ->
  rel (snext s c rest) (mstep m c rest) rest = true.
Proof. exact step_sim. Qed.
Print Assumptions C16_lexer_simulation.

(* ... hence, for every well-formed template, the sanitizer substitutes "$n" exactly at the offsets
   where the consumer's tokenizer is in Default mode and the text reads "$digit": "$n" inside
   '..', "..", `..`, -- .., # .., // .., /* .. */ is left alone, and every "$n" outside them is a
   placeholder.  [lex_placeholders] is [lex] instrumented with the offset of each '$'; the
   second conjunct ties it to the PArg parts of [lex] itself. *)
Theorem C16_placeholder_positions : forall t,
  wf_template t ->
  map fst (lex_placeholders t) = mysql_placeholder_offsets t /\
  map (fun p => PArg (snd p)) (lex_placeholders t) = filter is_parg (lex t).
Proof. exact placeholder_positions. Qed.
Print Assumptions C16_placeholder_positions.

Theorem C16_placeholder_positions_iff : forall t o,
  wf_template t ->
  (In o (map fst (lex_placeholders t)) <-> mysql_mode t o = Some Default /\ ph_at t o = true).
Proof. exact placeholder_positions_iff. Qed.
Print Assumptions C16_placeholder_positions_iff.

(* ------------------------------------------------------------------------------------------
   4. Shape: argument content can neither add, remove nor alter tokens.

   C16_shape (full statement): for a well-formed template and arguments of the supported types,
   the consumer's token stream of the sanitized text is the token stream of the template in which
   every placeholder token "$n" is replaced by the literal token(s) denoting argument n, and
   every other token is byte-for-byte the same.  [shape_ok] (Spec/C16Spec.v) is exactly the
   specification the correspondence check evaluates on the real output: it walks
   [mysql_tokens t] and [mysql_tokens out] side by side; at a "$n" token it demands, by
   [eat_literal], one string token whose scanned value ([mysql_scan_string]) is the argument, or
   the decimal text of the integer (a "-" token first when negative), or a number token with the
   float's text, or null / true / false.  [sarg_of] (Proofs/C16ShapeD.v) maps an argument to what
   the specification expects (for a float: sign and the text of Model/Sanitizer.fmt_f).
   Unsupported arguments make sanitize_sql fail, so "= Ok out" covers "supported types". *)
Theorem C16_shape : forall t args out,
  wf_template t -> sanitize_sql t args = Ok out ->
  shape_ok t (map sarg_of args) out = true.
Proof. exact shape_tokens. Qed.
Print Assumptions C16_shape.

(* the same at the level of lexical modes, with the witness made explicit: template and output are
   the concatenation of the same chunks (Proofs/C16ShapeC.v: raw text r with the modes ms of its
   bytes | placeholder "$ds" with its argument a and the text txt written for it); every raw byte
   has the SAME mode in the template and in the output, a placeholder is one word token in the
   template and [lit_modes] of its literal in the output -- no argument opens or closes a mode. *)
Theorem C16_shape_modes : forall t args out,
  wf_template t -> sanitize_sql t args = Ok out ->
  exists cs, t = tmpl_of cs /\ out = out_of cs /\
             mmodes MDef t = tmodes_of cs /\ mmodes MDef out = omodes_of cs /\
             Forall (chunk_ok args) cs.
Proof. exact shape_modes. Qed.
Print Assumptions C16_shape_modes.

(* the two ingredients stated on their own (they were the partial result before C16_shape was
   finished): what a successful Sanitize returns, and one literal = one token in any context *)
Theorem C16_shape_partial_text : forall parts args out,
  sanitize parts args = Ok out -> render parts args = Some out.
Proof. exact sanitize_ok_text. Qed.
Print Assumptions C16_shape_partial_text.

Theorem C16_shape_partial : forall a txt rest,
  fmt_arg a = Ok txt -> lit_follow_ok rest = true ->
  mmodes MDef (txt ++ rest) = (lit_modes (inner_mode a) txt ++ mmodes MDef rest)%list.
Proof. exact literal_is_one_token. Qed.
Print Assumptions C16_shape_partial.

(* ------------------------------------------------------------------------------------------
   5. Errors, never panics: the whole sanitizer is total on arbitrary templates and arguments *)
Theorem C16_errors_total : forall t args, sanitize_sql t args <> Panic.
Proof. exact sanitize_sql_total. Qed.
Print Assumptions C16_errors_total.

(* a successful call implies: every placeholder number is within 1..len(args), its argument has
   a supported type (finite if a float), and every argument is used *)
Theorem C16_ok_accounting : forall parts args out,
  sanitize parts args = Ok out ->
  (forall n, In (PArg n) parts ->
     (0 <= wrap64 (n - 1) < zlen args)%Z /\
     exists a, nth_error args (Z.to_nat (wrap64 (n - 1))) = Some a /\ is_ok (fmt_arg a) = true) /\
  (forall j, (j < List.length args)%nat -> exists n, In (PArg n) parts /\ Z.to_nat (wrap64 (n - 1)) = j).
Proof. exact sanitize_ok_inv. Qed.
Print Assumptions C16_ok_accounting.

Theorem C16_dollar_zero_is_error : forall parts args n,
  In (PArg n) parts -> (-9223372036854775807 <= n <= 0)%Z ->
  is_ok (sanitize parts args) = false /\ sanitize parts args <> Panic.
Proof. exact dollar_zero_is_error. Qed.
Print Assumptions C16_dollar_zero_is_error.

Theorem C16_missing_argument_is_error : forall parts args n,
  In (PArg n) parts -> (zlen args < n < 9223372036854775808)%Z ->
  is_ok (sanitize parts args) = false /\ sanitize parts args <> Panic.
Proof. exact missing_argument_is_error. Qed.
Print Assumptions C16_missing_argument_is_error.

Theorem C16_unused_argument_is_error : forall parts args j,
  (j < List.length args)%nat -> (forall n, In (PArg n) parts -> Z.to_nat (wrap64 (n - 1)) <> j) ->
  is_ok (sanitize parts args) = false /\ sanitize parts args <> Panic.
Proof. exact unused_argument_is_error. Qed.
Print Assumptions C16_unused_argument_is_error.

Theorem C16_unsupported_argument_is_error : forall parts args n a,
  In (PArg n) parts -> nth_error args (Z.to_nat (wrap64 (n - 1))) = Some a ->
  (a = AOther \/ a = AFloat S754_nan \/ exists s, a = AFloat (S754_infinity s)) ->
  is_ok (sanitize parts args) = false /\ sanitize parts args <> Panic.
Proof. exact unsupported_argument_is_error. Qed.
Print Assumptions C16_unsupported_argument_is_error.

(* the pinned Sanitize indexes args[-1] on "$0" (defect D37) *)
Theorem C16_pinned_dollar_zero_refuted :
  exists t args, pinned_sanitize (lex t) args = Panic /\ sanitize_sql t args = Err.
Proof. exact pinned_dollar_zero_panics. Qed.
Print Assumptions C16_pinned_dollar_zero_refuted.

(* ------------------------------------------------------------------------------------------
   Non-vacuity: a template with decoys in every kind of quoted / comment region is well-formed,
   its placeholders are found where they should be, and the injection string round-trips. *)
Example C16_nonvacuous :
  let t := "SELECT 'a\'$1' AS x, ""q$2"", `c$2`, $1 AS v FROM t WHERE n = $2 AND m IN ($1,-1.5e-3) /* $3 */ -- $4" in
  wf_templateb t = true /\
  lex_placeholders t = [(35%nat, 1%Z); (60%nat, 2%Z); (73%nat, 1%Z)] /\
  mysql_placeholder_offsets t = [35%nat; 60%nat; 73%nat] /\
  sanitize_sql t [AStr "\' OR 1=1 -- "; AInt (-5)] =
    Ok "SELECT 'a\'$1' AS x, ""q$2"", `c$2`, '\\'' OR 1=1 -- ' AS v FROM t WHERE n = -5 AND m IN ('\\'' OR 1=1 -- ',-1.5e-3) /* $3 */ -- $4" /\
  mysql_scan_string (quote_string "\' OR 1=1 -- " ++ " AS v") = Some ("\' OR 1=1 -- ", " AS v") /\
  sanitize_sql "SELECT $0" [AStr "x"] = Err /\
  sanitize_sql "SELECT $2" [AStr "x"] = Err /\
  sanitize_sql "SELECT $1" [AStr "x"; AStr "y"] = Err /\
  sanitize_sql "SELECT $1" [AOther] = Err /\
  sanitize_sql "SELECT $1" [AFloat S754_nan] = Err.
Proof. vm_compute. repeat split. Qed.

(* non-vacuity of C16_shape: its hypotheses hold for that template with a hostile string, a
   negative integer and a float, and the conclusion is the computed token-level comparison *)
Example C16_shape_nonvacuous :
  let t := "SELECT 'a\'$1' AS x, `c$2`, $1 AS v FROM t WHERE n = 3-$2 AND m < $3 /* $3 */ -- $4" in
  let args := [AStr "\' OR 1=1 -- "; AInt (-5); AFloat (S754_finite true 3 (-1))] in
  wf_templateb t = true /\
  sanitize_sql t args =
    Ok "SELECT 'a\'$1' AS x, `c$2`, '\\'' OR 1=1 -- ' AS v FROM t WHERE n = 3--5 AND m < -1.5 /* $3 */ -- $4" /\
  map sarg_of args = [SStr "\' OR 1=1 -- "; SInt (-5); SFloatText true "1.5"] /\
  mysql_tokens "SELECT $1 AS v, 3--5" = ["SELECT"; "$1"; "AS"; "v"; ","; "3"; "-"; "-"; "5"].
Proof. vm_compute. repeat split. Qed.
