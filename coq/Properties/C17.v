(* Properties/C17.v — Dialect options rewrite only syntax and preserve query meaning
   (claims only; proofs in Proofs/C17Scan.v, C17Arrays.v, C17Lemmas.v).

   Model: Model/Processors.v (index/fuel loops of processors.go with panicking primitives, and the
   option prefix of plsql.go New).  Spec: Spec/LexDoc.v (lexical documents and their spellings).
   All theorems quantify over documents / byte strings of any length and any bracket depth. *)
From GenqlV Require Import Base.Prelude Base.Value Model.Processors Spec.LexDoc
  Proofs.C17Scan Proofs.C17Arrays Proofs.C17Lemmas.
Local Open Scope string_scope.

(* PostgresEscapingDialect: the PG spelling of a well-formed document is rewritten to exactly its
   MySQL spelling: DQ identifiers change their quotes, every byte of Raw / SQ / BT segments (any
   double quotes, brackets, backslashes inside them) is copied.  Holds for either bracket style. *)
Theorem C17_quotes : forall a d, wf_quotes d = true ->
  DoubleQuotesToBackTick (render PG a d) = Ok (render MY a d).
Proof. exact quotes_correct. Qed.
Print Assumptions C17_quotes.

(* in the names of DESIGN.md *)
Corollary C17_quotes_pg_my : forall d, wf_quotes d = true ->
  DoubleQuotesToBackTick (render_pg d) = Ok (render_my d).
Proof. exact (quotes_correct Idiom). Qed.
Print Assumptions C17_quotes_pg_my.

(* a query without double-quoted identifiers is not changed at all *)
Theorem C17_quotes_identity : forall a d, wf_quotes d = true -> has_dq d = false ->
  DoubleQuotesToBackTick (render PG a d) = Ok (render PG a d).
Proof. exact quotes_identity. Qed.
Print Assumptions C17_quotes_identity.

(* IdiomaticArrays: for balanced brackets of ANY nesting depth the idiomatic spelling is rewritten to
   exactly the ARRAY() spelling; brackets inside SQ / BT / DQ bodies are left alone.  Holds for the
   text as New hands it over (q = MY, after the quote rewrite) and for text that still carries
   double quotes (q = PG: IdiomaticArrays used alone, double-quoted MySQL strings). *)
Theorem C17_arrays : forall q d, wf_arrays q d = true -> balanced d = true ->
  FixIdiomaticArray (render q Idiom d) = Ok (render q Arr d).
Proof. intros q d H B. rewrite arrays_correct by exact H. rewrite B. reflexivity. Qed.
Print Assumptions C17_arrays.

Corollary C17_arrays_idiom_array : forall d, wf_arrays MY d = true -> balanced d = true ->
  FixIdiomaticArray (render_idiom d) = Ok (render_array d).
Proof. exact (C17_arrays MY). Qed.
Print Assumptions C17_arrays_idiom_array.

(* unbalanced brackets (too many closing ones at some point, or some still open at the end) are an
   error value, never a panic *)
Theorem C17_arrays_unbalanced_is_error : forall q d, wf_arrays q d = true -> balanced d = false ->
  FixIdiomaticArray (render q Idiom d) = Err.
Proof. intros q d H B. rewrite arrays_correct by exact H. rewrite B. reflexivity. Qed.
Print Assumptions C17_arrays_unbalanced_is_error.

(* on ARBITRARY byte strings neither rewriter (nor FindArrayIndex) panics or runs out of fuel:
   the result is a value or an error *)
Theorem C17_total : forall s : bytes,
  ok_or_err (DoubleQuotesToBackTick s) /\ ok_or_err (FindArrayIndex s) /\ ok_or_err (FixIdiomaticArray s).
Proof. intros s. repeat split; [apply dq_total|apply fai_total|apply fix_total]. Qed.
Print Assumptions C17_total.

(* ... and on ARBITRARY byte strings FixIdiomaticArray is exactly "every unquoted [ becomes ARRAY(,
   every unquoted ] becomes ), provided they balance" — although FindArrayIndex pairs the k-th [
   with the k-th ] (its stack is popped from the front), the offset arithmetic comes out right *)
Theorem C17_arrays_every_input : forall s : bytes,
  FixIdiomaticArray s =
    let m := fa_marks repaired None (list_of_bs s) in
    if dyck 0 m then Ok (bs_of_asciis (subst (list_of_bs s) m)) else Err.
Proof. exact fix_char. Qed.
Print Assumptions C17_arrays_every_input.

Theorem C17_find_ok_iff_fix_ok : forall s : bytes, is_ok (FindArrayIndex s) = is_ok (FixIdiomaticArray s).
Proof. exact fai_ok_iff. Qed.
Print Assumptions C17_find_ok_iff_fix_ok.

(* the pairs FindArrayIndex returns are NOT the nesting pairs (the outer bracket of [[1]] is paired
   with the inner closing one); processors_test.go pins this output, and by the theorem above the
   rewrite does not depend on it *)
Example C17_fifo_pairing : FindArrayIndex "[[1]]" = Ok [(0, 3); (1, 4)]%Z.
Proof. vm_compute. reflexivity. Qed.

(* both options: in the order New applies them, and in the other order, the text that reaches the
   parser is the canonical MySQL / ARRAY() spelling *)
Theorem C17_commute : forall d, wf d = true ->
  (let! t := DoubleQuotesToBackTick (render PG Idiom d) in FixIdiomaticArray t)
  = (let! t := FixIdiomaticArray (render PG Idiom d) in DoubleQuotesToBackTick t)
  /\ (let! t := DoubleQuotesToBackTick (render PG Idiom d) in FixIdiomaticArray t)
     = if balanced d then Ok (render MY Arr d) else Err.
Proof.
  intros d H. unfold wf in H. apply andb_prop in H. destruct H as [H H3].
  apply andb_prop in H. destruct H as [H1 H2].
  rewrite pipeline, pipeline_swapped by assumption. split; reflexivity.
Qed.
Print Assumptions C17_commute.

(* query meaning: whatever Parse/Build/Exec compute ([engine] is ANY function of the data and the
   text handed to the parser), the PG / idiomatic spelling under both options gives what the
   canonical spelling gives without them — because the parser receives equal strings *)
Theorem C17_meaning : forall (R : Type) (engine : value -> bytes -> res R) w data d,
  wf_quotes d = true -> wf_arrays MY d = true -> balanced d = true ->
  api_run engine (opts w true true) data (render PG Idiom d)
  = api_run engine (opts w false false) data (render MY Arr d).
Proof.
  intros R engine w data d H1 H2 H3. unfold api_run. rewrite (new_prepare_both w data d H1 H2 H3).
  reflexivity.
Qed.
Print Assumptions C17_meaning.

(* Wrapped(): exactly as if the caller had passed {"root": input}, for every other option, every
   query text and every engine *)
Theorem C17_wrapped : forall (R : Type) (engine : value -> bytes -> res R) p i data query,
  api_run engine (opts true p i) data query
  = api_run engine (opts false p i) (VObj [("root", data)]) query.
Proof. intros. apply wrapped_eq. Qed.
Print Assumptions C17_wrapped.

(* ------------------------------------------------------------------ *)
(* the pinned tree violates the property (each repaired by its own patch) *)
(* ------------------------------------------------------------------ *)

(* D25: unbalanced brackets panic *)
Theorem C17_pinned_d25_refuted :
  FixIdiomaticArray_f pinned "[1, 2" = Panic /\ FixIdiomaticArray_f pinned "1]" = Panic.
Proof. split; vm_compute; reflexivity. Qed.
Print Assumptions C17_pinned_d25_refuted.

Definition d47_doc : doc :=
  [Raw "SELECT a AS "; BT "a\"; Raw ", 1 AS "; BT "b[0]"; Raw " FROM t"].

(* D47: a backtick identifier ending in a backslash hides its closing backtick from FindArrayIndex;
   the brackets inside the NEXT backtick identifier are rewritten *)
Theorem C17_pinned_d47_refuted :
  exists d, wf_arrays MY d = true /\ balanced d = true /\
    FixIdiomaticArray_f pinned (render MY Idiom d) <> Ok (render MY Arr d) /\
    FixIdiomaticArray_f pinned (render MY Idiom d) = Ok "SELECT a AS `a\`, 1 AS `bARRAY(0)` FROM t".
Proof. exists d47_doc. repeat split; try (vm_compute; reflexivity). vm_compute. discriminate. Qed.
Print Assumptions C17_pinned_d47_refuted.

Definition d48_doc : doc := [Raw "SELECT a AS "; DQ "a`b"; Raw " FROM t"].

(* D48: a backtick inside a double-quoted identifier is copied as is, so the backtick identifier
   that comes out ends early *)
Theorem C17_pinned_d48_refuted :
  exists d, wf_quotes d = true /\
    DoubleQuotesToBackTick_f pinned (render PG Idiom d) <> Ok (render MY Idiom d).
Proof. exists d48_doc. split; [vm_compute; reflexivity|]. vm_compute. discriminate. Qed.
Print Assumptions C17_pinned_d48_refuted.

(* D49: bytes >= 0x80 are re-encoded (WriteRune of a byte): the two UTF-8 bytes of e-acute inside a
   string literal come out as four bytes *)
Theorem C17_pinned_d49_refuted :
  exists d, wf_quotes d = true /\ has_dq d = false /\
    DoubleQuotesToBackTick_f pinned (render PG Idiom d) <> Ok (render PG Idiom d).
Proof.
  exists [Raw "SELECT "; SQ (bs_of_list [195; 169]%nat); Raw " FROM t"].
  repeat split; try (vm_compute; reflexivity). vm_compute. discriminate.
Qed.
Print Assumptions C17_pinned_d49_refuted.

(* ------------------------------------------------------------------ *)
(* non-vacuity: a document with every segment kind, every delimiter inside every kind of body,  *)
(* bracket depth 3, is well-formed and balanced, and the theorems compute on it                 *)
(* ------------------------------------------------------------------ *)

Definition ex_doc : doc :=
  [Raw "SELECT "; Open; Raw "1, "; Open; SQ "it''s \' ] "" ` [";  Raw ", "; Open;
   BT "c ] "" ' \ `` ["; Close; Close; Raw ", "; DQ "q "" ] ' \x ` ["; Close;
   Raw " AS "; DQ "v"; Raw " FROM "; BT "t"].

Example C17_nonvacuous :
  wf ex_doc = true /\ balanced ex_doc = true /\ max_depth 0 ex_doc = 3%nat /\ has_dq ex_doc = true /\
  render PG Idiom ex_doc
    = "SELECT [1, ['it''s \' ] "" ` [', [`c ] "" ' \ `` [`]], ""q \"" ] ' \x ` [""] AS ""v"" FROM `t`" /\
  DoubleQuotesToBackTick (render PG Idiom ex_doc) = Ok (render MY Idiom ex_doc) /\
  FixIdiomaticArray (render MY Idiom ex_doc)
    = Ok "SELECT ARRAY(1, ARRAY('it''s \' ] "" ` [', ARRAY(`c ] "" ' \ `` [`)), `q "" ] ' \x `` [`) AS `v` FROM `t`".
Proof. repeat split; vm_compute; reflexivity. Qed.
