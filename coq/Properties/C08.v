(* Properties/C08.v — a multi-dimensional FROM applies the query inside every inner array
   (claims only; proofs in Proofs/C08Lemmas.v and C08Examples.v).

   Vocabulary.  [copy_query s]: the query CopyQuery builds for an inner array.  [simple s]: no GROUP BY,
   not an all-aggregate select list, no DISTINCT / ORDER BY / LIMIT / OFFSET at the level that sees the
   inner arrays (a "filter/projection query"; the inner copies keep whatever clauses they have).
   [plain_query s]: WHERE and the select list contain no aggregate and no subquery.
   [flat rows]: a table proper (no row is an array).  [nested_result direct src out] (Spec/NestedSpec.v):
   [out] has the nesting of [src] and every innermost table is replaced by the query's result on it.
   [leaves]: every level flattened.  [converges ctx s rows out]: for every sufficiently large fuel the
   interpreter returns [out] for [s] over the resolved rows [rows]; [stmt_converges]: the same for a
   whole statement, FROM resolution included.

   Selector sources (section "a FROM that is a selector", proofs in Proofs/C08Sel.v).  [FSel a ""]: the table
   name is the text of the selector [a] (brackets, keep=>, each, ranges, pipes, `::`, fn=>); the engine model
   resolves it with the C09 reader model.  [sel_sem top_level a doc]: the README denotation of [a]
   (Spec/SelectorSpec.v); [wf_sel]: the documented grammar; [sel_src_ok ctes a]: the first step of [a] is a
   key (or a pipe over keys) of the document that is neither `<-` nor a registered CTE; [mixed a]: a::mix=> ;
   [mix_first steps]: mix=>steps.  The theorems about resolved rows (C08_copy_preserves … C08_mix_concat)
   do not mention the FROM clause: they hold for a query with any FROM, [FSel] included. *)
From Coq Require Import Floats.
From GenqlV Require Import Base.Prelude Base.Fmt Base.Value Model.Ast Model.Like Model.Num Model.Eval Model.Exec.
From GenqlV Require Import Spec.NestedSpec Proofs.C08Lemmas Proofs.C08Examples Run.EngineRun.
From GenqlV Require Model.SelReader Spec.SelectorSpec.
From GenqlV Require Import Proofs.C08Sel.

(* what the per-dimension copy carries (every clause run_select consults) and what it drops *)
Theorem C08_copy_preserves : forall s,
  s_from (copy_query s) = s_from s /\ s_where (copy_query s) = s_where s /\
  s_group (copy_query s) = s_group s /\ s_having (copy_query s) = s_having s /\
  s_items (copy_query s) = s_items s /\ s_order (copy_query s) = s_order s /\
  s_limit (copy_query s) = s_limit s /\ s_offset (copy_query s) = s_offset s /\
  s_distinct (copy_query s) = false /\ s_with (copy_query s) = [].
Proof. exact copy_query_fields. Qed.
Print Assumptions C08_copy_preserves.

(* ... so, for a query without DISTINCT, running the copy is running the query *)
Theorem C08_copy_runs_as_original : forall rec call join ctx s src,
  s_distinct s = false ->
  run_select rec call join ctx (copy_query s) src = run_select rec call join ctx s src.
Proof. exact run_copy_query. Qed.
Print Assumptions C08_copy_runs_as_original.

(* the row loop on an array of arrays is a map of the recursive call with the copied query *)
Theorem C08_row_loop_recurses : forall rec ctx s E inners,
  filter_rows rec ctx s E (map VArr inners) =
  mapM (fun inner => rec ctx (JRows (copy_query s) inner)) inners.
Proof. exact filter_rows_arrays. Qed.
Print Assumptions C08_row_loop_recurses.

(* one level, abstract interpreter [rec]: the result is the array of the inner results *)
Theorem C08_nested_map : forall rec call join ctx s inners outs,
  simple s = true ->
  Forall2 (fun inner out => rec ctx (JRows (copy_query s) inner) = Ok (VArr out)) inners outs ->
  run_select rec call join ctx s (Some (map VArr inners)) = Ok (VArr (map VArr outs)).
Proof. exact nested_map. Qed.
Print Assumptions C08_nested_map.

(* and nothing else can come out *)
Theorem C08_nested_map_inv : forall rec call join ctx s inners v,
  simple s = true ->
  (forall c s' r w, rec c (JRows s' r) = Ok w -> exists l, w = VArr l) ->
  run_select rec call join ctx s (Some (map VArr inners)) = Ok v ->
  exists outs, v = VArr (map VArr outs) /\
    Forall2 (fun inner out => rec ctx (JRows (copy_query s) inner) = Ok (VArr out)) inners outs.
Proof. exact nested_map_inv. Qed.
Print Assumptions C08_nested_map_inv.

(* one level, the real interpreter: each inner result is what the SAME query returns when run directly
   on that inner array (one unit of fuel less) *)
Theorem C08_nested_level : forall call join n ctx s inners outs,
  simple s = true ->
  Forall2 (fun inner out => exec call join (S n) ctx (JRows s inner) = Ok out) inners outs ->
  exec call join (S (S n)) ctx (JRows s (map VArr inners)) = Ok (VArr outs).
Proof. exact nested_level. Qed.
Print Assumptions C08_nested_level.

(* any depth, ragged, empty inner arrays, siblings of different depth *)
Theorem C08_nested_any_depth : forall call join ctx s,
  simple s = true ->
  forall src out,
    nested_result (converges call join ctx s) src out -> converges call join ctx s src out.
Proof. exact nested_any_depth. Qed.
Print Assumptions C08_nested_any_depth.

(* for filter/projection queries over a table proper the fuel plays no role at all *)
Theorem C08_flat_fuel_irrelevant : forall call join rec1 rec2 ctx s rows,
  simple s = true -> plain_query s = true -> flat rows = true ->
  run_select rec1 call join ctx s (Some rows) = run_select rec2 call join ctx s (Some rows).
Proof. exact run_flat_rec_irrelevant. Qed.
Print Assumptions C08_flat_fuel_irrelevant.

(* mix=> returns the leaves, left to right *)
Theorem C08_mix_flattens : forall v, mix_array v = leaves v.
Proof. exact mix_array_leaves. Qed.
Print Assumptions C08_mix_flattens.

(* filter and projection commute with concatenation *)
Theorem C08_run_append : forall call join rec ctx s,
  simple s = true -> plain_query s = true ->
  forall r1 r2 o,
    run_select rec call join ctx s (Some (r1 ++ r2)) = Ok (VArr o) <->
    exists o1 o2, run_select rec call join ctx s (Some r1) = Ok (VArr o1) /\
                  run_select rec call join ctx s (Some r2) = Ok (VArr o2) /\ o = o1 ++ o2.
Proof. exact run_app. Qed.
Print Assumptions C08_run_append.

(* querying the flattened source once returns the concatenation of the inner results (any depth) *)
Theorem C08_mix_concat : forall call join ctx s,
  simple s = true -> plain_query s = true ->
  forall src o,
    concat_result (converges call join ctx s) src o ->
    converges call join ctx s (mix_array (VArr src)) (VArr o).
Proof. exact mix_concat. Qed.
Print Assumptions C08_mix_concat.

(* the property as stated, for the two SQL statements: FROM path gives the nested result [out],
   FROM mix=>path gives the leaves of [out] *)
Theorem C08_nested_and_mix_statements : forall call join ctx s k rest src out,
  simple s = true -> plain_query s = true ->
  s_with s = [] -> s_from s = FTable (k :: rest) "" ->
  cte_lookup k (c_ctes ctx) = None ->
  up_read ctx (k :: rest) = None ->     (* the path meets no CTE thunk of an enclosing query behind `<-` *)
  reader (k :: rest) (VObj (c_data ctx)) = Ok (VArr src) ->
  nested_result (converges call join ctx s) src out ->
  stmt_converges call join ctx (SSelect s) out /\
  stmt_converges call join ctx (SSelect (with_from (FTableFn "mix" (k :: rest) "") s)) (VArr (leaves out)).
Proof. exact nested_and_mix_statements. Qed.
Print Assumptions C08_nested_and_mix_statements.

(* ---------------- a FROM that is a selector ---------------- *)

(* the source rows of FROM `sel` are what ExecReader resolves the text to (C09 model), for ANY selector text the
   guard admits: no alias, the result an array *)
Theorem C08_selector_source_rows : forall rec join ctx a src,
  sel_visible (c_ctes ctx) (SelectorSpec.print_sel a) = true ->
  SelReader.exec_reader (VObj (c_data ctx)) (SelectorSpec.print_sel a) = Ok (VArr src) ->
  build_from rec join ctx (FSel a "") = Ok (Some src).
Proof. exact build_from_sel. Qed.
Print Assumptions C08_selector_source_rows.

(* the property for a selector source: FROM `sel` gives the nested result [out] over the array of arrays the
   selector DENOTES, FROM `sel::mix=>` gives the leaves of [out] *)
Theorem C08_selector_source_statements : forall call join ctx s a src out,
  simple s = true -> plain_query s = true ->
  s_with s = [] -> s_from s = FSel a "" ->
  SelectorSpec.wf_sel a = true -> SelectorSpec.print_sel a <> "dual"%string ->
  sel_src_ok (c_ctes ctx) a = true ->
  SelectorSpec.sel_sem SelReader.top_level a (VObj (c_data ctx)) = Ok (VArr src) ->
  nested_result (converges call join ctx s) src out ->
  stmt_converges call join ctx (SSelect s) out /\
  stmt_converges call join ctx (SSelect (with_from (FSel (mixed a) "") s)) (VArr (leaves out)).
Proof. exact selector_source_statements. Qed.
Print Assumptions C08_selector_source_statements.

(* the function written on the selector itself: FROM `mix=>steps` gives the leaves of what FROM `steps` gives *)
Theorem C08_selector_mix_first_statement : forall call join ctx s steps src out,
  simple s = true -> plain_query s = true ->
  s_with s = [] ->
  SelectorSpec.wf_sel (SelectorSpec.Path steps) = true ->
  sel_src_ok (c_ctes ctx) (SelectorSpec.Path steps) = true ->
  SelectorSpec.sel_sem SelReader.top_level (SelectorSpec.Path steps) (VObj (c_data ctx)) = Ok (VArr src) ->
  nested_result (converges call join ctx s) src out ->
  stmt_converges call join ctx (SSelect (with_from (FSel (mix_first steps) "") s)) (VArr (leaves out)).
Proof. exact selector_mix_first_statement. Qed.
Print Assumptions C08_selector_mix_first_statement.

(* the two models of MixArray (engine model, C09 reader model) are one function *)
Theorem C08_selector_mix_agrees : forall l, SelReader.mix_array l = mix_array (VArr l).
Proof. exact sel_mix_array. Qed.
Print Assumptions C08_selector_mix_agrees.

(* the repaired defect (D18): a copy that carries HAVING in the WHERE slot drops the filter below the
   first dimension *)
Theorem C08_pinned_copy_refuted :
  exists ctx s rows,
    run_select (fun _ _ => OutOfModel) no_call no_join ctx (pinned_copy s) (Some rows) <>
    run_select (fun _ _ => OutOfModel) no_call no_join ctx (copy_query s) (Some rows).
Proof.
  exists ex_ctx, ex_q, t1. destruct pinned_copy_differs as [H1 H2]. rewrite H1, H2. discriminate.
Qed.
Print Assumptions C08_pinned_copy_refuted.

(* ---------------- non-vacuity ---------------- *)

(* g = [[t1, []], [t3], [], t4] (depth 3, ragged, empty arrays, a shallower sibling);
   SELECT a, b+1 AS c FROM g WHERE a > 1 *)
Example C08_ex_in_scope : simple ex_q = true /\ plain_query ex_q = true.
Proof. exact query_in_scope. Qed.

Example C08_ex_nested_runs : run_model (false, ex_doc, SSelect ex_q) = Ok g_out.
Proof. exact nested_runs. Qed.

Example C08_ex_mix_runs :
  run_model (false, ex_doc, SSelect ex_q_mix) = Ok (leaves (VArr g_out)) /\
  leaves (VArr g_out) = [p 2 21; p 3 31; p 4 41; p 5 51].
Proof. exact mix_runs. Qed.

Example C08_ex_hypothesis_met :
  nested_result (converges no_call no_join ex_ctx ex_q) g_src (VArr g_out).
Proof. exact nested_hypothesis_met. Qed.

Example C08_ex_statements_converge :
  stmt_converges no_call no_join ex_ctx (SSelect ex_q) (VArr g_out) /\
  stmt_converges no_call no_join ex_ctx (SSelect ex_q_mix) (VArr (leaves (VArr g_out))).
Proof. exact statements_converge. Qed.

(* g[keep=>(0:2)] = [[t1, []], [t3]] : the same query over a selector source, flattened both ways *)
Example C08_ex_selector_in_scope :
  simple ex_q_sel = true /\ plain_query ex_q_sel = true /\ SelectorSpec.wf_sel ex_sel = true /\
  sel_src_ok (c_ctes ex_ctx) ex_sel = true /\
  SelectorSpec.sel_sem SelReader.top_level ex_sel (VObj (c_data ex_ctx)) = Ok (VArr sel_src).
Proof. exact sel_in_scope. Qed.

Example C08_ex_selector_runs :
  run_model (false, ex_doc, SSelect ex_q_sel) = Ok sel_out /\
  run_model (false, ex_doc, SSelect ex_q_sel_mixed) = Ok (leaves (VArr sel_out)) /\
  run_model (false, ex_doc, SSelect ex_q_sel_mix_first) = Ok (leaves (VArr sel_out)).
Proof. split; [exact sel_nested_runs|]. destruct sel_mix_runs as (H1 & H2 & _). split; assumption. Qed.

Example C08_ex_selector_statements_converge :
  stmt_converges no_call no_join ex_ctx (SSelect ex_q_sel) (VArr sel_out) /\
  stmt_converges no_call no_join ex_ctx (SSelect ex_q_sel_mixed) (VArr (leaves (VArr sel_out))) /\
  stmt_converges no_call no_join ex_ctx (SSelect ex_q_sel_mix_first) (VArr (leaves (VArr sel_out))).
Proof. exact sel_statements_converge. Qed.
