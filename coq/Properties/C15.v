(* Properties/C15.v — Value comparison is a coherent order (claims only; proofs in Proofs/C15Lemmas.v) *)
From Coq Require Import QArith.
From GenqlV Require Import Base.Prelude Model.Compare Spec.OrderSpec Proofs.C15Lemmas Proofs.C15Sym.
Local Open Scope Z_scope.

(* the result is only ever -1, 0 or 1 *)
Theorem C15_range : forall a b z, Compare a b = Ok z -> z = -1 \/ z = 0 \/ z = 1.
Proof. exact Compare_range. Qed.
Print Assumptions C15_range.

(* numbers of ANY two Go numeric kinds are ordered by their exact mathematical values:
   1 < 1.5 whether 1 arrives as int or float64, -1 < uint 1, ... *)
Theorem C15_numeric_exact : forall a b x y,
  num_val a = Some x -> num_val b = Some y -> num_pair_in_claim a b = true ->
  Compare a b = Ok (sgn_cmp (Qcompare x y)).
Proof. exact Compare_num_total. Qed.
Print Assumptions C15_numeric_exact.

Theorem C15_string_lex : forall s t, Compare (GStr s) (GStr t) = Ok (str_cmp s t).
Proof. exact Compare_str. Qed.
Print Assumptions C15_string_lex.

(* a number against a string: order of the number's %v text against the string, either way round *)
Theorem C15_mixed_text : forall a s t, is_num a = true -> fmt_gval a = Ok s ->
  Compare a (GStr t) = Ok (str_cmp s t) /\ Compare (GStr t) a = Ok (str_cmp t s).
Proof. exact Compare_num_str. Qed.
Print Assumptions C15_mixed_text.

Theorem C15_refl : forall a z, Compare a a = Ok z -> z = 0.
Proof. exact Compare_refl. Qed.
Print Assumptions C15_refl.

Theorem C15_antisym : forall a b x y, Compare a b = Ok x -> Compare b a = Ok y -> x = - y.
Proof. exact Compare_antisym. Qed.
Print Assumptions C15_antisym.

(* antisymmetry at full strength: whenever the comparison answers one way round it answers the
   other way round too, with the opposite sign — for ANY two values (numbers of any kinds, strings,
   booleans, NULL, mixed).  So a = b, a < b and a > b are each reported consistently whichever
   operand is on the left (filters, join keys, sort comparators and IN all rely on it). *)
Theorem C15_flip : forall a b x, Compare a b = Ok x -> Compare b a = Ok (- x).
Proof. exact Compare_flip. Qed.
Print Assumptions C15_flip.

Theorem C15_eq_sym : forall a b, Compare a b = Ok 0 -> Compare b a = Ok 0.
Proof. exact Compare_eq_sym. Qed.
Print Assumptions C15_eq_sym.

Theorem C15_lt_gt : forall a b, Compare a b = Ok (-1) <-> Compare b a = Ok 1.
Proof. exact Compare_lt_gt. Qed.
Print Assumptions C15_lt_gt.

Theorem C15_trans_num : forall a b c x y z,
  is_num a = true -> is_num b = true -> is_num c = true ->
  Compare a b = Ok x -> Compare b c = Ok y -> Compare a c = Ok z ->
  x <= 0 -> y <= 0 -> z <= 0.
Proof. exact Compare_trans_num. Qed.
Print Assumptions C15_trans_num.

Theorem C15_trans_str : forall s t u x y z,
  Compare (GStr s) (GStr t) = Ok x -> Compare (GStr t) (GStr u) = Ok y ->
  Compare (GStr s) (GStr u) = Ok z -> x <= 0 -> y <= 0 -> z <= 0.
Proof.
  intros s t u x y z H1 H2 H3. rewrite Compare_str in H1, H2, H3.
  inversion H1; inversion H2; inversion H3; subst. apply Compare_trans_str.
Qed.
Print Assumptions C15_trans_str.

(* the conversion "right operand into the left operand's type" that the pinned tree used
   breaks antisymmetry: Compare(int 1, 1.5) = 0 but Compare(1.5, int 1) = 1 *)
Theorem C15_pinned_refuted :
  exists a b x y, pinned_Cmp a b = Ok x /\ pinned_Cmp b a = Ok y /\ x <> - y.
Proof. exact pinned_refuted. Qed.
Print Assumptions C15_pinned_refuted.

(* non-vacuity: the hypotheses of C15_numeric_exact are met by mixed-kind operands *)
Example C15_nonvacuous :
  Compare (GInt KInt8 (-1)) (GInt KUint 1) = Ok (-1) /\
  Compare (GInt KInt 1) (GFloat false 3 (-1)) = Ok (-1) /\
  Compare (GFloat false 3 (-1)) (GInt KInt 1) = Ok 1 /\
  num_pair_in_claim (GInt KInt 1) (GFloat false 3 (-1)) = true.
Proof. vm_compute. repeat split. Qed.
