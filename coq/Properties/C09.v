(* Properties/C09.v — Path selectors evaluate per the documented grammar and fail only with
   errors (claims only; proofs in Proofs/C09Total.v, C09Parse.v, C09Denote.v, C09Lemmas.v).

   exec_reader   : Model/SelReader.v, the code-shaped model of genql.ExecReader (repaired tree)
   print_sel     : Spec/SelectorSpec.v, the concrete syntax of the README
   sel_sem       : Spec/SelectorSpec.v, the README denotation
   top_level     : the package's own registry ("mix", "distinct")
   OutOfModel    : only produced by the standard-library oracles of Model/SelFmt.v (%v / %d of
                   numbers outside the exactly-modelled class, ParseFloat outside plain decimals)
                   and by MixObject on colliding keys; never by the selector machinery itself. *)
From Coq Require Import Floats.
From GenqlV Require Import Base.Prelude Base.Value Model.SelToken Model.SelFmt Model.SelReader
                           Spec.SelectorSpec
                           Proofs.C09Total Proofs.C09Strict Proofs.C09Parse Proofs.C09Denote Proofs.C09Lemmas.
Local Open Scope string_scope.

(* For ARBITRARY byte strings as selectors and arbitrary JSON-like documents the evaluation never
   reaches a panic: it returns a value or an error (or stops at an oracle). Every Go index,
   slice expression and type assertion is a Panic-returning primitive of the model, so this is a
   statement about the guards of the repaired code. *)
Theorem C09_total : forall (doc : value) (s : string),
  (exists r, exec_reader doc s = Ok r) \/ exec_reader doc s = Err \/ exec_reader doc s = OutOfModel.
Proof. exact exec_reader_total. Qed.
Print Assumptions C09_total.

Theorem C09_never_panics : forall (doc : value) (s : string), exec_reader doc s <> Panic.
Proof. exact exec_reader_nopanic. Qed.
Print Assumptions C09_never_panics.

(* OutOfModel can only come from the oracles behind typed pipes ({k|string}, {k|number}) and
   top-level functions (fn=>): a selector text without the bytes '|' and '>' has neither, and for
   such texts the outcome is strictly a value or an error, for every document. *)
Theorem C09_total_strict : forall (doc : value) (s : string),
  lacks "|" s = true -> lacks ">" s = true ->
  (exists r, exec_reader doc s = Ok r) \/ exec_reader doc s = Err.
Proof. exact exec_reader_strict. Qed.
Print Assumptions C09_total_strict.

(* SelectDimension alone, for ANY dimension list (also ones no parser produces, e.g. index -5) *)
Theorem C09_select_dimension_total : forall dims data, select_dimension data dims <> Panic.
Proof. exact select_dimension_nopanic. Qed.
Print Assumptions C09_select_dimension_total.

(* the parser inverts the printer on the whole documented grammar: quoted keys, keep=> inside
   brackets, ranges with begin/end, typed pipes, "::" and fn=>   (pipes included: not _partial) *)
Theorem C09_parse_print : forall a, wf_sel a = true -> parse_all (print_sel a) = Ok (tokens_of a).
Proof. exact parse_print. Qed.
Print Assumptions C09_parse_print.

(* ... and tokens_of loses nothing about a dimension (each / index / range with open ends) *)
Theorem C09_tokens_faithful : forall d1 d2,
  wf_dim d1 = true -> wf_dim d2 = true -> dim_tok d1 = dim_tok d2 -> d1 = d2.
Proof. exact dim_tok_inj. Qed.
Print Assumptions C09_tokens_faithful.

(* evaluating the text of a selector is its README denotation *)
Theorem C09_denotation : forall a doc,
  wf_sel a = true -> exec_reader doc (print_sel a) = sel_sem top_level a doc.
Proof. exact denotation. Qed.
Print Assumptions C09_denotation.

(* a::b is b applied to the result of a *)
Theorem C09_compose : forall a b doc,
  wf_sel a = true -> wf_sel b = true ->
  exec_reader doc (print_sel (Then a b)) =
  (let! x := exec_reader doc (print_sel a) in exec_reader x (print_sel b)).
Proof. exact compose. Qed.
Print Assumptions C09_compose.

Theorem C09_compose_text : forall a b, a <> [] -> b <> [] ->
  print_sel (Then a b) = print_sel a ++ "::" ++ print_sel b.
Proof. exact print_then. Qed.
Print Assumptions C09_compose_text.

(* a missing key yields NULL, whatever follows in the path *)
Theorem C09_missing_key_null : forall kvs k rest,
  wf_sel (Path (Key k :: rest)) = true -> lookup k kvs = None ->
  exec_reader (VObj kvs) (print_sel (Path (Key k :: rest))) = Ok VNull.
Proof. exact missing_key_null. Qed.
Print Assumptions C09_missing_key_null.

(* keep=> returns the selected dimensions as they are; without it the result is flattened by
   (number of dimensions - 1) levels *)
Theorem C09_keep_no_flatten : forall ds l,
  wf_sel (Path [Keep ds]) = true ->
  exec_reader (VArr l) (print_sel (Path [Keep ds])) = dims_sem ds (VArr l).
Proof. exact keep_no_flatten. Qed.
Print Assumptions C09_keep_no_flatten.

Theorem C09_index_flattens : forall ds l r,
  wf_sel (Path [Index ds]) = true -> dims_sem ds (VArr l) = Ok (VArr r) ->
  exec_reader (VArr l) (print_sel (Path [Index ds])) = Ok (VArr (flatten_n (List.length ds - 1) r)).
Proof. exact index_flattens. Qed.
Print Assumptions C09_index_flattens.

(* a step on a value of the wrong shape is an error: key / pipe on a scalar, bracket on a scalar
   or an object *)
Theorem C09_wrong_shape_is_error : forall fn st rest more doc,
  wf_sel (Fn fn (st :: rest) :: more) = true -> shape_mismatch st doc = true ->
  exec_reader doc (print_sel (Fn fn (st :: rest) :: more)) = Err.
Proof. exact wrong_shape_is_error. Qed.
Print Assumptions C09_wrong_shape_is_error.

(* an index at or beyond the length, a slice end beyond the length, or begin > end is an error *)
Theorem C09_out_of_range_is_error : forall keep fn d ds rest more l,
  wf_sel (Fn fn (bracket keep (d :: ds) :: rest) :: more) = true ->
  dim_out_of_range d (N.of_nat (List.length l)) = true ->
  exec_reader (VArr l) (print_sel (Fn fn (bracket keep (d :: ds) :: rest) :: more)) = Err.
Proof. exact out_of_range_is_error. Qed.
Print Assumptions C09_out_of_range_is_error.

(* the pinned SelectDimension panics where the repaired one returns an error (D19) *)
Theorem C09_pinned_refuted :
  exists doc, pinned_exec_reader doc "users[5]" = Panic /\
              pinned_exec_reader doc "users[(0:9)]" = Panic /\
              pinned_exec_reader doc "users[(2:1)]" = Panic /\
              pinned_exec_reader doc "users[each:0].name" = Panic /\
              exec_reader doc "users[5]" = Err /\ exec_reader doc "users[(0:9)]" = Err /\
              exec_reader doc "users[(2:1)]" = Err /\ exec_reader doc "users[each:0].name" = Err.
Proof. exists pin_doc. exact pinned_refuted. Qed.
Print Assumptions C09_pinned_refuted.

(* the pinned ParseSelector splits the README's own data[keep=>0:1:2] at "=>" (D20) *)
Theorem C09_pinned_keep_refuted :
  exists doc a, print_sel a = "data[keep=>0:1:2]" /\ wf_sel a = true /\
                sel_sem top_level a doc = Ok (VNum 6) /\
                pinned_exec_reader doc "data[keep=>0:1:2]" = Err.
Proof.
  exists keep_doc, (Path [Key "data"; Keep [DAt 0; DAt 1; DAt 2]]).
  destruct pinned_keep_refuted as (H1 & H2 & H3). repeat split; assumption.
Qed.
Print Assumptions C09_pinned_keep_refuted.

(* ---------- non-vacuity: a ragged document nested to depth 4 ---------- *)

Definition ex_user (n : string) (emails : list value) : value :=
  VObj [("email", VArr emails); ("id", VNum 7); ("name", VStr n); ("sid", VStr "12.5")].

Definition ex_doc : value :=
  VObj [("a b", VObj [("we=>ird", VNum 1)]);
        ("data", VArr [VArr [VArr [VNum 1; VNum 2; VNum 3]; VArr [VNum 4; VNum 5; VNum 6]];
                       VArr [VArr [VNum 7]];
                       VArr []]);
        ("grid", VArr [VArr [ex_user "a" [VStr "x@a"; VStr "y@a"]; ex_user "b" []];
                       VArr [ex_user "c" [VStr "x@c"]]]);
        ("rag", VArr [VArr [VNum 1; VNum 2]; VNum 5; VNull])].

Definition ex_sel : sel :=
  [Fn (Some "mix") [Key "grid"; Index [DEach; DRange None (Some 1%N)]; Key "email"];
   Fn None [Keep [DRange (Some 1%N) None]]].

Example C09_nonvacuous :
  wf_sel ex_sel = true /\
  print_sel ex_sel = "mix=>grid[each:(begin:1)].email::[keep=>(1:end)]" /\
  exec_reader ex_doc (print_sel ex_sel) = Ok (VArr [VStr "y@a"; VStr "x@c"]) /\
  (* each step kind, quoted keys with "=>" inside, typed pipes *)
  exec_reader ex_doc "'a b'.'we=>ird'" = Ok (VNum 1) /\
  exec_reader ex_doc "grid[each:0]{id|string, sid|number, name}" =
    Ok (VArr [VObj [("id", VStr "7"); ("name", VStr "a"); ("sid", VNum 12.5)];
              VObj [("id", VStr "7"); ("name", VStr "c"); ("sid", VNum 12.5)]]) /\
  exec_reader ex_doc "data[keep=>each:each:0]" = Ok (VArr [VArr [VNum 1; VNum 4]; VArr [VNum 7]; VArr []]) /\
  exec_reader ex_doc "data[each:each:0]" = Ok (VArr [VNum 1; VNum 4; VNum 7]) /\
  (* the error theorems are not vacuous: ragged data, out-of-range, wrong shape *)
  exec_reader ex_doc "rag[each:0]" = Err /\
  exec_reader ex_doc "data[3]" = Err /\
  exec_reader ex_doc "data[(2:9)]" = Err /\
  exec_reader ex_doc "rag[1].x" = Err /\
  exec_reader ex_doc "nope.x[0]" = Ok VNull /\
  (* arbitrary bytes *)
  exec_reader ex_doc "da[ta'(:=>{|!" = Ok VNull /\
  exec_reader ex_doc "rag=>x" = Err /\
  exec_reader ex_doc "[99999999999999999999]" = Err.
Proof. vm_compute. repeat split. Qed.

Example C09_hypotheses_met :
  wf_sel [Fn None [Key "rag"; Index [DAt 7]]] = true /\
  dim_out_of_range (DAt 7) 3 = true /\
  shape_mismatch (Key "x") (VNum 5) = true /\
  wf_sel (Path [Key "missing"; Index [DAt 0]]) = true.
Proof. vm_compute. repeat split. Qed.
