(* Properties/C04.v — Joins return the textbook multiset for every join type and strategy
   (claims only; proofs in Proofs/C04Conc.v, C04KeyText.v, C04Lemmas.v, C04Parallel.v, C04Float.v,
   C04Examples.v).

   Reading guide.  [exec_join jt st L R lid rid on data] is the model of Join.Exec (Model/Join.v);
   [join_spec] is the textbook join (Spec/JoinSpec.v).  [perm_ok a b] says both are [Ok] and the
   lists are permutations of each other.  [wf_join lid rid L R on] is the scope of the property:
   both sides are lists of {alias: row} with distinct aliases, ON is a boolean combination of
   comparisons between one lid-column and one rid-column (either way round), distinct columns
   have distinct dotted names, every key column can be read in every row and has a %v text, and
     text_faithful  within one key column equal (normalised) %v text => equal value,
     zero_safe      replacing -0 by 0 does not change any comparison of ON.
   [hash_faithful] (hash path only): compare = 0 <-> same %v text, for the values that meet in an
   equality of ON.  Proofs/C04Float.v shows these hold outright except for number-vs-number
   printing and NaN; the two [..._refuted] theorems show they cannot be dropped. *)
From Coq Require Import Floats Permutation.
From GenqlV Require Import Base.Prelude Base.Fmt Base.Value Model.Ast Model.Eval Model.Join
  Spec.JoinSpec Proofs.C04Conc Proofs.C04KeyText Proofs.C04Lemmas Proofs.C04Parallel
  Proofs.C04Float Proofs.C04Examples.
Local Open Scope list_scope.

(* ------------------------------------------------------------------ *)
(* 1. thread scheduling                                                 *)
(* ------------------------------------------------------------------ *)

(* The PARALLEL drivers as a concurrent program (Proofs/C04Conc.v: main spawns one worker per left
   key; worker i computes [batch i]; Lock; tmp := slice; slice := tmp ++ batch i; Unlock; Done —
   append NOT atomic; error path: Lock; failure := err; Unlock; Done).  For EVERY schedule (any list
   of thread ids): mutual exclusion, no sync fault, no deadlock, and when main has returned the
   slice is the concatenation of the batches in completion order, which is a permutation of the
   keys; so the result is a permutation of the sequential driver's, and an error iff it errs. *)
Theorem C04_parallel_schedules :
  forall (A : Type) (n : nat) (batch : nat -> res (list A)) (sched : list tid),
    let s := run n batch sched in
    (forall i j, in_cs s i -> in_cs s j -> i = j) /\
    bad s = false /\
    ((forall r, mpc s <> MRet r) -> exists t, enabled s t = true) /\
    (forall r, mpc s = MRet r ->
       NoDup (order s) /\ (forall i, In i (order s) <-> i < n) /\ Permutation (order s) (seq 0 n) /\
       r = (if existsb (failed batch) (order s) then None
            else Some (List.concat (map (okb batch) (order s)))) /\
       match sequential n batch with
       | Ok out => exists out', r = Some out' /\ Permutation out' out
       | _ => r = None
       end).
Proof.
  intros A n batch sched s. split; [|split; [|split]].
  - intros i j. exact (mutual_exclusion n batch sched i j).
  - exact (no_sync_fault n batch sched).
  - exact (no_deadlock n batch sched).
  - intros r Hr. destruct (completion_order_is_permutation n batch sched r Hr) as (H1 & H2 & H3).
    repeat split; auto; [apply H2|apply H2|exact (result_is_concat_of_batches n batch sched r Hr)
                        |exact (parallel_vs_sequential n batch sched r Hr)].
Qed.
Print Assumptions C04_parallel_schedules.

(* every run is finite and can always be completed: Wait is reached with counter 0 (each Add is
   matched by a Done on every path, the error path included) *)
Theorem C04_parallel_terminates :
  forall (A : Type) (n : nat) (batch : nat -> res (list A)) (sched : list tid),
    eff_steps n batch (init (A:=A)) sched + measure n (run n batch sched) <= measure n (init (A:=A)) /\
    exists sched' r, mpc (fold_left (step n batch) sched' (run n batch sched)) = MRet r.
Proof.
  intros A n batch sched. split.
  - exact (effective_steps_bounded n batch sched init (Inv_init n batch)).
  - exact (can_finish n batch (run n batch sched) (every_schedule n batch sched)).
Qed.
Print Assumptions C04_parallel_terminates.

(* instantiated with the join: worker i runs JoinMatchFunc / HashJoinMatchFunc for the i-th left key *)
Theorem C04_parallel_join :
  forall use_hash inner L R li ri on data lcat rcat,
    to_catalog L li ri on = Ok lcat -> to_catalog R ri li on = Ok rcat ->
    let batch := join_batch use_hash inner ri on data lcat rcat in
    let n := List.length lcat in
    forall sched r, mpc (run n batch sched) = MRet r ->
      match join_core use_hash inner L R li ri on data with
      | Ok out => exists out', r = Some out' /\ Permutation out' out
      | _ => r = None
      end.
Proof.
  intros use_hash inner L R li ri on data lcat rcat H1 H2 batch n sched r Hr.
  destruct (parallel_join use_hash inner L R li ri on data lcat rcat H1 H2 sched) as (_ & _ & _ & H).
  exact (proj2 (proj2 (proj2 (H r Hr)))).
Qed.
Print Assumptions C04_parallel_join.

(* ... where [join_core] is what Join.Exec runs after choosing sides and strategy *)
Theorem C04_exec_is_core : forall jt st L R lid rid on data,
  exec_join jt st L R lid rid on data =
  if admissible jt st then
    match jt with
    | JInner => join_core (uses_hash st on) true L R lid rid on data
    | JLeft => join_core (uses_hash st on) false L R lid rid on data
    | JRight => join_core (uses_hash st on) false R L rid lid on data
    end
  else Err.
Proof. exact exec_join_core. Qed.
Print Assumptions C04_exec_is_core.

(* ------------------------------------------------------------------ *)
(* 2. the text key                                                      *)
(* ------------------------------------------------------------------ *)

Theorem C04_key_text_faithful : forall vs1 vs2 t,
  key_text vs1 = Ok t -> key_text vs2 = Ok t -> List.length vs1 = List.length vs2 ->
  map fmt_value vs1 = map fmt_value vs2.
Proof. exact key_text_faithful. Qed.
Print Assumptions C04_key_text_faithful.

(* the encoding is self-delimiting: the premise on the number of columns is not even needed;
   conversely the key is a function of the texts *)
Theorem C04_key_text_iff : forall vs1 vs2 t, key_text vs1 = Ok t ->
  (key_text vs2 = Ok t <-> map fmt_value vs1 = map fmt_value vs2).
Proof.
  intros vs1 vs2 t H. split.
  - intros H2. exact (key_text_faithful_strong vs1 vs2 t H H2).
  - exact (key_text_of_texts vs1 vs2 t H).
Qed.
Print Assumptions C04_key_text_iff.

(* the pinned "%v-" concatenation collides: ("b","a-") and ("b-a","") *)
Theorem C04_pinned_key_text_refuted :
  exists vs1 vs2 t,
    pinned_key_text vs1 = Ok t /\ pinned_key_text vs2 = Ok t /\
    List.length vs1 = List.length vs2 /\ map fmt_value vs1 <> map fmt_value vs2.
Proof. exact pinned_key_text_refuted. Qed.
Print Assumptions C04_pinned_key_text_refuted.

(* ------------------------------------------------------------------ *)
(* 3. the catalog                                                       *)
(* ------------------------------------------------------------------ *)

(* ToCatalog groups the rows by key text: groups in order of first appearance of their key, inside a
   group the rows with that key in source order and the key map of the first of them; keys
   distinct, no empty group, each row exactly once *)
Theorem C04_catalog_groups : forall rows ident identRight on cat,
  to_catalog rows ident identRight on = Ok cat ->
  exists cols keyed,
    join_columns ident identRight on = Ok cols /\
    mapM (row_key cols) rows = Ok keyed /\
    map fst cat = nodup_first (map fst keyed) /\
    (forall e, In e cat ->
       crows e = map snd (filter (fun x => String.eqb (fst e) (fst (fst x))) (combine keyed rows)) /\
       exists x, hd_error (filter (fun x => String.eqb (fst e) (fst (fst x))) (combine keyed rows)) = Some x /\
                 ckmap e = snd (fst x)) /\
    NoDup (map fst cat) /\
    Forall (fun e => crows e <> []) cat /\
    Permutation (List.concat (map crows cat)) rows.
Proof.
  intros rows ident identRight on cat H.
  destruct (catalog_groups rows ident identRight on cat H) as (cols & Hc & [(keyed & H1 & H2 & H3) H4 H5 H6]).
  exists cols, keyed. repeat split; auto; apply H3; auto.
Qed.
Print Assumptions C04_catalog_groups.

(* ------------------------------------------------------------------ *)
(* 4. engine = textbook                                                 *)
(* ------------------------------------------------------------------ *)

(* nested loop (STRAIGHT_JOIN, or any request when ON is not a conjunction of equalities) *)
Theorem C04_loop_eq_spec : forall jt st L R lid rid on data,
  wf_join lid rid L R on -> admissible jt st = true -> uses_hash st on = false ->
  perm_ok (exec_join jt st L R lid rid on data) (join_spec jt L R lid rid on data).
Proof. exact loop_eq_spec. Qed.
Print Assumptions C04_loop_eq_spec.

(* the core of it: ON on the merged key maps with hard-coded reads = ON on the merged rows with
   path reads = the same function [on_sem] of the column values *)
Theorem C04_on_reads_agree : forall li ri L R on data l r,
  wf_join li ri L R on -> In l L -> In r R ->
  let lcols := map (col_of li) (on_cmps on) in
  let rcols := map (col_of ri) (on_cmps on) in
  eval (on_env data) (obj_merge (obj_merge [] (key_map lcols (kvals lcols l)))
                                (key_map rcols (kvals rcols r))) on
    = Ok (RVal (VBool (holdsp li on l r))) /\
  on_holds data on l r = Ok (holdsp li on l r).
Proof.
  intros li ri L R on data l r WF Hl Hr lcols rcols. split.
  - exact (eval_keys_pure li ri L R on data WF l r Hl Hr).
  - exact (on_holds_pure li ri L R on data WF l r Hl Hr).
Qed.
Print Assumptions C04_on_reads_agree.

(* hash path (automatic or requested, ON a conjunction of equalities): the SAME LIST as the nested
   loop, hence the textbook multiset *)
Theorem C04_hash_eq_loop : forall jt st st' L R lid rid on data,
  wf_join lid rid L R on -> hash_faithful lid L R on ->
  admissible jt st = true -> admissible jt st' = true ->
  uses_hash st on = true -> uses_hash st' on = false ->
  exec_join jt st L R lid rid on data = exec_join jt st' L R lid rid on data.
Proof. exact hash_eq_loop. Qed.
Print Assumptions C04_hash_eq_loop.

Theorem C04_hash_eq_spec : forall jt st L R lid rid on data,
  wf_join lid rid L R on -> hash_faithful lid L R on ->
  admissible jt st = true -> uses_hash st on = true ->
  perm_ok (exec_join jt st L R lid rid on data) (join_spec jt L R lid rid on data).
Proof. exact hash_eq_spec. Qed.
Print Assumptions C04_hash_eq_spec.

Theorem C04_join_eq_spec : forall jt st L R lid rid on data,
  wf_join lid rid L R on -> (hash_join_analyze on = true -> hash_faithful lid L R on) ->
  admissible jt st = true ->
  perm_ok (exec_join jt st L R lid rid on data) (join_spec jt L R lid rid on data).
Proof. exact join_eq_spec. Qed.
Print Assumptions C04_join_eq_spec.

(* HashedTable.Rows / .Keys are Go maps and the drivers range over them: whatever order the left
   keys and the right keys are visited in (any permutations of the two catalogs), the result is
   the textbook multiset.  [run_batches] is the driver loop over given key orders; [join_core] is
   [run_batches] over the catalogs in order of first appearance. *)
Theorem C04_map_order_independent :
  forall li ri L R on data use_hash inner lcat rcat lcat' rcat',
    wf_join li ri L R on ->
    (use_hash = true -> hash_faithful li L R on /\ hash_join_analyze on = true) ->
    to_catalog L li ri on = Ok lcat -> to_catalog R ri li on = Ok rcat ->
    Permutation lcat lcat' -> Permutation rcat rcat' ->
    perm_ok (run_batches ri on data use_hash inner lcat' rcat')
            (left_join data on (negb inner) ri L R) /\
    join_core use_hash inner L R li ri on data = run_batches ri on data use_hash inner lcat rcat.
Proof.
  intros li ri L R on data use_hash inner lcat rcat lcat' rcat' WF Hh H1 H2 P1 P2. split.
  - exact (map_order_independent li ri L R on data WF use_hash inner lcat rcat lcat' rcat' Hh H1 H2 P1 P2).
  - exact (join_core_batches li ri L R on data use_hash inner lcat rcat H1 H2).
Qed.
Print Assumptions C04_map_order_independent.

(* ------------------------------------------------------------------ *)
(* 5. corollaries                                                       *)
(* ------------------------------------------------------------------ *)

Theorem C04_strategy_independent : forall jt st1 st2 L R lid rid on data,
  wf_join lid rid L R on -> (hash_join_analyze on = true -> hash_faithful lid L R on) ->
  admissible jt st1 = true -> admissible jt st2 = true ->
  perm_ok (exec_join jt st1 L R lid rid on data) (exec_join jt st2 L R lid rid on data).
Proof. exact strategy_independent. Qed.
Print Assumptions C04_strategy_independent.

Theorem C04_right_is_mirrored_left : forall st L R lid rid on data,
  exec_join JRight st L R lid rid on data = exec_join JLeft st R L rid lid on data /\
  join_spec JRight L R lid rid on data = join_spec JLeft R L rid lid on data.
Proof. exact right_is_mirrored_left. Qed.
Print Assumptions C04_right_is_mirrored_left.

(* orientation (x.a < y.b vs y.b > x.a), order and grouping of the AND / OR operands do not matter:
   the specification returns the same list, the engine a permutation.  [flip_ok]: the compared key
   values are ordered antisymmetrically (always, unless both are numbers and one is NaN) *)
Theorem C04_on_symmetry : forall jt st st' L R lid rid on on' data,
  on_equiv on on' ->
  wf_join lid rid L R on -> wf_join lid rid L R on' -> flip_ok lid L R on ->
  (hash_join_analyze on = true -> hash_faithful lid L R on) ->
  (hash_join_analyze on' = true -> hash_faithful lid L R on') ->
  admissible jt st = true -> admissible jt st' = true ->
  join_spec jt L R lid rid on data = join_spec jt L R lid rid on' data /\
  perm_ok (exec_join jt st L R lid rid on data) (exec_join jt st' L R lid rid on' data).
Proof. exact on_symmetry. Qed.
Print Assumptions C04_on_symmetry.

(* the premises, discharged where they can be *)
Theorem C04_premises_discharged :
  (* zero_safe: two numbers, or no -0 involved *)
  (forall a b, (is_num a = true /\ is_num b = true) \/ (norm_zero a = a /\ norm_zero b = b) ->
     vcompare (norm_zero a) (norm_zero b) = vcompare a b) /\
  (* hash_faithful and flip_ok: not both numbers *)
  (forall a b, is_num a && is_num b = false -> fmt_value a <> None -> fmt_value b <> None ->
     (vcompare a b = Ok 0%Z <-> fmt_value a = fmt_value b)) /\
  (forall a b z, is_num a && is_num b = false -> fmt_value a <> None -> fmt_value b <> None ->
     vcompare a b = Ok z -> vcompare b a = Ok (- z)%Z) /\
  (* two numbers: compare = 0 is IEEE equality; what hash_faithful then asks is that equal doubles
     print alike and different ones differently *)
  (forall x y, vcompare (VNum x) (VNum y) = Ok 0%Z <-> PrimFloat.eqb x y = true).
Proof.
  split; [exact zero_safe_cases|]. split; [exact key_agree_text|]. split; [exact flip_text|exact key_agree_num].
Qed.
Print Assumptions C04_premises_discharged.

(* ... and shown necessary: outside them the repaired engine is NOT the textbook join *)
Local Open Scope string_scope.
Theorem C04_mixed_kind_column_refuted :
  exists L R on a b,
    exec_join JInner SAuto L R "x" "y" on [] = Ok a /\ join_spec JInner L R "x" "y" on [] = Ok b /\
    List.length a <> List.length b.
Proof. exact mixed_kind_column_refuted. Qed.
Print Assumptions C04_mixed_kind_column_refuted.

Theorem C04_negzero_against_string_refuted :
  exists L R on a b,
    exec_join JInner SAuto L R "x" "y" on [] = Ok a /\ join_spec JInner L R "x" "y" on [] = Ok b /\
    List.length a <> List.length b.
Proof. exact negzero_against_string_refuted. Qed.
Print Assumptions C04_negzero_against_string_refuted.

(* ------------------------------------------------------------------ *)
(* 6. non-vacuity                                                       *)
(* ------------------------------------------------------------------ *)

(* two 3-row tables, duplicated two-column key, ON x.a = y.m AND y.b = x.z: the premises hold, so the
   theorems apply to every admissible type x strategy; and for x.a < y.m OR y.b = x.z (nested loop) *)
Example C04_example_in_scope :
  wf_join "x" "y" exL exR ex_on /\ hash_faithful "x" exL exR ex_on /\ wf_join "x" "y" exL exR ex_on2 /\
  (forall jt st, admissible jt st = true ->
     perm_ok (exec_join jt st exL exR "x" "y" ex_on []) (join_spec jt exL exR "x" "y" ex_on [])) /\
  (forall jt st, admissible jt st = true ->
     perm_ok (exec_join jt st exL exR "x" "y" ex_on2 []) (join_spec jt exL exR "x" "y" ex_on2 [])).
Proof.
  split; [exact ex_wf|]. split; [exact ex_hash_faithful|]. split; [exact ex_wf2|].
  split; [exact ex_theorem_hash|exact ex_theorem_loop].
Qed.
Print Assumptions C04_example_in_scope.

(* LEFT: 2 x 2 pairs for the duplicated key plus the partner-less left row with y: NULL *)
Example C04_example_left :
  exec_join JLeft SAuto exL exR "x" "y" ex_on [] =
  Ok [m 1 "p" 1 "p"; m 1 "p" 1 "p"; m 1 "p" 1 "p"; m 1 "p" 1 "p";
      VObj [("x", VObj [("a", VNum 2); ("z", VStr "q")]); ("y", VNull)]].
Proof. exact ex_left_values. Qed.

(* all strategies and types give the specification's multiset (4 rows inner, 5 outer);
   for RIGHT the list itself differs from the specification's, so "permutation" is not vacuous *)
Example C04_example_all_strategies :
  forallb (fun st => match exec_join JInner st exL exR "x" "y" ex_on [], join_spec JInner exL exR "x" "y" ex_on [] with
                     | Ok a, Ok b => list_veqb a b && Nat.eqb (List.length a) 4 | _, _ => false end)
          [SAuto; SHash; SStraight; SParallel; SParallelHash; SParallelStraight] = true /\
  forallb (fun jt => forallb (fun st =>
             match exec_join jt st exL exR "x" "y" ex_on [], join_spec jt exL exR "x" "y" ex_on [] with
             | Ok a, Ok b => permb a b && Nat.eqb (List.length a) 5 | _, _ => false end)
          [SAuto; SHash; SParallel; SParallelHash]) [JLeft; JRight] = true /\
  exec_join JRight SAuto exL exR "x" "y" ex_on [] <> join_spec JRight exL exR "x" "y" ex_on [].
Proof. split; [exact (proj1 ex_all_strategies)|]. split; [exact (proj2 ex_all_strategies)|exact ex_right_is_only_a_permutation]. Qed.

(* two schedules of the parallel hash driver on these tables: in the second the worker of the
   second key overtakes the first, and main returns a different list with the same 5 rows *)
Example C04_example_schedules :
  List.length ex_lcat = 2 /\
  order (run 2 ex_batch ex_sched) = [0; 1] /\ order (run 2 ex_batch ex_sched_rev) = [1; 0] /\
  (exists r, mpc (run 2 ex_batch ex_sched) = MRet (Some r) /\
             Ok r = exec_join JLeft SParallelHash exL exR "x" "y" ex_on []) /\
  (exists r, mpc (run 2 ex_batch ex_sched_rev) = MRet (Some r) /\
             Ok r <> exec_join JLeft SParallelHash exL exR "x" "y" ex_on [] /\ List.length r = 5).
Proof. exact ex_parallel_runs. Qed.
Print Assumptions C04_example_schedules.
