(* Properties/C10.v — No query, option set or input can crash or hang the host process (logic part).
   What no executable model exhibits — real stack depth, memory exhaustion, OS scheduling — is
   observed by the crash-isolated correspondence (child processes with time and memory limits). *)
From GenqlV Require Import Base.Prelude Base.Value Model.Ast Model.Eval Model.Exec Model.Join
  Model.Processors Model.Api Proofs.C10Lemmas.

(* for EVERY query text, all 2^3 option combinations, every document and every answer the parser
   may give (a statement of the modelled grammar, a syntax error, or an unsupported construct whose
   construction panics), New+Exec return rows or an error: no panic escapes the API.  (OutOfModel =
   input outside the modelled fragment; termination is by construction: [api] is a total function
   and the fuel only bounds CTE / subquery re-entry.) *)
Theorem C10_api_total : forall parse call fuel o doc text,
  (exists rows, api parse call fuel o doc text = Ok rows) \/
  api parse call fuel o doc text = Err \/ api parse call fuel o doc text = OutOfModel.
Proof. exact api_ok_err_oom. Qed.
Print Assumptions C10_api_total.

Theorem C10_no_panic_escapes : forall parse call fuel o doc text,
  api parse call fuel o doc text <> Panic.
Proof. exact api_not_panic. Qed.
Print Assumptions C10_no_panic_escapes.

(* the inner frame: a panic inside expression evaluation (DIV 0, negative shift, a failed assertion,
   == on uncomparable values) is an error of that query, also for nested queries *)
Theorem C10_exec_recovers : forall rec call join ctx s src,
  run_select rec call join ctx s src <> Panic.
Proof. exact run_select_not_panic. Qed.
Print Assumptions C10_exec_recovers.

(* goroutines: if every goroutine either recovers or has a body that cannot panic (the regenerated
   go-site obligation), no goroutine kills the process — whatever the bodies evaluate to *)
Theorem C10_no_thread_dies : forall A (gs : list (bool * res A)),
  Forall (fun g => fst g = true \/ snd g <> Panic) gs ->
  Forall (fun g => run_goroutine (fst g) (snd g) <> ProcessDies) gs.
Proof. exact @goroutines_survive. Qed.
Print Assumptions C10_no_thread_dies.

(* the pinned goroutines (panic(err) in the parallel join workers, no recover around ASYNC / SPIN
   bodies) do kill the process *)
Theorem C10_pinned_goroutine_refuted : forall A, run_goroutine false (@Panic A) = ProcessDies.
Proof. exact @goroutine_dies_without_recover. Qed.
Print Assumptions C10_pinned_goroutine_refuted.

(* the preprocessors and the selector evaluator cannot panic on any byte string: see C17_total,
   C17_arrays_unbalanced_is_error (Properties/C17.v) and C09_never_panics (Properties/C09.v);
   a self- or mutually-referencing CTE is an error: see Properties/C07.v *)
