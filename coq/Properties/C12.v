(* Properties/C12.v — Results are plain self-contained data and evaluation is deterministic
   (claims only; specification in Spec/PlainSpec.v, proofs in Proofs/C12Clean.v, C12Eval.v,
   C12Lemmas.v, C12Join.v, C12Order.v, examples in C12Examples.v).

   Reading guide.
   * A result row is a [value]; [value] has exactly the six JSON constructors (null, bool, number,
     string, array, object), finite trees.  Hence "no ColumnName / NeutalString / *float64 / Ommit
     wrapper, no CTE thunk, no pointer, no cycle in a result" holds BY TYPING in the model: the wrappers
     are constructors of [raw] (Model/Eval.v), and no [raw] can occur inside a [value].  What the types
     do not give, and what is proved here, is (1) the absence of the navigation key `<-`, which the
     engine writes into the copies of the current row it hands to comparisons and subqueries, (2) that
     SelectExpr stores only ValueOf-resolved values and nothing for Ommit, (3) determinism.
   * [clean v] (Spec/PlainSpec.v): no object inside v, at any depth, has a key `<-`; [cleanb] decides it.
   * [query_ok q = stmt_ok false q] is the syntactic scope.  Everywhere: no user-chosen name (select
     alias, table alias, grouping column, join identifier) equals `<-`.  Inside row-scoped subqueries
     ([strict = true]; query.data is then a scope copy that carries `<-`): no `SELECT * FROM dual`
     (no_star_over_scope: the Go code deletes `<-` from star projections in a post-processor, the model
     has no such step), and no table path — nor, in a dual SELECT, column path in VALUE position —
     that consists of `<-` steps only (such a path denotes an enclosing scope copy itself).  Only value
     positions are constrained: operands of predicates and arithmetic, WHERE / HAVING / ON are free.
     Each exclusion is needed: [C12_exclusions_needed].
   * [call_ok call]: the function hook returns, on clean arguments, a clean plain value (or a literal /
     numeric wrapper, Ommit, or a column wrapper that is not a pure `<-` path).
   * [exec_join_ord oL oR]: Join.Exec with the iteration orders of the two Go maps (left catalog,
     right catalog) as explicit parameters; [exec_join] is the instance with both in first-appearance
     order.  [res_perm x y]: both fail, or both succeed with permuted row lists. *)
From Coq Require Import Floats Sorting.Permutation.
From GenqlV Require Import Base.Prelude Base.Value Model.Ast Model.Eval Model.Exec Model.Join
                           Run.EngineRun Spec.PlainSpec Spec.SortSpec
                           Proofs.C12Clean Proofs.C12Eval Proofs.C12Lemmas Proofs.C12Join
                           Proofs.C12Order Proofs.C12Examples.
Local Open Scope list_scope.

(* ------------------------------------------------------------------ *)
(* 1. no navigation key                                                  *)
(* ------------------------------------------------------------------ *)

(* the heart: every row the API returns is clean — any clean document, wrapped or not, any admissible
   query of the whole modelled grammar (subqueries at any depth, EXISTS, IN, CASE, functions,
   aggregates, GROUP BY / HAVING, DISTINCT, ORDER BY, LIMIT / OFFSET, CTEs, derived tables, table
   functions, UNION, joins of every type and strategy), any fuel *)
Theorem C12_no_navigation_key : forall call fuel wrapped doc q rows,
  call_ok call -> clean doc -> query_ok q = true ->
  api_run call exec_join fuel wrapped doc q = Ok rows -> Forall clean rows.
Proof.
  intros call fuel wrapped doc q rows Hc Hd Hq H.
  exact (api_run_clean call exec_join Hc exec_join_ok fuel wrapped doc q rows Hd Hq H).
Qed.
Print Assumptions C12_no_navigation_key.

(* the same for any join hook that maps clean rows to clean rows *)
Theorem C12_no_navigation_key_any_join : forall call join fuel wrapped doc q rows,
  call_ok call -> join_ok join -> clean doc -> query_ok q = true ->
  api_run call join fuel wrapped doc q = Ok rows -> Forall clean rows.
Proof. intros call join fuel wrapped doc q rows Hc Hj. exact (api_run_clean call join Hc Hj fuel wrapped doc q rows). Qed.
Print Assumptions C12_no_navigation_key_any_join.

(* in particular for Join.Exec under ANY iteration order of its two catalog maps (see section 3) *)
Theorem C12_no_navigation_key_any_order : forall oL oR call fuel wrapped doc q rows,
  (forall c, Permutation (oL c) c) -> (forall c, Permutation (oR c) c) ->
  call_ok call -> clean doc -> query_ok q = true ->
  api_run call (exec_join_ord oL oR) fuel wrapped doc q = Ok rows -> Forall clean rows.
Proof.
  intros oL oR call fuel wrapped doc q rows HL HR Hc.
  exact (api_run_clean call _ Hc (exec_join_ord_ok oL oR HL HR) fuel wrapped doc q rows).
Qed.
Print Assumptions C12_no_navigation_key_any_order.

(* the boolean form used on the Go side agrees with the specification *)
Theorem C12_cleanb_decides : forall v, cleanb v = true <-> clean v.
Proof. exact cleanb_spec. Qed.
Print Assumptions C12_cleanb_decides.

(* ---- stage lemmas (each holds for ALL inputs of the stage, not only those the pipeline produces) ---- *)

(* the path reader returns sub-values *)
Theorem C12_reader_clean : forall p v w, clean v -> reader p v = Ok w -> clean w.
Proof. exact reader_clean. Qed.
Print Assumptions C12_reader_clean.

(* reading off a scope copy: clean as soon as one step is not `<-` *)
Theorem C12_reader_scope : forall p v w,
  nav_ok v -> reader p v = Ok w -> nav_ok w /\ (nav_only p = false -> clean w).
Proof. exact reader_nav. Qed.
Print Assumptions C12_reader_scope.

(* ValueOf *)
Theorem C12_value_of_clean : forall sc cur r v,
  cur_ok sc cur -> raw_ok sc r -> value_of cur r = Ok v -> clean v.
Proof. exact value_of_clean. Qed.
Print Assumptions C12_value_of_clean.

(* Expr: every expression form, in value position *)
Theorem C12_eval_clean : forall Q (E : env Q) sub, env_ok E sub ->
  forall sc e cur r, cur_ok sc cur -> expr_ok sub sc e = true -> eval E cur e = Ok r -> raw_ok sc r.
Proof. exact eval_clean. Qed.
Print Assumptions C12_eval_clean.

(* SelectExpr *)
Theorem C12_select_expr_clean : forall Q (E : env Q) sub, env_ok E sub ->
  forall sc cur items acc out,
    cur_ok sc cur -> forallb (item_ok sub sc) items = true -> clean (VObj acc) ->
    select_expr E cur items acc = Ok out -> clean (VObj out).
Proof. exact select_expr_clean. Qed.
Print Assumptions C12_select_expr_clean.

(* ---- value tuples used as values (ValueTupleExpr, ValueOf case []interface{}, Unwrapped) ----
   [ETuple items] evaluates its members left to right into [RTuple l]; a column member is read at once, every other
   member keeps its wrapper.  ValueOf of the tuple is the array of the recursively unwrapped members
   ([unwrapped]): literal and computed-number wrappers become the string / the number / NULL, a nested tuple
   becomes the array of its own unwrapped members.  The three stage theorems above cover the form: [expr_ok]
   treats the members as value positions, [raw_ok sc (RTuple l)] asks [raw_ok sc] of every member (at every
   depth, see [C12_raw_ok_tuple]), and [C12_value_of_clean] includes the [RTuple] case. *)

(* raw_ok of a tuple = raw_ok of every member (hence, recursively, at every depth) *)
Theorem C12_raw_ok_tuple : forall sc l, raw_ok sc (RTuple l) <-> Forall (raw_ok sc) l.
Proof. exact raw_ok_tuple_iff. Qed.
Print Assumptions C12_raw_ok_tuple.

(* Expr of a value tuple: a tuple with one member per item, none of them a column wrapper (any environment) *)
Theorem C12_tuple_eval_shape : forall Q (E : env Q) cur items r,
  eval E cur (ETuple items) = Ok r ->
  exists l, r = RTuple l /\ List.length l = List.length items /\ Forall (fun x => forall p, x <> RCol p) l.
Proof. intros Q E cur items r. exact (eval_tuple_shape E cur items r). Qed.
Print Assumptions C12_tuple_eval_shape.

(* ValueOf of a tuple: an array, member by member and in order the unwrapped member; no row is consulted *)
Theorem C12_tuple_value : forall cur l,
  value_of cur (RTuple l) = let! vs := mapM unwrapped l in Ok (VArr vs).
Proof. exact value_of_tuple. Qed.
Print Assumptions C12_tuple_value.

Theorem C12_tuple_value_members : forall cur l v,
  value_of cur (RTuple l) = Ok v ->
  exists vs, v = VArr vs /\ Forall2 (fun r w => unwrapped r = Ok w) l vs.
Proof. exact value_of_tuple_members. Qed.
Print Assumptions C12_tuple_value_members.

(* Unwrapped, one member (a nested tuple included): clean when the member is admissible *)
Theorem C12_unwrapped_clean : forall sc r v, raw_ok sc r -> unwrapped r = Ok v -> clean v.
Proof. exact unwrapped_clean. Qed.
Print Assumptions C12_unwrapped_clean.

(* (a) the value of a tuple whose members are admissible (their values are clean) is clean, at every depth *)
Theorem C12_tuple_value_clean : forall sc cur l v,
  Forall (raw_ok sc) l -> value_of cur (RTuple l) = Ok v -> clean v.
Proof. exact tuple_value_clean. Qed.
Print Assumptions C12_tuple_value_clean.

(* GROUP BY / HAVING: group rows (key columns + `*` holding the members) *)
Theorem C12_group_by_clean : forall (E : env stmt) s rows out,
  forallb (fun c => name_ok (gk_name c)) (s_group s) = true -> Forall clean rows ->
  exec_group_by E s rows = Ok out -> Forall clean out.
Proof. exact exec_group_by_clean. Qed.
Print Assumptions C12_group_by_clean.

(* DISTINCT, ORDER BY, LIMIT / OFFSET *)
Theorem C12_tail_clean : forall d keys cap limit offset rows ordered out,
  Forall clean rows -> exec_order_by keys (exec_distinct d rows) = Ok ordered ->
  window ordered cap limit offset = Ok out -> Forall clean out.
Proof.
  intros d keys cap limit offset rows ordered out Hr Ho Hw.
  eapply window_clean; [|exact Hw]. eapply exec_order_by_clean; [|exact Ho]. apply exec_distinct_clean, Hr.
Qed.
Print Assumptions C12_tail_clean.

(* ExecJoin: merged rows, NULL-extended rows *)
Theorem C12_join_clean : forall jt st l r lid rid on data rows,
  Forall clean l -> Forall clean r -> name_ok lid = true -> name_ok rid = true ->
  exec_join jt st l r lid rid on data = Ok rows -> Forall clean rows.
Proof. exact exec_join_ok. Qed.
Print Assumptions C12_join_clean.

(* one step of the interpreter, relative to the interpreter with less fuel: row filter with inner
   dimensions, grouping, projection, tail, source building (tables, table functions, derived tables,
   CTEs, joins), UNION *)
Theorem C12_exec_step_clean : forall rec call join,
  call_ok call -> join_ok join ->
  (forall strict ctx j v, ctx_ok strict ctx -> job_ok strict j -> rec ctx j = Ok v -> clean v) ->
  forall strict ctx j v,
    ctx_ok strict ctx -> job_ok strict j -> exec_step rec call join ctx j = Ok v -> clean v.
Proof. exact exec_step_clean. Qed.
Print Assumptions C12_exec_step_clean.

(* ------------------------------------------------------------------ *)
(* 2. wrappers are resolved; Ommit adds no column                        *)
(* ------------------------------------------------------------------ *)

(* every member of an output object is a member of the accumulator, a member of the source row
   (under `*`), or ValueOf of the raw result of the item with that name — never a raw wrapper — and
   items whose raw result is Ommit contribute nothing.  Any environment, any select list. *)
Theorem C12_wrappers_resolved : forall Q (E : env Q) cur items acc out,
  select_expr E cur items acc = Ok out ->
  forall k v, In (k, v) out ->
    In (k, v) acc
    \/ (In IStar items /\ In (k, v) cur)
    \/ (exists e x, In (IExpr e k) items /\ eval E cur e = Ok x /\ x <> ROmit /\ value_of cur x = Ok v).
Proof. intros Q E cur items acc out. exact (select_expr_members E cur items acc out). Qed.
Print Assumptions C12_wrappers_resolved.

Theorem C12_omit_adds_no_column : forall Q (E : env Q) cur e name rest acc,
  eval E cur e = Ok ROmit ->
  select_expr E cur (IExpr e name :: rest) acc = select_expr E cur rest acc.
Proof. intros Q E cur e name rest acc. exact (select_expr_omit E cur e name rest acc). Qed.
Print Assumptions C12_omit_adds_no_column.

(* ------------------------------------------------------------------ *)
(* 3. determinism                                                        *)
(* ------------------------------------------------------------------ *)

(* The model is a Gallina function of (call, join, fuel, wrapped, doc, q): a second evaluation on an
   equal input gives the identical sequence.  This is trivial and says only that the model has no
   hidden iteration-order parameter — the one place where the Go code has one (ranging over the two
   catalog maps in join.go) is made explicit by [exec_join_ord] below. *)
Theorem C12_sequence_deterministic : forall call join fuel wrapped doc q r1 r2,
  api_run call join fuel wrapped doc q = r1 -> api_run call join fuel wrapped doc q = r2 -> r1 = r2.
Proof. intros; congruence. Qed.
Print Assumptions C12_sequence_deterministic.

(* the non-trivial part: whatever the iteration orders of the two catalogs, ExecJoin fails or succeeds
   alike and returns the same multiset of rows *)
Theorem C12_join_order_irrelevant : forall oL oR,
  (forall c, Permutation (oL c) c) -> (forall c, Permutation (oR c) c) ->
  forall jt st l r lid rid on data,
    res_perm (exec_join_ord oL oR jt st l r lid rid on data) (exec_join jt st l r lid rid on data).
Proof. exact exec_join_order_irrelevant. Qed.
Print Assumptions C12_join_order_irrelevant.

Theorem C12_join_ord_id : forall jt st l r lid rid on data,
  exec_join_ord (fun c => c) (fun c => c) jt st l r lid rid on data = exec_join jt st l r lid rid on data.
Proof. exact exec_join_ord_id. Qed.
Print Assumptions C12_join_ord_id.

(* "the identical sequence whenever ORDER BY determines a total order": if the comparator never ties
   two different rows, every output meeting sort.Slice's contract is the same list, in whatever order
   the rows arrived (e.g. from a join) *)
Theorem C12_order_by_unique : forall less l l' out out',
  Permutation l' l ->
  total_on (fun x => In x l) less -> strict_weak_order (fun x => In x l) (lt_of less) ->
  (forall a b, In a l -> In b l -> less a b = Ok false -> less b a = Ok false -> a = b) ->
  sorted_perm less l out -> sorted_perm less l' out' -> out = out'.
Proof. exact sorted_perm_unique. Qed.
Print Assumptions C12_order_by_unique.

(* FULL STATEMENT NOT PROVED (and false as stated for the engine):
     C12_multiset_deterministic : forall oL oR (permutations),
       res_perm (api_run call (exec_join_ord oL oR) fuel w doc q) (api_run call exec_join fuel w doc q).
   It fails when a floating-point aggregate consumes the join output: addition is not associative,
   so SUM sees the catalog order.  Witness below (model), reproduced on the real engine: the query
   returns s = 0 or s = 1 from run to run. *)
Theorem C12_multiset_deterministic_refuted :
  exists oL, (forall c, Permutation (oL c) c) /\
  exists d q rows rows',
    cleanb d = true /\ query_ok q = true /\
    api_run no_call exec_join 40 false d q = Ok rows /\
    api_run no_call (exec_join_ord oL (fun c => c)) 40 false d q = Ok rows' /\
    ~ Permutation rows rows'.
Proof. exact sum_over_join_order_dependent. Qed.
Print Assumptions C12_multiset_deterministic_refuted.

(* ------------------------------------------------------------------ *)
(* 4. non-vacuity                                                        *)
(* ------------------------------------------------------------------ *)

(* the function hook of the correspondence run satisfies the premise *)
Theorem C12_call_hook_ok : call_ok c12_call.
Proof. exact c12_call_ok. Qed.
Print Assumptions C12_call_hook_ok.

(* a query with a column, a scalar subquery over the scope copy reading through `<-`, a function, a
   CASE and a star satisfies every premise and returns two rows; the theorem applies to it *)
Example C12_example_subquery :
  cleanb doc = true /\ query_ok q1 = true /\
  api_run c12_call exec_join 40 false doc q1 = Ok rows1 /\ Forall clean rows1.
Proof.
  destruct ex_q1 as [Hd [Hq Hr]]. repeat split; try assumption.
  exact (C12_no_navigation_key c12_call 40 false doc q1 rows1 c12_call_ok (proj1 (cleanb_spec doc) Hd) Hq Hr).
Qed.

(* LEFT JOIN with a NULL-extended row *)
Example C12_example_join :
  query_ok q2 = true /\ api_run c12_call exec_join 40 false doc q2 = Ok rows2 /\ Forall clean rows2.
Proof.
  destruct ex_q2 as [Hq Hr]. repeat split; try assumption.
  exact (C12_no_navigation_key c12_call 40 false doc q2 rows2 c12_call_ok
           (proj1 (cleanb_spec doc) (proj1 ex_q1)) Hq Hr).
Qed.

(* CTE, GROUP BY with `*`, aggregate, ORDER BY, LIMIT *)
Example C12_example_group :
  query_ok q3 = true /\ api_run c12_call exec_join 40 false doc q3 = Ok rows3 /\ Forall clean rows3.
Proof.
  destruct ex_q3 as [Hq Hr]. repeat split; try assumption.
  exact (C12_no_navigation_key c12_call 40 false doc q3 rows3 c12_call_ok
           (proj1 (cleanb_spec doc) (proj1 ex_q1)) Hq Hr).
Qed.

(* (b) a value tuple as a value: a tuple nested in a tuple holding an arithmetic member and a string literal (then
   a column, NULL, arithmetic over a missing column, a subquery); the stored value is the array of unwrapped
   members.  The same query on the real engine (commit 055c082) returns these rows. *)
Example C12_example_tuple :
  query_ok q4 = true /\ api_run c12_call exec_join 40 false doc q4 = Ok rows4 /\ Forall clean rows4.
Proof.
  destruct ex_q4 as [Hq Hr]. repeat split; try assumption.
  exact (C12_no_navigation_key c12_call 40 false doc q4 rows4 c12_call_ok
           (proj1 (cleanb_spec doc) (proj1 ex_q1)) Hq Hr).
Qed.

(* the same at the level of Expr / ValueOf: ((a + 1, 'lit'), b) on the row {a: 1, b: "x"} *)
Example C12_example_tuple_value :
  ex_tuple_expr = ETuple [ETuple [EBin BAdd (ECol ["a"%string]) (ENum 1); EStr "lit"]; ECol ["b"%string]] /\
  eval ex_env ex_tuple_row ex_tuple_expr = Ok ex_tuple_result /\
  ex_tuple_result = RTuple [RTuple [RNumPtr (Some 2%float); RNeutral "lit"]; RVal (VStr "x")] /\
  value_of ex_tuple_row ex_tuple_result = Ok ex_tuple_value /\
  ex_tuple_value = VArr [VArr [VNum 2; VStr "lit"]; VStr "x"].
Proof. repeat split; apply ex_tuple_raw. Qed.

(* members the real Unwrapped leaves as they are (its default branch) are OUTSIDE the model, not repaired:
   the Ommit marker of a SPIN call and the slot of an ASYNC call stay members of the array *)
Example C12_example_tuple_unresolved :
  api_run c12_call exec_join 40 false doc q_tuple_spin = OutOfModel /\
  api_run c12_call exec_join 40 false doc q_tuple_async = OutOfModel /\
  value_of [] (RTuple [ROmit; RVal (VNum 1)]) = OutOfModel.
Proof. exact ex_tuple_unresolved. Qed.

(* each exclusion of [query_ok] is needed: the excluded query returns a row with a `<-` key in the model *)
Example C12_exclusions_needed :
  leaks q_star_over_scope /\ leaks q_nav_path /\ leaks q_nav_col /\ leaks q_alias.
Proof. exact (conj star_over_scope_leaks (conj nav_path_leaks (conj nav_col_leaks alias_leaks))). Qed.
