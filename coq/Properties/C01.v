(* Properties/C01.v — WHERE keeps exactly the rows that satisfy the predicate, in source order
   (claims only; specification in Spec/PredSem.v, proofs in Proofs/C01Lemmas.v).

   Reading guide.  [pred_sem r p] is the ordinary two-valued meaning of predicate [p] on row [r];
   [in_scope r p] (a boolean) says that [r] is inside the claim for [p]: every comparison / IN /
   BETWEEN relates columns and constants of ONE scalar kind (number or string) that are non-NULL in
   this row, LIKE relates strings, NULL / missing columns occur only under IS [NOT] NULL, bool
   columns only under IS [NOT] TRUE/FALSE, column paths are non-empty and do not start with "<-";
   AND/OR/NOT to any depth.  [e_hard E = false] says that [E] is the environment of a WHERE/HAVING
   clause (a join's ON clause quotes dotted names; [mk_env] always sets it to false).
   No order law on doubles is assumed anywhere in this file. *)
From Coq Require Import Floats Permutation.
From GenqlV Require Import Base.Prelude Base.Value Model.Ast Model.Like Model.Eval Model.Exec.
From GenqlV Require Import Spec.PredSem Proofs.C01Lemmas Proofs.C01Staged.
Local Open Scope Z_scope.
Local Open Scope list_scope.

(* the scope copy that carries the "<-" marker does not disturb column reads - for ARBITRARY
   association lists (unsorted, duplicate keys) *)
Theorem C01_scope_reads : forall p (cur : row) d,
  path_ok p = true -> reader p (VObj (scope cur d)) = reader p (VObj cur).
Proof. exact reader_scope. Qed.
Print Assumptions C01_scope_reads.

(* on every in-scope row the evaluator returns exactly the specified truth value - never an error,
   never a non-bool - for predicates of any depth *)
Theorem C01_eval_pred : forall Q (E : env Q) (r : row) (p : expr Q),
  e_hard E = false -> in_scope r p = true ->
  eval E r p = Ok (RVal (VBool (pred_sem r p))).
Proof. intros Q E r p Hh. apply eval_pred. exact Hh. Qed.
Print Assumptions C01_eval_pred.

(* the row loop: exactly the satisfying rows, each once, in source order - it is literally [filter].
   Table elements that are neither objects nor arrays are skipped ([row_sat] is false on them);
   arrays (inner dimensions) are outside this claim ([elem_in_scope] is false on them). *)
Theorem C01_filter_exact : forall rec ctx (s : select stmt) (E : env stmt) p tbl,
  e_hard E = false -> s_where s = Some p ->
  forallb (elem_in_scope p) tbl = true ->
  filter_rows rec ctx s E tbl = Ok (filter (row_sat p) tbl).
Proof. exact filter_exact. Qed.
Print Assumptions C01_filter_exact.

(* the same for a table given as a list of object rows *)
Theorem C01_filter_exact_rows : forall rec ctx (s : select stmt) (E : env stmt) p (rows : list row),
  e_hard E = false -> s_where s = Some p ->
  Forall (fun r => in_scope r p = true) rows ->
  filter_rows rec ctx s E (map VObj rows) = Ok (map VObj (filter (fun r => pred_sem r p) rows)).
Proof. exact filter_exact_rows. Qed.
Print Assumptions C01_filter_exact_rows.

(* conjunction is staged filtering: WHERE p AND q keeps exactly what WHERE q keeps of the rows
   WHERE p kept (so no row is dropped or let through by the way the two conjuncts interact) *)
Theorem C01_and_is_staged : forall rec ctx (s s1 s2 : select stmt) (E : env stmt) p q (rows : list row),
  e_hard E = false ->
  s_where s = Some (EAnd p q) -> s_where s1 = Some p -> s_where s2 = Some q ->
  Forall (fun r => in_scope r (EAnd p q) = true) rows ->
  exists mid,
    filter_rows rec ctx s1 E (map VObj rows) = Ok (map VObj mid) /\
    mid = filter (fun r => pred_sem r p) rows /\
    filter_rows rec ctx s2 E (map VObj mid) = filter_rows rec ctx s E (map VObj rows).
Proof. exact filter_and_staged. Qed.
Print Assumptions C01_and_is_staged.

(* lifted to the SELECT stage pipeline: with WHERE p, every later stage (GROUP BY, HAVING, select
   list, DISTINCT, ORDER BY, LIMIT/OFFSET) sees exactly the satisfying rows, in source order *)
Theorem C01_run_select_where : forall rec call join ctx (s : select stmt) p tbl,
  s_where s = Some p ->
  forallb (elem_in_scope p) tbl = true ->
  run_select rec call join ctx s (Some tbl)
  = run_select rec call join ctx (without_where s) (Some (filter (row_sat p) tbl)).
Proof. exact run_select_where. Qed.
Print Assumptions C01_run_select_where.

(* NOT IN is the complement of IN *)
Theorem C01_not_in_complement : forall Q (E : env Q) (r : row) (a : expr Q) items,
  e_hard E = false ->
  in_scope r (EIn false a items) = true ->
  in_scope r (EIn true a items) = true /\
  exists b,
    b = existsb (fun c => cmp_sem OpEq (val r a) (val r c)) items /\
    eval E r (EIn false a items) = Ok (RVal (VBool b)) /\
    eval E r (EIn true a items) = Ok (RVal (VBool (negb b))).
Proof. intros Q E r a items Hh. apply not_in_complement. exact Hh. Qed.
Print Assumptions C01_not_in_complement.

(* x BETWEEN lo AND hi has the truth value of  x >= lo AND x <= hi  (inclusive at both ends) *)
Theorem C01_between_is_range : forall Q (E : env Q) (r : row) (x lo hi : expr Q),
  e_hard E = false ->
  in_scope r (EBetween false x lo hi) = true ->
  in_scope r (EAnd (ECmp OpGe x lo) (ECmp OpLe x hi)) = true /\
  eval E r (EBetween false x lo hi) = eval E r (EAnd (ECmp OpGe x lo) (ECmp OpLe x hi)) /\
  eval E r (EBetween false x lo hi)
    = Ok (RVal (VBool (cmp_sem OpGe (val r x) (val r lo) && cmp_sem OpLe (val r x) (val r hi)))).
Proof. intros Q E r x lo hi Hh. apply between_is_range. exact Hh. Qed.
Print Assumptions C01_between_is_range.

Theorem C01_not_between_is_outside : forall Q (E : env Q) (r : row) (x lo hi : expr Q),
  e_hard E = false ->
  in_scope r (EBetween true x lo hi) = true ->
  eval E r (EBetween true x lo hi) = eval E r (ENot (EAnd (ECmp OpGe x lo) (ECmp OpLe x hi))).
Proof. intros Q E r x lo hi Hh. apply not_between_is_outside. exact Hh. Qed.
Print Assumptions C01_not_between_is_outside.

(* a predicate and its negation partition the rows: both filters succeed, they are complementary
   sublists (in source order) of the table, concatenated they are a permutation of it, and every
   row is in exactly one of them *)
Theorem C01_partition : forall rec ctx (s s' : select stmt) (E : env stmt) p (rows : list row),
  e_hard E = false -> s_where s = Some p -> s_where s' = Some (ENot p) ->
  Forall (fun r => in_scope r p = true) rows ->
  let tbl := map VObj rows in
  exists yes no,
    filter_rows rec ctx s E tbl = Ok yes /\
    filter_rows rec ctx s' E tbl = Ok no /\
    yes = filter (row_sat p) tbl /\
    no = filter (fun v => negb (row_sat p v)) tbl /\
    Permutation (yes ++ no) tbl /\
    (forall v, In v tbl -> (In v yes /\ ~ In v no) \/ (In v no /\ ~ In v yes)).
Proof. exact partition. Qed.
Print Assumptions C01_partition.

(* LIKE: what the engine compiles the pattern to is the classical wildcard matcher, for all byte
   strings [pat] and [s] *)
Theorem C01_like_wildcard : forall pat s,
  items_match (like_items pat) (runes (to_lower s))
  = wildcard_match (runes (to_lower pat)) (runes (to_lower s)).
Proof. exact like_wildcard. Qed.
Print Assumptions C01_like_wildcard.

(* ... and the boolean matcher decides the declarative relation [wild] ('%' any sequence, '_' any
   one rune, every other rune itself) *)
Theorem C01_wildcard_is_wild : forall p s, wildcard_match p s = true <-> wild p s.
Proof. exact wildcard_match_iff. Qed.
Print Assumptions C01_wildcard_is_wild.

Theorem C01_like_percent_any_sequence : forall p s,
  wild ("%"%string :: p) s <-> exists s1 s2, s = s1 ++ s2 /\ wild p s2.
Proof. exact wild_pct_split. Qed.
Print Assumptions C01_like_percent_any_sequence.

(* only % and _ are wildcards: a pattern without them - whatever else it contains, ( ) [ . * + ? \ ^
   $ | included - matches exactly itself *)
Theorem C01_like_literal : forall p s, no_wildcard p -> (wildcard_match p s = true <-> s = p).
Proof. exact wildcard_match_literal. Qed.
Print Assumptions C01_like_literal.

(* x [NOT] IN (subquery) over rows that are single-column objects (any column names) is
   [non-]membership of x's value in the column: equality of same-kind scalars ... *)
Theorem C01_in_subquery : forall Q (E : env Q) (r : row) neg (a : expr Q) q k x
                                 (cols : list (string * value)),
  e_hard E = false ->
  operand r a = Some x -> kind_of x = Some k ->
  e_sub E q (scope r (e_data E)) = Ok (VArr (map (fun cv => VObj [cv]) cols)) ->
  Forall (fun cv => kind_of (snd cv) = Some k) cols ->
  eval E r (EInSub neg a q)
  = Ok (RVal (VBool (negate_if neg (existsb (fun cv => cmp_sem OpEq x (snd cv)) cols)))).
Proof. intros Q E r neg a q k x cols Hh. apply in_subquery. exact Hh. Qed.
Print Assumptions C01_in_subquery.

(* ... and in general membership by [vcompare _ _ = 0], whenever those comparisons are defined *)
Theorem C01_in_subquery_vcompare : forall Q (E : env Q) (r : row) neg (a : expr Q) q x
                                          (cols : list (string * value)),
  e_hard E = false ->
  operand r a = Some x ->
  e_sub E q (scope r (e_data E)) = Ok (VArr (map (fun cv => VObj [cv]) cols)) ->
  (forall cv, In cv cols -> exists z, vcompare x (snd cv) = Ok z) ->
  eval E r (EInSub neg a q)
  = Ok (RVal (VBool (negate_if neg (existsb (fun cv => vmember x (snd cv)) cols)))).
Proof. intros Q E r neg a q x cols Hh. apply in_subquery_vcompare. exact Hh. Qed.
Print Assumptions C01_in_subquery_vcompare.

(* NOT IN (subquery) is the complement of IN (subquery) *)
Theorem C01_not_in_subquery_complement : forall Q (E : env Q) (r : row) (a : expr Q) q k x
                                                (cols : list (string * value)),
  e_hard E = false ->
  operand r a = Some x -> kind_of x = Some k ->
  e_sub E q (scope r (e_data E)) = Ok (VArr (map (fun cv => VObj [cv]) cols)) ->
  Forall (fun cv => kind_of (snd cv) = Some k) cols ->
  exists b,
    eval E r (EInSub false a q) = Ok (RVal (VBool b)) /\
    eval E r (EInSub true a q) = Ok (RVal (VBool (negb b))).
Proof. intros Q E r a q k x cols Hh. apply not_in_subquery_complement. exact Hh. Qed.
Print Assumptions C01_not_in_subquery_complement.

(* what the numeric comparisons mean in terms of the IEEE primitives (definitional, no law) *)
Theorem C01_num_cmp_reading : forall a b,
  cmp_sem OpEq (VNum a) (VNum b) = PrimFloat.eqb a b /\
  cmp_sem OpNe (VNum a) (VNum b) = negb (PrimFloat.eqb a b) /\
  cmp_sem OpGt (VNum a) (VNum b) = negb (PrimFloat.eqb a b) && PrimFloat.ltb b a /\
  cmp_sem OpGe (VNum a) (VNum b) = PrimFloat.eqb a b || PrimFloat.ltb b a /\
  cmp_sem OpLt (VNum a) (VNum b) = negb (PrimFloat.eqb a b) && negb (PrimFloat.ltb b a) /\
  cmp_sem OpLe (VNum a) (VNum b) = PrimFloat.eqb a b || negb (PrimFloat.ltb b a).
Proof. exact num_cmp_reading. Qed.
Print Assumptions C01_num_cmp_reading.

(* ------------------------------------------------------------------ *)
(* Non-vacuity: a 4-row table with a number, a string, a bool and a     *)
(* nullable column (NULL, missing, present) and a depth-3 predicate     *)
(*   ((a BETWEEN -3 AND 1 AND b LIKE 'a%') OR NOT (d IS NULL))          *)
(*   AND (a NOT IN (3, 7) OR (b LIKE '%(_)' OR c IS TRUE))              *)
(* ------------------------------------------------------------------ *)
Module Witness.
  Definition r1 : row := [("a", VNum 1); ("b", VStr "Apple(1)"); ("c", VBool true); ("d", VNull)]%string.
  Definition r2 : row := [("a", VNum (-2.5)); ("b", VStr "banana"); ("c", VBool false); ("d", VNum 7)]%string.
  Definition r3 : row := [("a", VNum 3); ("b", VStr "a.c"); ("c", VBool true)]%string.
  Definition r4 : row := [("a", VNum 1); ("b", VStr "ABC"); ("c", VBool false); ("d", VNull)]%string.
  Definition rows := [r1; r2; r3; r4].

  Definition col (k : string) : expr stmt := ECol [k].
  Definition p : expr stmt :=
    EAnd
      (EOr (EAnd (EBetween false (col "a") (EUn UNeg (ENum 3)) (ENum 1))
                 (ELike false (col "b") (EStr "a%")))
           (ENot (EIs IsNull (col "d"))))
      (EOr (EIn true (col "a") [ENum 3; ENum 7])
           (EOr (ELike false (col "b") (EStr "%(_)")) (EIs IsTrue (col "c")))).

  Definition rec0 : qctx -> job -> res value := fun _ _ => Err.
  Definition ctx0 : qctx := {| c_data := [("t"%string, VArr (map VObj rows))]; c_ctes := []; c_busy := []; c_up := [] |}.
  Definition s0 : select stmt :=
    {| s_with := []; s_from := FTable ["t"%string] ""; s_where := Some p; s_group := [];
       s_having := None; s_items := [IStar]; s_distinct := false; s_order := [];
       s_limit := None; s_offset := None |}.
  Definition E0 : env stmt := mk_env rec0 no_call no_join ctx0 s0 [].
End Witness.

Example C01_nonvacuous :
  forallb (fun r => in_scope r Witness.p) Witness.rows = true /\
  e_hard Witness.E0 = false /\
  filter_rows Witness.rec0 Witness.ctx0 Witness.s0 Witness.E0 (map VObj Witness.rows)
    = Ok (map VObj [Witness.r1; Witness.r2; Witness.r4]) /\
  filter (fun r => pred_sem r Witness.p) Witness.rows = [Witness.r1; Witness.r2; Witness.r4] /\
  run_select Witness.rec0 no_call no_join Witness.ctx0 Witness.s0 (Some (map VObj Witness.rows))
    = Ok (VArr (map VObj [Witness.r1; Witness.r2; Witness.r4])).
Proof. vm_compute. repeat split. Qed.

(* regex metacharacters in LIKE patterns are literal; matching is case-insensitive *)
Example C01_like_examples :
  like_sem "a.c" "a.c" = true /\ like_sem "abc" "a.c" = false /\
  like_sem "(x)" "(%" = true /\ like_sem "a+b" "A+_" = true /\ like_sem "aab" "a+b" = false /\
  like_sem "" "%" = true /\ like_sem "" "_" = false /\ like_sem "x[1]$" "%[_]$" = true.
Proof. vm_compute. repeat split. Qed.
