(* Properties/C07.v — CTEs, derived tables and subqueries equal staged evaluation
   (claims only; proofs in Proofs/C07Mono.v, C07Blind.v, C07Up.v, C07Lemmas.v, examples in C07Examples.v;
    specification in Spec/StageSpec.v).

   Reading guide.
   * [exec call join n ctx j] is the fuelled interpreter of Model/Exec.v ([call] = scalar functions,
     [join] = ExecJoin, both arbitrary fixed functions); running out of fuel is OutOfModel, which is
     also what a few out-of-scope inputs evaluate to, so fuel statements are made for outcomes other
     than OutOfModel.  [evals ctx j r] = "r is not OutOfModel and some fuel yields r" (by
     [C07_fuel_monotone] every larger fuel then yields r, and r is unique).
   * [plain d] = run standalone on document d (no CTE registered, none in progress);
     [bind_doc d c v] = d with v as plain input under key c; [clear_with s] / [set_from s f] /
     [set_with s w] = the SELECT s with another WITH / FROM clause, all other clauses unchanged.
   * [stage n c inner outer d] = materialise, then query: run inner standalone on d (fuel n), bind
     its result to c, run outer-without-WITH standalone on that document (fuel n+1, as the composed
     query has).
   * [blind_select s] = WHERE, HAVING and the select list of s are in the
     filter/projection/aggregate grammar (columns, literals, AND/OR/NOT, comparisons, LIKE, IN list,
     BETWEEN, IS, arithmetic, CASE, aggregates; no subquery, no function call, no `<-`);
     GROUP BY / DISTINCT / ORDER BY / LIMIT / OFFSET are unrestricted.  [avoids names q] = q is a
     SELECT without its own WITH (or a UNION of such) whose tables, joins included, do not start with
     one of [names] and are not derived tables, and whose row-scoped subqueries (at any depth) have
     no table path that reaches one of [names] through `<-` ([hides]: a subquery sees the CTE thunks
     of the enclosing query behind `<-`).  [no_thunks ctx] = the query running in ctx registered no
     CTE and neither did the queries enclosing it.  [stage_head q = Some k] = q is a [blind_select]
     SELECT without WITH over one table path starting with k.  [chain_ok w] = distinct names, every
     body a stage whose table is an earlier CTE or a document key that is no CTE name. *)
From Coq Require Import Floats Permutation.
From GenqlV Require Import Base.Prelude Base.Value Model.Ast Model.Eval Model.Exec.
From GenqlV Require Import Spec.StageSpec.
From GenqlV Require Import Proofs.C07Mono Proofs.C07Blind Proofs.C07Up Proofs.C07Lemmas Proofs.C07Examples.
From GenqlV Require Import Run.EngineRun.
Local Open Scope list_scope.


(* ================================================================ *)
(* fuel                                                              *)
(* ================================================================ *)

(* more fuel never changes an outcome other than OutOfModel (Ok, Err and Panic alike) *)
Theorem C07_fuel_monotone : forall call join n m ctx j r,
  exec call join n ctx j = r -> r <> OutOfModel -> n <= m -> exec call join m ctx j = r.
Proof. exact exec_mono. Qed.
Print Assumptions C07_fuel_monotone.

(* two runs with any amounts of fuel agree unless one of them is OutOfModel *)
Theorem C07_fuel_deterministic : forall call join n m ctx j,
  exec call join n ctx j <> OutOfModel -> exec call join m ctx j <> OutOfModel ->
  exec call join n ctx j = exec call join m ctx j.
Proof. exact exec_deterministic. Qed.
Print Assumptions C07_fuel_deterministic.

Theorem C07_api_fuel_monotone : forall call join n m wrapped doc q r,
  api_run call join n wrapped doc q = r -> r <> OutOfModel -> n <= m ->
  api_run call join m wrapped doc q = r.
Proof. exact api_run_mono. Qed.
Print Assumptions C07_api_fuel_monotone.

(* the interpreter sees its context only through the document, the CTE lookup function and the
   in-progress test — of the query itself and (new: [ctx_equiv] now also relates the stacks [c_up])
   of the queries enclosing it, up to enclosing queries that registered no CTE at all *)
Theorem C07_context_congruence : forall call join n a b j,
  ctx_equiv a b -> exec call join n a j = exec call join n b j.
Proof. exact exec_ctx_equiv. Qed.
Print Assumptions C07_context_congruence.

(* ================================================================ *)
(* one CTE                                                           *)
(* ================================================================ *)

(* WITH c AS inner  SELECT ... FROM c[.path] [alias] ... : at every fuel, the composed query is
   exactly "materialise, then query" — same value, same error, same panic *)
Theorem C07_cte_is_staged : forall call join n d c inner s rest alias,
  s_with s = [(c, inner)] -> s_from s = FTable (c :: rest) alias ->
  blind_select s = true -> avoids [c] inner = true ->
  (forall v, exec call join n (plain d) (JStmt inner) = Ok v -> exists rows, v = VArr rows) ->
  exec call join (S n) (plain d) (JStmt (SSelect s)) = stage call join n c inner s d.
Proof. exact cte_is_staged. Qed.
Print Assumptions C07_cte_is_staged.

(* the staged run may bind the materialised value under any key k' (outer FROM renamed accordingly):
   the shape the differential harness compares on the real code *)
Theorem C07_cte_is_staged_at : forall call join n d c k' inner s rest alias,
  s_with s = [(c, inner)] -> s_from s = FTable (c :: rest) alias ->
  blind_select s = true -> avoids [c] inner = true ->
  (forall v, exec call join n (plain d) (JStmt inner) = Ok v -> exists rows, v = VArr rows) ->
  exec call join (S n) (plain d) (JStmt (SSelect s)) =
  let! v := exec call join n (plain d) (JStmt inner) in
  exec call join (S n) (plain (bind_doc d k' v))
       (JStmt (SSelect (set_from (clear_with s) (FTable (k' :: rest) alias)))).
Proof. exact cte_is_staged_at. Qed.
Print Assumptions C07_cte_is_staged_at.

(* the same for an arbitrary outer SELECT and an arbitrary inner statement; what the syntactic
   premises above are used for is stated semantically: the CTE body does not notice that it is
   registered and in progress, and the outer pipeline over given rows does not notice that key c
   of the document has been bound *)
Theorem C07_cte_is_staged_sem : forall call join n d c inner s rest alias,
  s_with s = [(c, inner)] -> s_from s = FTable (c :: rest) alias ->
  exec call join n (mkctx d [(c, inner)] [c]) (JStmt inner) = exec call join n (plain d) (JStmt inner) ->
  (forall v, exec call join n (plain d) (JStmt inner) = Ok v -> exists rows, v = VArr rows) ->
  (forall v rows, exec call join n (plain d) (JStmt inner) = Ok v ->
     run_select (exec call join n) call join (mkctx d [(c, inner)] []) s (Some rows) =
     run_select (exec call join n) call join (plain (bind_doc d c v)) s (Some rows)) ->
  exec call join (S n) (plain d) (JStmt (SSelect s)) = stage call join n c inner s d.
Proof. exact cte_is_staged_sem. Qed.
Print Assumptions C07_cte_is_staged_sem.

(* a statement that [avoids] the registered names evaluates as if standalone *)
Theorem C07_cte_invisible : forall call join q n d ctes busy,
  avoids (map fst ctes) q = true ->
  exec call join n (mkctx d ctes busy) (JStmt q) = exec call join n (plain d) (JStmt q).
Proof. exact avoids_invisible. Qed.
Print Assumptions C07_cte_invisible.

(* a SELECT of the grammar over resolved rows ignores document, CTEs, WITH and FROM *)
Theorem C07_pipeline_reads_rows_only : forall call join n a b s s' rows,
  blind_select s = true -> same_pipeline s s' ->
  exec call join n a (JRows s rows) = exec call join n b (JRows s' rows).
Proof. exact exec_rows_blind. Qed.
Print Assumptions C07_pipeline_reads_rows_only.

(* without fuel *)
Theorem C07_cte_is_staged_evals : forall call join d c inner s rest alias rows r,
  s_with s = [(c, inner)] -> s_from s = FTable (c :: rest) alias ->
  blind_select s = true -> avoids [c] inner = true ->
  evals call join (plain d) (JStmt inner) (Ok (VArr rows)) ->
  (evals call join (plain d) (JStmt (SSelect s)) r <->
   evals call join (plain (bind_doc d c (VArr rows))) (JStmt (SSelect (clear_with s))) r).
Proof. exact cte_is_staged_evals. Qed.
Print Assumptions C07_cte_is_staged_evals.

(* ================================================================ *)
(* CTE chains, declaration order, several reads                      *)
(* ================================================================ *)

(* WITH c1 AS q1, ..., cn AS qn  outer  (any n; later bodies may read earlier CTEs, possibly
   through a path): the composed query evaluates to r iff the outer query, standalone on the
   document extended stage by stage with the bodies' results, evaluates to r *)
Theorem C07_cte_chain : forall call join d d' s k r,
  chain_ok (s_with s) = true ->
  staged_chain call join d (s_with s) d' ->
  stage_head (SSelect (clear_with s)) = Some k ->
  r <> OutOfModel ->
  (evals call join (plain d) (JStmt (SSelect s)) r <->
   evals call join (plain d') (JStmt (SSelect (clear_with s))) r).
Proof. exact cte_chain. Qed.
Print Assumptions C07_cte_chain.

(* ... for any declaration order: it suffices that SOME ordering of the WITH list is a well-scoped
   chain (WITH c2 AS (... FROM c1), c1 AS (...) is fine) *)
Theorem C07_cte_chain_any_order : forall call join d d' s w' k r,
  Permutation (s_with s) w' -> chain_ok w' = true ->
  staged_chain call join d w' d' ->
  stage_head (SSelect (clear_with s)) = Some k ->
  r <> OutOfModel ->
  (evals call join (plain d) (JStmt (SSelect s)) r <->
   evals call join (plain d') (JStmt (SSelect (clear_with s))) r).
Proof. exact cte_chain_any_order. Qed.
Print Assumptions C07_cte_chain_any_order.

(* thunks are registered before any is resolved: the declaration order is irrelevant *)
Theorem C07_cte_order_irrelevant : forall call join n ctx s w',
  NoDup (map fst (s_with s)) -> Permutation (s_with s) w' ->
  exec call join n ctx (JStmt (SSelect s)) = exec call join n ctx (JStmt (SSelect (set_with s w'))).
Proof. exact cte_order_irrelevant. Qed.
Print Assumptions C07_cte_order_irrelevant.

(* every read of a CTE — whatever path or alias follows, however many reads there are — sees the
   value one reads from the document in which the CTE's result is bound as plain input *)
Theorem C07_cte_multi_use : forall join rec d ctes busy c body rows,
  cte_lookup c ctes = Some body -> mem_str c busy = false ->
  rec (mkctx d ctes (c :: busy)) (JStmt body) = Ok (VArr rows) ->
  forall rest alias,
    build_from rec join (mkctx d ctes busy) (FTable (c :: rest) alias) =
    build_from rec join (plain (bind_doc d c (VArr rows))) (FTable (c :: rest) alias).
Proof. exact cte_multi_use. Qed.
Print Assumptions C07_cte_multi_use.

(* ... e.g. a self-join joins two copies of one materialised value *)
Theorem C07_cte_self_join : forall join rec d ctes busy c body rows jt st r1 a1 r2 a2 on,
  cte_lookup c ctes = Some body -> mem_str c busy = false ->
  rec (mkctx d ctes (c :: busy)) (JStmt body) = Ok (VArr rows) ->
  build_from rec join (mkctx d ctes busy) (FJoin jt st (FTable (c :: r1) a1) (FTable (c :: r2) a2) on) =
  let! v1 := reader r1 (VArr rows) in let! l := as_array v1 in
  let! v2 := reader r2 (VArr rows) in let! r := as_array v2 in
  let! out := join jt st (process_alias l a1) (process_alias r a2)
                   (from_ident (FTable (c :: r1) a1)) (from_ident (FTable (c :: r2) a2)) on d in
  Ok (Some out).
Proof. exact cte_self_join. Qed.
Print Assumptions C07_cte_self_join.

(* ================================================================ *)
(* derived tables                                                    *)
(* ================================================================ *)

(* FROM (q) alias = the rows of q's result wrapped by ProcessAlias, any SELECT *)
Theorem C07_derived_is_rows : forall call join n ctx s q alias,
  s_from s = FDerived q alias ->
  exec call join (S n) ctx (JStmt (SSelect s)) =
  let ctx' := register_ctes ctx (s_with s) in
  let! v := exec call join n ctx' (JStmt q) in
  let! arr := as_array v in
  exec call join (S n) ctx' (JRows s (process_alias arr alias)).
Proof. exact derived_is_rows. Qed.
Print Assumptions C07_derived_is_rows.

(* = the same SELECT reading the inner result as plain input (under any key k) *)
Theorem C07_derived_is_staged : forall call join n d s q alias k,
  s_with s = [] -> s_from s = FDerived q alias -> blind_select s = true ->
  (forall v, exec call join n (plain d) (JStmt q) = Ok v -> exists rows, v = VArr rows) ->
  exec call join (S n) (plain d) (JStmt (SSelect s)) =
  let! v := exec call join n (plain d) (JStmt q) in
  exec call join (S n) (plain (bind_doc d k v)) (JStmt (SSelect (set_from s (FTable [k] alias)))).
Proof. exact derived_is_staged. Qed.
Print Assumptions C07_derived_is_staged.

Theorem C07_derived_is_staged_evals : forall call join d s q alias k rows r,
  s_with s = [] -> s_from s = FDerived q alias -> blind_select s = true ->
  evals call join (plain d) (JStmt q) (Ok (VArr rows)) ->
  (evals call join (plain d) (JStmt (SSelect s)) r <->
   evals call join (plain (bind_doc d k (VArr rows))) (JStmt (SSelect (set_from s (FTable [k] alias)))) r).
Proof. exact derived_is_staged_evals. Qed.
Print Assumptions C07_derived_is_staged_evals.

(* ================================================================ *)
(* row-scoped subqueries                                             *)
(* ================================================================ *)

(* a select-list subquery contributes exactly what it returns standalone on the scope copy of the
   current row; the enclosing query running with fuel n+1 gives it fuel n.
   [no_thunks ctx] is a new hypothesis (here and in the IN / EXISTS claims below): when the enclosing
   query, or a query around it, registered CTEs, the subquery is not a standalone run on the row —
   behind `<-` it finds the thunks (C07_up_* below) *)
Theorem C07_subquery_standalone : forall call join n ctx s filtered cur q,
  no_thunks ctx ->
  eval (mk_env (exec call join n) call join ctx s filtered) cur (ESub q) =
  let! v := exec call join n (plain (scope cur (VObj (c_data ctx)))) (JStmt q) in Ok (RVal v).
Proof. exact subquery_standalone. Qed.
Print Assumptions C07_subquery_standalone.

Theorem C07_subquery_standalone_evals : forall call join ctx s filtered cur q r,
  no_thunks ctx ->
  evals call join (plain (scope cur (VObj (c_data ctx)))) (JStmt q) r ->
  exists N, forall n, N <= n ->
    eval (mk_env (exec call join n) call join ctx s filtered) cur (ESub q) = (let! v := r in Ok (RVal v)).
Proof. exact subquery_standalone_evals. Qed.
Print Assumptions C07_subquery_standalone_evals.

(* the scope copy: the row's own columns, and the enclosing document after `<-` *)
Theorem C07_subquery_row_from : forall join rec cur data k rest alias,
  k <> "<-"%string ->
  build_from rec join (plain (scope cur data)) (FTable (k :: rest) alias) =
  build_from rec join (plain cur) (FTable (k :: rest) alias).
Proof. exact subquery_row_from. Qed.
Print Assumptions C07_subquery_row_from.

Theorem C07_subquery_root_from : forall join rec cur d k rest alias,
  build_from rec join (plain (scope cur (VObj d))) (FTable ("<-"%string :: k :: rest) alias) =
  build_from rec join (plain d) (FTable (k :: rest) alias).
Proof. exact subquery_root_from. Qed.
Print Assumptions C07_subquery_root_from.

(* x [NOT] IN (subquery), both polarities: membership among the single columns of the standalone
   result *)
Theorem C07_in_subquery : forall call join n ctx s filtered cur neg a q l lv rs cols,
  no_thunks ctx ->
  eval (mk_env (exec call join n) call join ctx s filtered) (scope cur (VObj (c_data ctx))) a = Ok l ->
  value_of (scope cur (VObj (c_data ctx))) l = Ok lv ->
  exec call join n (plain (scope cur (VObj (c_data ctx)))) (JStmt q) = Ok (VArr rs) ->
  mapM sub_column rs = Ok cols ->
  (forall c, In c cols -> exists z, vcompare lv c = Ok z) ->
  eval (mk_env (exec call join n) call join ctx s filtered) cur (EInSub neg a q) =
  Ok (RVal (VBool (xorb neg (member_sem lv cols)))).
Proof. exact in_subquery. Qed.
Print Assumptions C07_in_subquery.

(* ================================================================ *)
(* EXISTS                                                            *)
(* ================================================================ *)

(* EXISTS q on row [current] hands q the scope copy of the row *)
Theorem C07_exists_expr : forall call join n ctx s filtered current q,
  eval (mk_env (exec call join n) call join ctx s filtered) current (EExists q) =
  let! b := e_exists (mk_env (exec call join n) call join ctx s filtered) q (scope current (VObj (c_data ctx))) in
  Ok (RVal (VBool b)).
Proof. exact exists_expr. Qed.
Print Assumptions C07_exists_expr.

(* EXISTS (SELECT * FROM nested WHERE p) on the scoped outer row [cur]: the element-wise reading
   of the specification, value and failure alike; p is evaluated on  obj_merge element cur *)
Theorem C07_exists : forall call join n ctx s filtered cur s' k rest elems,
  no_thunks ctx ->
  exists_shape s' -> s_items s' = [IStar] -> s_from s' = FTable (k :: rest) "" ->
  reader (k :: rest) (VObj cur) = Ok (VArr elems) ->
  e_exists (mk_env (exec call join (S n)) call join ctx s filtered) (SSelect s') cur =
  exists_sem (fun r => eval_cond (mk_env (exec call join n) call join (plain cur) s' []) r (s_where s')) cur elems.
Proof. exact exists_star. Qed.
Print Assumptions C07_exists.

(* Planned for any select list; proved as an implication: whenever EXISTS has a value it is the
   element-wise one.  Missing: the converse, which is false as stated when the projection of a kept
   row fails (then EXISTS is an error although the element-wise reading has a value). *)
Theorem C07_exists_select_list_partial : forall call join n ctx s filtered cur s' k rest elems b,
  no_thunks ctx ->
  exists_shape s' -> s_from s' = FTable (k :: rest) "" ->
  reader (k :: rest) (VObj cur) = Ok (VArr elems) ->
  e_exists (mk_env (exec call join (S n)) call join ctx s filtered) (SSelect s') cur = Ok b ->
  exists_sem (fun r => eval_cond (mk_env (exec call join n) call join (plain cur) s' []) r (s_where s')) cur elems
    = Ok b.
Proof. exact exists_sound. Qed.
Print Assumptions C07_exists_select_list_partial.

(* ================================================================ *)
(* recursive CTEs                                                    *)
(* ================================================================ *)

(* a query whose table is a CTE that reads itself, directly or through a cycle of CTEs
   ([reads_cycle], any length): an error at every fuel >= depth+1 — never OutOfModel, never a
   value *)
Theorem C07_recursive_cte_is_error : forall call join d s k rest alias depth,
  s_from s = FTable (k :: rest) alias ->
  reads_cycle (rev (s_with s)) [] k depth ->
  forall n, S depth <= n -> exec call join n (plain d) (JStmt (SSelect s)) = Err.
Proof. exact recursive_cte_is_error. Qed.
Print Assumptions C07_recursive_cte_is_error.

Theorem C07_self_recursive_cte_is_error : forall call join d s c si rest alias rest' alias' n,
  s_with s = [(c, SSelect si)] -> s_from s = FTable (c :: rest) alias ->
  s_with si = [] -> s_from si = FTable (c :: rest') alias' ->
  exec call join (S (S n)) (plain d) (JStmt (SSelect s)) = Err.
Proof. exact self_recursive_cte_is_error. Qed.
Print Assumptions C07_self_recursive_cte_is_error.

Theorem C07_mutually_recursive_ctes_are_error : forall call join d s a b sa sb rest alias ra aa rb ab n,
  a <> b ->
  s_with s = [(a, SSelect sa); (b, SSelect sb)] -> s_from s = FTable (a :: rest) alias ->
  s_with sa = [] -> s_from sa = FTable (b :: ra) aa ->
  s_with sb = [] -> s_from sb = FTable (a :: rb) ab ->
  exec call join (S (S (S n))) (plain d) (JStmt (SSelect s)) = Err.
Proof. exact mutually_recursive_ctes_are_error. Qed.
Print Assumptions C07_mutually_recursive_ctes_are_error.
(* element-wise reading of [exists_sem], and the name-clash rule *)
Theorem C07_exists_true_iff : forall pred outer elems b,
  exists_sem pred outer elems = Ok b ->
  (b = true <-> exists kv, In (VObj kv) elems /\ pred (obj_merge kv outer) = Ok true).
Proof. exact exists_sem_true_iff. Qed.
Print Assumptions C07_exists_true_iff.

(* under a column name p sees the outer row's value if the outer row has that column (its keys
   overwrite the element's), else the element's *)
Theorem C07_exists_clash_outer_wins : forall k outer kv,
  lookup k (obj_merge kv outer) =
  match lookup k (rev outer) with Some v => Some v | None => lookup k kv end.
Proof. exact obj_merge_lookup. Qed.
Print Assumptions C07_exists_clash_outer_wins.


(* ================================================================ *)
(* fuel that is enough                                               *)
(* ================================================================ *)

(* Planned: a computable  fuel_bound q d  for every statement without recursive CTEs.  Proved: the
   bound for the grammar's pipeline — a SELECT over resolved rows needs fuel above the nesting depth
   of the rows ([rdepth]: arrays directly inside arrays; 0 for a table proper), a stage over a
   document table two units above it; beyond that, more fuel changes nothing.  Missing: statements
   with CTEs, derived tables or subqueries (their bound depends on the nesting depth of intermediate
   results, and on the arbitrary [call] / [join] functions); for those the fuel-free theorems above
   give "some fuel, and then every larger one". *)
Theorem C07_fuel_enough_partial : forall call join,
  (forall n m a b s s' rows,
     blind_select s = true -> same_pipeline s s' -> rdepth rows < n -> rdepth rows < m ->
     exec call join n a (JRows s rows) = exec call join m b (JRows s' rows)) /\
  (forall d s k rest alias rows,
     s_with s = [] -> s_from s = FTable (k :: rest) alias -> blind_select s = true ->
     build_from (fun _ _ => OutOfModel) join (plain d) (FTable (k :: rest) alias) = Ok (Some rows) ->
     forall n, S (S (rdepth rows)) <= n ->
       exec call join n (plain d) (JStmt (SSelect s)) =
       exec call join (S (S (rdepth rows))) (plain d) (JStmt (SSelect s))).
Proof.
  intros call join. split.
  - intros n m a b s s' rows. apply rows_fuel_enough.
  - exact (stage_fuel_enough call join).
Qed.
Print Assumptions C07_fuel_enough_partial.

(* The premise [blind_select] (here: no `<-` in the outer query) cannot be dropped: an outer query
   whose subquery selects the back reference `<-` as a VALUE gets the document without the CTE in
   the composed run (a thunk is not part of the value) and with the materialised rows in the staged
   run — in the model and in the real engine alike.  (The former witness, a subquery reading
   FROM `<-`.c, is no counterexample any more: the model now finds the thunk of c behind `<-`, as the
   real engine does, and composed = staged there: C07_ex_backref_to_cte_agrees.) *)
Theorem C07_cte_is_staged_without_blind_refuted :
  exists d c inner s rest alias n,
    s_with s = [(c, inner)] /\ s_from s = FTable (c :: rest) alias /\ avoids [c] inner = true /\
    (forall v, exec no_call no_join n (plain d) (JStmt inner) = Ok v -> exists rows, v = VArr rows) /\
    exec no_call no_join (S n) (plain d) (JStmt (SSelect s)) <> stage no_call no_join n c inner s d.
Proof.
  exists ex_d, "c"%string, bk_inner, bv_outer, [], ""%string, 3%nat.
  split; [reflexivity|]. split; [reflexivity|]. split; [exact (proj1 backref_value_differs)|].
  split.
  - intros v Hv. vm_compute in Hv. inversion Hv. eauto.
  - destruct backref_value_differs as (_ & _ & -> & ->). vm_compute. discriminate.
Qed.
Print Assumptions C07_cte_is_staged_without_blind_refuted.

(* ================================================================== *)
(* non-vacuity (3-row document, through EngineRun.run_model)           *)
(* ================================================================== *)

(* a CTE chain of two: composed = staged = declared in the other order *)
Example C07_chain_runs :
  run_model (false, ex_doc, SSelect chain_outer) = Ok [VObj [("id"%string, VNum 3%float)]] /\
  run_model (false, VObj d2, SSelect (clear_with chain_outer)) = Ok [VObj [("id"%string, VNum 3%float)]] /\
  run_model (false, ex_doc, SSelect (set_with chain_outer (rev chain_w))) = Ok [VObj [("id"%string, VNum 3%float)]].
Proof. exact chain_runs. Qed.

(* the hypotheses of C07_cte_chain are satisfiable, and the theorem applies *)
Example C07_chain_hypotheses_met :
  chain_ok (s_with chain_outer) = true /\
  stage_head (SSelect (clear_with chain_outer)) = Some "c2"%string /\
  staged_chain no_call no_join ex_d (s_with chain_outer) d2 /\
  evals no_call no_join (plain ex_d) (JStmt (SSelect chain_outer))
        (Ok (VArr [VObj [("id"%string, VNum 3%float)]])).
Proof.
  split; [exact (proj1 chain_ok_met)|]. split; [exact (proj2 chain_ok_met)|].
  split; [exact staged_chain_met|exact chain_theorem_applies].
Qed.

(* a CTE read through a path: hypotheses of C07_cte_is_staged met; composed = stage *)
Example C07_cte_path_runs :
  blind_select path_outer = true /\ avoids ["c"%string] path_inner = true /\
  run_model (false, ex_doc, SSelect path_outer) =
    Ok [VArr []; VArr []; VArr [it 5%float "b"; it 2%float "c"]] /\
  stage no_call no_join 3 "c" path_inner path_outer ex_d =
    Ok (VArr [VArr []; VArr []; VArr [it 5%float "b"; it 2%float "c"]]).
Proof.
  split; [exact (proj1 cte_path_hyps_met)|]. split; [exact (proj2 cte_path_hyps_met)|].
  exact cte_path_runs.
Qed.

(* derived table *)
Example C07_derived_runs :
  run_model (false, ex_doc, SSelect derived_outer) =
    Ok [VObj [("i"%string, VNum 1%float)]; VObj [("i"%string, VNum 3%float)]] /\
  run_model (false, VObj (bind_doc ex_d "m" (VArr [row1; row3])),
             SSelect (set_from derived_outer (FTable ["m"%string] "d"))) =
    Ok [VObj [("i"%string, VNum 1%float)]; VObj [("i"%string, VNum 3%float)]] /\
  blind_select derived_outer = true.
Proof. exact derived_runs. Qed.

(* correlated EXISTS: the predicate p >= n1 mentions the outer row's n1 *)
Example C07_exists_runs :
  run_model (false, ex_doc, SSelect exists_outer) = Ok [VObj [("id"%string, VNum 3%float)]] /\
  exists_shape exists_sub.
Proof. split; [exact exists_runs|exact exists_shape_met]. Qed.

(* `<-` subquery: every row gets what the subquery returns standalone on the enclosing document *)
Example C07_root_subquery_runs :
  run_model (false, ex_doc, SSelect root_outer) =
    Ok [VObj [("id"%string, VNum 1%float); ("sub"%string, VArr [VObj [("v"%string, VNum 5%float)]])];
        VObj [("id"%string, VNum 2%float); ("sub"%string, VArr [VObj [("v"%string, VNum 5%float)]])];
        VObj [("id"%string, VNum 3%float); ("sub"%string, VArr [VObj [("v"%string, VNum 5%float)]])]].
Proof. exact (proj1 root_subquery_runs). Qed.

(* IN (subquery), both polarities *)
Example C07_in_subquery_runs :
  run_model (false, ex_doc, SSelect (in_outer false)) = Ok [VObj [("id"%string, VNum 1%float)]] /\
  run_model (false, ex_doc, SSelect (in_outer true)) =
    Ok [VObj [("id"%string, VNum 2%float)]; VObj [("id"%string, VNum 3%float)]].
Proof. exact in_subquery_runs. Qed.

(* a self-referential CTE: an error, at the harness fuel and at every fuel >= 2 *)
Example C07_recursive_runs :
  run_model (false, ex_doc, SSelect rec_outer) = Err /\
  forall n, exec no_call no_join (S (S n)) (plain ex_d) (JStmt (SSelect rec_outer)) = Err.
Proof. exact recursive_runs. Qed.

(* the chain declared in the other order is covered by C07_cte_chain_any_order *)
Example C07_chain_reversed_hypotheses_met :
  evals no_call no_join (plain ex_d) (JStmt (SSelect (set_with chain_outer (rev chain_w))))
        (Ok (VArr [VObj [("id"%string, VNum 3%float)]])).
Proof. exact chain_reversed_theorem_applies. Qed.


(* the single-CTE, derived-table, EXISTS and IN theorems instantiated on the examples: every premise
   is met by a concrete input *)
Example C07_theorems_apply :
  exec no_call no_join 4 (plain ex_d) (JStmt (SSelect path_outer)) =
    stage no_call no_join 3 "c" path_inner path_outer ex_d /\
  exec no_call no_join 3 (plain ex_d) (JStmt (SSelect derived_outer)) =
    (let! v := exec no_call no_join 2 (plain ex_d) (JStmt q1) in
     exec no_call no_join 3 (plain (bind_doc ex_d "m" v))
          (JStmt (SSelect (set_from derived_outer (FTable ["m"%string] "d"))))) /\
  (let cur := scope (kv_of row3) ex_doc in
   e_exists (mk_env (exec no_call no_join 2) no_call no_join (plain ex_d) exists_outer []) (SSelect exists_sub) cur
     = Ok true) /\
  (forall neg,
   eval (mk_env (exec no_call no_join 2) no_call no_join (plain ex_d) (in_outer neg) []) (kv_of row1)
        (EInSub neg (ECol ["id"%string]) in_sub) = Ok (RVal (VBool (xorb neg true)))).
Proof.
  split; [exact cte_is_staged_applies|]. split; [exact derived_is_staged_applies|]. split.
  - cbv zeta. rewrite (proj1 exists_theorem_applies). exact (proj2 exists_theorem_applies).
  - intros neg. destruct (in_subquery_theorem_applies neg) as [H1 H2]. rewrite H2 in H1. exact H1.
Qed.

(* fuel: the inner stage of the chain reads a table proper (rdepth 0): fuel 2 is enough *)
Example C07_fuel_enough_met :
  rdepth [row1; row2; row3] = 0%nat /\
  forall n, 2 <= n ->
    exec no_call no_join n (plain ex_d) (JStmt q1) = Ok (VArr [row1; row3]).
Proof.
  split; [reflexivity|]. intros n Hn. unfold q1.
  rewrite (proj2 (C07_fuel_enough_partial no_call no_join) ex_d
             (sel [] (FTable ["t"%string] "") (Some (ECmp OpGe (col "n1") (ENum 2%float))) [IStar])
             "t"%string [] ""%string [row1; row2; row3] eq_refl eq_refl eq_refl eq_refl n Hn).
  vm_compute. reflexivity.
Qed.


(* ================================================================== *)
(* the CTEs of an enclosing query behind `<-`                          *)
(* ================================================================== *)
(* A row-scoped subquery runs in [sub_ctx ctx cur]: its data is the row [cur] (whose `<-` key is the
   enclosing query's data map), its stack of enclosing queries starts with the frame of [ctx] —
   document, CTE thunks, in-progress marks.  [mkc d ctes busy up] is the context with these four
   fields. *)

(* inside a subquery, FROM `<-`.c... yields exactly the source rows the enclosing query gets from
   FROM c..., for every CTE c the enclosing query registered — value, error and recursion guard alike *)
Theorem C07_up_cte_is_cte : forall join rec ctx cur c rest alias body,
  cte_lookup c (c_ctes ctx) = Some body ->
  build_from rec join (sub_ctx ctx cur) (FTable ("<-"%string :: c :: rest) alias) =
  build_from rec join ctx (FTable (c :: rest) alias).
Proof. exact up_cte_is_cte. Qed.
Print Assumptions C07_up_cte_is_cte.

(* ... namely the rows of the thunk's body run by the enclosing query, when c is not in progress *)
Theorem C07_up_cte_rows : forall join rec ctx cur c rest alias body rows,
  cte_lookup c (c_ctes ctx) = Some body -> existsb (String.eqb c) (c_busy ctx) = false ->
  rec (mkc (c_data ctx) (c_ctes ctx) (c :: c_busy ctx) (c_up ctx)) (JStmt body) = Ok rows ->
  build_from rec join (sub_ctx ctx cur) (FTable ("<-"%string :: c :: rest) alias) =
  let! v := reader rest rows in let! arr := as_array v in Ok (Some (process_alias arr alias)).
Proof. exact up_cte_rows. Qed.
Print Assumptions C07_up_cte_rows.

(* a CTE body whose subquery reads the CTE itself through `<-`: an error ("recursive reference") *)
Theorem C07_up_self_reference_is_error : forall join rec ctx cur c rest alias body,
  cte_lookup c (c_ctes ctx) = Some body -> existsb (String.eqb c) (c_busy ctx) = true ->
  build_from rec join (sub_ctx ctx cur) (FTable ("<-"%string :: c :: rest) alias) = Err.
Proof. exact up_self_reference_is_error. Qed.
Print Assumptions C07_up_self_reference_is_error.

(* one more `<-` in front per nesting level: a path that the enclosing query [m] resolves to a thunk
   further up ... *)
Theorem C07_up_path_shift : forall join rec m cur k rest alias h,
  cte_lookup k (c_ctes m) = None -> up_read m (k :: rest) = Some h ->
  build_from rec join (sub_ctx m cur) (FTable ("<-"%string :: k :: rest) alias) =
  build_from rec join m (FTable (k :: rest) alias).
Proof. exact up_path_shift. Qed.
Print Assumptions C07_up_path_shift.

(* ... so `<-`.`<-`.c in the subquery of a subquery is the CTE c of the outermost query *)
Theorem C07_up_cte_two_levels : forall join rec ctx cur1 cur2 c rest alias body,
  cte_lookup c (c_ctes ctx) = Some body ->
  build_from rec join (sub_ctx (sub_ctx ctx cur1) cur2)
             (FTable ("<-"%string :: "<-"%string :: c :: rest) alias) =
  build_from rec join ctx (FTable (c :: rest) alias).
Proof. exact up_cte_two_levels. Qed.
Print Assumptions C07_up_cte_two_levels.

(* a name that is no CTE of the enclosing query is read in its document, as before *)
Theorem C07_up_doc_is_doc : forall join rec ctx cur k rest alias,
  k <> "<-"%string -> cte_lookup k (c_ctes ctx) = None ->
  build_from rec join (sub_ctx ctx (scope cur (VObj (c_data ctx))))
             (FTable ("<-"%string :: k :: rest) alias) =
  build_from rec join ctx (FTable (k :: rest) alias).
Proof. exact up_doc_is_doc. Qed.
Print Assumptions C07_up_doc_is_doc.

(* conservativity: enclosing queries that registered no CTE are invisible — the context behaves as
   the same context without enclosing queries, i.e. as in the model before `<-` could see thunks *)
Theorem C07_up_conservative : forall call join n d ctes busy up j,
  blank_up up -> exec call join n (mkc d ctes busy up) j = exec call join n (mkc d ctes busy []) j.
Proof. exact exec_blank_up. Qed.
Print Assumptions C07_up_conservative.

(* ... in particular a subquery of a query in whose scope no thunk is, is a standalone run *)
Theorem C07_up_sub_plain : forall call join n ctx cur j,
  no_thunks ctx -> exec call join n (sub_ctx ctx cur) j = exec call join n (plain cur) j.
Proof. exact exec_sub_plain. Qed.
Print Assumptions C07_up_sub_plain.

(* a statement nested in a subquery of the query that registered [ctes] (d, ctes, busy: that query;
   [names] covers the names of ctes), none of whose table paths reaches a name through `<-`
   ([hides]), evaluates to the same outcome whether or not the CTEs are registered *)
Theorem C07_up_hidden : forall call join names d ctes busy,
  (forall k, mem_str k names = false -> cte_lookup k ctes = None) ->
  forall n a b j,
    ctx_hid names d ctes busy a b -> job_hides names j ->
    exec call join n a j = exec call join n b j.
Proof. exact exec_hid. Qed.
Print Assumptions C07_up_hidden.

(* [C07_cte_invisible] for a query that is itself a subquery (any stack [up]) *)
Theorem C07_cte_invisible_up : forall call join names d ctes busy,
  (forall k, mem_str k names = false -> cte_lookup k ctes = None) ->
  forall q n up,
    avoids names q = true ->
    exec call join n (mkc d ctes busy up) (JStmt q) = exec call join n (mkc d [] [] up) (JStmt q).
Proof. exact avoids_invisible_up. Qed.
Print Assumptions C07_cte_invisible_up.

(* ---- non-vacuity: the real engine returns the same rows for the SQL in Proofs/C07Examples.v ---- *)

Example C07_ex_backref_to_cte_agrees :
  blind_select bk_outer = false /\
  stage no_call no_join 3 "c" bk_inner bk_outer ex_d =
  exec no_call no_join 4 (plain ex_d) (JStmt (SSelect bk_outer)).
Proof. destruct backref_to_cte_agrees as (_ & H1 & _ & H2). split; assumption. Qed.

Example C07_ex_up_select_list_subquery :
  run_model (false, ex_doc, up_e1) =
  Ok [VObj [("id"%string, VNum 1%float); ("x"%string, ids [1%float; 3%float])];
      VObj [("id"%string, VNum 3%float); ("x"%string, ids [1%float; 3%float])]].
Proof. exact up_select_list_subquery. Qed.

Example C07_ex_up_exists :
  run_model (false, ex_doc, up_e2) =
  Ok [VObj [("id"%string, VNum 1%float)]; VObj [("id"%string, VNum 3%float)]].
Proof. exact up_exists. Qed.

Example C07_ex_up_self_reference_error : run_model (false, ex_doc, up_e3) = Err.
Proof. exact up_self_reference_error. Qed.

Example C07_ex_up_two_levels :
  run_model (false, ex_doc, up_e4) =
  Ok [VObj [("id"%string, VNum 1%float); ("x"%string, VObj [("y"%string, ids [1%float; 3%float])])]].
Proof. exact up_two_levels. Qed.

Example C07_ex_up_thunk_shadows_table :
  run_model (false, ex_doc, up_e6) =
  Ok [VObj [("id"%string, VNull); ("x"%string, VArr [VObj [("id"%string, VNull)]; VObj [("id"%string, VNull)]])];
      VObj [("id"%string, VNull); ("x"%string, VArr [VObj [("id"%string, VNull)]; VObj [("id"%string, VNull)]])]].
Proof. exact up_thunk_shadows_table. Qed.

Example C07_ex_up_in_subquery :
  run_model (false, ex_doc, up_e14) = Ok [VObj [("id"%string, VNum 3%float)]].
Proof. exact up_in_subquery. Qed.

Example C07_ex_up_cycle_error : run_model (false, ex_doc, up_e16) = Err.
Proof. exact up_cycle_error. Qed.

Example C07_ex_avoids_with_subquery :
  avoids ["c"%string] (hid_inner "vals") = true /\ avoids ["c"%string] (hid_inner "c") = false.
Proof. exact avoids_with_subquery. Qed.
