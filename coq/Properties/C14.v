(* Properties/C14.v — Function execution strategies change timing, never results
   (claims only; proofs in Proofs/C14Kernel.v and Proofs/C14Lemmas.v).

   Every theorem quantifies over ALL schedules: a schedule is any list of thread ids (0 = the
   goroutine that called Exec, S n = the n-th goroutine it started); a step that is not enabled
   — a goroutine that does not exist yet or has finished, wg.Wait() at a non-zero counter — leaves
   the state unchanged, so the valid schedules (all steps enabled) are among them.  Latency of a
   user function = position of its goroutine's steps in the schedule.  [reg] is any function
   registry, [f] any (pure) behaviour of the registered functions, including failing and
   panicking ones. *)
From Coq Require Import Permutation.
From GenqlV Require Import Base.Prelude Base.Value Model.Strategies Spec.StrategiesSpec
  Proofs.C14Kernel Proofs.C14Lemmas.
Local Open Scope string_scope.
Local Open Scope list_scope.

(* Whatever the schedule, what Exec returns is what the same query with the ASYNC qualifiers
   removed returns when every call is made in place: the same rows with the same values in the
   same columns, or an error in both cases (the in-place semantics is Spec/StrategiesSpec.v) *)
Theorem C14_async_transparent : forall reg f q sched r,
  async_ok reg q = true ->
  m_res (exec_sched reg f q sched) = Some r ->
  r = snd (run_sync reg f (strip q)).
Proof. exact async_transparent. Qed.
Print Assumptions C14_async_transparent.

(* in particular two schedules cannot disagree *)
Corollary C14_schedule_independent : forall reg f q s1 s2 r1 r2,
  m_res (exec_sched reg f q s1) = Some r1 -> m_res (exec_sched reg f q s2) = Some r2 -> r1 = r2.
Proof.
  intros reg f q s1 s2 r1 r2 H1 H2. unfold exec_sched in *.
  rewrite (run_result f _ _ (prog_wf reg f q) (prog_cov reg f q) _ _ H1).
  rewrite (run_result f _ _ (prog_wf reg f q) (prog_cov reg f q) _ _ H2). reflexivity.
Qed.
Print Assumptions C14_schedule_independent.

(* When Exec returns rows, the invocation log is, as a multiset of (row/item position, function,
   arguments), exactly the invocations of the in-place run of the stripped query — every plain,
   ONCE, ASYNC and SPINASYNC call once — plus those SPIN calls that happened to have run already,
   each at most once *)
Theorem C14_exactly_once : forall reg f q sched v,
  async_ok reg q = true ->
  m_res (exec_sched reg f q sched) = Some (Ok v) ->
  exists spun unspun,
    Permutation (log (exec_sched reg f q sched)) (fst (run_sync reg f (strip q)) ++ spun) /\
    Permutation (spin_calls (prog_acts (compile reg f q))) (spun ++ unspun).
Proof. exact exactly_once. Qed.
Print Assumptions C14_exactly_once.

(* At the instant Exec returns after its wait, every goroutine that was counted in a WaitGroup —
   every ASYNC and SPINASYNC call of the query itself, of its derived table, of its select-list
   subqueries and of its inner dimensions, and every forwarder — has been started and has
   finished (pc 3 = past wg.Done): completion precedes Return in every schedule *)
Theorem C14_completed_before_return : forall reg f q sched r t,
  m_res (exec_sched reg f q sched) = Some r ->
  prog_fin (compile reg f q) = FinPost t ->
  map w_prog (ws (exec_sched reg f q sched)) = spawned (prog_acts (compile reg f q)) /\
  forall w, In w (ws (exec_sched reg f q sched)) -> target (w_prog w) <> None -> w_pc w = 3.
Proof. exact completed_before_return. Qed.
Print Assumptions C14_completed_before_return.

(* SPIN and SPINASYNC start their goroutine and add no column: the item yields Ommit, the memo is
   untouched, and the row under construction is handed on unchanged *)
Theorem C14_spin_no_column : forall reg f q fn args nm tag r mm nw a oc mm',
  q = QSpin \/ q = QSpinAsync ->
  eval_fitem reg f tag r mm nw (FCall q fn args nm) = (a, Some (oc, mm')) ->
  oc = None /\ mm' = mm /\
  a = [MSpawn (match q with QSpin => WSpin | _ => WSpinAsync end) (mkCall tag fn (map (eval_arg r) args))].
Proof. exact spin_no_column. Qed.
Print Assumptions C14_spin_no_column.

Theorem C14_spin_row_unchanged : forall reg f q fn args nm rest tag i r mm nw acc a o,
  q = QSpin \/ q = QSpinAsync ->
  is_registered reg fn = true -> is_immediate reg fn = false ->
  eval_fitems reg f tag i r mm nw (FCall q fn args nm :: rest) acc = (a, o) ->
  exists a2, eval_fitems reg f tag (S i) r mm (S nw) rest acc = (a2, o) /\
             a = MSpawn (match q with QSpin => WSpin | _ => WSpinAsync end)
                        (mkCall (tag ++ [i]) fn (map (eval_arg r) args)) :: a2.
Proof. exact spin_row_unchanged. Qed.
Print Assumptions C14_spin_row_unchanged.

(* ONCE: over any table with at least one row the function is invoked a single time — with the
   first row's arguments — and every row sees that value ... *)
Theorem C14_once_single_call : forall reg f fn args nm r rows v,
  is_registered reg fn = true ->
  f fn (map (eval_arg r) args) = FOk v ->
  let q := QTable (r :: rows) [IFlat (FCall QOnce fn args nm)] in
  prog_calls (prog_acts (compile reg f q)) = [mkCall [0; 0] fn (map (eval_arg r) args)] /\
  exec_seq reg f q = Ok (VArr (map (fun _ => VObj [(nm, v)]) (r :: rows))).
Proof. exact once_single_call. Qed.
Print Assumptions C14_once_single_call.

(* ... and in any select list: once the query has a value for the function, a ONCE call makes no
   invocation and yields that value, and no item ever changes it *)
Theorem C14_once_memo_hit : forall reg f fn args nm tag r mm nw v,
  is_registered reg fn = true -> assoc fn mm = Some v ->
  eval_fitem reg f tag r mm nw (FCall QOnce fn args nm) = ([], Some (Some (nm, CVal v), mm)).
Proof. exact once_hit. Qed.
Print Assumptions C14_once_memo_hit.

Theorem C14_once_memo_stable : forall reg f fn v its tag i r mm nw acc a tr mm',
  assoc fn mm = Some v -> eval_fitems reg f tag i r mm nw its acc = (a, Some (tr, mm')) ->
  assoc fn mm' = Some v.
Proof. exact memo_stable_fitems. Qed.
Print Assumptions C14_once_memo_stable.

(* Every function that functions.go registers as immediate (the table [registry] is compared
   with the source's init() on every run: obligation structural:registry) rejects ASYNC, SPIN
   and SPINASYNC with an error and starts nothing; a query that reaches such a call fails under
   every schedule *)
Theorem C14_immediate_rejects : forall f fn q args nm tag r mm nw,
  In (fn, true) registry ->
  q = QAsync \/ q = QSpin \/ q = QSpinAsync ->
  eval_fitem registry f tag r mm nw (FCall q fn args nm) = ([], None).
Proof.
  intros f fn q args nm tag r mm nw Hin Hq.
  apply immediate_rejects; [apply in_registry_immediate; exact Hin|exact Hq].
Qed.
Print Assumptions C14_immediate_rejects.

Theorem C14_immediate_query_fails : forall reg f fn q args nm r rows sched res,
  In (fn, true) reg -> q = QAsync \/ q = QSpin \/ q = QSpinAsync ->
  m_res (exec_sched reg f (QTable (r :: rows) [IFlat (FCall q fn args nm)]) sched) = Some res ->
  res = Err.
Proof. exact immediate_query_fails. Qed.
Print Assumptions C14_immediate_query_fails.

(* No deadlock: every schedule can be extended to one after which Exec has returned and every
   goroutine has finished, and then every WaitGroup counter is zero (each Add was matched by a
   Done) *)
Theorem C14_no_deadlock : forall reg f q sched,
  exists ext, is_final (exec_sched reg f q (sched ++ ext)) /\
              forall g, wgs (exec_sched reg f q (sched ++ ext)) g = 0.
Proof. exact no_deadlock. Qed.
Print Assumptions C14_no_deadlock.

(* ---------- non-vacuity ---------- *)

Definition ex_reg : list (string * bool) := registry ++ [("fa", false); ("fe", false)].
Definition ex_f : oracle := fun name args =>
  if String.eqb name "fe" then FErr else FOk (VArr (VStr name :: args)).
Definition ex_rows : list row := [[("a", VStr "p")]; [("a", VStr "q")]].
Definition ex_q : query :=
  QTable ex_rows [IFlat (FCall QAsync "fa" [ACol "a"] "x"); IFlat (FCall QSpinAsync "fa" [ALit VNull] "y");
                  ISub SDual [FCall QAsync "fa" [ACol "a"] "z"] "s"; IFlat (FCol "a" "a")].

(* the hypotheses are met, Exec does return under a schedule that runs every goroutine as late as
   possible, and the columns hold the values *)
Example C14_ex_returns :
  async_ok ex_reg ex_q = true /\
  m_res (exec_sched ex_reg ex_f ex_q (repeat 0 12 ++ flat_map (fun n => [S n; S n; S n]) (seq 0 8)
                                      ++ flat_map (fun n => [S n; S n; S n]) (seq 0 8) ++ [0; 0])) =
  Some (Ok (VArr [VObj [("a", VStr "p"); ("s", VObj [("z", VArr [VStr "fa"; VStr "p"])]); ("x", VArr [VStr "fa"; VStr "p"])];
                  VObj [("a", VStr "q"); ("s", VObj [("z", VArr [VStr "fa"; VStr "q"])]); ("x", VArr [VStr "fa"; VStr "q"])]])).
Proof. vm_compute. split; reflexivity. Qed.

(* the wait really blocks: main alone never returns while goroutines are outstanding *)
Example C14_ex_wait_blocks : m_res (exec_sched ex_reg ex_f ex_q (repeat 0 200)) = None.
Proof. vm_compute. reflexivity. Qed.

(* a failing ASYNC call fails the query, like the unqualified call *)
Example C14_ex_async_error :
  exec_seq ex_reg ex_f (QTable ex_rows [IFlat (FCall QAsync "fe" [ACol "a"] "x")]) = Err /\
  snd (run_sync ex_reg ex_f (strip (QTable ex_rows [IFlat (FCall QAsync "fe" [ACol "a"] "x")]))) = Err.
Proof. vm_compute. split; reflexivity. Qed.

(* the registry has immediate functions *)
Example C14_ex_immediate : In ("to_lower", true) registry /\ In ("sum", true) registry.
Proof. split; vm_compute; tauto. Qed.
