(* Proofs/C17Lemmas.v — the scanners on lexical documents (Spec/LexDoc.v), and the closed
   statements used by Properties/C17.v. *)
From Coq Require Import ZifyBool ZifyNat.
From GenqlV Require Import Base.Prelude Base.Value Model.Processors Spec.LexDoc
  Proofs.C17Scan Proofs.C17Arrays.
Local Open Scope Z_scope.

Notation L := list_of_bs.

(* ------------------------------------------------------------------ *)
(* strings <-> byte lists                                               *)
(* ------------------------------------------------------------------ *)

Lemma L_app : forall a b : string, L (a ++ b)%string = (L a ++ L b)%list.
Proof. induction a as [|c a IH]; intros b; cbn; [reflexivity|rewrite IH; reflexivity]. Qed.

Lemma bs_L : forall s : string, bs_of_asciis (L s) = s.
Proof. induction s as [|c s IH]; cbn; [reflexivity|rewrite IH; reflexivity]. Qed.

Lemma L_bs : forall l : list ascii, L (bs_of_asciis l) = l.
Proof. induction l as [|c l IH]; cbn; [reflexivity|rewrite IH; reflexivity]. Qed.

Lemma L_q1 : forall c, L (q1 c) = [c].
Proof. reflexivity. Qed.

Definition oapp (w : list ascii) (o : option (list ascii)) : option (list ascii) :=
  match o with Some x => Some (w ++ x)%list | None => None end.

Lemma oapp_nil : forall o, oapp [] o = o.
Proof. destruct o; reflexivity. Qed.
Lemma ocons_oapp : forall c w o, ocons c (oapp w o) = oapp (c :: w) o.
Proof. destruct o; reflexivity. Qed.
Lemma oapp_oapp : forall u v o, oapp u (oapp v o) = oapp (u ++ v)%list o.
Proof. destruct o; cbn; [rewrite app_assoc|]; reflexivity. Qed.
Lemma ocons_is_oapp : forall c o, ocons c o = oapp [c] o.
Proof. destruct o; reflexivity. Qed.

(* model bytes and spec bytes are the same bytes *)
Lemma aeq_beq : forall a b, aeq a b = beq a b. Proof. reflexivity. Qed.

Lemma not_quote : forall c, is_quote c = false ->
  beq c c_sq = false /\ beq c c_dq = false /\ beq c c_bt = false.
Proof.
  intros c H. unfold is_quote in H. change aeq with beq in H.
  change ch_sq with c_sq in H. change ch_dq with c_dq in H. change ch_bt with c_bt in H.
  destruct (beq c c_sq), (beq c c_dq), (beq c c_bt); cbn in H; try discriminate; repeat split; reflexivity.
Qed.

Lemma not_bracket : forall c, is_bracket c = false -> beq c c_lb = false /\ beq c c_rb = false.
Proof.
  intros c H. unfold is_bracket in H. change aeq with beq in H.
  change ch_lb with c_lb in H. change ch_rb with c_rb in H.
  destruct (beq c c_lb), (beq c c_rb); cbn in H; try discriminate; repeat split; reflexivity.
Qed.

Lemma beq_refl : forall c, beq c c = true.
Proof. intros. apply Ascii.eqb_refl. Qed.

Lemma beq_sym : forall a b, beq a b = beq b a.
Proof. intros. apply Ascii.eqb_sym. Qed.

(* ------------------------------------------------------------------ *)
(* DoubleQuotesToBackTick on segments                                   *)
(* ------------------------------------------------------------------ *)

Lemma dq_raw : forall fx s rest, all_bytes (fun c => negb (is_quote c)) s = true ->
  dq_ref fx QRaw (L s ++ rest)%list = oapp (L s) (dq_ref fx QRaw rest).
Proof.
  induction s as [|c s IH]; intros rest H.
  - cbn. rewrite oapp_nil. reflexivity.
  - cbn [all_bytes] in H. apply andb_prop in H. destruct H as [Hc Hs].
    apply negb_true_iff in Hc. destruct (not_quote c Hc) as (A & B & C).
    cbn [list_of_bs app dq_ref]. rewrite A, B, C. rewrite IH by auto. apply ocons_oapp.
Qed.

Lemma dq_sq_body : forall fx n s rest, (String.length s <= n)%nat -> body_ok ch_sq s = true ->
  dq_ref fx QSq (L s ++ c_sq :: rest)%list = oapp (L s ++ [c_sq])%list (dq_ref fx QRaw rest).
Proof.
  induction n as [|n IH]; intros s rest Hn H.
  - destruct s; [|cbn in Hn; lia]. cbn. rewrite ocons_is_oapp. reflexivity.
  - destruct s as [|c s].
    { cbn. rewrite ocons_is_oapp. reflexivity. }
    cbn [body_ok] in H. change aeq with beq in H. change ch_bs with c_bs in H. change ch_sq with c_sq in H.
    cbn [list_of_bs app dq_ref]. cbn in Hn.
    destruct (beq c c_bs) eqn:Ebs.
    + apply beq_eq in Ebs. subst c. change (beq c_bs c_sq) with false. cbv iota.
      destruct s as [|d s]; [discriminate|]. cbn [list_of_bs app].
      rewrite IH; auto; [|cbn in Hn; lia]. rewrite !ocons_oapp. reflexivity.
    + destruct (beq c c_sq) eqn:Esq.
      * destruct s as [|d s]; [discriminate|]. change aeq with beq in H.
        destruct (beq d c_sq) eqn:Ed; [|discriminate].
        apply beq_eq in Ed. subst d. cbn [list_of_bs app dq_ref].
        change (beq c_sq c_sq) with true. cbv iota.
        rewrite IH; auto; [|cbn in Hn; lia]. rewrite !ocons_oapp. reflexivity.
      * rewrite IH; auto; [|lia]. rewrite ocons_oapp. reflexivity.
Qed.

Lemma dq_bt_body : forall fx n s rest, (String.length s <= n)%nat -> bt_ok s = true ->
  dq_ref fx QBt (L s ++ c_bt :: rest)%list = oapp (L s ++ [c_bt])%list (dq_ref fx QRaw rest).
Proof.
  induction n as [|n IH]; intros s rest Hn H.
  - destruct s; [|cbn in Hn; lia]. cbn. rewrite ocons_is_oapp. reflexivity.
  - destruct s as [|c s].
    { cbn. rewrite ocons_is_oapp. reflexivity. }
    cbn [bt_ok] in H. change aeq with beq in H. change ch_bt with c_bt in H.
    cbn [list_of_bs app dq_ref]. cbn in Hn.
    destruct (beq c c_bt) eqn:Ebt.
    + destruct s as [|d s]; [discriminate|]. change aeq with beq in H.
      destruct (beq d c_bt) eqn:Ed; [|discriminate].
      apply beq_eq in Ed. subst d. cbn [list_of_bs app dq_ref].
      change (beq c_bt c_sq) with false. change (beq c_bt c_bt) with true. cbv iota.
      rewrite IH; auto; [|cbn in Hn; lia]. rewrite !ocons_oapp. reflexivity.
    + rewrite IH; auto; [|lia]. rewrite ocons_oapp. reflexivity.
Qed.

Lemma enc_dq_head : forall c s, exists d t, L (enc_dq (String c s)) = d :: t /\ beq d c_dq = false.
Proof.
  intros c s. cbn [enc_dq]. change aeq with beq. change ch_dq with c_dq.
  destruct (beq c c_dq) eqn:E.
  - eexists _, _. split; [reflexivity|]. reflexivity.
  - eexists _, _. split; [reflexivity|]. exact E.
Qed.

Lemma ends_with_bs_tail : forall c s, ends_with_bs (String c s) = false ->
  ends_with_bs s = false /\ (s = EmptyString -> beq c c_bs = false).
Proof.
  intros c s H. destruct s as [|d s].
  - split; [reflexivity|]. intros _. exact H.
  - split; [exact H|discriminate].
Qed.

Lemma dq_dq_body : forall fx n rest, fx_d48 fx = true -> ends_with_bs n = false ->
  dq_ref fx QDq (L (enc_dq n) ++ c_dq :: rest)%list
  = oapp (L (enc_bt n) ++ [c_bt])%list (dq_ref fx QRaw rest).
Proof.
  intros fx n rest Hfx. induction n as [|c n IH]; intros H.
  - cbn. rewrite ocons_is_oapp. reflexivity.
  - destruct (ends_with_bs_tail c n H) as [Ht He]. specialize (IH Ht).
    cbn [enc_dq enc_bt]. change aeq with beq. change ch_dq with c_dq. change ch_bt with c_bt. change ch_bs with c_bs.
    destruct (beq c c_dq) eqn:Edq.
    + apply beq_eq in Edq. subst c. change (beq c_dq c_bt) with false. cbv iota.
      cbn [list_of_bs app dq_ref]. change (beq c_bs c_dq) with false. change (beq c_bs c_bs) with true.
      change (beq c_dq c_dq) with true. cbv iota. rewrite IH. rewrite ocons_oapp. reflexivity.
    + destruct (beq c c_bs) eqn:Ebs.
      * apply beq_eq in Ebs. subst c. change (beq c_bs c_bt) with false. cbv iota.
        destruct n as [|c2 n]; [specialize (He eq_refl); discriminate|].
        destruct (enc_dq_head c2 n) as (d & t & Eh & Ed).
        cbn [list_of_bs app]. cbn [dq_ref]. change (beq c_bs c_dq) with false. change (beq c_bs c_bs) with true.
        cbv iota. rewrite Eh in *. cbn [app]. rewrite Ed.
        cbn [app] in IH. rewrite IH. rewrite ocons_oapp. reflexivity.
      * destruct (beq c c_bt) eqn:Ebt.
        -- cbn [list_of_bs app dq_ref]. rewrite Edq, Ebs, Ebt, Hfx. cbn [andb].
           apply beq_eq in Ebt. subst c. rewrite IH. rewrite !ocons_oapp. reflexivity.
        -- cbn [list_of_bs app dq_ref]. rewrite Edq, Ebs, Ebt, andb_false_r.
           rewrite IH. rewrite ocons_oapp. reflexivity.
Qed.

Lemma render_seg_dq : forall fx a x rest, fx_d48 fx = true -> wf_quotes_seg x = true ->
  dq_ref fx QRaw (L (render_seg PG a x) ++ rest)%list
  = oapp (L (render_seg MY a x)) (dq_ref fx QRaw rest).
Proof.
  intros fx a x rest Hfx H. destruct x as [s|s|s|n| |]; cbn [render_seg wf_quotes_seg] in *.
  - apply dq_raw; auto.
  - rewrite !L_app, !L_q1. change ch_sq with c_sq. cbn [app dq_ref].
    change (beq c_sq c_sq) with true. cbv iota. rewrite <- app_assoc. cbn [app].
    rewrite (dq_sq_body fx (String.length s)); auto. rewrite ocons_oapp. reflexivity.
  - rewrite !L_app, !L_q1. change ch_bt with c_bt. cbn [app dq_ref].
    change (beq c_bt c_sq) with false. change (beq c_bt c_bt) with true. cbv iota.
    rewrite <- app_assoc. cbn [app].
    rewrite (dq_bt_body fx (String.length s)); auto. rewrite ocons_oapp. reflexivity.
  - rewrite !L_app, !L_q1. change ch_dq with c_dq. change ch_bt with c_bt. cbn [app dq_ref].
    change (beq c_dq c_sq) with false. change (beq c_dq c_bt) with false. change (beq c_dq c_dq) with true.
    cbv iota. rewrite <- app_assoc. cbn [app].
    rewrite dq_dq_body; auto; [|apply negb_true_iff; exact H]. rewrite ocons_oapp. reflexivity.
  - destruct a; apply dq_raw; reflexivity.
  - destruct a; apply dq_raw; reflexivity.
Qed.

Lemma render_dq : forall fx a d, fx_d48 fx = true -> wf_quotes d = true ->
  dq_ref fx QRaw (L (render PG a d)) = Some (L (render MY a d)).
Proof.
  intros fx a d Hfx. induction d as [|x d IH]; intros H; [reflexivity|].
  cbn [wf_quotes forallb] in H. apply andb_prop in H. destruct H as [Hx Hd].
  cbn [render]. rewrite !L_app. rewrite render_seg_dq; auto.
  unfold wf_quotes in IH. rewrite IH by auto. reflexivity.
Qed.

Lemma quotes_correct : forall a d, wf_quotes d = true ->
  DoubleQuotesToBackTick (render PG a d) = Ok (render MY a d).
Proof.
  intros a d H. unfold DoubleQuotesToBackTick, DoubleQuotesToBackTick_f.
  rewrite (dq_to_bt_l_ref repaired _ eq_refl), (render_dq repaired a d eq_refl H). cbn [lift bind]. rewrite bs_L. reflexivity.
Qed.

Lemma render_no_dq : forall a d, has_dq d = false -> render PG a d = render MY a d.
Proof.
  intros a d. induction d as [|x d IH]; intros H; [reflexivity|].
  cbn [has_dq existsb] in H. apply orb_false_iff in H. destruct H as [Hx Hd].
  cbn [render]. unfold has_dq in IH. rewrite IH by auto. destruct x; try reflexivity. discriminate.
Qed.

Lemma quotes_identity : forall a d, wf_quotes d = true -> has_dq d = false ->
  DoubleQuotesToBackTick (render PG a d) = Ok (render PG a d).
Proof. intros a d H N. rewrite quotes_correct by auto. rewrite render_no_dq by auto. reflexivity. Qed.

(* ------------------------------------------------------------------ *)
(* FindArrayIndex's classification on segments                          *)
(* ------------------------------------------------------------------ *)

Definition is_q (q : ascii) : Prop := q = c_dq \/ q = c_sq \/ q = c_bt.

Lemma fa_marks_quote : forall fx hold q r, is_q q ->
  fa_marks fx hold (q :: r) = MP :: fa_marks fx (fst (fai_quote hold q)) r.
Proof. intros fx hold q r [ -> | [ -> | -> ] ]; reflexivity. Qed.

Lemma fa_marks_held : forall fx h c r,
  beq c c_bs = false -> beq c c_dq = false -> beq c c_sq = false -> beq c c_bt = false ->
  fa_marks fx (Some h) (c :: r) = MP :: fa_marks fx (Some h) r.
Proof. intros fx h c r A B C D. cbn [fa_marks]. rewrite A, B, C, D. reflexivity. Qed.

Lemma is_q_quote : forall c, beq c c_bs = false -> is_quote c = true -> is_q c.
Proof.
  intros c _ H. unfold is_quote in H. change aeq with beq in H.
  change ch_sq with c_sq in H. change ch_dq with c_dq in H. change ch_bt with c_bt in H.
  unfold is_q. destruct (beq c c_sq) eqn:A; [apply beq_eq in A; auto|].
  destruct (beq c c_dq) eqn:B; [apply beq_eq in B; auto|].
  destruct (beq c c_bt) eqn:C; [apply beq_eq in C; auto|]. discriminate.
Qed.

Lemma repeat_S_app : forall n (x : mark), (repeat x (S n) = [x] ++ repeat x n)%list.
Proof. reflexivity. Qed.

Lemma fa_raw : forall fx n s rest, (String.length s <= n)%nat ->
  all_bytes (fun c => negb (is_quote c) && negb (is_bracket c)) s = true -> esc_closed s = true ->
  fa_marks fx None (L s ++ rest)%list = (repeat MP (List.length (L s)) ++ fa_marks fx None rest)%list.
Proof.
  induction n as [|n IH]; intros s rest Hn Ha He.
  - destruct s; [reflexivity|cbn in Hn; lia].
  - destruct s as [|c s]; [reflexivity|].
    cbn [all_bytes] in Ha. apply andb_prop in Ha. destruct Ha as [Hc Hs].
    apply andb_prop in Hc. destruct Hc as [Hq Hb].
    apply negb_true_iff in Hq. apply negb_true_iff in Hb.
    destruct (not_quote c Hq) as (A & B & C). destruct (not_bracket c Hb) as (D & E).
    cbn [esc_closed] in He. change aeq with beq in He. change ch_bs with c_bs in He.
    cbn [list_of_bs app fa_marks List.length repeat]. cbn in Hn.
    destruct (beq c c_bs) eqn:Ebs.
    + cbn [fai_bs_skips]. destruct s as [|d s]; [discriminate|].
      cbn [all_bytes] in Hs. apply andb_prop in Hs. destruct Hs as [_ Hs].
      cbn [list_of_bs app List.length repeat]. rewrite IH; auto. cbn in Hn. lia.
    + rewrite B, A, C, D, E. rewrite IH; auto. lia.
Qed.

(* body of a string delimited by q = ' or double quote, scanned while hold = q *)
Lemma fa_body : forall fx q n s rest, (q = c_sq \/ q = c_dq) -> (String.length s <= n)%nat ->
  body_ok q s = true ->
  fa_marks fx (Some q) (L s ++ q :: rest)%list
  = (repeat MP (List.length (L s) + 1) ++ fa_marks fx None rest)%list.
Proof.
  intros fx q n s rest Hq. revert s rest.
  assert (Qq : is_q q) by (unfold is_q; tauto).
  assert (Qbs : beq q c_bs = false) by (destruct Hq; subst; reflexivity).
  assert (Qbt : beq q c_bt = false) by (destruct Hq; subst; reflexivity).
  assert (Skip : fai_bs_skips fx (Some q) = true).
  { cbn [fai_bs_skips]. rewrite Qbt, andb_false_r. reflexivity. }
  assert (Close : forall r, fa_marks fx (Some q) (q :: r) = MP :: fa_marks fx None r).
  { intros r. rewrite fa_marks_quote by auto. cbn [fai_quote]. rewrite beq_refl. reflexivity. }
  assert (Reopen : forall r, fa_marks fx None (q :: r) = MP :: fa_marks fx (Some q) r).
  { intros r. rewrite fa_marks_quote by auto. reflexivity. }
  induction n as [|n IH]; intros s rest Hn H.
  - destruct s; [|cbn in Hn; lia]. cbn [list_of_bs app List.length Nat.add repeat]. apply Close.
  - destruct s as [|c s].
    { cbn [list_of_bs app List.length Nat.add repeat]. apply Close. }
    cbn [body_ok] in H. change aeq with beq in H. change ch_bs with c_bs in H.
    cbn [list_of_bs app List.length Nat.add repeat]. cbn in Hn.
    destruct (beq c c_bs) eqn:Ebs.
    + destruct s as [|d s]; [discriminate|].
      cbn [list_of_bs app List.length repeat fa_marks]. rewrite Ebs, Skip.
      rewrite IH; auto. cbn in Hn. lia.
    + destruct (beq c q) eqn:Ecq.
      * apply beq_eq in Ecq. subst c.
        destruct s as [|d s]; [discriminate|]. change aeq with beq in H.
        destruct (beq d q) eqn:Ed; [|discriminate]. apply beq_eq in Ed. subst d.
        cbn [list_of_bs app List.length repeat]. rewrite Close, Reopen.
        rewrite IH; auto. cbn in Hn. lia.
      * destruct (is_quote c) eqn:Eq.
        -- rewrite fa_marks_quote by (apply is_q_quote; auto).
           cbn [fai_quote]. rewrite (beq_sym q c), Ecq. cbn [fst]. rewrite IH; auto. lia.
        -- destruct (not_quote c Eq) as (A & B & C).
           rewrite fa_marks_held by auto. rewrite IH; auto. lia.
Qed.

(* body of a backtick identifier, scanned while hold = backtick: a backslash is an ordinary byte *)
Lemma fa_bt_body : forall fx n s rest, fx_d47 fx = true -> (String.length s <= n)%nat ->
  bt_ok s = true ->
  fa_marks fx (Some c_bt) (L s ++ c_bt :: rest)%list
  = (repeat MP (List.length (L s) + 1) ++ fa_marks fx None rest)%list.
Proof.
  intros fx n s rest Hfx. revert s rest.
  assert (NoSkip : fai_bs_skips fx (Some c_bt) = false).
  { cbn [fai_bs_skips]. rewrite Hfx. reflexivity. }
  induction n as [|n IH]; intros s rest Hn H.
  - destruct s; [|cbn in Hn; lia]. reflexivity.
  - destruct s as [|c s]; [reflexivity|].
    cbn [bt_ok] in H. change aeq with beq in H. change ch_bt with c_bt in H.
    cbn [list_of_bs app List.length Nat.add repeat]. cbn in Hn.
    destruct (beq c c_bt) eqn:Ebt.
    + apply beq_eq in Ebt. subst c.
      destruct s as [|d s]; [discriminate|]. change aeq with beq in H.
      destruct (beq d c_bt) eqn:Ed; [|discriminate]. apply beq_eq in Ed. subst d.
      cbn [list_of_bs app List.length repeat].
      rewrite fa_marks_quote by (unfold is_q; auto). cbn [fai_quote]. rewrite beq_refl. cbn [fst].
      rewrite fa_marks_quote by (unfold is_q; auto). cbn [fai_quote fst].
      rewrite IH; auto. cbn in Hn. lia.
    + destruct (beq c c_bs) eqn:Ebs.
      * cbn [fa_marks]. rewrite Ebs, NoSkip. rewrite IH; auto. lia.
      * destruct (is_quote c) eqn:Eq.
        -- rewrite fa_marks_quote by (apply is_q_quote; auto).
           cbn [fai_quote]. rewrite (beq_sym c_bt c), Ebt. cbn [fst]. rewrite IH; auto. lia.
        -- destruct (not_quote c Eq) as (A & B & C).
           rewrite fa_marks_held by auto. rewrite IH; auto. lia.
Qed.

Lemma enc_bt_ok : forall n, bt_ok (enc_bt n) = true.
Proof.
  induction n as [|c n IH]; [reflexivity|].
  cbn [enc_bt]. destruct (aeq c ch_bt) eqn:E.
  - cbn [bt_ok]. change (aeq ch_bt ch_bt) with true. cbv iota. exact IH.
  - cbn [bt_ok]. rewrite E. exact IH.
Qed.

(* what FindArrayIndex sees of one segment *)
Definition seg_marks (q : qstyle) (a : astyle) (x : seg) : list mark :=
  match x, a with
  | Open, Idiom => [MO]
  | Close, Idiom => [MC]
  | _, _ => repeat MP (List.length (L (render_seg q a x)))
  end.

Fixpoint doc_marks (q : qstyle) (a : astyle) (d : doc) : list mark :=
  match d with [] => [] | x :: r => (seg_marks q a x ++ doc_marks q a r)%list end.

Lemma length_snoc1 : forall (l : list ascii) c, List.length (c :: l ++ [c])%list = S (List.length l + 1).
Proof. intros. cbn. rewrite app_length. reflexivity. Qed.

Lemma render_seg_fa : forall fx q a x rest, fx_d47 fx = true -> wf_arrays_seg q x = true ->
  fa_marks fx None (L (render_seg q a x) ++ rest)%list
  = (seg_marks q a x ++ fa_marks fx None rest)%list.
Proof.
  intros fx q a x rest Hfx H.
  assert (QS : forall c s, is_q c ->
     fa_marks fx (Some c) (L s ++ c :: rest)%list
       = (repeat MP (List.length (L s) + 1) ++ fa_marks fx None rest)%list ->
     fa_marks fx None (L (q1 c ++ s ++ q1 c) ++ rest)%list
       = (repeat MP (List.length (L (q1 c ++ s ++ q1 c))) ++ fa_marks fx None rest)%list).
  { intros c s Hc E. rewrite !L_app, !L_q1. cbn [app]. rewrite <- app_assoc. cbn [app].
    rewrite fa_marks_quote by auto. cbn [fai_quote fst]. rewrite E.
    rewrite length_snoc1. reflexivity. }
  destruct x as [s|s|s|n| |]; cbn [render_seg wf_arrays_seg seg_marks] in *.
  - apply andb_prop in H. destruct H as [H1 H2].
    destruct a; apply (fa_raw fx (String.length s)); auto.
  - destruct a; (apply QS; [unfold is_q; auto|]);
      apply (fa_body fx c_sq (String.length s)); auto.
  - destruct a; (apply QS; [unfold is_q; auto|]);
      apply (fa_bt_body fx (String.length s)); auto.
  - destruct q.
    + destruct a; (apply QS; [unfold is_q; auto|]);
        apply (fa_body fx c_dq (String.length (enc_dq n))); auto.
    + destruct a; (apply QS; [unfold is_q; auto|]);
        apply (fa_bt_body fx (String.length (enc_bt n))); auto using enc_bt_ok.
  - destruct a; [reflexivity|]. apply (fa_raw fx 6); auto.
  - destruct a; [reflexivity|]. apply (fa_raw fx 1); auto.
Qed.

Lemma render_fa : forall fx q a d, fx_d47 fx = true -> wf_arrays q d = true ->
  fa_marks fx None (L (render q a d)) = doc_marks q a d.
Proof.
  intros fx q a d Hfx. induction d as [|x d IH]; intros H; [reflexivity|].
  cbn [wf_arrays forallb] in H. apply andb_prop in H. destruct H as [Hx Hd].
  cbn [render doc_marks]. rewrite L_app, render_seg_fa by auto.
  unfold wf_arrays in IH. rewrite IH by auto. reflexivity.
Qed.

Lemma dyck_MP : forall n k m, dyck k (repeat MP n ++ m)%list = dyck k m.
Proof. induction n as [|n IH]; intros; [reflexivity|]. cbn [repeat app dyck]. apply IH. Qed.

Lemma doc_marks_dyck : forall q d k, dyck k (doc_marks q Idiom d) = bal k d.
Proof.
  induction d as [|x d IH]; intros k; [reflexivity|].
  cbn [doc_marks]. destruct x; cbn [seg_marks bal]; rewrite ?dyck_MP; auto.
  - cbn [app dyck]. apply IH.
  - cbn [app dyck]. destruct k; auto.
Qed.

Lemma subst_MP : forall s rest m, subst (s ++ rest)%list (repeat MP (List.length s) ++ m)%list
                                  = (s ++ subst rest m)%list.
Proof. induction s as [|c s IH]; intros; [reflexivity|]. cbn. rewrite IH. reflexivity. Qed.

Lemma render_seg_astyle : forall q x, x <> Open -> x <> Close ->
  render_seg q Idiom x = render_seg q Arr x.
Proof. intros q x A B. destruct x; try reflexivity; contradiction. Qed.

Lemma doc_subst : forall q d,
  subst (L (render q Idiom d)) (doc_marks q Idiom d) = L (render q Arr d).
Proof.
  induction d as [|x d IH]; [reflexivity|].
  cbn [render doc_marks]. rewrite !L_app.
  destruct x; cbn [seg_marks]; try (rewrite subst_MP, IH; reflexivity).
  - cbn [render_seg]. cbn [list_of_bs app subst]. rewrite IH. reflexivity.
  - cbn [render_seg]. cbn [list_of_bs app subst]. rewrite IH. reflexivity.
Qed.

Lemma arrays_correct : forall q d, wf_arrays q d = true ->
  FixIdiomaticArray (render q Idiom d)
  = if balanced d then Ok (render q Arr d) else Err.
Proof.
  intros q d H. unfold FixIdiomaticArray, FixIdiomaticArray_f.
  rewrite (fix_arrays_l_char repaired _ eq_refl).
  rewrite (render_fa repaired q Idiom d eq_refl H).
  rewrite doc_marks_dyck. unfold balanced. destruct (bal 0 d); [|reflexivity].
  rewrite doc_subst. cbn [bind]. rewrite bs_L. reflexivity.
Qed.

(* ------------------------------------------------------------------ *)
(* totality on arbitrary byte strings                                   *)
(* ------------------------------------------------------------------ *)

Definition ok_or_err {A} (r : res A) : Prop := (exists a, r = Ok a) \/ r = Err.

Lemma dq_total : forall s, ok_or_err (DoubleQuotesToBackTick s).
Proof.
  intros. unfold DoubleQuotesToBackTick, DoubleQuotesToBackTick_f.
  rewrite (dq_to_bt_l_ref repaired _ eq_refl).
  destruct (dq_ref repaired QRaw (L s)); cbn; [left; eauto|right; reflexivity].
Qed.

Lemma fai_total : forall fx s, ok_or_err (FindArrayIndex_f fx s).
Proof.
  intros. unfold FindArrayIndex_f. rewrite find_array_index_l_ref.
  destruct (q_run _ _ _ _ _); cbn; [left; eauto|right; reflexivity].
Qed.

Lemma fix_total : forall s, ok_or_err (FixIdiomaticArray s).
Proof.
  intros. unfold FixIdiomaticArray, FixIdiomaticArray_f.
  rewrite (fix_arrays_l_char repaired _ eq_refl).
  destruct (dyck _ _); cbn; [left; eauto|right; reflexivity].
Qed.

(* the rewrite is exactly: unquoted [ -> ARRAY( , unquoted ] -> ) , on every input *)
Lemma fix_char : forall s,
  FixIdiomaticArray s =
    let m := fa_marks repaired None (L s) in
    if dyck 0 m then Ok (bs_of_asciis (subst (L s) m)) else Err.
Proof.
  intros. unfold FixIdiomaticArray, FixIdiomaticArray_f.
  rewrite (fix_arrays_l_char repaired _ eq_refl). cbv zeta.
  destruct (dyck _ _); reflexivity.
Qed.

(* FindArrayIndex succeeds exactly when FixIdiomaticArray does *)
Lemma fai_ok_iff : forall s, is_ok (FindArrayIndex s) = is_ok (FixIdiomaticArray s).
Proof.
  intros. rewrite fix_char. cbv zeta. unfold FindArrayIndex, FindArrayIndex_f.
  rewrite find_array_index_l_ref.
  pose proof (q_run_dyck repaired (fa_marks repaired None (L s)) 0 [] [] eq_refl) as H.
  cbn [List.length] in H. rewrite <- H. destruct (q_run _ _ _ _ _); reflexivity.
Qed.

(* ------------------------------------------------------------------ *)
(* New's option pipeline                                                *)
(* ------------------------------------------------------------------ *)

Definition opts (w p i : bool) : options := {| o_wrapped := w; o_pg := p; o_idiom := i |}.

Lemma pipeline : forall d, wf_quotes d = true -> wf_arrays MY d = true ->
  (let! t := DoubleQuotesToBackTick (render PG Idiom d) in FixIdiomaticArray t)
  = if balanced d then Ok (render MY Arr d) else Err.
Proof. intros d H1 H2. rewrite quotes_correct by auto. cbn [bind]. apply arrays_correct; auto. Qed.

Lemma pipeline_swapped : forall d, wf_quotes d = true -> wf_arrays PG d = true ->
  (let! t := FixIdiomaticArray (render PG Idiom d) in DoubleQuotesToBackTick t)
  = if balanced d then Ok (render MY Arr d) else Err.
Proof.
  intros d H1 H2. rewrite arrays_correct by auto. destruct (balanced d); [|reflexivity].
  cbn [bind]. apply quotes_correct; auto.
Qed.

Lemma new_prepare_both : forall w data d, wf_quotes d = true -> wf_arrays MY d = true ->
  balanced d = true ->
  new_prepare (opts w true true) data (render PG Idiom d)
  = new_prepare (opts w false false) data (render MY Arr d).
Proof.
  intros w data d H1 H2 H3. unfold new_prepare, new_prepare_f. cbn [o_pg o_idiom o_wrapped opts].
  change (DoubleQuotesToBackTick_f repaired) with DoubleQuotesToBackTick.
  change (FixIdiomaticArray_f repaired) with FixIdiomaticArray.
  rewrite quotes_correct by auto. cbn [bind]. rewrite arrays_correct by auto. rewrite H3. reflexivity.
Qed.

Lemma wrapped_eq : forall {R} (engine : value -> bytes -> res R) p i data query,
  api_run engine (opts true p i) data query
  = api_run engine (opts false p i) (VObj [("root"%string, data)]) query.
Proof. intros. reflexivity. Qed.
