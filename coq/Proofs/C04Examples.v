(* Proofs/C04Examples.v — non-vacuity: concrete tables satisfy [wf_join] / [hash_faithful], the
   theorems apply to them, and the engine model returns what one expects.
   Two 3-row tables with a duplicated two-column key; ON mixes both orientations and uses column
   names that sort differently on the two sides (x.a,x.z vs y.m,y.b: the pinned tree paired
   a-b and z-m); LEFT / RIGHT have partner-less rows. *)
From Coq Require Import Floats Permutation.
From GenqlV Require Import Base.Prelude Base.Fmt Base.Value Model.Ast Model.Eval Model.Join
  Spec.JoinSpec Proofs.C04Conc Proofs.C04KeyText Proofs.C04Lemmas Proofs.C04Parallel.
Local Open Scope list_scope.
Local Open Scope string_scope.

Definition xrow (a : float) (z : string) : value := VObj [("x", VObj [("a", VNum a); ("z", VStr z)])].
Definition yrow (m : float) (b : string) : value := VObj [("y", VObj [("b", VStr b); ("m", VNum m)])].

Definition exL : list value := [xrow 1 "p"; xrow 1 "p"; xrow 2 "q"].
Definition exR : list value := [yrow 1 "p"; yrow 2 "r"; yrow 1 "p"].

(* x.a = y.m AND y.b = x.z *)
Definition ex_on : expr stmt :=
  EAnd (ECmp OpEq (ECol ["x"; "a"]) (ECol ["y"; "m"])) (ECmp OpEq (ECol ["y"; "b"]) (ECol ["x"; "z"])).
(* x.a < y.m OR y.b = x.z : not an equi-join, nested loop whatever is requested *)
Definition ex_on2 : expr stmt :=
  EOr (ECmp OpLt (ECol ["x"; "a"]) (ECol ["y"; "m"])) (ECmp OpEq (ECol ["y"; "b"]) (ECol ["x"; "z"])).

Ltac in_cases H := repeat (destruct H as [<-|H]); try contradiction.
Ltac cmp_cases H :=
  repeat (let H' := fresh in destruct H as [H'|H]; [injection H' as <- <- <-|]); try contradiction.

Lemma ex_side_L : side_ok exL [["x"; "a"]; ["x"; "z"]].
Proof.
  constructor.
  - intros r p Hr Hp. in_cases Hr; in_cases Hp; eexists; (split; [vm_compute; reflexivity|vm_compute; discriminate]).
  - intros p v w Hp (r1 & H1 & E1) (r2 & H2 & E2) Hf.
    in_cases Hp; in_cases H1; in_cases H2; vm_compute in E1, E2;
      injection E1 as <-; injection E2 as <-; vm_compute in Hf; try discriminate; reflexivity.
Qed.

Lemma ex_side_R : side_ok exR [["y"; "m"]; ["y"; "b"]].
Proof.
  constructor.
  - intros r p Hr Hp. in_cases Hr; in_cases Hp; eexists; (split; [vm_compute; reflexivity|vm_compute; discriminate]).
  - intros p v w Hp (r1 & H1 & E1) (r2 & H2 & E2) Hf.
    in_cases Hp; in_cases H1; in_cases H2; vm_compute in E1, E2;
      injection E1 as <-; injection E2 as <-; vm_compute in Hf; try discriminate; reflexivity.
Qed.

Ltac wf_example :=
  constructor;
  [ repeat split; discriminate
  | intros r Hr; in_cases Hr; eexists; reflexivity
  | intros r Hr; in_cases Hr; eexists; reflexivity
  | reflexivity
  | intros p q Hp Hq He; cbn in Hp, Hq; in_cases Hp; in_cases Hq; vm_compute in He;
    first [reflexivity|discriminate]
  | intros p Hp; cbn in Hp; in_cases Hp; vm_compute; discriminate
  | exact ex_side_L
  | exact ex_side_R
  | intros op pa pb l r a b Hc Hl Hr Ha Hb; cbn in Hc; cmp_cases Hc;
    in_cases Hl; in_cases Hr; vm_compute in Ha, Hb; injection Ha as <-; injection Hb as <-;
    vm_compute; reflexivity ].

Example ex_wf : wf_join "x" "y" exL exR ex_on.
Proof. wf_example. Qed.

Example ex_wf2 : wf_join "x" "y" exL exR ex_on2.
Proof. wf_example. Qed.

Example ex_hash_faithful : hash_faithful "x" exL exR ex_on.
Proof.
  intros op pa pb l r a b Hc Hl Hr Ha Hb. cbn in Hc. cmp_cases Hc;
    in_cases Hl; in_cases Hr; vm_compute in Ha, Hb; injection Ha as <-; injection Hb as <-;
    vm_compute; split; intros H; first [reflexivity|discriminate].
Qed.

(* the equi-join takes the hash path, ex_on2 the nested loop *)
Example ex_paths : uses_hash SAuto ex_on = true /\ uses_hash SHash ex_on2 = false /\
                   uses_hash SStraight ex_on = false.
Proof. repeat split. Qed.

Definition m (a : float) (z : string) (mm : float) (b : string) : value :=
  VObj [("x", VObj [("a", VNum a); ("z", VStr z)]); ("y", VObj [("b", VStr b); ("m", VNum mm)])].

(* LEFT: 2 x 2 pairs for the duplicated key, and the partner-less left row with y: NULL *)
Example ex_left_values :
  exec_join JLeft SAuto exL exR "x" "y" ex_on [] =
  Ok [m 1 "p" 1 "p"; m 1 "p" 1 "p"; m 1 "p" 1 "p"; m 1 "p" 1 "p";
      VObj [("x", VObj [("a", VNum 2); ("z", VStr "q")]); ("y", VNull)]].
Proof. vm_compute. reflexivity. Qed.

(* RIGHT: the partner-less right row with x: NULL *)
Example ex_right_values :
  exec_join JRight SAuto exL exR "x" "y" ex_on [] =
  Ok [m 1 "p" 1 "p"; m 1 "p" 1 "p"; m 1 "p" 1 "p"; m 1 "p" 1 "p";
      VObj [("x", VNull); ("y", VObj [("b", VStr "r"); ("m", VNum 2)])]].
Proof. vm_compute. reflexivity. Qed.

(* every strategy, every type: the same multiset as the specification (RIGHT: not the same list —
   the engine emits group by group, the specification row by row) *)
Definition count_v (v : value) (l : list value) : nat := List.length (filter (veqb v) l).
Definition permb (a b : list value) : bool :=
  Nat.eqb (List.length a) (List.length b) && forallb (fun v => Nat.eqb (count_v v a) (count_v v b)) a.

Example ex_right_is_only_a_permutation :
  exec_join JRight SAuto exL exR "x" "y" ex_on [] <> join_spec JRight exL exR "x" "y" ex_on [].
Proof. vm_compute. discriminate. Qed.

Example ex_all_strategies :
  forallb (fun st => match exec_join JInner st exL exR "x" "y" ex_on [], join_spec JInner exL exR "x" "y" ex_on [] with
                     | Ok a, Ok b => list_veqb a b && Nat.eqb (List.length a) 4 | _, _ => false end)
          [SAuto; SHash; SStraight; SParallel; SParallelHash; SParallelStraight] = true /\
  forallb (fun jt => forallb (fun st =>
             match exec_join jt st exL exR "x" "y" ex_on [], join_spec jt exL exR "x" "y" ex_on [] with
             | Ok a, Ok b => permb a b && Nat.eqb (List.length a) 5 | _, _ => false end)
          [SAuto; SHash; SParallel; SParallelHash]) [JLeft; JRight] = true.
Proof. vm_compute. split; reflexivity. Qed.

(* the non-equi ON on the nested-loop path, LEFT: x.a < y.m OR y.b = x.z *)
Example ex_loop_values :
  exec_join JLeft SHash exL exR "x" "y" ex_on2 [] =
  Ok [m 1 "p" 1 "p"; m 1 "p" 1 "p"; m 1 "p" 1 "p"; m 1 "p" 1 "p"; m 1 "p" 2 "r"; m 1 "p" 2 "r";
      VObj [("x", VObj [("a", VNum 2); ("z", VStr "q")]); ("y", VNull)]] /\
  exists o, join_spec JLeft exL exR "x" "y" ex_on2 [] = Ok o /\ List.length o = 7.
Proof. vm_compute. split; [reflexivity|eexists; split; reflexivity]. Qed.

(* the theorems apply *)
Example ex_theorem_hash : forall jt st, admissible jt st = true ->
  perm_ok (exec_join jt st exL exR "x" "y" ex_on []) (join_spec jt exL exR "x" "y" ex_on []).
Proof. intros jt st H. apply join_eq_spec; auto using ex_wf. intros _. exact ex_hash_faithful. Qed.

Example ex_theorem_loop : forall jt st, admissible jt st = true ->
  perm_ok (exec_join jt st exL exR "x" "y" ex_on2 []) (join_spec jt exL exR "x" "y" ex_on2 []).
Proof. intros jt st H. apply join_eq_spec; auto using ex_wf2. discriminate. Qed.

(* a parallel run in which the second worker overtakes the first: main returns the batches in
   completion order (second key first) — a permutation of the sequential result, not the same list *)
Definition ex_lcat : list centry :=
  match to_catalog exL "x" "y" ex_on with Ok c => c | _ => [] end.
Definition ex_rcat : list centry :=
  match to_catalog exR "y" "x" ex_on with Ok c => c | _ => [] end.
Definition ex_batch := join_batch true false "y" ex_on [] ex_lcat ex_rcat.
Definition ex_sched : list tid :=
  [TMain; TMain; TMain; TMain; TMain;                 (* Add, go, Add, go, end of loop *)
   TW 0; TW 1; TW 0;                                  (* both compute; worker 0 locks *)
   TW 1; TW 1;                                        (* worker 1 blocked on the mutex *)
   TMain;                                             (* Wait blocked: counter = 2 *)
   TW 0; TW 0; TW 0; TW 1; TW 0;                      (* 0: read, write, unlock; 1 locks; 0: Done *)
   TW 1; TW 1; TW 1; TW 1; TMain ].                   (* 1: read, write, unlock, Done; Wait returns *)
Definition ex_sched_rev : list tid :=
  [TMain; TMain; TMain; TMain; TMain; TW 0; TW 1; TW 1; TW 1; TW 1; TW 1; TW 1;
   TW 0; TW 0; TW 0; TW 0; TW 0; TMain].

Example ex_parallel_runs :
  List.length ex_lcat = 2 /\
  order (run 2 ex_batch ex_sched) = [0; 1] /\ order (run 2 ex_batch ex_sched_rev) = [1; 0] /\
  (exists r, mpc (run 2 ex_batch ex_sched) = MRet (Some r) /\
             Ok r = exec_join JLeft SParallelHash exL exR "x" "y" ex_on []) /\
  (exists r, mpc (run 2 ex_batch ex_sched_rev) = MRet (Some r) /\
             Ok r <> exec_join JLeft SParallelHash exL exR "x" "y" ex_on [] /\ List.length r = 5).
Proof.
  vm_compute. repeat split; try reflexivity.
  - eexists. split; reflexivity.
  - eexists. split; [reflexivity|]. split; [discriminate|reflexivity].
Qed.

(* the prefix-free key: the pair of texts that collided under "%v-" now gets distinct keys *)
Example ex_key_text_distinct :
  key_text [VStr "b"; VStr "a-"] <> key_text [VStr "b-a"; VStr ""].
Proof. vm_compute. discriminate. Qed.

(* ---------- the premises are necessary: outside them the (repaired) engine is not textbook ---------- *)

(* text_faithful: a key column holding the number 9 and the string "9".  Both rows get the text
   key "1:9", are filed in one group, and ON is evaluated once for the group with the first row's
   value: 9 < 10 holds, so the row with "9" is paired too although "9" < 10 is false
   (compare of a string with a number is the byte order of the texts "9" and "10"). *)
Definition mixL : list value := [VObj [("x", VObj [("a", VNum 9)])]; VObj [("x", VObj [("a", VStr "9")])]].
Definition mixR : list value := [VObj [("y", VObj [("b", VNum 10)])]].
Definition lt_on : expr stmt := ECmp OpLt (ECol ["x"; "a"]) (ECol ["y"; "b"]).

Theorem mixed_kind_column_refuted :
  exists L R on a b,
    exec_join JInner SAuto L R "x" "y" on [] = Ok a /\ join_spec JInner L R "x" "y" on [] = Ok b /\
    List.length a <> List.length b.
Proof. exists mixL, mixR, lt_on. eexists. eexists. vm_compute. repeat split; discriminate. Qed.

(* zero_safe: -0 against a string.  The key map holds 0, the row holds -0; against the string "-5"
   the texts "0" and "-0" order differently ("-0" < "-5" < "0") *)
Definition nzL : list value := [VObj [("x", VObj [("a", VNum (-0)%float)])]].
Definition nzR : list value := [VObj [("y", VObj [("b", VStr "-5")])]].

Theorem negzero_against_string_refuted :
  exists L R on a b,
    exec_join JInner SAuto L R "x" "y" on [] = Ok a /\ join_spec JInner L R "x" "y" on [] = Ok b /\
    List.length a <> List.length b.
Proof. exists nzL, nzR, lt_on. eexists. eexists. vm_compute. repeat split; discriminate. Qed.
