(* Proofs/C17Arrays.v — FindArrayIndex + FixIdiomaticArray on ALL inputs:
     fix_arrays_l repaired s = if the unquoted brackets of s are balanced
                               then Ok (s with every unquoted [ -> ARRAY( and ] -> ) )
                               else Err
   The FIFO "stack" of FindArrayIndex pairs the k-th opening bracket with the k-th closing one
   (not with its real partner); the offset arithmetic of FixIdiomaticArray is nevertheless right,
   because only [open_k < close_k] and the order of the opening positions matter. *)
From Coq Require Import ZifyBool ZifyNat.
From GenqlV Require Import Base.Prelude Model.Processors Proofs.C17Scan.
Local Open Scope Z_scope.

(* ------------------------------------------------------------------ *)
(* marks: positions, balance, substitution                              *)
(* ------------------------------------------------------------------ *)

Fixpoint opens (base : Z) (m : list mark) : list Z :=
  match m with
  | [] => []
  | MO :: r => base :: opens (base + 1) r
  | _ :: r => opens (base + 1) r
  end.

Fixpoint closes (base : Z) (m : list mark) : list Z :=
  match m with
  | [] => []
  | MC :: r => base :: closes (base + 1) r
  | _ :: r => closes (base + 1) r
  end.

Fixpoint dyck (d : nat) (m : list mark) : bool :=
  match m with
  | [] => Nat.eqb d 0
  | MO :: r => dyck (S d) r
  | MC :: r => match d with O => false | S k => dyck k r end
  | MP :: r => dyck d r
  end.

Definition tok6 : list ascii := (tok_array ++ tok_open)%list.

Fixpoint subst (s : list ascii) (m : list mark) : list ascii :=
  match s, m with
  | _ :: r, MO :: m' => (tok6 ++ subst r m')%list
  | _ :: r, MC :: m' => (tok_close ++ subst r m')%list
  | c :: r, MP :: m' => c :: subst r m'
  | _, _ => []
  end.

Lemma fa_marks_length : forall fx n s hold, (List.length s <= n)%nat ->
  List.length (fa_marks fx hold s) = List.length s.
Proof.
  induction n as [|n IH]; intros s hold Hn.
  - destruct s; [reflexivity|cbn in Hn; lia].
  - destruct s as [|c r]; [reflexivity|]. cbn [fa_marks]. cbn in Hn.
    destruct (beq c c_bs).
    { destruct (fai_bs_skips fx hold).
      - destruct r as [|d r']; [reflexivity|]. cbn [List.length]. rewrite IH; [reflexivity|cbn in Hn; lia].
      - cbn [List.length]. rewrite IH; [reflexivity|lia]. }
    repeat match goal with
           | |- context [if ?b then _ else _] => destruct b
           | |- context [match ?h with Some _ => _ | None => _ end] => destruct h
           end; cbn [List.length]; rewrite IH; auto; lia.
Qed.

(* ------------------------------------------------------------------ *)
(* the pairing machine                                                  *)
(* ------------------------------------------------------------------ *)

Lemma q_run_char : forall fx m base done pending out, fx_d25 fx = true ->
  q_run fx base m done pending = Some out ->
  out = (done ++ combine (pending ++ opens base m) (closes base m))%list
  /\ List.length (pending ++ opens base m)%list = List.length (closes base m).
Proof.
  induction m as [|k m IH]; intros base done pending out Hfx H.
  - cbn [q_run] in H. destruct pending.
    + inversion H. subst. unfold repr_out. cbn. auto.
    + rewrite Hfx in H. discriminate.
  - destruct k; cbn [q_run opens closes] in *.
    + apply IH in H; auto. rewrite <- app_assoc in H. exact H.
    + destruct pending as [|a p]; [discriminate|].
      apply IH in H; auto. destruct H as [H1 H2]. split.
      * rewrite H1. rewrite <- app_assoc. reflexivity.
      * cbn [app List.length]. rewrite H2. reflexivity.
    + apply IH in H; auto.
Qed.

Lemma q_run_dyck : forall fx m base done pending, fx_d25 fx = true ->
  match q_run fx base m done pending with Some _ => true | None => false end
  = dyck (List.length pending) m.
Proof.
  induction m as [|k m IH]; intros base done pending Hfx.
  - cbn [q_run dyck]. destruct pending; [reflexivity|]. rewrite Hfx. reflexivity.
  - destruct k; cbn [q_run dyck].
    + rewrite IH by auto. rewrite app_length. cbn [List.length]. rewrite Nat.add_1_r. reflexivity.
    + destruct pending as [|a p]; [reflexivity|]. rewrite IH by auto. reflexivity.
    + apply IH; auto.
Qed.

Lemma q_run_lt : forall fx m base done pending out, fx_d25 fx = true ->
  q_run fx base m done pending = Some out ->
  (forall a b, In (a, b) done -> a < b) -> (forall a, In a pending -> a < base) ->
  forall a b, In (a, b) out -> a < b.
Proof.
  induction m as [|k m IH]; intros base done pending out Hfx H Hd Hp a b Hin.
  - cbn [q_run] in H. destruct pending; [|rewrite Hfx in H; discriminate].
    inversion H. subst. unfold repr_out in Hin. cbn in Hin. rewrite app_nil_r in Hin. auto.
  - destruct k; cbn [q_run] in H.
    + eapply IH; eauto. intros x Hx. apply in_app_or in Hx. destruct Hx as [Hx|[Hx|[]]].
      * apply Hp in Hx. lia.
      * lia.
    + destruct pending as [|a0 p]; [discriminate|].
      eapply IH; eauto.
      * intros x y Hx. apply in_app_or in Hx. destruct Hx as [Hx|[Hx|[]]]; auto.
        inversion Hx; subst. apply Hp. left; reflexivity.
      * intros x Hx. assert (x < base) by (apply Hp; right; exact Hx). lia.
    + eapply IH; eauto. intros x Hx. apply Hp in Hx. lia.
Qed.

Lemma opens_bounds : forall m base x, In x (opens base m) -> base <= x < base + Z.of_nat (List.length m).
Proof.
  induction m as [|k m IH]; intros base x H; [destruct H|].
  destruct k; cbn [opens List.length] in *;
    try (destruct H as [H|H]; [lia|]); apply IH in H; lia.
Qed.

Lemma closes_bounds : forall m base x, In x (closes base m) -> base <= x < base + Z.of_nat (List.length m).
Proof.
  induction m as [|k m IH]; intros base x H; [destruct H|].
  destruct k; cbn [closes List.length] in *;
    try (destruct H as [H|H]; [lia|]); apply IH in H; lia.
Qed.

Fixpoint incr (l : list Z) : Prop :=
  match l with [] => True | x :: r => (forall y, In y r -> x < y) /\ incr r end.

Lemma opens_incr : forall m base, incr (opens base m).
Proof.
  induction m as [|k m IH]; intros base; [exact I|].
  destruct k; cbn [opens incr]; auto. split; auto.
  intros y Hy. apply opens_bounds in Hy. lia.
Qed.

Lemma closes_incr : forall m base, incr (closes base m).
Proof.
  induction m as [|k m IH]; intros base; [exact I|].
  destruct k; cbn [closes incr]; auto. split; auto.
  intros y Hy. apply closes_bounds in Hy. lia.
Qed.

Lemma opens_closes_disjoint : forall m base x, In x (opens base m) -> In x (closes base m) -> False.
Proof.
  induction m as [|k m IH]; intros base x Ho Hc; [destruct Ho|].
  destruct k; cbn [opens closes] in *.
  - destruct Ho as [Ho|Ho]; [|eauto]. subst. apply closes_bounds in Hc. lia.
  - destruct Hc as [Hc|Hc]; [|eauto]. subst. apply opens_bounds in Ho. lia.
  - eauto.
Qed.

(* ------------------------------------------------------------------ *)
(* FixIdiomaticArray's loop                                             *)
(* ------------------------------------------------------------------ *)

Fixpoint valid (L : Z) (pairs : list (Z * Z)) : Prop :=
  match pairs with
  | [] => True
  | (a, b) :: rest =>
    0 <= a /\ a < b /\ b < L /\
    (forall a' b', In (a', b') rest -> a < a' /\ a < b' /\ a' <> b /\ b' <> b) /\
    valid L rest
  end.

Lemma valid_combine : forall L O C, incr O -> incr C ->
  (forall x, In x O -> In x C -> False) ->
  (forall a b, In (a, b) (combine O C) -> 0 <= a /\ a < b /\ b < L) ->
  valid L (combine O C).
Proof.
  induction O as [|a O IH]; intros C HO HC Hdis Hb; [exact I|].
  destruct C as [|b C]; [exact I|]. cbn [combine valid].
  destruct HO as [HO1 HO2]. destruct HC as [HC1 HC2].
  destruct (Hb a b (or_introl eq_refl)) as (B1 & B2 & B3).
  repeat split; auto.
  - apply HO1. eapply in_combine_l; eauto.
  - assert (b < b') by (apply HC1; eapply in_combine_r; eauto). lia.
  - intros E. subst. apply (Hdis b); [right; eapply in_combine_l; eauto|left; reflexivity].
  - assert (b < b') by (apply HC1; eapply in_combine_r; eauto). lia.
  - apply IH; auto.
    + intros x H1 H2. apply (Hdis x); right; auto.
    + intros x y H. apply Hb. right. exact H.
Qed.

Definition memZ (x : Z) (l : list Z) : bool := existsb (Z.eqb x) l.

Lemma memZ_false : forall x l, (forall y, In y l -> y <> x) -> memZ x l = false.
Proof.
  intros x l H. unfold memZ. induction l as [|a l IH]; [reflexivity|].
  cbn [existsb]. rewrite IH by (intros; apply H; right; auto).
  assert (a <> x) by (apply H; left; reflexivity). lia.
Qed.

Lemma memZ_cons : forall x a l, memZ x (a :: l) = (x =? a) || memZ x l.
Proof. reflexivity. Qed.

Fixpoint replace_at (fo fc : Z -> bool) (base : Z) (s : list ascii) : list ascii :=
  match s with
  | [] => []
  | c :: r => ((if fo base then tok6 else if fc base then tok_close else [c])
               ++ replace_at fo fc (base + 1) r)%list
  end.

Lemma replace_at_app : forall fo fc u v base,
  replace_at fo fc base (u ++ v)%list
  = (replace_at fo fc base u ++ replace_at fo fc (base + blen u) v)%list.
Proof.
  induction u as [|c u IH]; intros v base.
  - cbn. rewrite Z.add_0_r. reflexivity.
  - cbn [app replace_at]. rewrite IH. rewrite blen_cons. rewrite <- app_assoc.
    replace (base + 1 + blen u) with (base + (1 + blen u)) by lia. reflexivity.
Qed.

Lemma replace_at_ext : forall fo fc fo' fc' s base base',
  (forall j, 0 <= j < blen s -> fo (base + j) = fo' (base' + j) /\ fc (base + j) = fc' (base' + j)) ->
  replace_at fo fc base s = replace_at fo' fc' base' s.
Proof.
  induction s as [|c s IH]; intros base base' H; [reflexivity|].
  cbn [replace_at]. rewrite blen_cons in H. pose proof (blen_nonneg s) as Hs.
  destruct (H 0 ltac:(lia)) as [E1 E2]. rewrite !Z.add_0_r in E1, E2. rewrite E1, E2.
  f_equal. apply IH. intros j Hj. destruct (H (1 + j) ltac:(lia)) as [F1 F2].
  replace (base + 1 + j) with (base + (1 + j)) by lia.
  replace (base' + 1 + j) with (base' + (1 + j)) by lia. auto.
Qed.

Lemma replace_at_id : forall fo fc s base,
  (forall j, 0 <= j < blen s -> fo (base + j) = false /\ fc (base + j) = false) ->
  replace_at fo fc base s = s.
Proof.
  induction s as [|c s IH]; intros base H; [reflexivity|].
  cbn [replace_at]. rewrite blen_cons in H. pose proof (blen_nonneg s) as Hs.
  destruct (H 0 ltac:(lia)) as [E1 E2]. rewrite !Z.add_0_r in E1, E2. rewrite E1, E2.
  cbn [app]. f_equal. apply IH. intros j Hj.
  replace (base + 1 + j) with (base + (1 + j)) by lia. apply H. lia.
Qed.

Lemma slice_eq : forall s a b c lo hi,
  s = (a ++ b ++ c)%list -> lo = blen a -> hi = lo + blen b -> slice s lo hi = Ok b.
Proof.
  intros s a b c lo hi -> -> ->. unfold slice.
  pose proof (blen_nonneg a). pose proof (blen_nonneg b). pose proof (blen_nonneg c).
  rewrite !blen_app.
  replace ((0 <=? blen a) && (blen a <=? blen a + blen b) && (blen a + blen b <=? blen a + (blen b + blen c)))%bool
    with true by lia.
  f_equal. unfold blen. rewrite Nat2Z.id.
  replace (Z.to_nat (Z.of_nat (List.length a) + Z.of_nat (List.length b) - Z.of_nat (List.length a)))
    with (List.length b) by lia.
  rewrite skipn_app, skipn_all, Nat.sub_diag. cbn [skipn app].
  rewrite firstn_app, Nat.sub_diag, firstn_all. cbn [firstn]. apply app_nil_r.
Qed.

Lemma split_at : forall (s : list ascii) A, 0 <= A < blen s ->
  exists pre x post, s = (pre ++ x :: post)%list /\ blen pre = A.
Proof.
  intros s A H. unfold blen in *.
  pose proof (firstn_skipn (Z.to_nat A) s) as E.
  destruct (skipn (Z.to_nat A) s) as [|x post] eqn:Es.
  - assert (List.length (skipn (Z.to_nat A) s) = 0%nat) by (rewrite Es; reflexivity).
    rewrite skipn_length in H0. lia.
  - exists (firstn (Z.to_nat A) s), x, post. split; [symmetry; exact E|].
    rewrite firstn_length. lia.
Qed.

Lemma split3 : forall (s : list ascii) A B, 0 <= A -> A < B -> B < blen s ->
  exists pre x mid y post, s = (pre ++ x :: mid ++ y :: post)%list
                           /\ blen pre = A /\ blen pre + 1 + blen mid = B.
Proof.
  intros s A B H0 H1 H2.
  destruct (split_at s A ltac:(lia)) as (pre & x & t & Es & Ep).
  assert (Ht : 0 <= B - A - 1 < blen t).
  { subst s. rewrite blen_app, blen_cons in H2. lia. }
  destruct (split_at t (B - A - 1) Ht) as (mid & y & post & Et & Em).
  exists pre, x, mid, y, post. subst t. repeat split; auto. lia.
Qed.

Lemma blen_tok6 : blen tok6 = 6. Proof. reflexivity. Qed.
Lemma blen_tok_close : blen tok_close = 1. Proof. reflexivity. Qed.
Lemma blen_tok_array : blen tok_array = 5. Proof. reflexivity. Qed.

Lemma in_fst : forall (l : list (Z * Z)) y, In y (map fst l) -> exists b, In (y, b) l.
Proof. intros l y H. apply in_map_iff in H. destruct H as [[a b] [E H]]. cbn in E. subst. eauto. Qed.
Lemma in_snd : forall (l : list (Z * Z)) y, In y (map snd l) -> exists a, In (a, y) l.
Proof. intros l y H. apply in_map_iff in H. destruct H as [[a b] [E H]]. cbn in E. subst. eauto. Qed.

Lemma fix_loop_correct : forall pairs input offset L,
  blen input = L + offset -> 0 <= offset -> valid L pairs ->
  fix_loop input offset pairs
  = Ok (replace_at (fun p => memZ (p - offset) (map fst pairs))
                   (fun p => memZ (p - offset) (map snd pairs)) 0 input).
Proof.
  induction pairs as [|[a b] rest IH]; intros input offset L Hlen Hoff Hv.
  - cbn [fix_loop map]. f_equal. symmetry. apply replace_at_id. intros; auto.
  - cbn [valid] in Hv. destruct Hv as (V0 & V1 & V2 & V3 & V4).
    destruct (split3 input (a + offset) (b + offset)) as (pre & x & mid & y & post & Ei & Ep & Em);
      try lia.
    cbn [fix_loop].
    assert (S1 : slice input 0 (a + offset) = Ok pre).
    { apply (slice_eq input [] pre (x :: mid ++ y :: post)%list);
        [exact Ei | reflexivity | lia]. }
    assert (S2 : slice input (a + offset + 1) (b + offset) = Ok mid).
    { apply (slice_eq input (pre ++ [x])%list mid (y :: post)%list);
        [rewrite Ei, <- !app_assoc; reflexivity | rewrite blen_snoc; lia | lia]. }
    assert (S3 : slice input (b + offset + 1) (blen input) = Ok post).
    { apply (slice_eq input (pre ++ x :: mid ++ [y])%list post []).
      - rewrite Ei, app_nil_r, <- !app_assoc. cbn [app]. rewrite <- app_assoc. reflexivity.
      - rewrite blen_app, blen_cons, blen_snoc. lia.
      - rewrite Ei, !blen_app, !blen_cons, blen_app, blen_cons. lia. }
    rewrite S1, S2, S3.
    cbn [bind]. rewrite blen_tok_array.
    assert (Hlen' : blen (pre ++ tok_array ++ tok_open ++ mid ++ tok_close ++ post)%list = L + (offset + 5)).
    { rewrite Ei in Hlen. rewrite !blen_app, !blen_cons, blen_app, blen_cons in Hlen.
      rewrite !blen_app. change (blen tok_array) with 5. change (blen tok_open) with 1.
      change (blen tok_close) with 1. lia. }
    rewrite (IH _ (offset + 5) L Hlen' ltac:(lia) V4). f_equal.
    (* facts about the remaining pairs *)
    assert (F1 : forall y0, In y0 (map fst rest) -> a < y0 /\ y0 <> b).
    { intros y0 Hy. apply in_fst in Hy. destruct Hy as [b' Hy]. apply V3 in Hy. lia. }
    assert (F2 : forall y0, In y0 (map snd rest) -> a < y0 /\ y0 <> b).
    { intros y0 Hy. apply in_snd in Hy. destruct Hy as [a' Hy]. apply V3 in Hy. lia. }
    set (fo' := fun p => memZ (p - (offset + 5)) (map fst rest)).
    set (fc' := fun p => memZ (p - (offset + 5)) (map snd rest)).
    cbn [map fst snd].
    set (fo := fun p => memZ (p - offset) (a :: map fst rest)).
    set (fc := fun p => memZ (p - offset) (b :: map snd rest)).
    rewrite Ei.
    replace (pre ++ tok_array ++ tok_open ++ mid ++ tok_close ++ post)%list
      with (pre ++ tok6 ++ mid ++ tok_close ++ post)%list
      by (unfold tok6; rewrite <- !app_assoc; reflexivity).
    replace (pre ++ x :: mid ++ y :: post)%list with (pre ++ [x] ++ mid ++ [y] ++ post)%list by reflexivity.
    rewrite !replace_at_app. rewrite !Z.add_0_l.
    rewrite blen_tok6, blen_tok_close. change (blen [x]) with 1. change (blen [y]) with 1.
    pose proof (blen_nonneg pre). pose proof (blen_nonneg mid). pose proof (blen_nonneg post).
    (* pre *)
    rewrite (replace_at_id fo' fc' pre 0).
    2:{ intros j Hj. unfold fo', fc'. split; apply memZ_false; intros y0 Hy;
        [apply F1 in Hy|apply F2 in Hy]; lia. }
    rewrite (replace_at_id fo fc pre 0).
    2:{ intros j Hj. unfold fo, fc. rewrite !memZ_cons. split.
        - rewrite memZ_false; [lia|]. intros y0 Hy. apply F1 in Hy. lia.
        - rewrite memZ_false; [lia|]. intros y0 Hy. apply F2 in Hy. lia. }
    f_equal.
    (* the opening bracket *)
    rewrite (replace_at_id fo' fc' tok6 (blen pre)).
    2:{ rewrite blen_tok6. intros j Hj. unfold fo', fc'. split; apply memZ_false; intros y0 Hy;
        [apply F1 in Hy|apply F2 in Hy]; lia. }
    assert (Efo : fo (blen pre) = true).
    { unfold fo. rewrite memZ_cons. replace (blen pre - offset =? a) with true by lia. reflexivity. }
    cbn [replace_at]. rewrite Efo. rewrite app_nil_r. f_equal.
    (* mid *)
    rewrite (replace_at_ext fo' fc' fo fc mid (blen pre + 6) (blen pre + 1)).
    2:{ intros j Hj. unfold fo', fc', fo, fc. rewrite !memZ_cons.
        replace (blen pre + 6 + j - (offset + 5)) with (blen pre + 1 + j - offset) by lia.
        replace (blen pre + 1 + j - offset =? a) with false by lia.
        replace (blen pre + 1 + j - offset =? b) with false by lia. auto. }
    f_equal.
    (* the closing bracket *)
    rewrite (replace_at_id fo' fc' tok_close (blen pre + 6 + blen mid)).
    2:{ rewrite blen_tok_close. intros j Hj. unfold fo', fc'.
        replace (blen pre + 6 + blen mid + j - (offset + 5)) with b by lia.
        split; apply memZ_false; intros y0 Hy; [apply F1 in Hy|apply F2 in Hy]; lia. }
    assert (Efo2 : fo (blen pre + 1 + blen mid) = false).
    { unfold fo. rewrite memZ_cons. replace (blen pre + 1 + blen mid - offset) with b by lia.
      rewrite memZ_false; [lia|]. intros y0 Hy. apply F1 in Hy. lia. }
    assert (Efc2 : fc (blen pre + 1 + blen mid) = true).
    { unfold fc. rewrite memZ_cons. replace (blen pre + 1 + blen mid - offset =? b) with true by lia.
      reflexivity. }
    cbn [replace_at]. rewrite Efo2, Efc2. rewrite app_nil_r. f_equal.
    (* post *)
    apply replace_at_ext. intros j Hj. unfold fo', fc', fo, fc. rewrite !memZ_cons.
    replace (blen pre + 6 + blen mid + 1 + j - (offset + 5)) with (blen pre + 1 + blen mid + 1 + j - offset) by lia.
    replace (blen pre + 1 + blen mid + 1 + j - offset =? a) with false by lia.
    replace (blen pre + 1 + blen mid + 1 + j - offset =? b) with false by lia. auto.
Qed.

Lemma map_fst_combine : forall (O C : list Z), List.length O = List.length C -> map fst (combine O C) = O.
Proof.
  induction O as [|a O IH]; intros C H; [reflexivity|].
  destruct C as [|b C]; [discriminate|]. cbn. f_equal. apply IH. cbn in H. lia.
Qed.

Lemma map_snd_combine : forall (O C : list Z), List.length O = List.length C -> map snd (combine O C) = C.
Proof.
  induction O as [|a O IH]; intros C H.
  - destruct C; [reflexivity|discriminate].
  - destruct C as [|b C]; [discriminate|]. cbn. f_equal. apply IH. cbn in H. lia.
Qed.

Lemma replace_at_marks : forall m s base, List.length s = List.length m ->
  replace_at (fun p => memZ p (opens base m)) (fun p => memZ p (closes base m)) base s = subst s m.
Proof.
  induction m as [|k m IH]; intros s base Hl.
  - destruct s; [reflexivity|discriminate].
  - destruct s as [|c s]; [discriminate|]. cbn [List.length] in Hl.
    assert (EXT : forall O C, (forall y, In y O -> y <> base -> True) ->
      replace_at (fun p => memZ p O) (fun p => memZ p C) (base + 1) s
      = replace_at (fun p => memZ p O) (fun p => memZ p C) (base + 1) s) by reflexivity.
    assert (NO : memZ base (opens (base + 1) m) = false).
    { apply memZ_false. intros y Hy. apply opens_bounds in Hy. lia. }
    assert (NC : memZ base (closes (base + 1) m) = false).
    { apply memZ_false. intros y Hy. apply closes_bounds in Hy. lia. }
    destruct k; cbn [opens closes replace_at subst].
    + rewrite memZ_cons, Z.eqb_refl. cbn [orb]. f_equal.
      rewrite <- (IH s (base + 1)) by lia. apply replace_at_ext.
      intros j Hj. rewrite memZ_cons. replace (base + 1 + j =? base) with false by lia. auto.
    + rewrite NO. rewrite memZ_cons, Z.eqb_refl. cbn [orb]. f_equal.
      rewrite <- (IH s (base + 1)) by lia. apply replace_at_ext.
      intros j Hj. rewrite memZ_cons. replace (base + 1 + j =? base) with false by lia. auto.
    + rewrite NO, NC. cbn [app]. f_equal. apply IH. lia.
Qed.

(* ------------------------------------------------------------------ *)
(* the rewriter on every input                                          *)
(* ------------------------------------------------------------------ *)

Theorem fix_arrays_l_char : forall fx s, fx_d25 fx = true ->
  fix_arrays_l fx s =
    if dyck 0 (fa_marks fx None s) then Ok (subst s (fa_marks fx None s)) else Err.
Proof.
  intros fx s Hfx. unfold fix_arrays_l. rewrite find_array_index_l_ref.
  pose proof (q_run_dyck fx (fa_marks fx None s) 0 [] [] Hfx) as HD. cbn [List.length] in HD.
  destruct (q_run fx 0 (fa_marks fx None s) [] []) as [out|] eqn:Hq; cbn [lift]; rewrite <- HD.
  - destruct (q_run_char _ _ _ _ _ _ Hfx Hq) as [Eo El]. cbn [app] in Eo, El.
    set (m := fa_marks fx None s) in *.
    assert (Hm : List.length m = List.length s) by (apply (fa_marks_length fx (List.length s)); auto).
    assert (Hv : valid (blen s) out).
    { rewrite Eo. apply valid_combine.
      - apply opens_incr.
      - apply closes_incr.
      - apply opens_closes_disjoint.
      - intros a b Hin.
        assert (a < b).
        { eapply (q_run_lt fx m 0 [] [] out Hfx Hq); try (intros; contradiction). rewrite Eo. exact Hin. }
        pose proof (in_combine_l _ _ _ _ Hin) as Ha. apply opens_bounds in Ha.
        pose proof (in_combine_r _ _ _ _ Hin) as Hb. apply closes_bounds in Hb.
        unfold blen. lia. }
    rewrite (fix_loop_correct out s 0 (blen s)); auto; [|lia|lia].
    f_equal. rewrite Eo, map_fst_combine, map_snd_combine by auto.
    rewrite <- (replace_at_marks m s 0) by auto.
    apply replace_at_ext. intros j Hj. rewrite Z.sub_0_r. auto.
  - rewrite Hfx. reflexivity.
Qed.
