(* Proofs/C05Sort.v — the contract of sort.Slice ([sorted_perm]) : the executable instance [sort_by]
   meets it, and what ANY output meeting it looks like (adjacent => all pairs). *)
From Coq Require Import Sorting.Permutation Sorting.Sorted.
From GenqlV Require Import Base.Prelude Base.Value Model.Exec Spec.SortSpec.

(* "a may stand before b" for a comparator *)
Definition not_after (less : value -> value -> res bool) (a b : value) : Prop := less b a = Ok false.

(* ---------- adjacent_ok is stdlib's Sorted ---------- *)

Lemma adjacent_ok_Sorted less l : adjacent_ok less l <-> Sorted (not_after less) l.
Proof.
  split.
  - induction l as [|a r IH]; intros H; [constructor|]. constructor.
    + apply IH. intros i x y Hx Hy. apply (H (S i)); assumption.
    + destruct r as [|b r]; constructor. apply (H O); reflexivity.
  - intros S. induction S as [|a r S IH Hd]; intros i x y Hx Hy.
    + destruct i; discriminate Hx.
    + destruct i as [|i].
      * cbn in Hx, Hy. inversion Hx; subst x. destruct Hd as [|b r' Hd]; [discriminate Hy|].
        cbn in Hy. inversion Hy; subst y. exact Hd.
      * apply (IH i); assumption.
Qed.

(* with transitivity on the elements, the head dominates the whole tail *)
Lemma sorted_head_all (R : value -> value -> Prop) : forall r a,
  (forall x y z, In x (a :: r) -> In y (a :: r) -> In z (a :: r) -> R x y -> R y z -> R x z) ->
  Sorted R (a :: r) -> Forall (R a) r.
Proof.
  induction r as [|b r IH]; intros a T S; [constructor|].
  inversion S as [|? ? S' Hd]; subst. inversion Hd; subst.
  assert (F : Forall (R b) r).
  { apply IH; [|exact S']. intros x y z Hx Hy Hz. apply T; right; assumption. }
  constructor; [assumption|].
  rewrite Forall_forall in *. intros c Hc.
  apply (T a b c); [left; reflexivity|right; left; reflexivity|right; right; exact Hc|assumption|].
  apply F. exact Hc.
Qed.

Lemma sorted_pairwise (R : value -> value -> Prop) : forall l,
  (forall x y z, In x l -> In y l -> In z l -> R x y -> R y z -> R x z) ->
  Sorted R l ->
  forall i j a b, (i < j)%nat -> nth_error l i = Some a -> nth_error l j = Some b -> R a b.
Proof.
  induction l as [|h l IH]; intros T S i j a b Hij Ha Hb.
  - destruct i; discriminate Ha.
  - destruct j as [|j]; [lia|]. cbn in Hb. destruct i as [|i].
    + cbn in Ha. inversion Ha; subst h.
      pose proof (sorted_head_all R l a T S) as F. rewrite Forall_forall in F.
      apply F. eapply nth_error_In; eauto.
    + cbn in Ha. apply (IH (fun x y z Hx Hy Hz => T x y z (or_intror Hx) (or_intror Hy) (or_intror Hz))
                          (proj1 (Sorted_inv S)) i j); try assumption. lia.
Qed.

(* ---------- insertion ---------- *)

Lemma insert_by_perm less x : forall l,
  (forall y, In y l -> exists b, less y x = Ok b) ->
  exists out, insert_by less x l = Ok out /\ Permutation (x :: l) out.
Proof.
  induction l as [|y r IH]; intros Tot.
  - exists [x]. split; [reflexivity|apply Permutation_refl].
  - cbn [insert_by]. destruct (Tot y (or_introl eq_refl)) as [b Eb]. rewrite Eb. cbn [bind].
    destruct b.
    + destruct IH as (r' & E & P); [intros z Hz; apply Tot; right; exact Hz|].
      rewrite E. cbn [bind]. exists (y :: r'). split; [reflexivity|].
      eapply perm_trans; [apply perm_swap|]. apply perm_skip. exact P.
    + exists (x :: y :: r). split; [reflexivity|apply Permutation_refl].
Qed.

Lemma insert_by_sorted less x : forall l out,
  (forall y, In y l -> less y x = Ok true -> less x y = Ok false) ->
  Sorted (not_after less) l -> insert_by less x l = Ok out ->
  Sorted (not_after less) out /\
  (forall a, HdRel (not_after less) a l -> not_after less a x -> HdRel (not_after less) a out).
Proof.
  induction l as [|y r IH]; intros out As S E.
  - cbn in E. inversion E; subst out. split.
    + constructor; constructor.
    + intros a _ Hax. constructor. exact Hax.
  - cbn [insert_by] in E. destruct (less y x) as [b| | |] eqn:Eb; try discriminate E.
    cbn [bind] in E. destruct b.
    + destruct (insert_by less x r) as [r'| | |] eqn:Er; try discriminate E.
      cbn [bind] in E. inversion E; subst out.
      inversion S as [|? ? S' Hd]; subst.
      destruct (IH r' (fun z Hz => As z (or_intror Hz)) S' eq_refl) as [Sr' Hhd].
      split.
      * constructor; [exact Sr'|]. apply Hhd; [exact Hd|].
        unfold not_after. apply As; [left; reflexivity|exact Eb].
      * intros a Ha _. inversion Ha; subst. constructor. assumption.
    + inversion E; subst out. split.
      * constructor; [exact S|]. constructor. exact Eb.
      * intros a _ Hax. constructor. exact Hax.
Qed.

(* ---------- the insertion sort meets the contract ---------- *)

Lemma sort_by_spec less : forall l,
  total_on (fun x => In x l) less ->
  (forall a b, In a l -> In b l -> less a b = Ok true -> less b a = Ok false) ->
  exists out, sort_by less l = Ok out /\ Permutation l out /\ Sorted (not_after less) out.
Proof.
  induction l as [|x r IH]; intros Tot As.
  - exists []. split; [reflexivity|]. split; [constructor|constructor].
  - destruct IH as (r' & E & P & S).
    + intros a b Ha Hb. apply Tot; right; assumption.
    + intros a b Ha Hb. apply As; right; assumption.
    + cbn [sort_by]. rewrite E. cbn [bind].
      assert (In' : forall y, In y r' -> In y r)
        by (intros y Hy; eapply Permutation_in; [apply Permutation_sym; exact P|exact Hy]).
      destruct (insert_by_perm less x r') as (out & Eo & Po).
      { intros y Hy. apply Tot; [right; apply In'; exact Hy|left; reflexivity]. }
      exists out. split; [exact Eo|]. split.
      * eapply perm_trans; [apply perm_skip; exact P|exact Po].
      * eapply (insert_by_sorted less x r' out); [|exact S|exact Eo].
        intros y Hy. apply As; [right; apply In'; exact Hy|left; reflexivity].
Qed.

Lemma swo_asym D less : strict_weak_order D (lt_of less) -> total_on D less ->
  forall a b, D a -> D b -> less a b = Ok true -> less b a = Ok false.
Proof.
  intros W Tot a b Da Db H. destruct (Tot b a Db Da) as [[|] E]; [|exact E]. exfalso.
  apply (swo_irrefl _ _ W a Da). apply (swo_trans _ _ W a b a); assumption.
Qed.

(* negative transitivity follows from the strict-weak-order laws *)
Lemma swo_negtrans D less : strict_weak_order D (lt_of less) -> total_on D less ->
  forall a b c, D a -> D b -> D c ->
  less a b = Ok false -> less b c = Ok false -> less a c = Ok false.
Proof.
  intros W Tot a b c Da Db Dc Hab Hbc.
  destruct (Tot a c Da Dc) as [[|] Eac]; [|exact Eac]. exfalso.
  assert (Nab : ~ lt_of less a b) by (unfold lt_of; congruence).
  assert (Nbc : ~ lt_of less b c) by (unfold lt_of; congruence).
  (* a < c.  Either b < a, then b < c; or a,b tied: then if c < b, a < c < b ... *)
  destruct (Tot b a Db Da) as [[|] Eba].
  - apply Nbc. apply (swo_trans _ _ W b a c); assumption.
  - destruct (Tot c b Dc Db) as [[|] Ecb].
    + apply Nab. apply (swo_trans _ _ W a c b); assumption.
    + assert (Nba : ~ lt_of less b a) by (unfold lt_of; congruence).
      assert (Ncb : ~ lt_of less c b) by (unfold lt_of; congruence).
      destruct (swo_incomp_trans _ _ W a b c Da Db Dc Nab Nba Nbc Ncb) as [N _].
      apply N. exact Eac.
Qed.

Lemma sort_by_sorted_perm less l :
  total_on (fun x => In x l) less -> strict_weak_order (fun x => In x l) (lt_of less) ->
  exists out, sort_by less l = Ok out /\ sorted_perm less l out.
Proof.
  intros Tot W.
  destruct (sort_by_spec less l Tot (swo_asym _ _ W Tot)) as (out & E & P & S).
  exists out. split; [exact E|]. split; [exact P|]. apply adjacent_ok_Sorted. exact S.
Qed.

(* ---------- any output meeting the contract is sorted pair by pair ---------- *)

Lemma sorted_perm_pairwise less input out :
  total_on (fun x => In x input) less -> strict_weak_order (fun x => In x input) (lt_of less) ->
  sorted_perm less input out ->
  forall i j a b, (i < j)%nat -> nth_error out i = Some a -> nth_error out j = Some b ->
  less b a = Ok false.
Proof.
  intros Tot W [P A] i j a b Hij Ha Hb.
  assert (In' : forall y, In y out -> In y input)
    by (intros y Hy; eapply Permutation_in; [apply Permutation_sym; exact P|exact Hy]).
  apply (sorted_pairwise (not_after less) out) with (i := i) (j := j); try assumption.
  - intros x y z Hx Hy Hz Rxy Ryz. unfold not_after in *.
    apply (swo_negtrans _ _ W Tot z y x); auto.
  - apply adjacent_ok_Sorted. exact A.
Qed.
