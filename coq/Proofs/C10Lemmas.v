(* Proofs/C10Lemmas.v *)
From GenqlV Require Import Base.Prelude Base.Value Model.Ast Model.Eval Model.Exec Model.Join
  Model.Processors Model.Api.

Lemma catch_panic_not_panic {A} (r : res A) : catch_panic r <> Panic.
Proof. destruct r; cbn; discriminate. Qed.

Lemma bind_catch_not_panic {A B} (r : res A) (f : A -> res B) :
  (forall a, f a <> Panic) -> bind (catch_panic r) f <> Panic.
Proof. intros H. destruct r; cbn; try discriminate. apply H. Qed.

Lemma api_run_not_panic call join fuel w doc q : Exec.api_run call join fuel w doc q <> Panic.
Proof.
  unfold Exec.api_run. apply bind_catch_not_panic. intros v. destruct v; discriminate.
Qed.

Lemma api_not_panic parse call fuel o doc text : api parse call fuel o doc text <> Panic.
Proof. unfold api. apply catch_panic_not_panic. Qed.

Lemma api_ok_err_oom parse call fuel o doc text :
  (exists rows, api parse call fuel o doc text = Ok rows) \/
  api parse call fuel o doc text = Err \/ api parse call fuel o doc text = OutOfModel.
Proof.
  pose proof (api_not_panic parse call fuel o doc text) as H.
  destruct (api parse call fuel o doc text) eqn:E; eauto. congruence.
Qed.

(* run_select has its own recovering frame (exec's defer) *)
Lemma run_select_not_panic rec call join ctx s src : run_select rec call join ctx s src <> Panic.
Proof. unfold run_select. apply catch_panic_not_panic. Qed.

Lemma goroutines_survive {A} (gs : list (bool * res A)) :
  Forall (fun g => fst g = true \/ snd g <> Panic) gs ->
  Forall (fun g => run_goroutine (fst g) (snd g) <> ProcessDies) gs.
Proof.
  intros H. induction H as [|[rec b] gs Hg _ IH]; constructor; [|exact IH].
  cbn in *. destruct b; cbn; try discriminate.
  destruct Hg as [->|Hb]; [discriminate|congruence].
Qed.

Lemma goroutine_dies_without_recover {A} :
  run_goroutine false (@Panic A) = ProcessDies.
Proof. reflexivity. Qed.
