(* Proofs/C18Lemmas.v — proofs about Model/Funcs.v (built-in functions).
   Standard-library behaviour enters only through the [oracles] record; the laws a theorem
   relies on are explicit premises ([codec_laws], [hash_len_law], [strconv_law]). *)
From Coq Require Import Floats ZifyBool ZifyNat ZifyN.
From GenqlV Require Import Base.Prelude Base.Fmt Base.Value Model.Funcs Model.FuncsInst.
Local Open Scope string_scope.

(* ------------------------------------------------------------------ *)
(* laws assumed of the standard library, as predicates on an instance   *)
(* ------------------------------------------------------------------ *)

Definition scalar (v : value) : Prop :=
  match v with VNull | VBool _ | VNum _ | VStr _ => True | _ => False end.

(* gob round-trips nil and the basic types; the base64-URL and base32 codecs invert *)
Definition codec_laws (O : oracles) : Prop :=
  (forall v, scalar v -> exists bs, gob_ser O v = OOk bs /\ gob_deser O bs = OOk v) /\
  (forall b, b64_dec O (b64_enc O b) = OOk b) /\
  (forall b, b32_dec O (b32_enc O b) = OOk b).

(* Sum(nil) of a hash has the algorithm's digest size *)
Definition hash_len_law (O : oracles) : Prop :=
  forall a bs, String.length (hash_sum O a bs) = digest_len a.

(* ParseFloat inverts the shortest %v text of a float64 *)
Definition strconv_law (O : oracles) : Prop :=
  forall x s, fmt_float x = Some s -> parse_float O s = OOk x.

(* ------------------------------------------------------------------ *)
(* small facts                                                          *)
(* ------------------------------------------------------------------ *)

Lemma guard_ok : forall n args, List.length args = n -> guard n args = Ok tt.
Proof.
  intros n args H. unfold guard. subst n.
  rewrite Nat.ltb_irrefl. reflexivity.
Qed.

Lemma guard_err : forall n args, List.length args <> n -> guard n args = Err.
Proof.
  intros n args H. unfold guard.
  destruct (Nat.ltb (List.length args) n) eqn:E1; [reflexivity|].
  destruct (Nat.ltb n (List.length args)) eqn:E2; [reflexivity|].
  apply Nat.ltb_ge in E1. apply Nat.ltb_ge in E2. lia.
Qed.

Lemma guard_inv : forall n args r, guard n args = r -> r = Ok tt /\ List.length args = n \/ r = Err /\ List.length args <> n.
Proof.
  intros n args r H. destruct (Nat.eq_dec (List.length args) n) as [E|E].
  - left. rewrite (guard_ok _ _ E) in H. auto.
  - right. rewrite (guard_err _ _ E) in H. auto.
Qed.

Lemma lift_np : forall A (o : ores A), lift o <> Panic.
Proof. intros A [a| |]; discriminate. Qed.

Lemma sprint_np : forall v, sprint v <> Panic.
Proof. intros v. unfold sprint. destruct (fmt_gv v); discriminate. Qed.

Lemma bind_np : forall A B (r : res A) (f : A -> res B),
  r <> Panic -> (forall a, r = Ok a -> f a <> Panic) -> bind r f <> Panic.
Proof.
  intros A B r f Hr Hf. destruct r; simpl; try discriminate.
  - apply Hf. reflexivity.
  - congruence.
Qed.

Lemma index_at_ok : forall l i, (0 <= i < Z.of_nat (List.length l))%Z ->
  index_at l i = Ok (nth (Z.to_nat i) l VNull).
Proof.
  intros l i H. unfold index_at.
  destruct (i <? 0)%Z eqn:E; [lia|].
  destruct (nth_error l (Z.to_nat i)) eqn:N.
  - f_equal. symmetry. apply nth_error_nth. exact N.
  - apply nth_error_None in N. lia.
Qed.

Lemma nth_last : forall (l : list value) d, l <> [] -> nth (List.length l - 1) l d = List.last l d.
Proof.
  induction l as [|a l IH]; intros d H; [congruence|].
  destruct l as [|b l']; [reflexivity|].
  change (List.last (a :: b :: l') d) with (List.last (b :: l') d).
  rewrite <- IH by discriminate.
  simpl. rewrite Nat.sub_0_r. reflexivity.
Qed.

(* strings *)
Definition join (ts : list string) : string := fold_right String.append "" ts.

Lemma app_empty_r : forall s : string, s ++ "" = s.
Proof. induction s as [|c r IH]; simpl; [reflexivity | rewrite IH; reflexivity]. Qed.

Lemma app_str_assoc : forall a b c : string, (a ++ b) ++ c = a ++ (b ++ c).
Proof. induction a as [|x a IH]; intros b c; simpl; [reflexivity | rewrite IH; reflexivity]. Qed.

(* ------------------------------------------------------------------ *)
(* hex                                                                  *)
(* ------------------------------------------------------------------ *)

Lemma hex_val_digit : forall n, (n < 16)%N -> hex_val (hex_digit n) = Some n.
Proof.
  intros n H.
  destruct n as [|p]; [reflexivity|].
  do 4 (destruct p as [p|p|]; try reflexivity); lia.
Qed.

Lemma hex_dec_enc : forall s, hex_dec (hex_enc s) = Some s.
Proof.
  induction s as [|c r IH]; [reflexivity|].
  cbn [hex_enc hex_dec].
  assert (Hn : (N_of_ascii c < 256)%N) by apply N_ascii_bounded.
  rewrite hex_val_digit by (apply N.div_lt_upper_bound; lia).
  rewrite hex_val_digit by (apply N.mod_lt; lia).
  rewrite IH.
  replace (N_of_ascii c / 16 * 16 + N_of_ascii c mod 16)%N with (N_of_ascii c)
    by (rewrite N.mul_comm; apply N.div_mod; lia).
  rewrite ascii_N_embedding. reflexivity.
Qed.

Lemma hex_enc_length : forall s, String.length (hex_enc s) = 2 * String.length s.
Proof.
  induction s as [|c r IH]; [reflexivity|].
  cbn [hex_enc String.length]. rewrite IH. lia.
Qed.

(* ------------------------------------------------------------------ *)
(* the call path                                                        *)
(* ------------------------------------------------------------------ *)

Section Calls.
  Variable V : variant.
  Variable O : oracles.
  Variable C : fctx.

  Lemma call_name : forall name b args,
    lookup_builtin (ascii_lower name) = Some b -> call V O C name args = call_builtin V O C b args.
  Proof. intros name b args H. unfold call. rewrite H. reflexivity. Qed.

  Lemma call_unknown : forall name args,
    lookup_builtin (ascii_lower name) = None -> call V O C name args = Err.
  Proof. intros name args H. unfold call. rewrite H. reflexivity. Qed.

  (* ---- arity ---- *)
  Lemma arity_builtin : forall b n args,
    arity b = Some n -> List.length args <> n -> call_builtin V O C b args = Err.
  Proof.
    intros b n args Ha Hl.
    destruct b; simpl in Ha; inversion Ha; subst n; clear Ha; simpl;
      unfold sum_func, avg_func, min_func, max_func, aggr_func, first_func, last_func, elementat_func,
             defaultkey_func, changetype_func, unwind_func, if_func, fuse_func, daterange_func,
             constant_func, getvar_func, setvar_func, raise_when_func, raise_func, report_when_func,
             report_func, hash_func, encode_func, decode_func, timestamp_func, to_lower_func,
             to_upper_func, case_func;
      rewrite (guard_err _ _ Hl); reflexivity.
  Qed.

  (* ---- ARRAY ---- *)
  Lemma array_id : forall args, call_builtin V O C BArray args = Ok (VArr args).
  Proof. reflexivity. Qed.

  (* ---- FIRST / LAST ---- *)
  Lemma first_arr : forall l, call_builtin V O C BFirst [VArr l] = Ok (hd VNull l).
  Proof. intros [|a l]; reflexivity. Qed.

  Lemma first_null : call_builtin V O C BFirst [VNull] = Ok VNull.
  Proof. reflexivity. Qed.

  Lemma last_arr : forall l, call_builtin V O C BLast [VArr l] = Ok (List.last l VNull).
  Proof.
    intros l. simpl. unfold last_func. rewrite guard_ok by reflexivity. simpl.
    destruct l as [|a l']; [reflexivity|].
    set (l := a :: l').
    destruct (0 <? Z.of_nat (List.length l))%Z eqn:E; [|subst l; simpl in E; lia].
    rewrite index_at_ok by (subst l; simpl List.length in *; lia).
    f_equal.
    replace (Z.to_nat (Z.of_nat (List.length l) - 1)) with (List.length l - 1)%nat by lia.
    apply nth_last. subst l. discriminate.
  Qed.

  Lemma last_null : call_builtin V O C BLast [VNull] = Ok VNull.
  Proof. reflexivity. Qed.

  (* ---- UNWIND ---- *)
  Definition flat1 (x : value) : list value := match x with VArr inner => inner | _ => [x] end.

  Lemma unwind_fold : forall l acc,
    fold_left unwind_step l acc = (acc ++ List.concat (map flat1 l))%list.
  Proof.
    induction l as [|x l IH]; intros acc; simpl.
    - rewrite app_nil_r. reflexivity.
    - rewrite IH. unfold unwind_step, flat1. destruct x; rewrite <- List.app_assoc; reflexivity.
  Qed.

  Lemma unwind_arr : forall l,
    call_builtin V O C BUnwind [VArr l] = Ok (VArr (List.concat (map flat1 l))).
  Proof. intros l. simpl. unfold unwind_func. simpl. rewrite unwind_fold. reflexivity. Qed.

  Lemma unwind_null : call_builtin V O C BUnwind [VNull] = Ok VNull.
  Proof. reflexivity. Qed.

  (* ---- CONCAT ---- *)
  Lemma concat_loop_spec : forall args buf ts,
    sequence_opt (map fmt_gv args) = Some ts ->
    concat_loop buf args = Ok (buf ++ join ts).
  Proof.
    induction args as [|a r IH]; intros buf ts H; simpl in *.
    - inversion H. simpl. rewrite app_empty_r. reflexivity.
    - unfold sprint. destruct (fmt_gv a) as [s|]; [|discriminate].
      destruct (sequence_opt (map fmt_gv r)) as [ts'|] eqn:E; [|discriminate].
      inversion H; subst ts. simpl.
      rewrite (IH (buf ++ s) ts' eq_refl).
      rewrite app_str_assoc. reflexivity.
  Qed.
End Calls.

(* ------------------------------------------------------------------ *)
(* per-function contracts                                               *)
(* ------------------------------------------------------------------ *)

Definition non_null_b (v : value) : bool := match v with VNull => false | _ => true end.

Lemma filter_non_null_id : forall args, Forall (fun a => a <> VNull) args -> filter non_null_b args = args.
Proof.
  induction 1 as [|a r Ha _ IH]; simpl; [reflexivity|].
  destruct a; try congruence; simpl; rewrite IH; reflexivity.
Qed.

Section Contracts.
  Variable V : variant.
  Variable O : oracles.
  Variable C : fctx.

  (* ---- CONCAT: the texts of the arguments, in order (NULL prints "<nil>": D42) ---- *)
  Lemma concat_all : forall args ts,
    sequence_opt (map fmt_gv args) = Some ts ->
    call_builtin V O C BConcat args = Ok (VStr (join ts)).
  Proof.
    intros args ts H. simpl. unfold concat_func.
    rewrite (concat_loop_spec args "" ts H). reflexivity.
  Qed.

  (* the property's statement, on the region where it holds: no NULL argument *)
  Lemma concat_partial : forall args ts,
    Forall (fun a => a <> VNull) args ->
    sequence_opt (map fmt_gv (filter non_null_b args)) = Some ts ->
    call_builtin V O C BConcat args = Ok (VStr (join ts)).
  Proof.
    intros args ts Hn H. rewrite (filter_non_null_id _ Hn) in H. apply concat_all. exact H.
  Qed.

  (* ---- IF ---- *)
  Lemma if_true : forall x y, call_builtin V O C BIf [VBool true; x; y] = Ok x.
  Proof. intros x y. destruct x; destruct y; reflexivity. Qed.

  Lemma if_false : forall x y, call_builtin V O C BIf [VBool false; x; y] = Ok y.
  Proof. intros x y. destruct x; destruct y; reflexivity. Qed.

  (* ---- TO_LOWER / TO_UPPER ---- *)
  Lemma to_lower_str : forall s r, str_lower O s = OOk r -> call_builtin V O C BToLower [VStr s] = Ok (VStr r).
  Proof. intros s r H. simpl. unfold to_lower_func, case_func. simpl. rewrite H. reflexivity. Qed.

  Lemma to_upper_str : forall s r, str_upper O s = OOk r -> call_builtin V O C BToUpper [VStr s] = Ok (VStr r).
  Proof. intros s r H. simpl. unfold to_upper_func, case_func. simpl. rewrite H. reflexivity. Qed.

  (* ---- CHANGETYPE ---- *)
  Lemma as_any_non_null : forall v, v <> VNull -> as_any v = Ok (Some v).
  Proof. intros v H. destruct v; try reflexivity. congruence. Qed.

  Lemma changetype_unfold : forall v t tl, v <> VNull -> str_lower O t = OOk tl ->
    call_builtin V O C BChangeType [v; VStr t] =
      if String.eqb tl "array" then Ok (VArr [v])
      else if String.eqb tl "string" then (let! s := sprint v in Ok (VStr s))
      else if String.eqb tl "double" then (let! f := to_float64 O v in Ok (VNum f))
      else if String.eqb tl "integer" then (let! z := to_int O v in Ok (vint z))
      else Err.
  Proof.
    intros v t tl Hv Ht. simpl. unfold changetype_func.
    rewrite guard_ok by reflexivity. simpl.
    rewrite (as_any_non_null v Hv). simpl. rewrite Ht. reflexivity.
  Qed.

  Lemma changetype_null : forall t, call_builtin V O C BChangeType [VNull; t] = Ok VNull.
  Proof. reflexivity. Qed.

  Lemma changetype_array : forall v t, v <> VNull -> str_lower O t = OOk "array" ->
    call_builtin V O C BChangeType [v; VStr t] = Ok (VArr [v]).
  Proof. intros v t Hv Ht. rewrite (changetype_unfold v t _ Hv Ht). reflexivity. Qed.

  Lemma changetype_string : forall v t s, v <> VNull -> str_lower O t = OOk "string" -> fmt_gv v = Some s ->
    call_builtin V O C BChangeType [v; VStr t] = Ok (VStr s).
  Proof.
    intros v t s Hv Ht Hs. rewrite (changetype_unfold v t _ Hv Ht). simpl.
    unfold sprint. rewrite Hs. reflexivity.
  Qed.

  Lemma changetype_double : forall v t s, v <> VNull -> str_lower O t = OOk "double" -> fmt_gv v = Some s ->
    call_builtin V O C BChangeType [v; VStr t] =
      match parse_float O s with OOk x => Ok (VNum x) | OFail => Err | OUnk => OutOfModel end.
  Proof.
    intros v t s Hv Ht Hs. rewrite (changetype_unfold v t _ Hv Ht). simpl.
    unfold to_float64, sprint. rewrite Hs. simpl. destruct (parse_float O s); reflexivity.
  Qed.

  Lemma changetype_integer : forall v t s, v <> VNull -> str_lower O t = OOk "integer" -> fmt_gv v = Some s ->
    call_builtin V O C BChangeType [v; VStr t] =
      match atoi O s with OOk z => Ok (vint z) | OFail => Err | OUnk => OutOfModel end.
  Proof.
    intros v t s Hv Ht Hs. rewrite (changetype_unfold v t _ Hv Ht). simpl.
    unfold to_int, sprint. rewrite Hs. simpl. destruct (atoi O s); reflexivity.
  Qed.

  Lemma changetype_unknown : forall v t tl, v <> VNull -> str_lower O t = OOk tl ->
    ~ In tl ["array"; "string"; "double"; "integer"] ->
    call_builtin V O C BChangeType [v; VStr t] = Err.
  Proof.
    intros v t tl Hv Ht Hn. rewrite (changetype_unfold v t _ Hv Ht).
    assert (Hne : forall k, In k ["array"; "string"; "double"; "integer"] -> String.eqb tl k = false).
    { intros k Hk. apply String.eqb_neq. intro E. subst k. auto. }
    rewrite !Hne by (simpl; tauto). reflexivity.
  Qed.

  (* string <-> double round trips, given the strconv law *)
  Lemma changetype_roundtrip_double : forall x s ts td,
    strconv_law O -> fmt_float x = Some s ->
    str_lower O ts = OOk "string" -> str_lower O td = OOk "double" ->
    (let! s1 := call_builtin V O C BChangeType [VNum x; VStr ts] in
     call_builtin V O C BChangeType [s1; VStr td]) = Ok (VNum x).
  Proof.
    intros x s ts td L Hs Hts Htd.
    rewrite (changetype_string (VNum x) ts s) by (try discriminate; assumption). cbn [bind].
    rewrite (changetype_double (VStr s) td s) by (try discriminate; auto).
    rewrite (L x s Hs). reflexivity.
  Qed.

  Lemma changetype_roundtrip_string : forall x s ts td,
    parse_float O s = OOk x -> fmt_float x = Some s ->
    str_lower O ts = OOk "string" -> str_lower O td = OOk "double" ->
    (let! x1 := call_builtin V O C BChangeType [VStr s; VStr td] in
     call_builtin V O C BChangeType [x1; VStr ts]) = Ok (VStr s).
  Proof.
    intros x s ts td Hp Hs Hts Htd.
    rewrite (changetype_double (VStr s) td s) by (try discriminate; auto).
    rewrite Hp. cbn [bind].
    rewrite (changetype_string (VNum x) ts s) by (try discriminate; assumption). reflexivity.
  Qed.

  (* ---- CONSTANT ---- *)
  Lemma constant_found : forall m k key v,
    consts C = Some m -> fmt_gv k = Some key -> lookup key m = Some v ->
    call_builtin V O C BConstant [k] = Ok v.
  Proof.
    intros m k key v Hm Hk Hl. simpl. unfold constant_func. simpl. rewrite Hm. simpl.
    unfold sprint. rewrite Hk. simpl. rewrite Hl. reflexivity.
  Qed.

  Lemma constant_missing : forall m k key,
    consts C = Some m -> fmt_gv k = Some key -> lookup key m = None ->
    call_builtin V O C BConstant [k] = Err.
  Proof.
    intros m k key Hm Hk Hl. simpl. unfold constant_func. simpl. rewrite Hm. simpl.
    unfold sprint. rewrite Hk. simpl. rewrite Hl. reflexivity.
  Qed.

  Lemma constant_unconfigured : forall k, consts C = None -> call_builtin V O C BConstant [k] = Err.
  Proof. intros k Hm. simpl. unfold constant_func. simpl. rewrite Hm. reflexivity. Qed.

  (* ---- HASH ---- *)
  Lemma hash_result : forall v a al alg r,
    hash_len_law O -> str_lower O a = OOk al -> hash_alg_of al = Some alg ->
    call_builtin V O C BHash [v; VStr a] = Ok r ->
    exists h, r = VStr h /\ String.length h = 2 * digest_len alg.
  Proof.
    intros v a al alg r L Ha Halg H. simpl in H. unfold hash_func in H.
    rewrite guard_ok in H by reflexivity. simpl in H.
    destruct (gob_ser O v) as [buf| |]; simpl in H; try discriminate.
    rewrite Ha in H. simpl in H. rewrite Halg in H. inversion H; subst r.
    eexists. split; [reflexivity|]. rewrite hex_enc_length, L. reflexivity.
  Qed.

  Lemma hash_defined : forall v a al alg,
    codec_laws O -> scalar v -> str_lower O a = OOk al -> hash_alg_of al = Some alg ->
    exists h, call_builtin V O C BHash [v; VStr a] = Ok (VStr h).
  Proof.
    intros v a al alg [G _] Hv Ha Halg. destruct (G v Hv) as [bs [Hs _]].
    simpl. unfold hash_func. rewrite guard_ok by reflexivity. simpl.
    rewrite Hs. simpl. rewrite Ha. simpl. rewrite Halg. eexists. reflexivity.
  Qed.

  Lemma hash_unknown_alg : forall v a al,
    str_lower O a = OOk al -> hash_alg_of al = None ->
    forall r, call_builtin V O C BHash [v; VStr a] <> Ok r.
  Proof.
    intros v a al Ha Halg r. simpl. unfold hash_func. rewrite guard_ok by reflexivity. simpl.
    destruct (gob_ser O v); simpl; try discriminate.
    rewrite Ha. simpl. rewrite Halg. discriminate.
  Qed.

  (* a function of the gob image of v and of the algorithm name only *)
  Lemma hash_depends_on_ser : forall v v' a,
    gob_ser O v = gob_ser O v' ->
    call_builtin V O C BHash [v; a] = call_builtin V O C BHash [v'; a].
  Proof.
    intros v v' a H. simpl. unfold hash_func. rewrite !guard_ok by reflexivity. simpl. rewrite H. reflexivity.
  Qed.

  (* ---- ENCODE / DECODE ---- *)
  Lemma base_of_cases : forall bl, In bl ["base64"; "base32"; "hex"] -> exists b, base_of bl = Some b.
  Proof.
    intros bl [H|[H|[H|[]]]]; subst bl; eexists; reflexivity.
  Qed.

  Lemma decode_encode : forall v b bl,
    codec_laws O -> scalar v -> str_lower O b = OOk bl -> In bl ["base64"; "base32"; "hex"] ->
    exists s, call_builtin V O C BEncode [v; VStr b] = Ok (VStr s) /\
              call_builtin V O C BDecode [VStr s; VStr b] = Ok v.
  Proof.
    intros v b bl [G [L64 L32]] Hv Hb Hin.
    destruct (G v Hv) as [bs [Hs Hd]].
    destruct (base_of_cases bl Hin) as [bb Hbb].
    simpl. unfold encode_func, decode_func. rewrite !guard_ok by reflexivity. simpl.
    rewrite Hs. simpl. rewrite Hb. simpl. rewrite Hbb.
    destruct bb; eexists; (split; [reflexivity|]); simpl.
    - rewrite L64. simpl. rewrite Hd. reflexivity.
    - rewrite L32. simpl. rewrite Hd. reflexivity.
    - rewrite hex_dec_enc. simpl. rewrite Hd. reflexivity.
  Qed.

  Lemma encode_unknown_base : forall v b bl,
    str_lower O b = OOk bl -> base_of bl = None ->
    forall r, call_builtin V O C BEncode [v; VStr b] <> Ok r.
  Proof.
    intros v b bl Hb Hn r. simpl. unfold encode_func. rewrite guard_ok by reflexivity. simpl.
    destruct (gob_ser O v); simpl; try discriminate.
    rewrite Hb. simpl. rewrite Hn. discriminate.
  Qed.

  Lemma encode_unknown_base_scalar : forall v b bl,
    codec_laws O -> scalar v -> str_lower O b = OOk bl -> base_of bl = None ->
    call_builtin V O C BEncode [v; VStr b] = Err.
  Proof.
    intros v b bl [G _] Hv Hb Hn. destruct (G v Hv) as [bs [Hs _]].
    simpl. unfold encode_func. rewrite guard_ok by reflexivity. simpl.
    rewrite Hs. simpl. rewrite Hb. simpl. rewrite Hn. reflexivity.
  Qed.

  Lemma decode_unknown_base : forall x b bl,
    str_lower O b = OOk bl -> base_of bl = None ->
    call_builtin V O C BDecode [x; VStr b] = Err.
  Proof.
    intros x b bl Hb Hn. simpl. unfold decode_func. rewrite guard_ok by reflexivity. simpl.
    destruct x; simpl; try reflexivity.
    - unfold non_null. destruct (repaired V); simpl; [reflexivity|]. rewrite Hb. simpl. rewrite Hn. reflexivity.
    - rewrite Hb. simpl. rewrite Hn. reflexivity.
  Qed.

  (* ---- ELEMENTAT ---- *)
  Lemma elementat_null : forall x, call_builtin V O C BElementAt [VNull; x] = Ok VNull.
  Proof. reflexivity. Qed.
End Contracts.

Section Repaired.
  Variable O : oracles.
  Variable C : fctx.

  Lemma elementat_in_range : forall l f,
    (0 <= go_int_of_float f < Z.of_nat (List.length l))%Z ->
    call_builtin Repaired O C BElementAt [VArr l; VNum f] = Ok (nth (Z.to_nat (go_int_of_float f)) l VNull).
  Proof.
    intros l f H. simpl. unfold elementat_func. rewrite guard_ok by reflexivity. simpl.
    destruct ((0 <=? go_int_of_float f)%Z && (go_int_of_float f <? Z.of_nat (List.length l))%Z) eqn:E; [|lia].
    apply index_at_ok. exact H.
  Qed.

  Lemma elementat_out_of_range : forall l f,
    (go_int_of_float f < 0 \/ Z.of_nat (List.length l) <= go_int_of_float f)%Z ->
    call_builtin Repaired O C BElementAt [VArr l; VNum f] = Err.
  Proof.
    intros l f H. simpl. unfold elementat_func. rewrite guard_ok by reflexivity. simpl.
    destruct ((0 <=? go_int_of_float f)%Z && (go_int_of_float f <? Z.of_nat (List.length l))%Z) eqn:E; [lia|].
    reflexivity.
  Qed.

  Lemma if_not_bool : forall c x y, (forall b, c <> VBool b) -> call_builtin Repaired O C BIf [c; x; y] = Err.
  Proof. intros c x y H. destruct c; try reflexivity. exfalso. eapply H. reflexivity. Qed.

  (* DATERANGE(f, t) = [f, t] *)
  Definition text_or_empty (v : value) : res string := match v with VNull => Ok "" | _ => sprint v end.

  Lemma daterange_strings : forall f t,
    call_builtin Repaired O C BDateRange [VStr f; VStr t] = Ok (VArr [VStr f; VStr t]).
  Proof. reflexivity. Qed.

  Lemma daterange_general : forall a b,
    call_builtin Repaired O C BDateRange [a; b] =
      (let! f := text_or_empty a in let! t := text_or_empty b in Ok (VArr [VStr f; VStr t])).
  Proof. intros a b. reflexivity. Qed.
End Repaired.

(* ------------------------------------------------------------------ *)
(* the repaired code never panics, whatever the arguments — except      *)
(* SETVAR on a query without a variable map (nil-map write)            *)
(* ------------------------------------------------------------------ *)

Section NoPanic.
  Variable O : oracles.
  Variable C : fctx.

  Lemma non_null_rep : forall T (r : res (option T)) p,
    non_null Repaired r = Ok p -> exists t, p = Some t.
  Proof.
    intros T r p H. unfold non_null in H.
    destruct r as [[t|]| | |]; simpl in H; inversion H; eauto.
  Qed.

  Lemma non_null_np : forall W T (r : res (option T)), r <> Panic -> non_null W r <> Panic.
  Proof.
    intros W T r H. unfold non_null. destruct r as [[t|]| | |]; try congruence.
    destruct (repaired W); discriminate.
  Qed.

  Lemma as_arr_np : forall v, as_arr v <> Panic.  Proof. destruct v; discriminate. Qed.
  Lemma as_num_np : forall v, as_num v <> Panic.  Proof. destruct v; discriminate. Qed.
  Lemma as_str_np : forall v, as_str v <> Panic.  Proof. destruct v; discriminate. Qed.
  Lemma as_bool_np : forall v, as_bool v <> Panic. Proof. destruct v; discriminate. Qed.
  Lemma as_any_np : forall v, as_any v <> Panic.  Proof. destruct v; discriminate. Qed.
  Lemma as_map_np : forall v, as_map v <> Panic.
  Proof. destruct v; try discriminate. simpl. destruct (is_tagged_obj kvs); discriminate. Qed.

  Lemma to_float64_np : forall v, to_float64 O v <> Panic.
  Proof. intros v. unfold to_float64. apply bind_np; [apply sprint_np | intros; apply lift_np]. Qed.

  Lemma to_int_np : forall v, to_int O v <> Panic.
  Proof. intros v. unfold to_int. apply bind_np; [apply sprint_np | intros; apply lift_np]. Qed.

  Ltac np :=
    repeat first
    [ discriminate
    | apply lift_np | apply sprint_np | apply to_float64_np | apply to_int_np
    | apply non_null_np
    | apply as_arr_np | apply as_num_np | apply as_str_np | apply as_bool_np | apply as_any_np | apply as_map_np
    | match goal with
      | H : non_null Repaired _ = Ok ?p |- context [deref ?p] =>
          let t := fresh "t" in destruct (non_null_rep _ _ _ H) as [t ->]; clear H; cbn [deref]
      | |- bind ?r _ <> Panic => apply bind_np; [ | intros ? ? ]
      | |- (if ?c then _ else _) <> Panic => destruct c eqn:?
      | |- (match ?x with _ => _ end) <> Panic => destruct x eqn:?
      end ].

  Lemma num_fold_np : forall step l acc an, num_fold O step acc an l <> Panic.
  Proof.
    induction l as [|x l IH]; intros acc an; simpl; [discriminate|].
    destruct x; try apply IH;
      (apply bind_np; [apply to_float64_np | intros; apply IH]).
  Qed.

  Lemma concat_loop_np : forall args buf, concat_loop buf args <> Panic.
  Proof.
    induction args as [|a r IH]; intros buf; simpl; [discriminate|].
    apply bind_np; [apply sprint_np | intros; apply IH].
  Qed.

  Lemma aggr_np : forall init step fin args, aggr_func Repaired O init step fin args <> Panic.
  Proof.
    intros init step fin args. unfold aggr_func.
    destruct args as [|a0 [|a1 rest]]; cbn [guard List.length Nat.ltb Nat.leb bind arg nth_error]; try discriminate.
    np. apply num_fold_np.
  Qed.

  Lemma index_first_np : forall l, Nat.ltb 0 (List.length l) = true -> index_at l 0 <> Panic.
  Proof. intros [|a l] H; [discriminate H | discriminate]. Qed.

  Lemma first_np : forall args, first_func args <> Panic.
  Proof.
    intros args. unfold first_func.
    destruct args as [|a0 [|a1 rest]]; cbn [guard List.length Nat.ltb Nat.leb bind arg nth_error]; try discriminate.
    destruct a0; cbn; try discriminate.
    destruct l; cbn; discriminate.
  Qed.

  Lemma last_np : forall args, last_func args <> Panic.
  Proof.
    intros args. unfold last_func.
    destruct args as [|a0 [|a1 rest]]; cbn [guard List.length Nat.ltb Nat.leb bind arg nth_error]; try discriminate.
    destruct a0; cbn [as_arr bind deref]; try discriminate.
    destruct (0 <? Z.of_nat (List.length l))%Z eqn:E; [|discriminate].
    rewrite index_at_ok by lia. discriminate.
  Qed.

  Lemma elementat_np : forall args, elementat_func Repaired args <> Panic.
  Proof.
    intros args. unfold elementat_func.
    destruct args as [|a0 [|a1 [|a2 rest]]]; cbn [guard List.length Nat.ltb Nat.leb bind arg nth_error]; try discriminate.
    destruct a0; cbn [as_arr bind deref]; try discriminate.
    destruct a1; cbn [as_num non_null repaired bind deref]; try discriminate.
    destruct ((0 <=? go_int_of_float f)%Z && (go_int_of_float f <? Z.of_nat (List.length l))%Z) eqn:E; [|discriminate].
    rewrite index_at_ok by lia. discriminate.
  Qed.

  Lemma builtin_np : forall b args,
    (b <> BSetVar \/ vars C <> None) -> call_builtin Repaired O C b args <> Panic.
  Proof.
    intros b args Hside. destruct b; cbn [call_builtin].
    - apply aggr_np.
    - apply aggr_np.
    - apply aggr_np.
    - apply aggr_np.
    - (* count *) unfold count_func. destruct args; [discriminate|]. np.
    - (* concat *) unfold concat_func. apply bind_np; [apply concat_loop_np | discriminate].
    - apply first_np.
    - apply last_np.
    - apply elementat_np.
    - (* defaultkey *) unfold defaultkey_func.
      destruct args as [|a0 [|a1 rest]]; cbn [guard List.length Nat.ltb Nat.leb bind arg nth_error]; try discriminate.
      destruct a0; cbn [as_map bind deref]; try discriminate.
      destruct (is_tagged_obj kvs); cbn [bind deref]; [discriminate|].
      destruct kvs as [|[k v] [|kv2 r]]; discriminate.
    - (* changetype *) unfold changetype_func.
      destruct args as [|a0 [|a1 [|a2 rest]]]; cbn [guard List.length Nat.ltb Nat.leb bind arg nth_error]; try discriminate.
      np.
    - (* unwind *) unfold unwind_func.
      destruct args as [|a0 [|a1 rest]]; cbn [guard List.length Nat.ltb Nat.leb bind arg nth_error]; try discriminate.
      destruct a0; cbn; discriminate.
    - (* if *) unfold if_func.
      destruct args as [|a0 [|a1 [|a2 [|a3 rest]]]]; cbn [guard List.length Nat.ltb Nat.leb bind arg nth_error]; try discriminate.
      np.
    - (* fuse *) unfold fuse_func.
      destruct args as [|a0 [|a1 rest]]; cbn [guard List.length Nat.ltb Nat.leb bind arg nth_error]; try discriminate.
      np.
    - (* daterange *) unfold daterange_func.
      destruct args as [|a0 [|a1 [|a2 rest]]]; cbn [guard List.length Nat.ltb Nat.leb bind arg nth_error repaired]; try discriminate.
      np.
    - (* constant *) unfold constant_func.
      destruct args as [|a0 [|a1 rest]]; cbn [guard List.length Nat.ltb Nat.leb bind arg nth_error]; try discriminate.
      np.
    - (* getvar *) unfold getvar_func.
      destruct args as [|a0 [|a1 rest]]; cbn [guard List.length Nat.ltb Nat.leb bind arg nth_error]; try discriminate.
      np.
    - (* setvar *) unfold setvar_func.
      destruct args as [|a0 [|a1 [|a2 rest]]]; cbn [guard List.length Nat.ltb Nat.leb bind arg nth_error]; try discriminate.
      apply bind_np; [apply sprint_np | intros ? ?].
      destruct (vars C) eqn:Ev; [discriminate|].
      destruct Hside as [Hs1|Hs2]; congruence.
    - (* raise_when *) unfold raise_when_func.
      destruct args as [|a0 [|a1 [|a2 rest]]]; cbn [guard List.length Nat.ltb Nat.leb bind arg nth_error]; try discriminate.
      np.
    - (* raise *) unfold raise_func.
      destruct (guard 1 args) as [[]| | |] eqn:E; cbn [bind]; try discriminate.
      destruct (guard_inv _ _ _ E) as [[? ?]|[? ?]]; discriminate.
    - (* report_when *) unfold report_when_func.
      destruct args as [|a0 [|a1 [|a2 rest]]]; cbn [guard List.length Nat.ltb Nat.leb bind arg nth_error]; try discriminate.
      np.
    - (* report *) unfold report_func.
      destruct (guard 1 args) as [[]| | |] eqn:E; cbn [bind]; try discriminate.
      destruct (guard_inv _ _ _ E) as [[? ?]|[? ?]]; discriminate.
    - (* hash *) unfold hash_func.
      destruct args as [|a0 [|a1 [|a2 rest]]]; cbn [guard List.length Nat.ltb Nat.leb bind arg nth_error]; try discriminate.
      np.
    - (* encode *) unfold encode_func.
      destruct args as [|a0 [|a1 [|a2 rest]]]; cbn [guard List.length Nat.ltb Nat.leb bind arg nth_error]; try discriminate.
      np.
    - (* decode *) unfold decode_func.
      destruct args as [|a0 [|a1 [|a2 rest]]]; cbn [guard List.length Nat.ltb Nat.leb bind arg nth_error]; try discriminate.
      np.
    - (* timestamp *) unfold timestamp_func.
      destruct (guard 0 args) as [[]| | |] eqn:E; cbn [bind]; try discriminate.
      destruct (guard_inv _ _ _ E) as [[? ?]|[? ?]]; discriminate.
    - (* array *) discriminate.
    - (* to_lower *) unfold to_lower_func, case_func.
      destruct args as [|a0 [|a1 rest]]; cbn [guard List.length Nat.ltb Nat.leb bind arg nth_error]; try discriminate.
      np.
    - (* to_upper *) unfold to_upper_func, case_func.
      destruct args as [|a0 [|a1 rest]]; cbn [guard List.length Nat.ltb Nat.leb bind arg nth_error]; try discriminate.
      np.
  Qed.

  Lemma call_np : forall name args, vars C <> None -> call Repaired O C name args <> Panic.
  Proof.
    intros name args Hv. unfold call.
    destruct (lookup_builtin (ascii_lower name)); [apply builtin_np; right; exact Hv | discriminate].
  Qed.

  (* the one panic left: SETVAR's write into the nil variable map *)
  Lemma call_panic_only_setvar : forall name args,
    call Repaired O C name args = Panic ->
    lookup_builtin (ascii_lower name) = Some BSetVar /\ vars C = None.
  Proof.
    intros name args H. unfold call in H.
    destruct (lookup_builtin (ascii_lower name)) as [b|] eqn:El; [|discriminate].
    destruct (vars C) eqn:Ev.
    - exfalso. revert H. apply builtin_np. right. rewrite Ev. discriminate.
    - destruct b; try (exfalso; revert H; apply builtin_np; left; discriminate).
      split; reflexivity.
  Qed.
End NoPanic.

(* ------------------------------------------------------------------ *)
(* expressions: nested calls                                            *)
(* ------------------------------------------------------------------ *)

Section fexpr_ind'.
  Variable P : fexpr -> Prop.
  Hypothesis Hlit : forall v, P (Lit v).
  Hypothesis Hcall : forall name args, Forall P args -> P (Call name args).
  Fixpoint fexpr_ind' (e : fexpr) : P e :=
    match e with
    | Lit v => Hlit v
    | Call name args =>
        Hcall name args ((fix go (l : list fexpr) : Forall P l :=
                            match l with [] => Forall_nil _ | x :: r => Forall_cons _ (fexpr_ind' x) (go r) end) args)
    end.
End fexpr_ind'.

Section Eval.
  Variable V : variant.
  Variable O : oracles.
  Variable C : fctx.

  (* FuncArgReader *)
  Fixpoint eval_args (l : list fexpr) : res (list value) :=
    match l with
    | [] => Ok []
    | a :: r => let! v := eval V O C a in let! vs := eval_args r in Ok (v :: vs)
    end.

  Definition post (name : string) (r : value) : value :=
    if is_aggr_name (ascii_lower name) then as_number r else r.

  Lemma eval_call : forall name args,
    eval V O C (Call name args) =
    (let! vs := eval_args args in let! r := call V O C name vs in Ok (post name r)).
  Proof.
    intros name args. cbn [eval].
    match goal with |- bind ?x _ = bind ?y _ => assert (E : x = y); [|rewrite E; reflexivity] end.
    induction args as [|a r IH]; [reflexivity|]. cbn [eval_args]. rewrite <- IH. reflexivity.
  Qed.

  Lemma eval_args_lits : forall vs, eval_args (map Lit vs) = Ok vs.
  Proof. induction vs as [|v r IH]; [reflexivity|]. cbn [map eval_args eval bind]. rewrite IH. reflexivity. Qed.

  Lemma eval_call_lits : forall name vs,
    eval V O C (Call name (map Lit vs)) = (let! r := call V O C name vs in Ok (post name r)).
  Proof. intros. rewrite eval_call, eval_args_lits. reflexivity. Qed.

  (* for a name that is not one of the five aggregate names the result is passed on unchanged *)
  Lemma eval_call_lits_plain : forall name vs,
    is_aggr_name (ascii_lower name) = false ->
    eval V O C (Call name (map Lit vs)) = call V O C name vs.
  Proof.
    intros name vs H. rewrite eval_call_lits. unfold post. rewrite H.
    destruct (call V O C name vs); reflexivity.
  Qed.

  (* f2(f1(literals...), literal) *)
  Lemma eval_nested : forall n2 n1 vs w,
    is_aggr_name (ascii_lower n1) = false -> is_aggr_name (ascii_lower n2) = false ->
    eval V O C (Call n2 [Call n1 (map Lit vs); Lit w]) =
    (let! s1 := call V O C n1 vs in call V O C n2 [s1; w]).
  Proof.
    intros n2 n1 vs w H1 H2. rewrite eval_call. cbn [eval_args]. rewrite (eval_call_lits_plain n1 vs H1).
    unfold post. rewrite H2.
    destruct (call V O C n1 vs) as [s1| | |]; cbn [bind eval]; try reflexivity.
    destruct (call V O C n2 [s1; w]); reflexivity.
  Qed.
End Eval.

Lemma eval_np : forall O C e, vars C <> None -> eval Repaired O C e <> Panic.
Proof.
  intros O C e Hv. induction e as [v|name args IH] using fexpr_ind'; [discriminate|].
  rewrite eval_call. apply bind_np.
  - induction IH as [|a r Ha _ IHr]; cbn [eval_args]; [discriminate|].
    apply bind_np; [exact Ha | intros]. apply bind_np; [exact IHr | discriminate].
  - intros. apply bind_np; [apply call_np; exact Hv | discriminate].
Qed.

(* exec's recover frame: at the API level a panic is an error *)
Lemma api_eval_np : forall V O C e, catch_panic (eval V O C e) <> Panic.
Proof. intros V O C e. destruct (eval V O C e); discriminate. Qed.

(* DECODE(ENCODE(v, b), b) = v as one expression, function names in any letter case *)
Lemma eval_decode_encode : forall V O C v b bl nd ne,
  codec_laws O -> scalar v -> str_lower O b = OOk bl -> In bl ["base64"; "base32"; "hex"] ->
  ascii_lower nd = "decode" -> ascii_lower ne = "encode" ->
  eval V O C (Call nd [Call ne [Lit v; Lit (VStr b)]; Lit (VStr b)]) = Ok v.
Proof.
  intros V O C v b bl nd ne L Hv Hb Hin Hd He.
  destruct (decode_encode V O C v b bl L Hv Hb Hin) as [s [H1 H2]].
  change [Lit v; Lit (VStr b)] with (map Lit [v; VStr b]).
  rewrite eval_nested by (rewrite ?He, ?Hd; reflexivity).
  rewrite (call_name V O C ne BEncode) by (rewrite He; reflexivity).
  rewrite H1. cbn [bind].
  rewrite (call_name V O C nd BDecode) by (rewrite Hd; reflexivity).
  exact H2.
Qed.

(* ------------------------------------------------------------------ *)
(* registry                                                             *)
(* ------------------------------------------------------------------ *)

Lemma registry_covered : forall name imm, In (name, imm) registry -> exists b, lookup_builtin name = Some b.
Proof.
  intros name imm H. unfold registry, registry_table in H. cbn [map fst snd] in H.
  repeat (destruct H as [H|H]; [inversion H; subst; eexists; reflexivity|]).
  destruct H.
Qed.

Lemma arity_call : forall V O C name b n args,
  lookup_builtin (ascii_lower name) = Some b -> arity b = Some n -> List.length args <> n ->
  call V O C name args = Err.
Proof.
  intros V O C name b n args Hl Ha Hn. rewrite (call_name V O C name b args Hl).
  apply arity_builtin with n; assumption.
Qed.

(* ------------------------------------------------------------------ *)
(* refutations                                                          *)
(* ------------------------------------------------------------------ *)

(* D42: CONCAT does not skip NULL arguments (pinned by TestConcatFunc/With_Nil_Values) *)
Lemma concat_null_refuted : forall V O C,
  exists args ts,
    sequence_opt (map fmt_gv (filter non_null_b args)) = Some ts /\
    call_builtin V O C BConcat args <> Ok (VStr (join ts)).
Proof.
  intros V O C. exists [VStr "a"; VNull], ["a"]. split; [reflexivity|]. vm_compute. discriminate.
Qed.

(* D41: in the code as pinned, ELEMENTAT with a negative index, and a NULL where a typed
   argument is dereferenced, panic inside the engine *)
Lemma pinned_refuted : forall O C,
  call Pinned O C "elementat" [VArr [VNum 1%float]; VNum (-1)%float] = Panic /\
  call Pinned O C "if" [VNull; VNum 1%float; VNum 2%float] = Panic /\
  call Pinned O C "to_upper" [VNull] = Panic /\
  call Pinned O C "sum" [VNull] = Panic.
Proof. intros O C. vm_compute. repeat split. Qed.

(* on both trees: SETVAR on a query built without WithVars writes into a nil map *)
Lemma setvar_nil_map_panics : forall V O cs,
  call V O {| consts := cs; vars := None |} "setvar" [VStr "a"; VNum 1%float] = Panic.
Proof. intros V O cs. destruct V; reflexivity. Qed.

(* ------------------------------------------------------------------ *)
(* complements used by Properties/C18.v                                 *)
(* ------------------------------------------------------------------ *)

Lemma base_of_none : forall bl, ~ In bl ["base64"; "base32"; "hex"] -> base_of bl = None.
Proof.
  intros bl H. unfold base_of.
  assert (Hne : forall k, In k ["base64"; "base32"; "hex"] -> String.eqb bl k = false).
  { intros k Hk. apply String.eqb_neq. intro E. subst k. auto. }
  rewrite !Hne by (simpl; tauto). reflexivity.
Qed.

(* HASH(v, alg) is hex(H_alg(gob(v))) whatever the variant and the query context *)
Lemma hash_value : forall V O C v a al alg buf,
  gob_ser O v = OOk buf -> str_lower O a = OOk al -> hash_alg_of al = Some alg ->
  call_builtin V O C BHash [v; VStr a] = Ok (VStr (hex_enc (hash_sum O alg buf))).
Proof.
  intros V O C v a al alg buf Hs Ha Halg. simpl. unfold hash_func.
  rewrite guard_ok by reflexivity. simpl. rewrite Hs. simpl. rewrite Ha. simpl. rewrite Halg. reflexivity.
Qed.

Lemma hash_pure_len : forall O v a al alg,
  codec_laws O -> hash_len_law O -> scalar v -> str_lower O a = OOk al -> hash_alg_of al = Some alg ->
  exists h, String.length h = 2 * digest_len alg /\
            forall V C, call_builtin V O C BHash [v; VStr a] = Ok (VStr h).
Proof.
  intros O v a al alg [G _] L Hv Ha Halg. destruct (G v Hv) as [buf [Hs _]].
  exists (hex_enc (hash_sum O alg buf)). split.
  - rewrite hex_enc_length, L. reflexivity.
  - intros V C. apply hash_value with al; assumption.
Qed.

(* the symbolic base64/base32 codecs of the executable instance (Model/FuncsInst.v) satisfy
   their part of [codec_laws] — the premise is not vacuous *)
Lemma prefix_app : forall p s, String.prefix p (p ++ s) = true.
Proof.
  induction p as [|c p IH]; intros s; simpl; [destruct s; reflexivity|].
  destruct (ascii_dec c c); [apply IH | congruence].
Qed.

Lemma substring_all : forall s, String.substring 0 (String.length s) s = s.
Proof. induction s as [|c s IH]; simpl; [reflexivity | rewrite IH; reflexivity]. Qed.

Lemma substring_skip : forall p s n, String.substring (String.length p) n (p ++ s) = String.substring 0 n s.
Proof. induction p as [|c p IH]; intros s n; simpl; [reflexivity | apply IH]. Qed.

Lemma app_length_str : forall p s, String.length (p ++ s) = String.length p + String.length s.
Proof. induction p as [|c p IH]; intros s; simpl; [reflexivity | rewrite IH; reflexivity]. Qed.

Lemma strip_prefix_app : forall p s, FuncsInst.strip_prefix p (p ++ s) = Some s.
Proof.
  intros p s. unfold FuncsInst.strip_prefix. rewrite prefix_app, substring_skip, app_length_str.
  replace (String.length p + String.length s - String.length p) with (String.length s) by lia.
  rewrite substring_all. reflexivity.
Qed.

Lemma sym_codec_roundtrip : forall m b, FuncsInst.sym_dec m (FuncsInst.sym_enc m b) = OOk b.
Proof.
  intros m b. unfold FuncsInst.sym_dec, FuncsInst.sym_enc.
  rewrite strip_prefix_app, hex_dec_enc. reflexivity.
Qed.
