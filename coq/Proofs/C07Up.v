(* Proofs/C07Up.v — the CTEs of an enclosing query behind the back reference `<-`.

   A row-scoped subquery runs with the scope copy of the current row as its data; the `<-` key of
   that map is the enclosing query's data map, which still holds the enclosing query's CTE thunks.
   In the model the enclosing queries are the frames [c_up] of the context.  This file proves

   * conservativity: frames that hold no thunk are invisible — a context whose enclosing queries
     registered no CTE behaves exactly like the same context with [c_up = []] (so everything proved
     about "standalone" runs carries over to subqueries of queries without CTEs);
   * `FROM `<-`.c` in a subquery yields the rows the enclosing query gets from `FROM c`;
   * a statement whose subqueries do not reach the names of the registered CTEs through `<-`
     ([hides]) evaluates to the same outcome whether or not those CTEs are registered.

   Helper file of property C07; the claims are restated in Properties/C07.v. *)
From Coq Require Import Floats.
From GenqlV Require Import Base.Prelude Base.Fmt Base.Value Model.Ast Model.Like Model.Num Model.Eval Model.Exec.
From GenqlV Require Import Spec.StageSpec Proofs.C07Mono Proofs.C07Blind.
From Coq Require Import ZifyBool ZifyNat.
Local Open Scope list_scope.

(* ================================================================== *)
(* 1. expression evaluation looks at the subquery hooks only for the   *)
(*    subqueries that occur in the expression                          *)
(* ================================================================== *)

Lemma bind_ext {A B} (a b : res A) (f g : A -> res B) :
  a = b -> (forall x, f x = g x) -> bind a f = bind b g.
Proof. intros -> H. destruct b; cbn [bind]; auto. Qed.

Lemma mapM_ext {X Y} (f g : X -> res Y) l : (forall x, f x = g x) -> mapM f l = mapM g l.
Proof.
  intros H. induction l as [|a l IH]; cbn [mapM]; [reflexivity|].
  apply bind_ext; [apply H|]. intros b. apply bind_ext; [exact IH|]. reflexivity.
Qed.

(* the two environments agree except, possibly, on subqueries outside [P] *)
Record env_ext {Q} (P : Q -> bool) (E1 E2 : env Q) : Prop := {
  ee_data : e_data E1 = e_data E2;
  ee_sub : forall q cur, P q = true -> e_sub E1 q cur = e_sub E2 q cur;
  ee_exists : forall q cur, P q = true -> e_exists E1 q cur = e_exists E2 q cur;
  ee_agg : forall f a cur, e_agg E1 f a cur = e_agg E2 f a cur;
  ee_call : e_call E1 = e_call E2;
  ee_hard : e_hard E1 = e_hard E2
}.

Ltac split_andb :=
  repeat match goal with
         | H : (_ && _)%bool = true |- _ => apply Bool.andb_true_iff in H; destruct H
         end.

Section EvalExt.
  Variable Q : Type.
  Variable P : Q -> bool.
  Variables E1 E2 : env Q.
  Hypothesis HE : env_ext P E1 E2.

  Lemma eval_ext : forall e, expr_hides P e = true -> forall cur, eval E1 cur e = eval E2 cur e.
  Proof.
    destruct HE as [Hdata Hsub Hex Hagg Hcall Hhard].
    induction e using expr_ind7; intros Hh cur; cbn [expr_hides] in Hh; split_andb;
      cbn [eval]; rewrite ?Hdata;
      repeat match goal with
             | IH : expr_hides P ?a = true -> _, H : expr_hides P ?a = true |- _ => specialize (IH H)
             end.
    - (* ECol *) unfold col_path. rewrite Hhard. reflexivity.
    - reflexivity.
    - reflexivity.
    - reflexivity.
    - reflexivity.
    - (* EAnd *) rewrite IHe1, IHe2. reflexivity.
    - rewrite IHe1, IHe2. reflexivity.
    - rewrite IHe. reflexivity.
    - (* ECmp *) rewrite IHe1. apply bind_ext; [reflexivity|]. intros l.
      apply bind_ext; [reflexivity|]. intros lv. rewrite IHe2. reflexivity.
    - (* ELike *) rewrite IHe1. apply bind_ext; [reflexivity|]. intros l.
      apply bind_ext; [reflexivity|]. intros lv. rewrite IHe2. reflexivity.
    - (* EIn *)
      rewrite IHe. apply bind_ext; [reflexivity|]. intros l. apply bind_ext; [reflexivity|]. intros lv.
      apply bind_ext; [|reflexivity].
      match goal with HF : Forall _ items |- _ => induction HF as [|x r Hx _ IHr] end; [reflexivity|].
      match goal with H : _ = true |- _ => apply Bool.andb_true_iff in H; destruct H as [Hx' Hr'] end.
      rewrite (Hx Hx'). apply bind_ext; [reflexivity|]. intros y. apply bind_ext; [reflexivity|]. intros y'.
      rewrite (IHr Hr'). reflexivity.
    - (* EInSub *)
      rewrite IHe. apply bind_ext; [reflexivity|]. intros l. apply bind_ext; [reflexivity|]. intros lv.
      rewrite Hsub by assumption. reflexivity.
    - (* EBetween *) rewrite IHe1, IHe2, IHe3. reflexivity.
    - (* EIs *) rewrite IHe. reflexivity.
    - (* EBin *) rewrite IHe1. apply bind_ext; [reflexivity|]. intros r. apply bind_ext; [reflexivity|].
      intros v. destruct v; try reflexivity; apply bind_ext; try reflexivity; intros ?; rewrite IHe2; reflexivity.
    - (* EUn *) rewrite IHe. reflexivity.
    - (* ECase *)
      match goal with HF : Forall _ whens |- _ => induction HF as [|[c v] r [Hc Hv] _ IHr] end.
      + destruct els as [x|]; [|reflexivity].
        match goal with HO : opt_holds7 _ (Some _) |- _ => apply HO; assumption end.
      + cbn [fst snd] in Hc, Hv.
        match goal with H : _ = true |- _ => apply Bool.andb_true_iff in H; destruct H as [Hcv Hr'] end.
        apply Bool.andb_true_iff in Hcv. destruct Hcv as [Hc' Hv'].
        rewrite (Hc Hc'). apply bind_ext; [reflexivity|]. intros rc.
        destruct rc as [[| [|] | | | |] | | | | |]; try reflexivity; [apply Hv; exact Hv' | apply IHr; exact Hr'].
    - (* ESub *) rewrite Hsub by assumption. reflexivity.
    - (* EExists *) rewrite Hex by assumption. reflexivity.
    - (* EAgg *) apply Hagg.
    - (* ECall *)
      rewrite Hcall. apply bind_ext; [|reflexivity].
      match goal with HF : Forall _ args |- _ => induction HF as [|x r Hx _ IHr] end; [reflexivity|].
      match goal with H : _ = true |- _ => apply Bool.andb_true_iff in H; destruct H as [Hx' Hr'] end.
      rewrite (Hx Hx'). apply bind_ext; [reflexivity|]. intros y. apply bind_ext; [reflexivity|]. intros v.
      rewrite (IHr Hr'). reflexivity.
    - (* ETuple *)
      apply bind_ext; [|reflexivity].
      match goal with HF : Forall _ items |- _ => induction HF as [|x r Hx _ IHr] end; [reflexivity|].
      match goal with H : _ = true |- _ => apply Bool.andb_true_iff in H; destruct H as [Hx' Hr'] end.
      destruct (slot_form x); [reflexivity|].
      rewrite (Hx Hx'). apply bind_ext; [reflexivity|]. intros y. apply bind_ext; [reflexivity|]. intros y'.
      rewrite (IHr Hr'). reflexivity.
  Qed.

  Lemma eval_cond_ext c cur : opt_hides P c = true -> eval_cond E1 cur c = eval_cond E2 cur c.
  Proof.
    destruct c as [e|]; cbn [eval_cond opt_hides]; [|reflexivity]. intros H.
    rewrite (eval_ext e H). reflexivity.
  Qed.

  Lemma select_expr_ext items : forallb (item_hides P) items = true -> forall cur acc,
    select_expr E1 cur items acc = select_expr E2 cur items acc.
  Proof.
    induction items as [|it items IH]; intros H cur acc; cbn [select_expr]; [reflexivity|].
    cbn [forallb] in H. apply Bool.andb_true_iff in H. destruct H as [Hit Hr].
    destruct it as [|e name]; [apply IH; exact Hr|]. cbn [item_hides] in Hit.
    rewrite (eval_ext e Hit). apply bind_ext; [reflexivity|]. intros x.
    destruct x; try (apply IH; exact Hr); (apply bind_ext; [reflexivity|]; intros; apply IH; exact Hr).
  Qed.
End EvalExt.
Arguments eval_ext {Q}. Arguments eval_cond_ext {Q}. Arguments select_expr_ext {Q}.

(* ================================================================== *)
(* 2. the SELECT pipeline over resolved rows, for two interpreters and *)
(*    two contexts                                                     *)
(* ================================================================== *)

Lemma pipeline_hides_inv {Q} (P : Q -> bool) s :
  pipeline_hides P s = true ->
  opt_hides P (s_where s) = true /\ opt_hides P (s_having s) = true /\
  forallb (item_hides P) (s_items s) = true.
Proof. unfold pipeline_hides. intros H. split_andb. auto. Qed.

(* the copy of the query that evaluates an inner dimension has the same WHERE / HAVING / items *)
Definition same_exprs {Q} (s s' : select Q) : Prop :=
  s_where s = s_where s' /\ s_having s = s_having s' /\ s_items s = s_items s'.

Lemma pipeline_hides_same {Q} (P : Q -> bool) (s s' : select Q) :
  same_exprs s s' -> pipeline_hides P s = pipeline_hides P s'.
Proof. unfold pipeline_hides. intros (-> & -> & ->). reflexivity. Qed.

Section PipeExt.
  Variables rec1 rec2 : qctx -> job -> res value.
  Variable call : string -> string -> list value -> row -> res raw.
  Variable join : jointype -> jstrategy -> list value -> list value -> string -> string ->
                  expr stmt -> row -> res (list value).
  Variable P : stmt -> bool.

  Lemma exec_select_ext E1 E2 s rows :
    env_ext P E1 E2 -> forallb (item_hides P) (s_items s) = true ->
    exec_select E1 s rows = exec_select E2 s rows.
  Proof.
    intros HE Hi. unfold exec_select.
    destruct ((match s_group s with [] => true | _ => false end) && all_aggregate (s_items s)).
    - rewrite (select_expr_ext P E1 E2 HE _ Hi). reflexivity.
    - apply mapM_ext. intros cur. destruct cur; try reflexivity.
      rewrite (select_expr_ext P E1 E2 HE _ Hi). reflexivity.
  Qed.

  Lemma filter_rows_ext a b s E1 E2 from :
    env_ext P E1 E2 -> opt_hides P (s_where s) = true ->
    (forall s' rows, same_exprs s s' -> rec1 a (JRows s' rows) = rec2 b (JRows s' rows)) ->
    filter_rows rec1 a s E1 from = filter_rows rec2 b s E2 from.
  Proof.
    intros HE Hw Hrows. induction from as [|cur r IH]; [reflexivity|].
    cbn [filter_rows] in *. destruct cur; try exact IH.
    - apply bind_ext; [apply Hrows; repeat split|]. intros rs.
      apply bind_ext; [exact IH|reflexivity].
    - rewrite (eval_cond_ext P E1 E2 HE _ _ Hw). apply bind_ext; [reflexivity|]. intros keep.
      apply bind_ext; [exact IH|reflexivity].
  Qed.

  Lemma exec_group_by_ext E1 E2 s rows :
    env_ext P E1 E2 -> opt_hides P (s_having s) = true ->
    exec_group_by E1 s rows = exec_group_by E2 s rows.
  Proof.
    intros HE Hh. unfold exec_group_by. destruct (s_group s) as [|c cols]; [reflexivity|].
    apply bind_ext; [reflexivity|]. intros gs. apply bind_ext; [|reflexivity].
    induction gs as [|g gs IH]; [reflexivity|].
    rewrite (eval_cond_ext P E1 E2 HE _ _ Hh). apply bind_ext; [reflexivity|]. intros h.
    apply bind_ext; [exact IH|reflexivity].
  Qed.

  (* what run_select needs from two (interpreter, context) pairs to give the same outcome *)
  Lemma run_select_ext a b s src :
    c_data a = c_data b ->
    pipeline_hides P s = true ->
    (forall filtered, env_ext P (mk_env rec1 call join a s filtered) (mk_env rec2 call join b s filtered)) ->
    (forall s' rows, same_exprs s s' -> rec1 a (JRows s' rows) = rec2 b (JRows s' rows)) ->
    run_select rec1 call join a s src = run_select rec2 call join b s src.
  Proof.
    intros Hd Hp HE Hrows. destruct (pipeline_hides_inv P s Hp) as (Hw & Hh & Hi).
    unfold run_select. f_equal. destruct src as [from|].
    - rewrite (filter_rows_ext a b s _ _ from (HE []) Hw Hrows).
      apply bind_ext; [reflexivity|]. intros filtered.
      rewrite (exec_group_by_ext _ _ s filtered (HE filtered) Hh).
      apply bind_ext; [reflexivity|]. intros grouped.
      rewrite (exec_select_ext _ _ s grouped (HE filtered) Hi). reflexivity.
    - rewrite Hd. rewrite (exec_select_ext _ _ s _ (HE []) Hi). reflexivity.
  Qed.
End PipeExt.


(* ================================================================== *)
(* 3. small facts about thunk lookup                                   *)
(* ================================================================== *)

Definition mkc (d : row) (ctes : list (string * stmt)) (busy : list string) (up : list frame) : qctx :=
  {| c_data := d; c_ctes := ctes; c_busy := busy; c_up := up |}.

Lemma cte_lookup_some k ctes body : cte_lookup k ctes = Some body -> In (k, body) ctes.
Proof.
  unfold cte_lookup. destruct (find _ ctes) as [[c b]|] eqn:Hf; [|discriminate].
  intros H. inversion H; subst. apply find_some in Hf. destruct Hf as [Hin He].
  cbn [fst] in He. apply String.eqb_eq in He. subst. exact Hin.
Qed.

Lemma cte_lookup_nil k : cte_lookup k [] = None.
Proof. reflexivity. Qed.

(* ================================================================== *)
(* 4. conservativity: enclosing queries without CTEs are invisible     *)
(* ================================================================== *)

(* no thunk is in scope of the subqueries of a query running in [ctx]: the query registered no CTE
   and neither did the queries enclosing it *)
Definition no_thunks (ctx : qctx) : Prop := c_ctes ctx = [] /\ blank_up (c_up ctx).

Lemma no_thunks_plain d : no_thunks (plain d).
Proof. split; [reflexivity|constructor]. Qed.

Lemma sub_ctx_plain ctx cur : no_thunks ctx -> ctx_equiv (sub_ctx ctx cur) (plain cur).
Proof.
  intros [Hc Hu]. split; cbn [sub_ctx plain c_data c_ctes c_busy c_up]; try reflexivity.
  apply ue_blank; [|constructor]. constructor; [exact Hc|exact Hu].
Qed.

Section Conservative.
  Variable call : string -> string -> list value -> row -> res raw.
  Variable join : jointype -> jstrategy -> list value -> list value -> string -> string ->
                  expr stmt -> row -> res (list value).
  Notation ex := (exec call join).

  (* the stack of enclosing queries matters only through the thunks it holds: with none, the context
     behaves as the same context without enclosing queries (the model before `<-` could see thunks) *)
  Theorem exec_blank_up n d ctes busy up j :
    blank_up up -> ex n (mkc d ctes busy up) j = ex n (mkc d ctes busy []) j.
  Proof.
    intros Hu. apply exec_ctx_equiv. split; cbn [mkc c_data c_ctes c_busy c_up]; try reflexivity.
    apply ue_blank; [exact Hu|constructor].
  Qed.

  (* a row-scoped subquery of a query in whose scope no thunk is: a standalone run on the scope copy
     of the row *)
  Theorem exec_sub_plain n ctx cur j :
    no_thunks ctx -> ex n (sub_ctx ctx cur) j = ex n (plain cur) j.
  Proof. intros H. apply exec_ctx_equiv. apply sub_ctx_plain. exact H. Qed.

  Lemma build_from_sub_plain n ctx cur f :
    no_thunks ctx -> build_from (ex n) join (sub_ctx ctx cur) f = build_from (ex n) join (plain cur) f.
  Proof.
    intros H. apply le_res_antisym; apply build_from_le;
      auto using sub_ctx_plain, ctx_equiv_sym;
      intros a' b' Hab' j'; apply exec_le; auto.
  Qed.
End Conservative.

(* ================================================================== *)
(* 5. statements that do not reach the registered names through `<-`   *)
(* ================================================================== *)

Lemma withs_hide_Forall (deep : stmt -> bool) (l : list (string * stmt)) :
  (fix go (l : list (string * stmt)) : bool :=
     match l with [] => true | (_, b) :: r => deep b && go r end) l = true ->
  Forall (fun c => deep (snd c) = true) l.
Proof.
  induction l as [|[n b] r IH]; intros H; [constructor|].
  apply Bool.andb_true_iff in H. destruct H as [Hb Hr]. constructor; [exact Hb|apply IH, Hr].
Qed.

Section Hidden.
  Variable call : string -> string -> list value -> row -> res raw.
  Variable join : jointype -> jstrategy -> list value -> list value -> string -> string ->
                  expr stmt -> row -> res (list value).
  Notation ex := (exec call join).

  (* the query that registered the CTEs: its document, its thunks, its marks; [names] covers the
     names of the thunks *)
  Variable names : list string.
  Variable d : row.
  Variable ctes : list (string * stmt).
  Variable busy : list string.
  Hypothesis Hnames : forall k, mem_str k names = false -> cte_lookup k ctes = None.

  Definition bodies_hide (cs : list (string * stmt)) : Prop :=
    Forall (fun c => hides names (snd c) = true) cs.

  (* two stacks of enclosing queries that differ in one frame: the query of interest with its thunks
     on the left, the same query without thunks on the right; the frames below it (the queries nested
     in it, down to the current one) hold only thunks whose bodies hide *)
  Inductive up_hid : list frame -> list frame -> Prop :=
  | uhid_here up : up_hid ((d, ctes, busy) :: up) ((d, [], []) :: up)
  | uhid_skip f ua ub : bodies_hide (fr_ctes f) -> up_hid ua ub -> up_hid (f :: ua) (f :: ub).

  Record ctx_hid (a b : qctx) : Prop := {
    ch_data : c_data a = c_data b;
    ch_ctes : c_ctes a = c_ctes b;
    ch_busy : c_busy a = c_busy b;
    ch_bodies : bodies_hide (c_ctes a);
    ch_up : up_hid (c_up a) (c_up b)
  }.

  Definition job_hides (j : job) : Prop :=
    match j with
    | JStmt q => hides names q = true
    | JRows s _ => pipeline_hides (hides names) s = true
    end.

  (* what a path finds in the two stacks *)
  Definition hit_hid (o1 o2 : option up_hit) : Prop :=
    match o1, o2 with
    | Some h1, Some h2 =>
        uh_name h1 = uh_name h2 /\ uh_body h1 = uh_body h2 /\ uh_rest h1 = uh_rest h2 /\
        uh_frame h1 = uh_frame h2 /\
        (uh_up h1 = uh_up h2 \/ (ctx_hid (hit_ctx h1) (hit_ctx h2) /\ hides names (uh_body h1) = true))
    | None, None => True
    | _, _ => False
    end.

  Lemma hit_hid_refl o : hit_hid o o.
  Proof. destruct o as [h|]; cbn [hit_hid]; auto 10. Qed.

  Lemma up_find_hid ua ub : up_hid ua ub ->
    forall p, ups_avoid names p = true -> hit_hid (up_find ua p) (up_find ub p).
  Proof.
    induction 1 as [up|f ua ub Hf Hup IH]; intros p Hp; cbn [up_find];
      (destruct p as [|k rest]; [exact I|]); cbn [ups_avoid] in Hp;
      apply Bool.andb_true_iff in Hp; destruct Hp as [Hk Hrest]; apply Bool.negb_true_iff in Hk.
    - cbn [fr_ctes fst snd]. rewrite (Hnames k Hk). cbn [cte_lookup find].
      destruct (String.eqb k "<-"); [apply hit_hid_refl|exact I].
    - destruct (cte_lookup k (fr_ctes f)) as [body|] eqn:Hl.
      + cbn [hit_hid uh_name uh_body uh_rest uh_frame uh_up]. repeat split. right. split.
        * split; cbn [hit_ctx c_data c_ctes c_busy c_up uh_frame uh_name uh_up]; auto.
        * apply cte_lookup_some in Hl. unfold bodies_hide in Hf. rewrite Forall_forall in Hf.
          apply (Hf _ Hl).
      + destruct (String.eqb k "<-"); [apply IH; exact Hrest|exact I].
  Qed.

  Lemma up_read_hid a b p : ctx_hid a b -> path_hides names p = true ->
    hit_hid (up_read a p) (up_read b p).
  Proof.
    intros Hab Hp. unfold up_read. destruct p as [|k rest]; [exact I|]. cbn [path_hides] in Hp.
    destruct (String.eqb k "<-"); [|exact I]. apply up_find_hid; [apply (ch_up _ _ Hab)|exact Hp].
  Qed.

  Lemma ctx_hid_busy a b k : ctx_hid a b ->
    ctx_hid (mkc (c_data a) (c_ctes a) (k :: c_busy a) (c_up a))
            (mkc (c_data b) (c_ctes b) (k :: c_busy b) (c_up b)).
  Proof.
    intros [H1 H2 H3 H4 H5]. split; cbn [mkc c_data c_ctes c_busy c_up]; auto. rewrite H3. reflexivity.
  Qed.

  Lemma ctx_hid_register a b w : ctx_hid a b -> bodies_hide w ->
    ctx_hid (register_ctes a w) (register_ctes b w).
  Proof.
    intros [H1 H2 H3 H4 H5] Hw. split; cbn [register_ctes c_data c_ctes c_busy c_up]; auto.
    - rewrite H2. reflexivity.
    - unfold bodies_hide in *. apply Forall_app. split; [|exact H4].
      apply Forall_rev. exact Hw.
  Qed.

  Lemma ctx_hid_sub a b cur : ctx_hid a b -> ctx_hid (sub_ctx a cur) (sub_ctx b cur).
  Proof.
    intros [H1 H2 H3 H4 H5]. split; cbn [sub_ctx c_data c_ctes c_busy c_up]; auto.
    - constructor.
    - rewrite <- H1, <- H2, <- H3. apply uhid_skip; [exact H4|exact H5].
  Qed.

  (* the subqueries of the query of interest itself: its frame is the one that differs *)
  Lemma ctx_hid_here up cur : ctx_hid (sub_ctx (mkc d ctes busy up) cur) (sub_ctx (mkc d [] [] up) cur).
  Proof.
    split; cbn [sub_ctx mkc c_data c_ctes c_busy c_up]; auto; [constructor|apply uhid_here].
  Qed.

  Section Step.
    Variable rec : qctx -> job -> res value.
    Hypothesis Hrec : forall a b j, ctx_hid a b -> job_hides j -> rec a j = rec b j.

    Lemma build_from_hid f : forall a b, ctx_hid a b -> from_hides (hides names) names f = true ->
      build_from rec join a f = build_from rec join b f.
    Proof.
      induction f as [|path alias|fn path alias|sl alias|q alias|jt st l IHl r IHr on]; intros a b Hab Hf;
        cbn [build_from from_hides] in *.
      - reflexivity.
      - destruct path as [|k rest]; [reflexivity|].
        rewrite <- (ch_ctes _ _ Hab). destruct (cte_lookup k (c_ctes a)) as [body|] eqn:Hl.
        + rewrite <- (ch_busy _ _ Hab). destruct (existsb (String.eqb k) (c_busy a)); [reflexivity|].
          apply bind_ext; [|reflexivity].
          rewrite <- (ch_data _ _ Hab).
          replace (c_up b) with (c_up b) by reflexivity.
          apply (Hrec (mkc (c_data a) (c_ctes a) (k :: c_busy a) (c_up a))
                      (mkc (c_data a) (c_ctes a) (k :: c_busy a) (c_up b))).
          * pose proof (ctx_hid_busy a b k Hab) as H.
            rewrite <- (ch_data _ _ Hab), <- (ch_ctes _ _ Hab), <- (ch_busy _ _ Hab) in H. exact H.
          * cbn [job_hides]. apply cte_lookup_some in Hl.
            pose proof (ch_bodies _ _ Hab) as Hb. unfold bodies_hide in Hb. rewrite Forall_forall in Hb.
            apply (Hb _ Hl).
        + pose proof (up_read_hid a b (k :: rest) Hab Hf) as Hh.
          destruct (up_read a (k :: rest)) as [h1|], (up_read b (k :: rest)) as [h2|];
            cbn [hit_hid] in Hh; try contradiction.
          * destruct Hh as (Hn & Hbody & Hrest & Hfr & Hup).
            rewrite <- Hn, <- Hbody, <- Hrest, <- Hfr.
            destruct (existsb (String.eqb (uh_name h1)) (fr_busy (uh_frame h1))); [reflexivity|].
            apply bind_ext; [|reflexivity].
            destruct Hup as [Hup|[Hctx Hhides]].
            -- rewrite Hup. reflexivity.
            -- unfold hit_ctx in Hctx. rewrite <- Hn, <- Hfr in Hctx.
               apply (Hrec _ _ _ Hctx). exact Hhides.
          * rewrite (ch_data _ _ Hab). reflexivity.
      - pose proof (up_read_hid a b path Hab Hf) as Hh.
        destruct (up_read a path) as [h1|], (up_read b path) as [h2|];
          cbn [hit_hid] in Hh; try contradiction; [reflexivity|].
        rewrite (ch_data _ _ Hab). reflexivity.
      - discriminate Hf.
      - apply bind_ext; [apply Hrec; [exact Hab|exact Hf]|]. reflexivity.
      - apply Bool.andb_true_iff in Hf. destruct Hf as [Hl Hr].
        rewrite (IHl a b Hab Hl), (IHr a b Hab Hr), (ch_data _ _ Hab). reflexivity.
    Qed.

    (* the hooks of two contexts whose subquery contexts are related *)
    Lemma mk_env_sub_ext a b s filtered :
      c_data a = c_data b ->
      (forall cur, ctx_hid (sub_ctx a cur) (sub_ctx b cur)) ->
      env_ext (hides names) (mk_env rec call join a s filtered) (mk_env rec call join b s filtered).
    Proof.
      intros Hd Hsub. split; cbn [mk_env e_data e_sub e_exists e_agg e_call e_hard];
        try reflexivity.
      - rewrite Hd. reflexivity.
      - intros q cur Hq. apply Hrec; [apply Hsub|exact Hq].
      - intros q cur Hq. destruct q as [s'|]; [|reflexivity].
        cbn [hides] in Hq. unfold select_hides in Hq. split_andb.
        rewrite (build_from_hid (s_from s') _ _ (Hsub cur)) by assumption.
        apply bind_ext; [reflexivity|]. intros src. destruct src as [rows|]; [|reflexivity].
        apply bind_ext; [reflexivity|]. intros merged.
        apply bind_ext; [|reflexivity]. apply Hrec; [apply Hsub|]. cbn [job_hides]. assumption.
    Qed.

    Lemma run_select_hid a b s src :
      ctx_hid a b -> pipeline_hides (hides names) s = true ->
      run_select rec call join a s src = run_select rec call join b s src.
    Proof.
      intros Hab Hp. apply (run_select_ext rec rec call join (hides names)); auto.
      - apply (ch_data _ _ Hab).
      - intros filtered. apply mk_env_sub_ext; [apply (ch_data _ _ Hab)|].
        intros cur. apply ctx_hid_sub. exact Hab.
      - intros s' rows Hs. apply Hrec; [exact Hab|]. cbn [job_hides].
        rewrite <- (pipeline_hides_same (hides names) s s' Hs). exact Hp.
    Qed.

    Lemma exec_step_hid a b j :
      ctx_hid a b -> job_hides j -> exec_step rec call join a j = exec_step rec call join b j.
    Proof.
      intros Hab Hj. destruct j as [[s|all l r limit offset]|s rows]; cbn [exec_step job_hides hides] in *.
      - unfold select_hides in Hj. split_andb.
        assert (Hreg : ctx_hid (register_ctes a (s_with s)) (register_ctes b (s_with s))).
        { apply ctx_hid_register; [exact Hab|]. apply withs_hide_Forall. assumption. }
        rewrite (build_from_hid (s_from s) _ _ Hreg) by assumption.
        apply bind_ext; [reflexivity|]. intros src. apply run_select_hid; assumption.
      - apply Bool.andb_true_iff in Hj. destruct Hj as [Hl Hr].
        rewrite (Hrec a b (JStmt l) Hab Hl), (Hrec a b (JStmt r) Hab Hr).
        apply bind_ext; [reflexivity|]. intros lv. apply bind_ext; [reflexivity|]. intros rv.
        apply bind_ext; [reflexivity|]. intros la. apply bind_ext; [reflexivity|]. intros ra.
        apply run_select_hid; [exact Hab|reflexivity].
      - apply run_select_hid; assumption.
    Qed.
  End Step.

  (* nested in a subquery of the query of interest, a statement that hides gives the same outcome
     whether or not that query registered its CTEs *)
  Theorem exec_hid : forall n a b j, ctx_hid a b -> job_hides j -> ex n a j = ex n b j.
  Proof.
    induction n as [|n IH]; intros a b j Hab Hj; [reflexivity|]. cbn [exec].
    apply exec_step_hid; auto.
  Qed.

  (* the query of interest itself, over resolved rows *)
  Theorem exec_rows_invisible : forall n up s rows,
    pipeline_hides (hides names) s = true ->
    ex n (mkc d ctes busy up) (JRows s rows) = ex n (mkc d [] [] up) (JRows s rows).
  Proof.
    induction n as [|n IH]; intros up s rows Hp; [reflexivity|]. cbn [exec exec_step].
    apply (run_select_ext (ex n) (ex n) call join (hides names)); auto.
    - intros filtered. apply mk_env_sub_ext; [apply exec_hid|reflexivity|apply ctx_hid_here].
    - intros s' rows' Hs. apply IH. rewrite <- (pipeline_hides_same (hides names) s s' Hs). exact Hp.
  Qed.

  Lemma run_select_invisible n up s src :
    pipeline_hides (hides names) s = true ->
    run_select (ex n) call join (mkc d ctes busy up) s src =
    run_select (ex n) call join (mkc d [] [] up) s src.
  Proof.
    intros Hp. apply (run_select_ext (ex n) (ex n) call join (hides names)); auto.
    - intros filtered. apply mk_env_sub_ext; [apply exec_hid|reflexivity|apply ctx_hid_here].
    - intros s' rows' Hs. apply exec_rows_invisible.
      rewrite <- (pipeline_hides_same (hides names) s s' Hs). exact Hp.
  Qed.

  (* its tables: none is one of the names *)
  Lemma from_avoids_invisible_up rec up f :
    from_avoids names f = true ->
    build_from rec join (mkc d ctes busy up) f = build_from rec join (mkc d [] [] up) f.
  Proof.
    induction f as [|path alias|fn path alias|sl alias|q alias|jt st l IHl r IHr on]; cbn [from_avoids]; intros H.
    - reflexivity.
    - destruct path as [|k rest]; [reflexivity|].
      apply Bool.negb_true_iff in H. cbn [build_from mkc c_ctes c_data c_busy c_up].
      rewrite (Hnames k H). reflexivity.
    - reflexivity.
    - discriminate.
    - discriminate.
    - apply Bool.andb_true_iff in H. destruct H as [H1 H2].
      cbn [build_from]. rewrite (IHl H1), (IHr H2). reflexivity.
  Qed.

  (* a statement that avoids the names evaluates as if the CTEs were not registered *)
  Theorem avoids_invisible_up q : forall n up,
    avoids names q = true ->
    ex n (mkc d ctes busy up) (JStmt q) = ex n (mkc d [] [] up) (JStmt q).
  Proof.
    induction q as [s|all l IHl r IHr limit offset]; intros n up H;
      (destruct n as [|n]; [reflexivity|]).
    - cbn [avoids] in H. destruct (s_with s) eqn:Hw; [|discriminate].
      apply Bool.andb_true_iff in H. destruct H as [Hf Hp].
      cbn [exec exec_step]. rewrite Hw.
      change (register_ctes (mkc d ctes busy up) []) with (mkc d ctes busy up).
      change (register_ctes (mkc d [] [] up) []) with (mkc d [] [] up).
      rewrite (from_avoids_invisible_up (ex n) up (s_from s) Hf).
      apply bind_ext; [reflexivity|]. intros src. apply run_select_invisible. exact Hp.
    - cbn [avoids] in H. apply Bool.andb_true_iff in H. destruct H as [H1 H2].
      cbn [exec exec_step]. rewrite (IHl n up H1), (IHr n up H2).
      apply bind_ext; [reflexivity|]. intros lv. apply bind_ext; [reflexivity|]. intros rv.
      apply bind_ext; [reflexivity|]. intros la. apply bind_ext; [reflexivity|]. intros ra.
      apply run_select_invisible. reflexivity.
  Qed.
End Hidden.

(* ================================================================== *)
(* 6. reading a CTE of the enclosing query through `<-`                *)
(* ================================================================== *)

Section UpRead.
  Variable join : jointype -> jstrategy -> list value -> list value -> string -> string ->
                  expr stmt -> row -> res (list value).

  (* (a) inside a row-scoped subquery (any current row), `FROM `<-`.c...` yields exactly the source
     rows the enclosing query gets from `FROM c...`, for every CTE c registered by the enclosing
     query — evaluated by the enclosing query: same document, same thunks, same in-progress marks
     (so also the same error when c is being evaluated) *)
  Theorem up_cte_is_cte rec ctx cur c rest alias body :
    cte_lookup c (c_ctes ctx) = Some body ->
    build_from rec join (sub_ctx ctx cur) (FTable ("<-"%string :: c :: rest) alias) =
    build_from rec join ctx (FTable (c :: rest) alias).
  Proof.
    intros Hl. cbn [build_from sub_ctx c_ctes c_up c_data c_busy cte_lookup find up_read].
    cbn [String.eqb Ascii.eqb Bool.eqb up_find fr_ctes fst snd].
    fold (cte_lookup c (c_ctes ctx)). rewrite Hl.
    cbn [uh_frame uh_name uh_body uh_rest uh_up fr_busy fr_data fr_ctes fst snd]. reflexivity.
  Qed.

  (* ... the rows the thunk's body evaluates to, when c is not in progress *)
  Corollary up_cte_rows rec ctx cur c rest alias body rows :
    cte_lookup c (c_ctes ctx) = Some body -> existsb (String.eqb c) (c_busy ctx) = false ->
    rec (mkc (c_data ctx) (c_ctes ctx) (c :: c_busy ctx) (c_up ctx)) (JStmt body) = Ok rows ->
    build_from rec join (sub_ctx ctx cur) (FTable ("<-"%string :: c :: rest) alias) =
    let! v := reader rest rows in let! arr := as_array v in Ok (Some (process_alias arr alias)).
  Proof.
    intros Hl Hb Hr. rewrite (up_cte_is_cte rec ctx cur c rest alias body Hl).
    cbn [build_from]. rewrite Hl, Hb. unfold mkc in Hr. rewrite Hr. reflexivity.
  Qed.

  (* the self reference: the body of c, while it is evaluated, has a subquery that reads `<-`.c *)
  Theorem up_self_reference_is_error rec ctx cur c rest alias body :
    cte_lookup c (c_ctes ctx) = Some body -> existsb (String.eqb c) (c_busy ctx) = true ->
    build_from rec join (sub_ctx ctx cur) (FTable ("<-"%string :: c :: rest) alias) = Err.
  Proof.
    intros Hl Hb. rewrite (up_cte_is_cte rec ctx cur c rest alias body Hl).
    cbn [build_from]. rewrite Hl, Hb. reflexivity.
  Qed.

  (* deeper: a path that, read by the enclosing query [m], runs into a thunk further up is read by
     the subquery with one more `<-` in front (`<-`.`<-`.c two queries up, and so on) *)
  Theorem up_path_shift rec m cur k rest alias h :
    cte_lookup k (c_ctes m) = None -> up_read m (k :: rest) = Some h ->
    build_from rec join (sub_ctx m cur) (FTable ("<-"%string :: k :: rest) alias) =
    build_from rec join m (FTable (k :: rest) alias).
  Proof.
    intros Hl Hh.
    assert (Hup : up_read (sub_ctx m cur) ("<-"%string :: k :: rest) = Some h).
    { unfold up_read in *. cbn [String.eqb Ascii.eqb Bool.eqb sub_ctx c_up up_find fr_ctes fst snd].
      rewrite Hl. exact Hh. }
    cbn [build_from]. rewrite Hup, Hl, Hh. reflexivity.
  Qed.

  (* two levels: the subquery of a subquery reads the CTE c of the outermost query *)
  Corollary up_cte_two_levels rec ctx cur1 cur2 c rest alias body :
    cte_lookup c (c_ctes ctx) = Some body ->
    build_from rec join (sub_ctx (sub_ctx ctx cur1) cur2)
               (FTable ("<-"%string :: "<-"%string :: c :: rest) alias) =
    build_from rec join ctx (FTable (c :: rest) alias).
  Proof.
    intros Hl.
    assert (Hh : exists h, up_read (sub_ctx ctx cur1) ("<-"%string :: c :: rest) = Some h).
    { unfold up_read. cbn [String.eqb Ascii.eqb Bool.eqb sub_ctx c_up up_find fr_ctes fst snd].
      rewrite Hl. eauto. }
    destruct Hh as (h & Hh).
    rewrite (up_path_shift rec (sub_ctx ctx cur1) cur2 "<-" (c :: rest) alias h eq_refl Hh).
    apply (up_cte_is_cte rec ctx cur1 c rest alias body Hl).
  Qed.

  (* a name that is no CTE of the enclosing query is read in its document, as before: the `<-` key
     of the scope copy is that document *)
  Theorem up_doc_is_doc rec ctx cur k rest alias :
    k <> "<-"%string -> cte_lookup k (c_ctes ctx) = None ->
    build_from rec join (sub_ctx ctx (scope cur (VObj (c_data ctx))))
               (FTable ("<-"%string :: k :: rest) alias) =
    build_from rec join ctx (FTable (k :: rest) alias).
  Proof.
    intros Hk Hl. apply String.eqb_neq in Hk.
    cbn [build_from sub_ctx c_ctes c_up c_data c_busy cte_lookup find up_read].
    cbn [String.eqb Ascii.eqb Bool.eqb up_find fr_ctes fst snd].
    fold (cte_lookup k (c_ctes ctx)). rewrite Hl, Hk.
    change (reader ("<-"%string :: k :: rest) (VObj (scope cur (VObj (c_data ctx)))))
      with (reader (k :: rest) (obj_get "<-" (scope cur (VObj (c_data ctx))))).
    unfold scope. rewrite obj_get_set_same. reflexivity.
  Qed.
End UpRead.
