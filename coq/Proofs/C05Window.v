(* Proofs/C05Window.v — the LIMIT/OFFSET arithmetic at the end of exec() returns the exact window. *)
From Coq Require Import ZifyBool ZifyNat.
From GenqlV Require Import Base.Prelude Base.Fmt Base.Value Model.Exec Spec.WindowSpec.
Local Open Scope Z_scope.

(* ---------- list facts ---------- *)

Lemma nth_error_firstn_lt {A} : forall n (l : list A) i,
  nth_error (firstn n l) i = if (i <? n)%nat then nth_error l i else None.
Proof.
  induction n as [|n IH]; intros l i.
  - cbn. destruct i; reflexivity.
  - destruct l as [|x l]; cbn [firstn].
    + destruct i; cbn [nth_error]; destruct (_ <? _)%nat; reflexivity.
    + destruct i as [|i]; [reflexivity|]. cbn [nth_error]. rewrite IH.
      change (S i <? S n)%nat with (i <? n)%nat. reflexivity.
Qed.

Lemma nth_error_skipn_plus {A} : forall m (l : list A) i,
  nth_error (skipn m l) i = nth_error l (m + i).
Proof.
  induction m as [|m IH]; intros l i; [reflexivity|].
  destruct l as [|x l]; cbn [skipn plus nth_error].
  - destruct i; reflexivity.
  - apply IH.
Qed.

Lemma in_firstn_in {A} : forall n (l : list A) x, In x (firstn n l) -> In x l.
Proof.
  induction n as [|n IH]; intros l x H; [destruct H|].
  destruct l as [|y l]; [destruct H|]. destruct H as [H|H]; [left; exact H|right; apply IH; exact H].
Qed.

Lemma in_skipn_in {A} : forall n (l : list A) x, In x (skipn n l) -> In x l.
Proof.
  induction n as [|n IH]; intros l x H; [exact H|].
  destruct l as [|y l]; [exact H|]. right. apply IH. exact H.
Qed.

(* ---------- a slice expression that stays inside the length never sees the spare capacity ------ *)

Lemma go_slice_within xs cap lo hi :
  0 <= lo -> lo <= hi -> hi <= Z.of_nat (List.length xs) -> (List.length xs <= cap)%nat ->
  go_slice xs cap lo hi = Ok (firstn (Z.to_nat (hi - lo)) (skipn (Z.to_nat lo) xs)).
Proof.
  intros H0 H1 H2 H3. unfold go_slice.
  replace ((0 <=? lo) && (lo <=? hi) && (hi <=? Z.of_nat cap)) with true by lia.
  f_equal. rewrite skipn_app, firstn_app.
  replace (Z.to_nat (hi - lo) - List.length (skipn (Z.to_nat lo) xs))%nat with O
    by (rewrite skipn_length; lia).
  cbn [firstn]. apply app_nil_r.
Qed.

(* ---------- the window ---------- *)

Lemma window_core rows cap off lim :
  0 <= off -> 0 <= lim -> (List.length rows <= cap)%nat ->
  (if Z.of_nat (List.length rows) <=? off then Ok []
   else go_slice rows cap off
          (off + (if Z.of_nat (List.length rows) - off <? lim
                  then Z.of_nat (List.length rows) - off else lim)))
  = Ok (firstn (Z.to_nat lim) (skipn (Z.to_nat off) rows)).
Proof.
  intros Ho Hl Hc.
  destruct (Z.of_nat (List.length rows) <=? off) eqn:E.
  - rewrite skipn_all2 by lia. rewrite firstn_nil. reflexivity.
  - destruct (Z.of_nat (List.length rows) - off <? lim) eqn:E2.
    + rewrite go_slice_within by lia. f_equal.
      rewrite !firstn_all2 by (rewrite skipn_length; lia). reflexivity.
    + rewrite go_slice_within by lia. f_equal.
      replace (off + lim - off) with lim by lia. reflexivity.
Qed.

Lemma window_exact rows cap limit offset :
  (List.length rows <= cap)%nat -> bound_ok limit -> bound_ok offset ->
  window rows cap limit offset = Ok (window_spec rows limit offset).
Proof.
  intros Hc Hl Ho. unfold window, window_spec.
  assert (Hoff : 0 <= match offset with Some o => o | None => 0 end)
    by (destruct offset; cbn in Ho; lia).
  replace (match offset with Some o => Z.to_nat o | None => O end)
    with (Z.to_nat (match offset with Some o => o | None => 0 end)) by (destruct offset; reflexivity).
  destruct limit as [l|]; cbn in Hl.
  - apply window_core; assumption.
  - rewrite window_core by (try assumption; lia). f_equal.
    apply firstn_all2. rewrite skipn_length. lia.
Qed.

Lemma window_spec_length {A} (rows : list A) limit offset :
  bound_ok limit -> bound_ok offset ->
  Z.of_nat (List.length (window_spec rows limit offset)) =
    let len := Z.of_nat (List.length rows) in
    let off := match offset with Some o => o | None => 0 end in
    let rest := Z.max 0 (len - off) in
    match limit with Some l => Z.min l rest | None => rest end.
Proof.
  intros Hl Ho. unfold window_spec. cbv zeta.
  destruct limit as [l|], offset as [o|]; cbn in Hl, Ho;
    rewrite ?firstn_length, ?skipn_length; lia.
Qed.

Lemma window_spec_at {A} (rows : list A) limit offset i :
  nth_error (window_spec rows limit offset) i = window_at rows limit offset i.
Proof.
  unfold window_spec, window_at. destruct limit as [l|].
  - rewrite nth_error_firstn_lt. destruct (i <? Z.to_nat l)%nat; [|reflexivity].
    apply nth_error_skipn_plus.
  - apply nth_error_skipn_plus.
Qed.

Lemma window_spec_incl {A} (rows : list A) limit offset x :
  In x (window_spec rows limit offset) -> In x rows.
Proof.
  unfold window_spec. intros H.
  destruct limit; [apply in_firstn_in in H|]; eapply in_skipn_in; exact H.
Qed.

(* ---------- the pinned arithmetic  rs[offset:][:limit]  fails on the last page ---------- *)

Definition r_ (n : Z) : value := VObj [("a"%string, VStr (Z_to_dec n))].

Lemma pinned_window_panics :
  pinned_window [r_ 1; r_ 2; r_ 3; r_ 4] 4 (Some 3) (Some 2) = Panic.
Proof. vm_compute. reflexivity. Qed.

Lemma pinned_window_phantom :
  pinned_window [r_ 2; r_ 3; r_ 4] 4 (Some 2) (Some 2) = Ok [r_ 4; VNull].
Proof. vm_compute. reflexivity. Qed.

(* the same inputs through the repaired arithmetic *)
Lemma window_last_page :
  window [r_ 1; r_ 2; r_ 3; r_ 4] 4 (Some 3) (Some 2) = Ok [r_ 3; r_ 4] /\
  window [r_ 2; r_ 3; r_ 4] 4 (Some 2) (Some 2) = Ok [r_ 4].
Proof. vm_compute. split; reflexivity. Qed.
