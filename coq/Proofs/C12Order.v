(* Proofs/C12Order.v — property C12, "the identical sequence whenever ORDER BY determines a total
   order": if the comparator never ties two different rows, ANY output meeting sort.Slice's contract
   ([sorted_perm], Spec/SortSpec.v) is the same list, whatever order the rows arrived in. *)
From Coq Require Import Sorting.Permutation Sorting.Sorted.
From GenqlV Require Import Base.Prelude Base.Value Model.Exec Spec.SortSpec Proofs.C05Sort.
Local Open Scope list_scope.

Lemma sorted_unique (R : value -> value -> Prop) : forall l1 l2,
  (forall x y z, In x l1 -> In y l1 -> In z l1 -> R x y -> R y z -> R x z) ->
  (forall x y, In x l1 -> In y l1 -> R x y -> R y x -> x = y) ->
  Permutation l1 l2 -> Sorted R l1 -> Sorted R l2 -> l1 = l2.
Proof.
  induction l1 as [|a r IH]; intros l2 T A P S1 S2.
  - apply Permutation_nil in P. subst; reflexivity.
  - destruct l2 as [|b r2]; [apply Permutation_sym, Permutation_nil in P; discriminate|].
    assert (In21 : forall x, In x (b :: r2) -> In x (a :: r))
      by (intros x Hx; eapply Permutation_in; [apply Permutation_sym, P|exact Hx]).
    assert (F1 : Forall (R a) r) by (apply sorted_head_all; assumption).
    assert (F2 : Forall (R b) r2).
    { apply sorted_head_all; [|exact S2]. intros x y z Hx Hy Hz. apply T; apply In21; assumption. }
    assert (Hab : a = b).
    { assert (Ha : In a (b :: r2)) by (eapply Permutation_in; [exact P|left; reflexivity]).
      assert (Hb : In b (a :: r)) by (apply In21; left; reflexivity).
      destruct Ha as [Ha|Ha]; [symmetry; exact Ha|]. destruct Hb as [Hb|Hb]; [exact Hb|].
      rewrite Forall_forall in F1, F2.
      apply A; [left; reflexivity|right; exact Hb|apply F1, Hb|apply F2, Ha]. }
    subst b. f_equal. apply IH.
    + intros x y z Hx Hy Hz. apply T; right; assumption.
    + intros x y Hx Hy. apply A; right; assumption.
    + eapply Permutation_cons_inv; exact P.
    + apply (Sorted_inv S1).
    + apply (Sorted_inv S2).
Qed.

Theorem sorted_perm_unique : forall less l l' out out',
  Permutation l' l ->
  total_on (fun x => In x l) less -> strict_weak_order (fun x => In x l) (lt_of less) ->
  (* the keys determine a total order: two rows that tie are the same row *)
  (forall a b, In a l -> In b l -> less a b = Ok false -> less b a = Ok false -> a = b) ->
  sorted_perm less l out -> sorted_perm less l' out' -> out = out'.
Proof.
  intros less l l' out out' P Tot W NoTie [P1 A1] [P2 A2].
  assert (In1 : forall x, In x out -> In x l)
    by (intros x Hx; eapply Permutation_in; [apply Permutation_sym, P1|exact Hx]).
  apply (sorted_unique (not_after less)).
  - intros x y z Hx Hy Hz Rxy Ryz. unfold not_after in *.
    apply (swo_negtrans _ _ W Tot z y x); auto.
  - intros x y Hx Hy Rxy Ryx. unfold not_after in *. apply NoTie; auto.
  - eapply Permutation_trans; [apply Permutation_sym, P1|].
    eapply Permutation_trans; [apply Permutation_sym, P|exact P2].
  - apply adjacent_ok_Sorted, A1.
  - apply adjacent_ok_Sorted, A2.
Qed.

(* the executable sort is one such output *)
Corollary sort_by_unique : forall less l l' out out',
  Permutation l' l ->
  total_on (fun x => In x l) less -> strict_weak_order (fun x => In x l) (lt_of less) ->
  (forall a b, In a l -> In b l -> less a b = Ok false -> less b a = Ok false -> a = b) ->
  sort_by less l = Ok out -> sort_by less l' = Ok out' -> out = out'.
Proof.
  intros less l l' out out' P Tot W NoTie E E'.
  assert (InP : forall x, In x l' -> In x l) by (intros x Hx; eapply Permutation_in; [exact P|exact Hx]).
  assert (Tot' : total_on (fun x => In x l') less) by (intros a b Ha Hb; apply Tot; apply InP; assumption).
  assert (W' : strict_weak_order (fun x => In x l') (lt_of less)).
  { destruct W as [I T C]. constructor.
    - intros a Ha. apply I, InP, Ha.
    - intros a b c Ha Hb Hc. apply T; apply InP; assumption.
    - intros a b c Ha Hb Hc. apply C; apply InP; assumption. }
  destruct (sort_by_sorted_perm less l Tot W) as [o [Eo So]].
  destruct (sort_by_sorted_perm less l' Tot' W') as [o' [Eo' So']].
  rewrite E in Eo. inversion Eo; subst o. rewrite E' in Eo'. inversion Eo'; subst o'.
  eapply sorted_perm_unique; eauto.
Qed.
