(* Proofs/C05Bridge.v — the ORDER BY comparator over every Go numeric kind.

   sort.go Compare on two one-key rows {k:a}, {k:b} is modelled by C15Run.sort_expect over the exact comparison
   model (Model/Compare.v): a NULL first key is never "less", a NULL second key always is, otherwise "less" is
   Compare = -1 (ASC) / = 1 (DESC).  The correspondence stage `order-by-comparator-bridge` checks the real
   comparator against sort_expect on the whole C15 domain; here the order laws C15 proves for Compare are lifted
   to that comparator: it is irreflexive, asymmetric, DESC is the converse of ASC, and on numbers of any kinds it
   has no cycles of length three — what sort.Slice needs to produce a sorted permutation. *)
From Coq Require Import ZArith Lia.
From GenqlV Require Import Base.Prelude Model.Compare Spec.OrderSpec Proofs.C15Lemmas Run.C15Run.
Local Open Scope Z_scope.

Definition non_nil (a : gval) : Prop := a <> GNil.

Definition less_asc (a b : gval) (z : Z) : Prop := fst (sort_expect a b z) = 1.
Definition less_desc (a b : gval) (z : Z) : Prop := snd (sort_expect a b z) = 1.

Lemma sort_expect_non_nil a b z : non_nil a -> non_nil b ->
  sort_expect a b z = ((if z =? -1 then 1 else 0), (if z =? 1 then 1 else 0)).
Proof.
  unfold non_nil; intros Ha Hb; destruct a; try (exfalso; apply Ha; reflexivity);
    destruct b; try (exfalso; apply Hb; reflexivity); reflexivity.
Qed.

Lemma comparator_irreflexive a z : Compare a a = Ok z -> sort_expect a a z = (0, 0).
Proof.
  intro H. pose proof (Compare_refl _ _ H) as Hz; subst z.
  destruct a; reflexivity.
Qed.

Lemma comparator_asymmetric a b x y : non_nil a -> non_nil b ->
  Compare a b = Ok x -> Compare b a = Ok y ->
  ~ (less_asc a b x /\ less_asc b a y) /\ ~ (less_desc a b x /\ less_desc b a y).
Proof.
  intros Ha Hb H1 H2. pose proof (Compare_antisym _ _ _ _ H1 H2) as E.
  unfold less_asc, less_desc. rewrite (sort_expect_non_nil a b x Ha Hb), (sort_expect_non_nil b a y Hb Ha).
  cbn [fst snd]. subst x.
  split; intros [P Q];
    repeat match goal with H : (if ?c then _ else _) = 1 |- _ => destruct c eqn:?; [|discriminate] end; lia.
Qed.

Lemma comparator_desc_converse a b x y : non_nil a -> non_nil b ->
  Compare a b = Ok x -> Compare b a = Ok y ->
  (less_desc a b x <-> less_asc b a y).
Proof.
  intros Ha Hb H1 H2. pose proof (Compare_antisym _ _ _ _ H1 H2) as E.
  unfold less_asc, less_desc. rewrite (sort_expect_non_nil a b x Ha Hb), (sort_expect_non_nil b a y Hb Ha).
  cbn [fst snd]. subst x.
  destruct (- y =? 1) eqn:E1, (y =? -1) eqn:E2; split; intro H; try reflexivity; try discriminate; lia.
Qed.

Lemma comparator_total a b x y : non_nil a -> non_nil b ->
  Compare a b = Ok x -> Compare b a = Ok y ->
  x = 0 \/ less_asc a b x \/ less_asc b a y.
Proof.
  intros Ha Hb H1 H2. pose proof (Compare_antisym _ _ _ _ H1 H2) as E.
  pose proof (Compare_range _ _ _ H1) as R.
  unfold less_asc. rewrite (sort_expect_non_nil a b x Ha Hb), (sort_expect_non_nil b a y Hb Ha). cbn [fst].
  destruct R as [R | [R | R]].
  - right; left. rewrite R. reflexivity.
  - left; exact R.
  - right; right. assert (Hy : y = -1) by lia. rewrite Hy. reflexivity.
Qed.

Lemma comparator_no_3_cycle a b c x y z w :
  is_num a = true -> is_num b = true -> is_num c = true ->
  Compare a b = Ok x -> Compare b c = Ok y -> Compare a c = Ok z -> Compare c a = Ok w ->
  less_asc a b x -> less_asc b c y -> ~ less_asc c a w.
Proof.
  intros Na Nb Nc H1 H2 H3 H4.
  assert (Ha : non_nil a) by (intro; subst; discriminate).
  assert (Hb : non_nil b) by (intro; subst; discriminate).
  assert (Hc : non_nil c) by (intro; subst; discriminate).
  unfold less_asc.
  rewrite (sort_expect_non_nil a b x Ha Hb), (sort_expect_non_nil b c y Hb Hc), (sort_expect_non_nil c a w Hc Ha).
  cbn [fst]. intros P Q R.
  destruct (x =? -1) eqn:Ex; [|discriminate]. destruct (y =? -1) eqn:Ey; [|discriminate].
  destruct (w =? -1) eqn:Ew; [|discriminate].
  pose proof (Compare_trans_num _ _ _ _ _ _ Na Nb Nc H1 H2 H3) as T.
  pose proof (Compare_antisym _ _ _ _ H3 H4) as E.
  assert (z <= 0) by (apply T; lia). lia.
Qed.
