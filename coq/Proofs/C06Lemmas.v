(* Proofs/C06Lemmas.v — DISTINCT keeps exactly the first occurrences; UNION [ALL] concatenates
   [and dedups]; chains; LIMIT on the combined result.  Claims are restated in Properties/C06.v. *)
From Coq Require Import Floats.
From GenqlV Require Import Base.Prelude Base.Fmt Base.Value Model.Ast Model.Like Model.Num Model.Eval Model.Exec.
From GenqlV Require Import Spec.DistinctSpec Proofs.StrOrder.
From Coq Require Import ZifyBool ZifyNat.
Local Open Scope list_scope.

(* ================================================================== *)
(* 1. facts about the specification itself                             *)
(* ================================================================== *)

Section SpecFacts.
  Variable A : Type.
  Variable eqb : A -> A -> bool.
  Hypothesis EQ : equivalence_b eqb.

  Let notin (E : list A) (x : A) : bool := negb (existsb (fun y => eqb y x) E).

  Lemma filter_filter (f g : A -> bool) l :
    filter f (filter g l) = filter (fun x => g x && f x) l.
  Proof.
    induction l as [|a l IH]; cbn; auto.
    destruct (g a); cbn; [destruct (f a); cbn|]; rewrite ?IH; auto.
  Qed.

  Lemma filter_true (f : A -> bool) l : (forall x, In x l -> f x = true) -> filter f l = l.
  Proof.
    induction l as [|a l IH]; cbn; intros H; auto.
    rewrite (H a) by auto. f_equal. apply IH. intros; apply H; auto.
  Qed.

  Lemma filter_false (f : A -> bool) l : (forall x, In x l -> f x = false) -> filter f l = [].
  Proof.
    induction l as [|a l IH]; cbn; intros H; auto.
    rewrite (H a) by auto. apply IH. intros; apply H; auto.
  Qed.

  (* the position-wise reading and the recursive reading agree *)
  Lemma keep_firsts_filter : forall l E,
    keep_firsts eqb E l = filter (notin E) (nodup_first eqb l).
  Proof.
    induction l as [|x r IH]; intros E; cbn [keep_firsts nodup_first filter]; auto.
    rewrite IH. rewrite filter_filter. change (notin E x) with (negb (existsb (fun y => eqb y x) E)).
    destruct (existsb (fun y => eqb y x) E) eqn:Hex; cbn [negb app].
    - (* x has an earlier twin: everything equal to x is already excluded by E *)
      apply filter_ext. intros y. unfold notin. rewrite existsb_app. cbn [existsb].
      rewrite Bool.orb_false_r.
      destruct (existsb (fun y0 => eqb y0 y) E) eqn:Hy; cbn [orb negb]; [now rewrite Bool.andb_false_r|].
      now rewrite Bool.andb_true_r.
    - f_equal. apply filter_ext. intros y. unfold notin. rewrite existsb_app. cbn [existsb].
      rewrite Bool.orb_false_r, Bool.negb_orb. apply Bool.andb_comm.
  Qed.

  Theorem nodup_first_positionwise l : nodup_first eqb l = keep_firsts eqb [] l.
  Proof.
    rewrite keep_firsts_filter. symmetry. apply filter_true. reflexivity.
  Qed.

  Lemma keep_firsts_app : forall l1 l2 E,
    keep_firsts eqb E (l1 ++ l2) = keep_firsts eqb E l1 ++ keep_firsts eqb (E ++ l1) l2.
  Proof.
    induction l1 as [|x l1 IH]; intros l2 E; cbn [app keep_firsts].
    - now rewrite app_nil_r.
    - rewrite IH, <- !app_assoc. reflexivity.
  Qed.

  (* the result on a concatenation: the result on the front, then the rows of the back that have
     no equal row before them (in the front or earlier in the back) *)
  Theorem nodup_first_app l1 l2 :
    nodup_first eqb (l1 ++ l2) = nodup_first eqb l1 ++ keep_firsts eqb l1 l2.
  Proof. rewrite !nodup_first_positionwise, keep_firsts_app. reflexivity. Qed.

  (* position of the first occurrence: a row with no equal row before it is kept, right after the
     kept rows of the prefix; a row with an equal row before it is dropped *)
  Theorem nodup_first_at l1 x l2 :
    nodup_first eqb (l1 ++ x :: l2) =
      nodup_first eqb l1 ++ (if existsb (fun y => eqb y x) l1 then [] else [x])
                       ++ keep_firsts eqb (l1 ++ [x]) l2.
  Proof. rewrite nodup_first_app. reflexivity. Qed.

  Theorem nodup_first_snoc l x :
    nodup_first eqb (l ++ [x]) = nodup_first eqb l ++ (if existsb (fun y => eqb y x) l then [] else [x]).
  Proof. rewrite nodup_first_at. cbn [keep_firsts]. now rewrite app_nil_r. Qed.

  Lemma subseq_refl (l : list A) : subseq l l.
  Proof. induction l; [apply sub_nil | apply sub_take; auto]. Qed.

  Lemma subseq_filter (f : A -> bool) l : subseq (filter f l) l.
  Proof. induction l as [|a l IH]; cbn; [constructor|]. destruct (f a); [apply sub_take | apply sub_skip]; auto. Qed.

  Lemma subseq_trans (a b c : list A) : subseq a b -> subseq b c -> subseq a c.
  Proof.
    intros Hab Hbc. revert a Hab. induction Hbc; intros a Hab.
    - auto.
    - apply sub_skip. auto.
    - inversion Hab; subst; [apply sub_skip | apply sub_take]; auto.
  Qed.

  Lemma subseq_In (s l : list A) x : subseq s l -> In x s -> In x l.
  Proof. induction 1; cbn; intros; auto. destruct H0; auto. Qed.

  (* order is preserved and nothing is invented *)
  Theorem nodup_first_subseq l : subseq (nodup_first eqb l) l.
  Proof.
    induction l as [|x r IH]; cbn; [apply sub_nil | apply sub_take].
    eapply subseq_trans; [apply subseq_filter | exact IH].
  Qed.

  Theorem nodup_first_incl l x : In x (nodup_first eqb l) -> In x l.
  Proof. apply subseq_In, nodup_first_subseq. Qed.

  (* nothing is lost: every input row has an equal row in the output *)
  Theorem nodup_first_complete l x :
    In x l -> exists y, In y (nodup_first eqb l) /\ eqb y x = true.
  Proof.
    induction l as [|a r IH]; cbn; intros Hin; [contradiction|].
    destruct Hin as [->|Hin].
    - exists x. split; auto. apply (eqb_refl EQ).
    - destruct (IH Hin) as (y & Hy & Hyx).
      destruct (eqb a y) eqn:Hay.
      + exists a. split; auto. eapply (eqb_trans EQ); eauto.
      + exists y. split; auto. right. apply filter_In. split; auto. now rewrite Hay.
  Qed.

  (* no two kept rows are equal *)
  Theorem nodup_first_all_distinct l : all_distinct eqb (nodup_first eqb l).
  Proof.
    induction l as [|x r IH]; cbn; constructor.
    - intros y Hy. apply filter_In in Hy. destruct Hy as [_ Hy]. now destruct (eqb x y).
    - revert IH. generalize (nodup_first eqb r). intros l IH.
      induction IH as [|a l Ha Hl IHl]; cbn; [constructor|].
      destruct (negb (eqb x a)); auto. constructor; auto.
      intros y Hy. apply Ha. apply filter_In in Hy. tauto.
  Qed.

  Lemma nodup_first_fixed l : all_distinct eqb l -> nodup_first eqb l = l.
  Proof.
    induction 1 as [|x l Hx Hl IH]; cbn; auto.
    rewrite IH. f_equal. apply filter_true. intros y Hy. now rewrite Hx.
  Qed.

  Theorem nodup_first_idem l : nodup_first eqb (nodup_first eqb l) = nodup_first eqb l.
  Proof. apply nodup_first_fixed, nodup_first_all_distinct. Qed.

  (* "exactly once": among the kept rows exactly one equals a given input row *)
  Lemma all_distinct_once L x y :
    all_distinct eqb L -> In y L -> eqb x y = true -> List.length (filter (eqb x) L) = 1%nat.
  Proof.
    induction 1 as [|a l Ha Hl IH]; cbn; intros Hin Hxy; [contradiction|].
    destruct Hin as [->|Hin].
    - rewrite Hxy. cbn. f_equal. rewrite filter_false; auto.
      intros z Hz. destruct (eqb x z) eqn:Hxz; auto.
      rewrite <- (Ha z Hz). symmetry. eapply (eqb_trans EQ); [|eassumption].
      rewrite (eqb_sym EQ). exact Hxy.
    - destruct (eqb x a) eqn:Hxa; [|auto].
      exfalso. rewrite (eqb_sym EQ) in Hxa.
      assert (eqb a y = true) by (eapply (eqb_trans EQ); eauto).
      rewrite (Ha y Hin) in H. discriminate.
  Qed.

  Theorem nodup_first_exactly_once l x :
    In x l -> List.length (filter (eqb x) (nodup_first eqb l)) = 1%nat.
  Proof.
    intros Hin. destruct (nodup_first_complete l x Hin) as (y & Hy & Hyx).
    eapply all_distinct_once; eauto using nodup_first_all_distinct.
    now rewrite (eqb_sym EQ).
  Qed.

  Lemma nodup_first_Forall (P : A -> Prop) l : Forall P l -> Forall P (nodup_first eqb l).
  Proof.
    rewrite !Forall_forall. intros H x Hx. apply H. now apply nodup_first_incl.
  Qed.
End SpecFacts.

(* ================================================================== *)
(* 2. the engine's DISTINCT against the specification                  *)
(* ================================================================== *)

Section DistinctBy.
  Variable K : Type.
  Variable fp : value -> K.
  Variable keq : K -> K -> bool.
  Variable eqv : value -> value -> bool.
  Hypothesis EQ : equivalence_b eqv.
  (* the fingerprint is injective up to the row equivalence, and equal rows get equal fingerprints *)
  Hypothesis FP : forall a b, keq (fp a) (fp b) = eqv a b.

  Let notin (S : list value) (x : value) : bool := negb (existsb (fun y => eqv y x) S).

  (* invariant of the scan: [seen] holds the fingerprints of the rows [S] met so far *)
  Lemma distinct_by_filter : forall rows S,
    distinct_by K fp keq (map fp S) rows = filter (notin S) (nodup_first eqv rows).
  Proof.
    induction rows as [|r rest IH]; intros S; cbn [distinct_by nodup_first filter]; auto.
    assert (Hex : existsb (keq (fp r)) (map fp S) = existsb (fun y => eqv y r) S).
    { induction S as [|s S IHS]; cbn; auto. rewrite FP, IHS, (eqb_sym EQ). reflexivity. }
    rewrite Hex, filter_filter. change (notin S r) with (negb (existsb (fun y => eqv y r) S)).
    destruct (existsb (fun y => eqv y r) S) eqn:Hin; cbn [negb].
    - rewrite IH. apply filter_ext. intros y. unfold notin.
      destruct (existsb (fun y0 => eqv y0 y) S) eqn:Hy; cbn; [now rewrite Bool.andb_false_r|].
      rewrite Bool.andb_true_r.
      destruct (eqv r y) eqn:Hry; cbn; auto. exfalso.
      apply existsb_exists in Hin. destruct Hin as (e & He & Her).
      assert (Hc : existsb (fun y0 => eqv y0 y) S = true).
      { apply existsb_exists. exists e. split; auto. eapply (eqb_trans EQ); eauto. }
      congruence.
    - f_equal. change (fp r :: map fp S) with (map fp (r :: S)). rewrite IH.
      apply filter_ext. intros y. unfold notin. cbn [existsb].
      rewrite Bool.negb_orb. reflexivity.
  Qed.

  Theorem distinct_by_exact rows : distinct_by K fp keq [] rows = nodup_first eqv rows.
  Proof.
    change (@nil K) with (map fp []). rewrite distinct_by_filter.
    apply filter_true. reflexivity.
  Qed.
End DistinctBy.

(* ================================================================== *)
(* 3. the executable instance: rows compared with [veqb]               *)
(* ================================================================== *)

(* reflexivity of the float identity needs nothing: is_nan x is by definition negb (x =? x) *)
Lemma feqb_refl x : feqb x x = true.
Proof.
  unfold feqb. destruct (PrimFloat.is_nan x) eqn:Hn; auto.
  unfold PrimFloat.is_nan in Hn. apply Bool.negb_false_iff in Hn. rewrite Hn. cbn.
  apply Bool.eqb_reflx.
Qed.

(* the two IEEE facts that are not proved here (they hold for binary64: [feqb] says "both NaN, or
   numerically equal with the same sign bit") *)
Record FeqLaws : Prop := {
  feq_sym : forall x y, feqb x y = feqb y x;
  feq_trans : forall x y z, feqb x y = true -> feqb y z = true -> feqb x z = true
}.

Lemma veqb_arr_cons p x q y :
  veqb (VArr (p :: x)) (VArr (q :: y)) = veqb p q && veqb (VArr x) (VArr y).
Proof. reflexivity. Qed.

Lemma veqb_obj_cons k p x k' q y :
  veqb (VObj ((k, p) :: x)) (VObj ((k', q) :: y)) =
  String.eqb k k' && veqb p q && veqb (VObj x) (VObj y).
Proof. reflexivity. Qed.

Lemma veqb_refl v : veqb v v = true.
Proof.
  induction v as [| b | f | s | l IH | kvs IH] using value_ind'; cbn [veqb]; auto.
  - apply Bool.eqb_reflx.
  - apply feqb_refl.
  - apply String.eqb_refl.
  - change (veqb (VArr l) (VArr l) = true).
    induction IH as [|x l Hx _ IHl]; [reflexivity|]. now rewrite veqb_arr_cons, Hx, IHl.
  - change (veqb (VObj kvs) (VObj kvs) = true).
    induction IH as [|[k x] l Hx _ IHl]; [reflexivity|].
    cbn [snd] in Hx. now rewrite veqb_obj_cons, Hx, IHl, String.eqb_refl.
Qed.

Section VeqbLaws.
  Hypothesis FL : FeqLaws.

  Lemma veqb_sym : forall a b, veqb a b = veqb b a.
  Proof.
    induction a as [| b | f | s | l IH | kvs IH] using value_ind'; intros c; destruct c; try reflexivity.
    - cbn. destruct b, b0; reflexivity.
    - cbn. apply (feq_sym FL).
    - cbn. apply String.eqb_sym.
    - revert l0. induction IH as [|x l Hx _ IHl]; intros [|y l0]; try reflexivity.
      now rewrite !veqb_arr_cons, Hx, IHl.
    - revert kvs0. induction IH as [|[k x] l Hx _ IHl]; intros [|[k' y] l0]; try reflexivity.
      cbn [snd] in Hx. now rewrite !veqb_obj_cons, Hx, IHl, String.eqb_sym.
  Qed.

  Lemma veqb_trans : forall a b c, veqb a b = true -> veqb b c = true -> veqb a c = true.
  Proof.
    induction a as [| b | f | s | l IH | kvs IH] using value_ind';
      intros b' c' H1 H2; destruct b'; try discriminate H1; destruct c'; try discriminate H2; auto.
    - cbn in *. apply Bool.eqb_prop in H1, H2. subst. apply Bool.eqb_reflx.
    - cbn in *. eapply (feq_trans FL); eauto.
    - cbn in *. apply String.eqb_eq in H1, H2. subst. apply String.eqb_refl.
    - revert l0 l1 H1 H2. induction IH as [|x l Hx _ IHl]; intros [|y l0] [|z l1] H1 H2;
        try discriminate H1; try discriminate H2; auto.
      rewrite veqb_arr_cons in *. apply Bool.andb_true_iff in H1, H2.
      destruct H1 as [H1 H1'], H2 as [H2 H2'].
      rewrite (Hx _ _ H1 H2), (IHl _ _ H1' H2'). reflexivity.
    - revert kvs0 kvs1 H1 H2.
      induction IH as [|[k x] l Hx _ IHl]; intros [|[k1 y] l0] [|[k2 z] l1] H1 H2;
        try discriminate H1; try discriminate H2; auto.
      cbn [snd] in Hx. rewrite veqb_obj_cons in *.
      apply Bool.andb_true_iff in H1, H2. destruct H1 as [H1 H1'], H2 as [H2 H2'].
      apply Bool.andb_true_iff in H1, H2. destruct H1 as [K1 H1], H2 as [K2 H2].
      apply String.eqb_eq in K1, K2. subst.
      rewrite (Hx _ _ H1 H2), (IHl _ _ H1' H2'), String.eqb_refl. reflexivity.
  Qed.

  Theorem veqb_equivalence : equivalence_b veqb.
  Proof. constructor; [exact veqb_refl | exact veqb_sym | exact veqb_trans]. Qed.

  Theorem exec_distinct_exact rows :
    exec_distinct true rows = nodup_first veqb rows.
  Proof.
    unfold exec_distinct. apply distinct_by_exact with (eqv := veqb).
    - exact veqb_equivalence.
    - reflexivity.
  Qed.

  Theorem exec_distinct_idem rows :
    exec_distinct true (exec_distinct true rows) = exec_distinct true rows.
  Proof. rewrite !exec_distinct_exact. apply nodup_first_idem. Qed.
End VeqbLaws.

Lemma exec_distinct_off rows : exec_distinct false rows = rows.
Proof. reflexivity. Qed.

(* ================================================================== *)
(* 4. the defect that was repaired: %v text is not injective on rows   *)
(* ================================================================== *)

Definition pinned_fp : value -> option string := fmt_value.
Definition opt_str_eqb (a b : option string) : bool :=
  match a, b with
  | Some x, Some y => String.eqb x y
  | None, None => true
  | _, _ => false
  end.

Definition witness_a : value := VObj [("a"%string, VStr "1 b:x")].
Definition witness_b : value := VObj [("a"%string, VNum 1%float); ("b"%string, VStr "x")].

Lemma text_not_injective :
  veqb witness_a witness_b = false /\
  pinned_fp witness_a = Some "map[a:1 b:x]"%string /\
  pinned_fp witness_b = Some "map[a:1 b:x]"%string /\
  distinct_by _ pinned_fp opt_str_eqb [] [witness_a; witness_b] = [witness_a] /\
  nodup_first veqb [witness_a; witness_b] = [witness_a; witness_b].
Proof. vm_compute. repeat split. Qed.

(* ================================================================== *)
(* 5. SELECT * over a canonical object is the identity                 *)
(* ================================================================== *)

Fixpoint keys_sorted (kv : list (string * value)) : bool :=
  match kv with
  | [] => true
  | (k, _) :: r =>
      match r with
      | [] => true
      | (k', _) :: _ => match String.compare k k' with Lt => keys_sorted r | _ => false end
      end
  end.

(* a row as the harness (and encoding/json) presents it: an object whose keys are strictly increasing *)
Definition canon_row (v : value) : bool :=
  match v with VObj kv => keys_sorted kv | _ => false end.

Lemma keys_sorted_inv k v r :
  keys_sorted ((k, v) :: r) = true ->
  (forall b, In b r -> String.compare k (fst b) = Lt) /\ keys_sorted r = true.
Proof.
  revert k v. induction r as [|[k' v'] r IH]; intros k v H.
  - split; [intros b []|reflexivity].
  - cbn [keys_sorted] in H. destruct (String.compare k k') eqn:Hc; try discriminate.
    change (keys_sorted ((k', v') :: r) = true) in H.
    split; auto. intros b [<-|Hb]; auto.
    destruct (IH _ _ H) as [Hall _]. eapply string_compare_lt_trans; eauto.
Qed.

Lemma obj_set_append k v acc :
  (forall a, In a acc -> String.compare (fst a) k = Lt) -> obj_set k v acc = acc ++ [(k, v)].
Proof.
  induction acc as [|[k' v'] acc IH]; intros H; cbn [obj_set app]; auto.
  assert (Hk : String.compare k' k = Lt) by (apply (H (k', v')); left; reflexivity).
  rewrite String.compare_antisym, Hk. cbn [CompOpp]. f_equal. apply IH. intros; apply H; right; auto.
Qed.

Lemma obj_merge_sorted : forall kv acc,
  keys_sorted kv = true ->
  (forall a b, In a acc -> In b kv -> String.compare (fst a) (fst b) = Lt) ->
  obj_merge acc kv = acc ++ kv.
Proof.
  unfold obj_merge.
  induction kv as [|[k v] kv IH]; intros acc Hs Hlt; cbn [fold_left fst snd].
  - now rewrite app_nil_r.
  - destruct (keys_sorted_inv _ _ _ Hs) as [Hk Hs'].
    rewrite obj_set_append by (intros a Ha; apply (Hlt a (k, v)); [auto | left; reflexivity]).
    rewrite IH; auto.
    + rewrite <- app_assoc. reflexivity.
    + intros a b Ha Hb. apply in_app_or in Ha. destruct Ha as [Ha|[<-|[]]].
      * apply Hlt; [auto | right; auto].
      * apply Hk; auto.
Qed.

Theorem obj_merge_nil_sorted kv : keys_sorted kv = true -> obj_merge [] kv = kv.
Proof. intros H. apply obj_merge_sorted; auto. intros a b []. Qed.

(* ================================================================== *)
(* 6. the LIMIT/OFFSET window on a slice without spare capacity        *)
(* ================================================================== *)

Lemma window_none rs : window rs (List.length rs) None None = Ok rs.
Proof.
  unfold window. destruct (Z.of_nat (List.length rs) <=? 0)%Z eqn:H0.
  - destruct rs; [reflexivity | cbn [List.length] in H0; lia].
  - rewrite Z.sub_0_r, Z.ltb_irrefl. unfold go_slice.
    replace ((0 <=? 0)%Z && (0 <=? 0 + Z.of_nat (List.length rs))%Z &&
             (0 + Z.of_nat (List.length rs) <=? Z.of_nat (List.length rs))%Z) with true by lia.
    rewrite Nat.sub_diag. cbn [repeat]. rewrite app_nil_r. cbn [Z.to_nat skipn].
    replace (Z.to_nat (0 + Z.of_nat (List.length rs) - 0)) with (List.length rs) by lia.
    now rewrite firstn_all.
Qed.

(* for non-negative LIMIT / OFFSET the window is take-after-drop *)
Definition window_ref (rs : list value) (limit offset : option Z) : list value :=
  let dropped := skipn (Z.to_nat (match offset with Some o => o | None => 0%Z end)) rs in
  match limit with Some l => firstn (Z.to_nat l) dropped | None => dropped end.

Lemma window_take_drop rs limit offset :
  (forall l, limit = Some l -> (0 <= l)%Z) -> (forall o, offset = Some o -> (0 <= o)%Z) ->
  window rs (List.length rs) limit offset = Ok (window_ref rs limit offset).
Proof.
  intros Hl Ho. unfold window, window_ref.
  set (len := Z.of_nat (List.length rs)).
  set (off := match offset with Some o => o | None => 0%Z end).
  assert (Hoff : (0 <= off)%Z) by (subst off; destruct offset; [apply Ho; auto | lia]).
  set (lim := match limit with Some l => l | None => len end).
  assert (Hlim : (0 <= lim)%Z) by (subst lim len; destruct limit; [apply Hl; auto | lia]).
  destruct (len <=? off)%Z eqn:Hle.
  - assert (Hs : skipn (Z.to_nat off) rs = []) by (apply skipn_all2; subst len; lia).
    rewrite Hs. destruct limit; [now rewrite firstn_nil | reflexivity].
  - set (lim' := if (len - off <? lim)%Z then (len - off)%Z else lim).
    assert (Hlim' : (0 <= lim' /\ lim' <= len - off /\ lim' <= lim)%Z)
      by (subst lim'; destruct (len - off <? lim)%Z eqn:?; lia).
    unfold go_slice.
    replace ((0 <=? off)%Z && (off <=? off + lim')%Z && (off + lim' <=? Z.of_nat (List.length rs))%Z)
      with true by (subst len; lia).
    rewrite Nat.sub_diag. cbn [repeat]. rewrite app_nil_r. f_equal.
    replace (off + lim' - off)%Z with lim' by lia.
    assert (Hlen : List.length (skipn (Z.to_nat off) rs) = Z.to_nat (len - off))
      by (rewrite skipn_length; subst len; lia).
    destruct limit as [l|].
    + subst lim lim'. destruct (len - off <? l)%Z eqn:Hc; auto.
      rewrite !firstn_all2; auto; rewrite Hlen; lia.
    + subst lim lim'. destruct (len - off <? len)%Z eqn:Hc.
      * apply firstn_all2. rewrite Hlen. lia.
      * apply firstn_all2. rewrite Hlen. lia.
Qed.

(* ================================================================== *)
(* 7. one SELECT, stage by stage                                        *)
(* ================================================================== *)

Definition with_distinct (d : bool) (s : select stmt) : select stmt :=
  {| s_with := s_with s; s_from := s_from s; s_where := s_where s; s_group := s_group s;
     s_having := s_having s; s_items := s_items s; s_distinct := d;
     s_order := s_order s; s_limit := s_limit s; s_offset := s_offset s |}.

Section Stages.
  Variable rec : qctx -> job -> res value.
  Variable call : string -> string -> list value -> row -> res raw.
  Variable join : jointype -> jstrategy -> list value -> list value -> string -> string ->
                  expr stmt -> row -> res (list value).

  (* FROM/WHERE, GROUP BY/HAVING and the select list: the rows DISTINCT gets to see *)
  Definition select_stage (ctx : qctx) (s : select stmt) (from : list value) : res (list value) :=
    let! filtered := filter_rows rec ctx s (mk_env rec call join ctx s []) from in
    let! grouped := exec_group_by (mk_env rec call join ctx s filtered) s filtered in
    exec_select (mk_env rec call join ctx s filtered) s grouped.

  (* DISTINCT, ORDER BY, LIMIT/OFFSET *)
  Definition tail_stage (s : select stmt) (selected : list value) : res value :=
    let! ordered := exec_order_by (s_order s) (exec_distinct (s_distinct s) selected) in
    let! win := window ordered (List.length ordered) (s_limit s) (s_offset s) in
    Ok (VArr win).

  Lemma run_select_stages ctx s from :
    run_select rec call join ctx s (Some from) =
    catch_panic (let! selected := select_stage ctx s from in tail_stage s selected).
  Proof.
    unfold run_select, select_stage, tail_stage. f_equal.
    destruct (filter_rows rec ctx s (mk_env rec call join ctx s []) from) as [filtered| | |]; cbn [bind]; auto.
    destruct (exec_group_by (mk_env rec call join ctx s filtered) s filtered) as [grouped| | |]; cbn [bind]; auto.
  Qed.

  (* the DISTINCT flag is consulted by nothing before the DISTINCT step *)
  Lemma select_stage_distinct_irrelevant ctx s d from :
    select_stage ctx (with_distinct d s) from = select_stage ctx s from.
  Proof. reflexivity. Qed.

  Section WithLaws.
    Hypothesis FL : FeqLaws.

    (* SELECT DISTINCT ... returns the rows of SELECT ... with exactly the duplicates removed (queries
       without ORDER BY / LIMIT, where the row sequence is the whole observable) *)
    Theorem distinct_query ctx s from rows :
      s_order s = [] -> s_limit s = None -> s_offset s = None ->
      run_select rec call join ctx (with_distinct false s) (Some from) = Ok (VArr rows) ->
      run_select rec call join ctx (with_distinct true s) (Some from) = Ok (VArr (nodup_first veqb rows)).
    Proof.
      intros Ho Hl Hf. rewrite !run_select_stages, !select_stage_distinct_irrelevant.
      destruct (select_stage ctx s from) as [sel| | |]; cbn [bind catch_panic]; try discriminate.
      unfold tail_stage. cbn [with_distinct s_order s_limit s_offset s_distinct].
      rewrite Ho, Hl, Hf. cbn [exec_order_by bind]. rewrite !window_none. cbn [bind catch_panic].
      rewrite exec_distinct_off, (exec_distinct_exact FL). intros H. inversion H. reflexivity.
    Qed.

    (* with ORDER BY / LIMIT the later stages run on the deduplicated rows *)
    Theorem distinct_query_general ctx s from :
      run_select rec call join ctx (with_distinct true s) (Some from) =
      catch_panic (let! selected := select_stage ctx s from in
                   let! ordered := exec_order_by (s_order s) (nodup_first veqb selected) in
                   let! win := window ordered (List.length ordered) (s_limit s) (s_offset s) in
                   Ok (VArr win)).
    Proof.
      rewrite run_select_stages, select_stage_distinct_irrelevant. f_equal.
      destruct (select_stage ctx s from) as [sel| | |]; cbn [bind]; auto.
      unfold tail_stage. cbn [with_distinct s_order s_limit s_offset s_distinct].
      now rewrite (exec_distinct_exact FL).
    Qed.
  End WithLaws.

  (* ---------------------------------------------------------------- *)
  (* UNION                                                              *)
  (* ---------------------------------------------------------------- *)

  Lemma filter_rows_obj ctx s E kv r :
    filter_rows rec ctx s E (VObj kv :: r) =
    let! keep := eval_cond E kv (s_where s) in
    let! rest := filter_rows rec ctx s E r in
    Ok (if keep then VObj kv :: rest else rest).
  Proof. reflexivity. Qed.

  Lemma filter_rows_canon ctx s E rows :
    s_where s = None -> Forall (fun v => canon_row v = true) rows ->
    filter_rows rec ctx s E rows = Ok rows.
  Proof.
    intros Hw H. induction H as [|v rows Hv _ IH]; [reflexivity|].
    destruct v; try discriminate Hv. rewrite filter_rows_obj, IH, Hw. reflexivity.
  Qed.

  Lemma mapM_cons {X Y} (f : X -> res Y) a r :
    mapM f (a :: r) = let! b := f a in let! bs := mapM f r in Ok (b :: bs).
  Proof. reflexivity. Qed.

  Lemma exec_select_star E s rows :
    s_group s = [] -> s_items s = [IStar] -> Forall (fun v => canon_row v = true) rows ->
    exec_select E s rows = Ok rows.
  Proof.
    intros Hg Hi H. unfold exec_select. rewrite Hg, Hi. cbn [all_aggregate forallb is_agg_item andb].
    induction H as [|v rows Hv _ IH]; [reflexivity|].
    destruct v; try discriminate Hv. rewrite mapM_cons, IH. cbn [select_expr bind].
    cbn [canon_row] in Hv. now rewrite (obj_merge_nil_sorted _ Hv).
  Qed.

  Lemma select_stage_union ctx all limit offset rows :
    Forall (fun v => canon_row v = true) rows ->
    select_stage ctx (union_select all limit offset) rows = Ok rows.
  Proof.
    intros H. unfold select_stage. rewrite filter_rows_canon by auto. cbn [bind].
    unfold exec_group_by. cbn [union_select s_group bind].
    apply exec_select_star; auto.
  Qed.

  (* what the engine does with the two branch results *)
  Definition union_rows (all : bool) (la ra : list value) : list value :=
    exec_distinct (negb all) (la ++ ra).

  Lemma exec_step_union ctx all l r limit offset lv rv la ra :
    rec ctx (JStmt l) = Ok lv -> rec ctx (JStmt r) = Ok rv ->
    as_array lv = Ok la -> as_array rv = Ok ra ->
    Forall (fun v => canon_row v = true) la -> Forall (fun v => canon_row v = true) ra ->
    exec_step rec call join ctx (JStmt (SUnion all l r limit offset)) =
    catch_panic (let! win := window (union_rows all la ra) (List.length (union_rows all la ra)) limit offset in
                 Ok (VArr win)).
  Proof.
    intros Hl Hr Hla Hra Cl Cr. cbn [exec_step]. rewrite Hl, Hr. cbn [bind]. rewrite Hla, Hra. cbn [bind].
    rewrite run_select_stages, select_stage_union by (apply Forall_app; auto).
    reflexivity.
  Qed.

  Theorem union_all ctx l r lv rv la ra :
    rec ctx (JStmt l) = Ok lv -> rec ctx (JStmt r) = Ok rv ->
    as_array lv = Ok la -> as_array rv = Ok ra ->
    Forall (fun v => canon_row v = true) la -> Forall (fun v => canon_row v = true) ra ->
    exec_step rec call join ctx (JStmt (SUnion true l r None None)) = Ok (VArr (la ++ ra)).
  Proof.
    intros. erewrite exec_step_union by eauto. unfold union_rows. cbn [negb].
    rewrite exec_distinct_off, window_none. reflexivity.
  Qed.

  Theorem union_dedup ctx l r lv rv la ra :
    FeqLaws ->
    rec ctx (JStmt l) = Ok lv -> rec ctx (JStmt r) = Ok rv ->
    as_array lv = Ok la -> as_array rv = Ok ra ->
    Forall (fun v => canon_row v = true) la -> Forall (fun v => canon_row v = true) ra ->
    exec_step rec call join ctx (JStmt (SUnion false l r None None)) =
    Ok (VArr (nodup_first veqb (la ++ ra))).
  Proof.
    intros FL **. erewrite exec_step_union by eauto. unfold union_rows. cbn [negb].
    rewrite (exec_distinct_exact FL), window_none. reflexivity.
  Qed.

  Lemma union_rows_spec all la ra : FeqLaws -> union_rows all la ra = union_spec veqb all la ra.
  Proof.
    intros FL. unfold union_rows, union_spec. destruct all; cbn [negb]; auto.
    apply (exec_distinct_exact FL).
  Qed.

  (* LIMIT / OFFSET on a union: the window of the combined (deduplicated) rows *)
  Theorem union_limit ctx all l r limit offset lv rv la ra :
    FeqLaws ->
    rec ctx (JStmt l) = Ok lv -> rec ctx (JStmt r) = Ok rv ->
    as_array lv = Ok la -> as_array rv = Ok ra ->
    Forall (fun v => canon_row v = true) la -> Forall (fun v => canon_row v = true) ra ->
    let combined := union_spec veqb all la ra in
    exec_step rec call join ctx (JStmt (SUnion all l r limit offset)) =
    catch_panic (let! win := window combined (List.length combined) limit offset in Ok (VArr win)).
  Proof.
    intros FL **. erewrite exec_step_union by eauto. now rewrite (union_rows_spec _ _ _ FL).
  Qed.

  (* ... which for non-negative LIMIT / OFFSET is take-after-drop of the combined rows *)
  Theorem union_limit_take_drop ctx all l r limit offset lv rv la ra :
    FeqLaws ->
    rec ctx (JStmt l) = Ok lv -> rec ctx (JStmt r) = Ok rv ->
    as_array lv = Ok la -> as_array rv = Ok ra ->
    Forall (fun v => canon_row v = true) la -> Forall (fun v => canon_row v = true) ra ->
    (forall n, limit = Some n -> (0 <= n)%Z) -> (forall n, offset = Some n -> (0 <= n)%Z) ->
    exec_step rec call join ctx (JStmt (SUnion all l r limit offset)) =
    Ok (VArr (window_ref (union_spec veqb all la ra) limit offset)).
  Proof.
    intros FL **. erewrite union_limit by eauto. cbv zeta.
    rewrite window_take_drop by auto. reflexivity.
  Qed.
End Stages.

(* ================================================================== *)
(* 8. chains  A0 op1 A1 op2 A2 ...  through the fuelled interpreter     *)
(* ================================================================== *)

Section Chain.
  Variable call : string -> string -> list value -> row -> res raw.
  Variable join : jointype -> jstrategy -> list value -> list value -> string -> string ->
                  expr stmt -> row -> res (list value).

  (* the statement evaluates to the rows [rows] whenever the interpreter is given at least [m0]
     units of fuel (a single object counts as a one-row result, as AsArray does) *)
  Definition yields (m0 : nat) (ctx : qctx) (q : stmt) (rows : list value) : Prop :=
    forall m, (m0 <= m)%nat -> exists v, exec call join m ctx (JStmt q) = Ok v /\ as_array v = Ok rows.

  (* a branch of the chain: its flag (true = UNION ALL), its statement, the rows it evaluates to *)
  Definition branch := (bool * stmt * list value)%type.
  Definition br_syntax (b : branch) : bool * stmt := fst b.
  Definition br_result (b : branch) : bool * list value := (fst (fst b), snd b).

  (* ((first op1 b1) op2 b2) ... : how the parser nests  first op1 b1 op2 b2 ... *)
  Definition chain_stmt (first : stmt) (rest : list (bool * stmt)) : stmt :=
    fold_left (fun acc br => SUnion (fst br) acc (snd br) None None) rest first.

  Definition canon_rows (l : list value) : Prop := Forall (fun v => canon_row v = true) l.

  Lemma union_spec_canon all a b : canon_rows a -> canon_rows b -> canon_rows (union_spec veqb all a b).
  Proof.
    intros Ha Hb. unfold union_spec. destruct all.
    - apply Forall_app; auto.
    - apply nodup_first_Forall, Forall_app; auto.
  Qed.

  Lemma union_step_yields (FL : FeqLaws) ctx all l r ml mr la ra :
    yields ml ctx l la -> yields mr ctx r ra -> canon_rows la -> canon_rows ra ->
    forall m, (S (Nat.max ml mr) <= m)%nat ->
      exec call join m ctx (JStmt (SUnion all l r None None)) = Ok (VArr (union_spec veqb all la ra)).
  Proof.
    intros Hl Hr Cl Cr m Hm. destruct m as [|m]; [lia|]. cbn [exec].
    destruct (Hl m ltac:(lia)) as (lv & Hlv & Hla). destruct (Hr m ltac:(lia)) as (rv & Hrv & Hra).
    erewrite union_limit by eauto. cbv zeta. rewrite window_none. reflexivity.
  Qed.

  Theorem union_chain (FL : FeqLaws) ctx m0 first r0 : forall (rest : list branch),
    yields m0 ctx first r0 -> canon_rows r0 ->
    Forall (fun b => yields m0 ctx (snd (fst b)) (snd b) /\ canon_rows (snd b)) rest ->
    yields (m0 + List.length rest) ctx (chain_stmt first (map br_syntax rest))
           (union_chain_spec veqb r0 (map br_result rest))
    /\ canon_rows (union_chain_spec veqb r0 (map br_result rest)).
  Proof.
    induction rest as [|b rest IH] using rev_ind; intros H0 C0 Hrest.
    - cbn. rewrite Nat.add_0_r. auto.
    - apply Forall_app in Hrest. destruct Hrest as [Hrest Hb].
      inversion Hb as [|? ? [Hby Hbc] _]; subst.
      destruct (IH H0 C0 Hrest) as [IHy IHc].
      unfold chain_stmt, union_chain_spec in *. rewrite !map_app, !fold_left_app. cbn [map fold_left].
      destruct b as [[all q] rows]. cbn [br_syntax br_result fst snd] in *.
      split; [|apply union_spec_canon; auto].
      intros m Hm. rewrite app_length in Hm. cbn [List.length] in Hm.
      eexists. split; [eapply union_step_yields; eauto; lia | reflexivity].
  Qed.

  (* the chain of k >= 2 branches returns exactly the left fold of the branch results *)
  Corollary union_chain_value (FL : FeqLaws) ctx m0 first r0 (rest : list branch) :
    rest <> [] ->
    yields m0 ctx first r0 -> canon_rows r0 ->
    Forall (fun b => yields m0 ctx (snd (fst b)) (snd b) /\ canon_rows (snd b)) rest ->
    forall m, (m0 + List.length rest <= m)%nat ->
      exec call join m ctx (JStmt (chain_stmt first (map br_syntax rest))) =
      Ok (VArr (union_chain_spec veqb r0 (map br_result rest))).
  Proof.
    intros Hne H0 C0 Hrest m Hm.
    destruct (exists_last Hne) as (rest' & b & ->).
    apply Forall_app in Hrest. destruct Hrest as [Hrest Hb].
    inversion Hb as [|? ? [Hby Hbc] _]; subst.
    destruct (union_chain FL ctx m0 first r0 rest' H0 C0 Hrest) as [IHy IHc].
    unfold chain_stmt, union_chain_spec in *. rewrite !map_app, !fold_left_app. cbn [map fold_left].
    destruct b as [[all q] rows]. cbn [br_syntax br_result fst snd] in *.
    rewrite app_length in Hm. cbn [List.length] in Hm.
    eapply union_step_yields; eauto. lia.
  Qed.
End Chain.

(* the fingerprint premise in "iff" form *)
Lemma distinct_by_exact_iff (K : Type) (fp : value -> K) (keq : K -> K -> bool)
      (eqv : value -> value -> bool) :
  equivalence_b eqv ->
  (forall a b, keq (fp a) (fp b) = true <-> eqv a b = true) ->
  forall rows, distinct_by K fp keq [] rows = nodup_first eqv rows.
Proof.
  intros EQ FP. apply distinct_by_exact; auto.
  intros a b. specialize (FP a b). destruct (keq (fp a) (fp b)), (eqv a b); intuition congruence.
Qed.
