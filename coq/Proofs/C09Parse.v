(* Proofs/C09Parse.v — parse_all (print_sel a) = Ok (tokens_of a) for every well-formed selector:
   the three hand-written scanners, the Trim/Split plumbing and Atoi invert the printer of
   Spec/SelectorSpec.v. *)
From Coq Require Import ZifyBool ZifyNat ZifyN.
From GenqlV Require Import Base.Prelude Base.Fmt Model.SelToken Spec.SelectorSpec Proofs.C09Strings.
Local Open Scope string_scope.

(* ---------- the token list a syntax tree stands for ---------- *)

Definition bound_tok (b : option N) : Z := match b with Some n => Z.of_N n | None => (-1)%Z end.

Definition dim_tok (d : dim) : index_sel :=
  match d with
  | DEach => IxIndex (-1)
  | DAt n => IxIndex (Z.of_N n)
  | DRange b e => IxRange (bound_tok b) (bound_tok e)
  end.

Definition ptyp_text (t : ptyp) : string :=
  match t with PNone => "" | PString => "string" | PNumber => "number" end.

Definition pipe_tok (p : string * ptyp) : pipe_sel := mkPipe (fst p) (ptyp_text (snd p)).

Definition step_tok (st : step) : token :=
  match st with
  | Key k => TKey k
  | Index ds => TIndex (map dim_tok ds)
  | Keep ds => TKeep (map dim_tok ds)
  | Pipe ps => TPipe (map pipe_tok ps)
  end.

Definition seg_toks (g : seg) : list token :=
  (match seg_fn g with Some f => [TFn f] | None => [] end ++ map step_tok (seg_steps g))%list.

Definition tokens_of (a : sel) : list (list token) := map seg_toks a.

(* ---------- small facts ---------- *)

Lemma mapM_cons_ok {A B} (f : A -> res B) a l b bs :
  f a = Ok b -> mapM f l = Ok bs -> mapM f (a :: l) = Ok (b :: bs).
Proof. intros H1 H2. cbn [mapM]. rewrite H1. cbn [bind]. rewrite H2. reflexivity. Qed.

Lemma word_neq c x : is_word c = true -> is_word x = false -> ceq c x = false.
Proof. apply class_neq. Qed.

Lemma digit_neq c x : is_digit c = true -> is_digit x = false -> ceq c x = false.
Proof. apply class_neq. Qed.

Lemma all_word_lacks x s : is_word x = false -> all_chars is_word s = true -> lacks x s = true.
Proof.
  intros Hx. unfold lacks. apply all_chars_imp. intros c Hc.
  apply negb_true_iff. apply (word_neq c x Hc Hx).
Qed.

Lemma all_digit_word s : all_chars is_digit s = true -> all_chars is_word s = true.
Proof. apply all_chars_imp. apply is_digit_word. Qed.

Lemma idx2_0 {A} (a b : A) : idx_list [a; b] 0 = Ok a.
Proof. reflexivity. Qed.
Lemma idx2_1 {A} (a b : A) : idx_list [a; b] 1 = Ok b.
Proof. reflexivity. Qed.
Lemma idx1_0 {A} (a : A) : idx_list [a] 0 = Ok a.
Proof. reflexivity. Qed.

(* \w+ at the head of w ++ rest *)
Lemma alt_word_app w rest :
  w <> EmptyString -> all_chars is_word w = true -> starts_not is_word rest ->
  alt_word (w ++ rest) = Some w.
Proof.
  intros Hne Hw Hr. unfold alt_word. rewrite (span_app _ _ _ Hw Hr).
  destruct w; [congruence|reflexivity].
Qed.

Lemma alt_word_none s : starts_not is_word s -> alt_word s = None.
Proof. intros H. unfold alt_word. rewrite (span_none _ _ H). reflexivity. Qed.

(* ---------- numbers ---------- *)

Lemma atoi_dec n : (n < int_bound)%N -> atoi (N_to_dec n) = Ok (Z.of_N n).
Proof.
  intros Hn. unfold atoi.
  destruct (N_to_dec_head n) as (c & r & E & Hc).
  assert (S : split_sign (N_to_dec n) = (false, N_to_dec n)).
  { rewrite E. unfold split_sign.
    rewrite (digit_neq c "+"%char Hc eq_refl), (digit_neq c "-"%char Hc eq_refl). reflexivity. }
  rewrite S. rewrite digits_val_dec. rewrite E at 1.
  change int_bound with 9223372036854775808%N in Hn.
  change int_min with (-9223372036854775808)%Z. change int_max with 9223372036854775807%Z.
  destruct ((Z.of_N n <? -9223372036854775808)%Z || (9223372036854775807 <? Z.of_N n)%Z) eqn:G; [exfalso; clear - Hn G; lia|reflexivity].
Qed.

Lemma read_index_dec n : (n < int_bound)%N -> read_index (N_to_dec n) = Ok (Z.of_N n).
Proof.
  intros Hn. unfold read_index. rewrite (atoi_dec n Hn). cbn [bind].
  destruct (Z.of_N n <? 0)%Z eqn:G; [lia|reflexivity].
Qed.

Lemma dec_not_kw n kw c r : kw = String c r -> is_digit c = false -> String.eqb (N_to_dec n) kw = false.
Proof.
  intros -> Hc. destruct (N_to_dec_head n) as (d & r' & E & Hd). rewrite E. cbn [String.eqb].
  fold (ceq d c). now rewrite (digit_neq d c Hd Hc).
Qed.

Lemma read_bound_print kw c r b :
  kw = String c r -> is_digit c = false -> wf_bound b = true ->
  read_bound kw (print_bound kw b) = Ok (bound_tok b).
Proof.
  intros Hkw Hc Hb. unfold read_bound, print_bound. destruct b as [n|].
  - rewrite (dec_not_kw n kw c r Hkw Hc). apply read_index_dec. apply N.ltb_lt. exact Hb.
  - rewrite String.eqb_refl. reflexivity.
Qed.

(* ---------- one dimension ---------- *)

(* characters a printed bound / dimension can contain *)
Lemma print_bound_word kw b : all_chars is_word kw = true -> all_chars is_word (print_bound kw b) = true.
Proof. intros H. destruct b; [apply all_digit_word, N_to_dec_digits|exact H]. Qed.

Definition dims_tail (tl : string) : Prop :=
  match tl with EmptyString => True | String c _ => c = ":"%char end.

Lemma dims_tail_not_word tl : dims_tail tl -> starts_not is_word tl.
Proof. destruct tl; cbn; [auto|]. intros ->. reflexivity. Qed.

Lemma dims_tail_not_rpar tl : dims_tail tl -> starts_not (fun x => ceq x c_rpar) tl.
Proof. destruct tl; cbn; [auto|]. intros ->. reflexivity. Qed.

Lemma print_dim_nonempty d : exists c r, print_dim d = String c r.
Proof.
  destruct d as [|n|b e]; cbn [print_dim].
  - do 2 eexists; reflexivity.
  - destruct (N_to_dec_head n) as (c & r & E & _). eauto.
  - do 2 eexists; cbn [append]; reflexivity.
Qed.

Lemma m_array_dim d tl :
  dims_tail tl -> m_array (print_dim d ++ tl) = Some (print_dim d).
Proof.
  intros Ht. unfold m_array. cbn [first_of].
  destruct d as [|n|b e]; cbn [print_dim].
  - (* each *)
    cbn [append alt_paren]. replace (ceq "e" c_lpar) with false by reflexivity.
    change (String "e" (String "a" (String "c" (String "h" tl)))) with ("each" ++ tl).
    rewrite alt_word_app; auto using dims_tail_not_word. discriminate.
  - (* a number *)
    destruct (N_to_dec_head n) as (c & r & E & Hc).
    assert (P : alt_paren (N_to_dec n ++ tl) = None).
    { rewrite E. cbn [append alt_paren]. now rewrite (digit_neq c c_lpar Hc eq_refl). }
    rewrite P. rewrite alt_word_app; auto using dims_tail_not_word, all_digit_word, N_to_dec_digits.
    rewrite E. discriminate.
  - (* (b:e) *)
    set (body := print_bound "begin" b ++ ":" ++ print_bound "end" e).
    replace (("(" ++ print_bound "begin" b ++ ":" ++ print_bound "end" e ++ ")") ++ tl)
      with (String c_lpar (body ++ (")" ++ tl))).
    2:{ unfold body. sapp_norm. reflexivity. }
    cbn [alt_paren]. rewrite ceq_refl.
    assert (B : all_chars (fun x => negb (ceq x c_rpar)) body = true).
    { unfold body. rewrite !all_chars_app. cbn [all_chars].
      rewrite (all_chars_imp is_word (fun x => negb (ceq x c_rpar)) (print_bound "begin" b)),
              (all_chars_imp is_word (fun x => negb (ceq x c_rpar)) (print_bound "end" e)); try reflexivity;
        try (apply print_bound_word; reflexivity);
        intros c Hc; apply negb_true_iff; apply (word_neq c c_rpar Hc eq_refl). }
    rewrite (span_app _ body (")" ++ tl) B) by reflexivity.
    change (")" ++ tl) with (String c_rpar EmptyString ++ tl).
    rewrite (span_app (fun x => ceq x c_rpar) (String c_rpar EmptyString) tl eq_refl (dims_tail_not_rpar tl Ht)).
    cbn [nonempty]. f_equal. unfold body. sapp_norm. reflexivity.
Qed.

Lemma lacks_word_bound x kw b :
  is_word x = false -> all_chars is_word kw = true -> lacks x (print_bound kw b) = true.
Proof. intros Hx Hk. apply all_word_lacks; [exact Hx|]. now apply print_bound_word. Qed.

Lemma parse_dim_print d : wf_dim d = true -> parse_dim (print_dim d) = Ok (dim_tok d).
Proof.
  intros Hwf. unfold parse_dim. destruct d as [|n|b e]; cbn [print_dim dim_tok].
  - reflexivity.
  - destruct (N_to_dec_head n) as (c & r & E & Hc). rewrite E at 1. cbn [byte0 bind].
    rewrite (digit_neq c c_lpar Hc eq_refl).
    rewrite (dec_not_kw n "each" "e"%char "ach" eq_refl eq_refl).
    rewrite read_index_dec by (apply N.ltb_lt; exact Hwf). reflexivity.
  - cbn [append byte0 bind]. rewrite ceq_refl.
    apply andb_true_iff in Hwf as [Hb He].
    unfold read_range.
    set (body := print_bound "begin" b ++ ":" ++ print_bound "end" e).
    assert (T : trim_right c_rpar (trim_left c_lpar (trim_char c_sp
                  (String "(" (print_bound "begin" b ++ ":" ++ print_bound "end" e ++ ")")))) = body).
    { replace (String "(" (print_bound "begin" b ++ ":" ++ print_bound "end" e ++ ")"))
        with (String c_lpar (body ++ String c_rpar EmptyString)).
      2:{ unfold body. sapp_norm. reflexivity. }
      rewrite trim_char_noop by reflexivity.
      apply trim_pair; [reflexivity| |];
        unfold lacks, body; rewrite !all_chars_app; cbn [all_chars].
      - fold (lacks c_lpar (print_bound "begin" b)). fold (lacks c_lpar (print_bound "end" e)).
        rewrite !lacks_word_bound; reflexivity.
      - fold (lacks c_rpar (print_bound "begin" b)). fold (lacks c_rpar (print_bound "end" e)).
        rewrite !lacks_word_bound; reflexivity. }
    cbn [append] in T. rewrite T. unfold body. cbn [append].
    rewrite split_char_app by (apply lacks_word_bound; reflexivity).
    rewrite split_char_lacks by (apply lacks_word_bound; reflexivity).
    cbn [List.length Nat.eqb negb].
    rewrite idx2_0, idx2_1. cbn [bind].
    rewrite (read_bound_print "begin" "b"%char "egin" b eq_refl eq_refl Hb). cbn [bind].
    rewrite (read_bound_print "end" "e"%char "nd" e eq_refl eq_refl He). reflexivity.
Qed.

(* ---------- a list of dimensions ---------- *)

Lemma find_all_array_colon r : find_all m_array (String ":" r) 0 = find_all m_array r 0.
Proof. apply find_all_nomatch. reflexivity. Qed.

Lemma find_all_dim d tl :
  dims_tail tl -> find_all m_array (print_dim d ++ tl) 0 = print_dim d :: find_all m_array tl 0.
Proof.
  intros Ht. pose proof (m_array_dim d tl Ht) as M.
  destruct (print_dim_nonempty d) as (c & r & E). rewrite E in *.
  apply find_all_match. exact M.
Qed.

Lemma find_all_dims ds :
  find_all m_array (print_dims ds) 0 = map print_dim ds.
Proof.
  unfold print_dims. induction ds as [|d ds IH]; [reflexivity|].
  destruct ds as [|d2 ds].
  - cbn [map join]. rewrite <- (sapp_nil_r (print_dim d)) at 1.
    rewrite find_all_dim by exact I. reflexivity.
  - change (join ":" (map print_dim (d :: d2 :: ds)))
      with (print_dim d ++ ":" ++ join ":" (map print_dim (d2 :: ds))).
    rewrite find_all_dim by reflexivity.
    cbn [append]. rewrite find_all_array_colon. rewrite IH. reflexivity.
Qed.

Lemma mapM_parse_dims ds :
  forallb wf_dim ds = true -> mapM parse_dim (map print_dim ds) = Ok (map dim_tok ds).
Proof.
  induction ds as [|d ds IH]; [reflexivity|]. cbn [forallb map]. intros H.
  apply andb_true_iff in H as [Hd Hds].
  apply mapM_cons_ok; [now apply parse_dim_print|now apply IH].
Qed.

(* ---------- a bracket token ---------- *)

Definition dim_char (c : ascii) : bool := is_word c || ceq c c_col || ceq c c_lpar || ceq c c_rpar.

Lemma word_dim_char s : all_chars is_word s = true -> all_chars dim_char s = true.
Proof. apply all_chars_imp. intros c H. unfold dim_char. now rewrite H. Qed.

Lemma print_dim_chars d : all_chars dim_char (print_dim d) = true.
Proof.
  destruct d as [|n|b e]; cbn [print_dim].
  - reflexivity.
  - apply word_dim_char, all_digit_word, N_to_dec_digits.
  - rewrite !all_chars_app.
    rewrite (word_dim_char (print_bound "begin" b)) by (apply print_bound_word; reflexivity).
    rewrite (word_dim_char (print_bound "end" e)) by (apply print_bound_word; reflexivity).
    reflexivity.
Qed.

Lemma print_dims_chars ds : all_chars dim_char (print_dims ds) = true.
Proof.
  unfold print_dims. induction ds as [|d ds IH]; [reflexivity|].
  destruct ds as [|d2 ds]; [apply print_dim_chars|].
  change (join ":" (map print_dim (d :: d2 :: ds)))
    with (print_dim d ++ ":" ++ join ":" (map print_dim (d2 :: ds))).
  rewrite !all_chars_app, print_dim_chars, IH. reflexivity.
Qed.

Lemma dim_chars_lack x s : dim_char x = false -> all_chars dim_char s = true -> lacks x s = true.
Proof.
  intros Hx. unfold lacks. apply all_chars_imp. intros c Hc.
  apply negb_true_iff. apply (class_neq dim_char c x Hc Hx).
Qed.

Lemma print_dims_head ds :
  ds <> [] -> exists c r, print_dims ds = String c r /\ ceq "k" c = false.
Proof.
  destruct ds as [|d ds]; [congruence|]. intros _.
  assert (H : exists c r, print_dim d = String c r /\ ceq "k" c = false).
  { destruct d as [|n|b e]; cbn [print_dim].
    - do 2 eexists; split; reflexivity.
    - destruct (N_to_dec_head n) as (c & r & E & Hc). exists c, r. split; [exact E|].
      rewrite ceq_sym. apply (digit_neq c "k"%char Hc eq_refl).
    - do 2 eexists; split; [cbn [append]; reflexivity|reflexivity]. }
  destruct H as (c & r & E & Hk). unfold print_dims.
  destruct ds as [|d2 ds].
  - cbn [map join]. eauto.
  - change (join ":" (map print_dim (d :: d2 :: ds)))
      with (print_dim d ++ ":" ++ join ":" (map print_dim (d2 :: ds))).
    rewrite E. cbn [append]. eauto.
Qed.

Definition keep_prefix (keep : bool) : string := if keep then "keep=>" else "".

Lemma keep_prefix_chars keep x :
  ceq x c_lbra || ceq x c_rbra = true -> lacks x (keep_prefix keep) = true.
Proof.
  intros H. destruct keep; [|reflexivity].
  apply orb_true_iff in H as [H|H]; apply ceq_true in H; subst; reflexivity.
Qed.

Lemma wf_dims_inv ds : wf_dims ds = true -> ds <> [] /\ forallb wf_dim ds = true.
Proof. destruct ds; [discriminate|]. intros H. split; [discriminate|exact H]. Qed.

Lemma parse_array_print keep ds :
  wf_dims ds = true ->
  parse_array (trim_char c_sp (String c_lbra ((keep_prefix keep ++ print_dims ds) ++ String c_rbra EmptyString)))
  = Ok (if keep then TKeep (map dim_tok ds) else TIndex (map dim_tok ds)).
Proof.
  intros Hwf. apply wf_dims_inv in Hwf as [Hne Hwf].
  rewrite trim_char_noop by reflexivity.
  unfold parse_array.
  assert (L : forall x, ceq x c_lbra || ceq x c_rbra = true -> dim_char x = false ->
                        lacks x (keep_prefix keep ++ print_dims ds) = true).
  { intros x Hx Hd. unfold lacks. rewrite all_chars_app.
    fold (lacks x (keep_prefix keep)). fold (lacks x (print_dims ds)).
    rewrite keep_prefix_chars by exact Hx.
    rewrite (dim_chars_lack x _ Hd (print_dims_chars ds)). reflexivity. }
  rewrite trim_pair; [|reflexivity|apply L; reflexivity|apply L; reflexivity].
  destruct keep; cbn [keep_prefix].
  - cbn [append strip_prefix ceq Ascii.eqb Bool.eqb andb]. cbn [strip_prefix].
    rewrite find_all_dims, (mapM_parse_dims ds Hwf). reflexivity.
  - cbn [append]. destruct (print_dims_head ds Hne) as (c & r & E & Hk).
    assert (S : strip_prefix "keep=>" (print_dims ds) = None).
    { rewrite E. cbn [strip_prefix]. now rewrite Hk. }
    rewrite S. rewrite find_all_dims, (mapM_parse_dims ds Hwf). reflexivity.
Qed.

(* ---------- keys ---------- *)

Definition q_not (x : ascii) : bool := negb (ceq x c_sq).
Definition q_is (x : ascii) : bool := ceq x c_sq.

Lemma wf_key_lacks k : wf_key k = true -> lacks c_sq k = true.
Proof. unfold wf_key. intros H. apply andb_true_iff in H as [H _]. exact H. Qed.

Lemma is_ident_inv k : is_ident k = true -> exists c r, k = String c r /\ is_word c = true /\ all_chars is_word k = true.
Proof.
  destruct k as [|c r]; [discriminate|]. cbn [is_ident]. intros H. exists c, r.
  split; [reflexivity|]. split; [|exact H]. cbn in H. apply andb_true_iff in H as [H _]. exact H.
Qed.

Lemma alt_quoted_word c s : is_word c = true -> alt_quoted (String c s) = None.
Proof. intros H. cbn [alt_quoted]. now rewrite (word_neq c c_sq H eq_refl). Qed.

Lemma alt_back_none c s : ceq c "<"%char = false -> alt_back (String c s) = None.
Proof. intros H. destruct s; cbn [alt_back]; [reflexivity|]. now rewrite H. Qed.

Lemma alt_star_none c s : ceq c "*"%char = false -> alt_star (String c s) = None.
Proof. intros H. cbn [alt_star]. now rewrite H. Qed.

(* the quoted form 'k' followed by something that is not a quote *)
Lemma alt_quoted_print k tl :
  lacks c_sq k = true -> starts_not q_is tl ->
  alt_quoted (String c_sq (k ++ String c_sq EmptyString) ++ tl) = Some (String c_sq (k ++ String c_sq EmptyString)).
Proof.
  intros Hk Ht. cbn [append alt_quoted]. rewrite ceq_refl.
  rewrite sapp_assoc.
  rewrite (span_app (fun x => negb (ceq x c_sq)) k (String c_sq EmptyString ++ tl)); [|exact Hk|reflexivity].
  rewrite (span_app (fun x => ceq x c_sq) (String c_sq EmptyString) tl eq_refl Ht). reflexivity.
Qed.

Definition step_tail (tl : string) : Prop :=
  match tl with
  | EmptyString => True
  | String c _ => c = "."%char \/ c = c_lbra \/ c = c_lcur
  end.

Lemma step_tail_not (p : ascii -> bool) tl :
  p "."%char = false -> p c_lbra = false -> p c_lcur = false -> step_tail tl -> starts_not p tl.
Proof. destruct tl; cbn; [auto|]. intros H1 H2 H3 [->| [->| ->]]; assumption. Qed.

Lemma m_full_key k tl :
  wf_key k = true -> step_tail tl -> m_full (print_key k ++ tl) = Some (print_key k).
Proof.
  intros Hk Ht. unfold print_key, m_full. destruct (is_ident k) eqn:I.
  - destruct (is_ident_inv k I) as (c & r & -> & Hc & Hall).
    cbn [first_of]. cbn [append].
    rewrite (alt_quoted_word c _ Hc).
    rewrite (alt_back_none c _ (word_neq c "<"%char Hc eq_refl)).
    rewrite (alt_star_none c _ (word_neq c "*"%char Hc eq_refl)).
    change (String c (r ++ tl)) with (String c r ++ tl).
    rewrite alt_word_app; [reflexivity|discriminate|exact Hall|].
    apply step_tail_not; auto.
  - cbn [first_of].
    replace ("'" ++ k ++ "'") with (String c_sq (k ++ String c_sq EmptyString)) by reflexivity.
    rewrite alt_quoted_print; [reflexivity|now apply wf_key_lacks|].
    apply step_tail_not; auto.
Qed.

Lemma untrim_key k :
  lacks c_sq k = true -> trim_right c_sq (trim_left c_sq (print_key k)) = k.
Proof.
  intros Hk. unfold print_key. destruct (is_ident k).
  - rewrite trim_left_lacks by exact Hk. now apply trim_right_lacks.
  - replace ("'" ++ k ++ "'") with (String c_sq (k ++ String c_sq EmptyString)) by reflexivity.
    now apply trim_both.
Qed.

Lemma print_key_head k :
  exists c r, print_key k = String c r /\ (is_word c = true \/ c = c_sq).
Proof.
  unfold print_key. destruct (is_ident k) eqn:I.
  - destruct (is_ident_inv k I) as (c & r & -> & Hc & _). eauto.
  - cbn [append]. eauto.
Qed.

Lemma parse_token_key k : wf_key k = true -> parse_token (print_key k) = Ok (TKey k).
Proof.
  intros Hk. unfold parse_token.
  destruct (print_key_head k) as (c & r & E & Hc).
  rewrite E at 1. cbn [byte0 bind].
  assert (N1 : ceq c c_lbra = false) by (destruct Hc as [Hc| ->]; [apply (word_neq c c_lbra Hc eq_refl)|reflexivity]).
  assert (N2 : ceq c c_lcur = false) by (destruct Hc as [Hc| ->]; [apply (word_neq c c_lcur Hc eq_refl)|reflexivity]).
  rewrite N1, N2. rewrite untrim_key by now apply wf_key_lacks. reflexivity.
Qed.

(* ---------- pipes ---------- *)

Definition pipe_tail (tl : string) : Prop :=
  match tl with
  | EmptyString => False
  | String c _ => c = ","%char \/ c = c_rcur
  end.

Lemma pipe_tail_not (p : ascii -> bool) tl :
  p ","%char = false -> p c_rcur = false -> pipe_tail tl -> starts_not p tl.
Proof. destruct tl; cbn; [auto|]. intros H1 H2 [->| ->]; assumption. Qed.

Lemma drop_app a b : drop (String.length a) (a ++ b) = b.
Proof. induction a as [|c a IH]; cbn; [destruct b; reflexivity|exact IH]. Qed.

Lemma pipe_suffix_none tl : pipe_tail tl -> pipe_suffix tl = None.
Proof.
  destruct tl as [|c r]; [contradiction|]. cbn [pipe_tail pipe_suffix]. intros [->| ->]; reflexivity.
Qed.

Lemma pipe_suffix_typed ty tl :
  ty <> EmptyString -> all_chars is_word ty = true -> pipe_tail tl ->
  pipe_suffix (String c_pipe (ty ++ tl)) = Some (String c_pipe ty).
Proof.
  intros Hne Hty Ht. unfold pipe_suffix.
  replace (ceq c_pipe c_bang) with false by reflexivity. rewrite ceq_refl.
  rewrite (span_app is_word ty tl Hty); [|apply pipe_tail_not; auto].
  destruct ty; [congruence|reflexivity].
Qed.

Lemma ptyp_text_word t : t <> PNone -> ptyp_text t <> EmptyString /\ all_chars is_word (ptyp_text t) = true
                                       /\ lacks c_pipe (ptyp_text t) = true.
Proof. destruct t; [congruence| |]; intros _; repeat split; discriminate. Qed.

Lemma ptyp_eq_none t : t = PNone \/ t <> PNone.
Proof. destruct t; [left; reflexivity|right; discriminate|right; discriminate]. Qed.

(* the text of a typed pipe item *)
Lemma print_pipe_typed k t : t <> PNone -> print_pipe (k, t) = print_key k ++ String c_pipe (ptyp_text t).
Proof. destruct t; [congruence| |]; reflexivity. Qed.

Lemma m_pipe_item p tl :
  wf_pipe p = true -> pipe_tail tl -> m_pipe (print_pipe p ++ tl) = Some (print_pipe p).
Proof.
  destruct p as [k t]. intros Hwf Ht. unfold m_pipe. cbn [first_of].
  destruct (ptyp_eq_none t) as [->|Hn].
  - (* bare key, no type *)
    cbn [print_pipe fst snd]. cbn [wf_pipe snd fst] in Hwf.
    destruct (is_ident_inv k Hwf) as (c & r & E & Hc & Hall).
    assert (W : alt_word (k ++ tl) = Some k).
    { apply alt_word_app; [rewrite E; discriminate|exact Hall|apply pipe_tail_not; auto]. }
    assert (T : alt_typed (k ++ tl) = None).
    { unfold alt_typed. rewrite W. rewrite E at 1. cbn [append]. rewrite (alt_quoted_word c _ Hc).
      rewrite drop_app. now rewrite pipe_suffix_none. }
    rewrite T, W. reflexivity.
  - rewrite (print_pipe_typed k t Hn).
    destruct (ptyp_text_word t Hn) as (Tne & Tw & _).
    assert (Hk : lacks c_sq k = true).
    { cbn [wf_pipe snd fst] in Hwf. destruct t; [congruence| |];
        apply andb_true_iff in Hwf as [Hwf _]; apply andb_true_iff in Hwf as [Hwf _];
        apply andb_true_iff in Hwf as [Hwf _]; now apply wf_key_lacks. }
    rewrite sapp_assoc. cbn [append].
    assert (T : alt_typed (print_key k ++ String c_pipe (ptyp_text t ++ tl))
                = Some (print_key k ++ String c_pipe (ptyp_text t))).
    { unfold alt_typed, print_key. destruct (is_ident k) eqn:I.
      - destruct (is_ident_inv k I) as (c & r & E & Hc & Hall). clear Hwf Hk I. subst k.
        cbn [append]. rewrite (alt_quoted_word c _ Hc).
        change (String c (r ++ String c_pipe (ptyp_text t ++ tl)))
          with (String c r ++ String c_pipe (ptyp_text t ++ tl)).
        rewrite alt_word_app; [|discriminate|exact Hall|reflexivity].
        rewrite drop_app. now rewrite pipe_suffix_typed.
      - replace ("'" ++ k ++ "'") with (String c_sq (k ++ String c_sq EmptyString)) by reflexivity.
        rewrite alt_quoted_print; [|exact Hk|reflexivity].
        rewrite drop_app. now rewrite pipe_suffix_typed. }
    rewrite T. reflexivity.
Qed.

Lemma lacks_app x a b : lacks x (a ++ b) = lacks x a && lacks x b.
Proof. apply all_chars_app. Qed.

Lemma print_key_lacks x k :
  ceq c_sq x = false -> lacks x k = true -> lacks x (print_key k) = true.
Proof.
  intros Hq Hk. unfold print_key. destruct (is_ident k); [exact Hk|].
  rewrite !lacks_app, Hk. unfold lacks. cbn [all_chars]. unfold ceq, c_sq in Hq. rewrite Hq. reflexivity.
Qed.

Lemma wf_pipe_typed_inv k t :
  t <> PNone -> wf_pipe (k, t) = true ->
  wf_key k = true /\ lacks c_pipe k = true /\ lacks c_lcur k = true /\ lacks c_rcur k = true.
Proof.
  intros Hn H. destruct t; [congruence| |]; cbn [wf_pipe snd fst] in H;
    apply andb_true_iff in H as [H H4]; apply andb_true_iff in H as [H H3];
    apply andb_true_iff in H as [H1 H2]; auto.
Qed.

Lemma parse_pipe_item_print p : wf_pipe p = true -> parse_pipe_item (print_pipe p) = Ok (pipe_tok p).
Proof.
  destruct p as [k t]. intros Hwf. unfold parse_pipe_item, pipe_tok. cbn [fst snd].
  destruct (ptyp_eq_none t) as [->|Hn].
  - cbn [print_pipe fst snd ptyp_text]. cbn [wf_pipe snd fst] in Hwf.
    destruct (is_ident_inv k Hwf) as (c & r & E & Hc & Hall).
    rewrite split_char_lacks by (apply all_word_lacks; [reflexivity|exact Hall]).
    rewrite idx1_0. cbn [bind List.length Nat.eqb].
    rewrite trim_left_lacks, trim_right_lacks by (apply all_word_lacks; [reflexivity|exact Hall]).
    reflexivity.
  - rewrite (print_pipe_typed k t Hn).
    destruct (wf_pipe_typed_inv k t Hn Hwf) as (Hk & Hp & _ & _).
    destruct (ptyp_text_word t Hn) as (_ & _ & Tp).
    rewrite split_char_app by (apply print_key_lacks; [reflexivity|exact Hp]).
    rewrite split_char_lacks by exact Tp.
    rewrite idx2_0, idx2_1. cbn [bind List.length Nat.eqb].
    rewrite untrim_key by now apply wf_key_lacks. reflexivity.
Qed.

Lemma print_pipe_head p : wf_pipe p = true -> exists c r, print_pipe p = String c r.
Proof.
  destruct p as [k t]. intros Hwf. destruct (ptyp_eq_none t) as [->|Hn].
  - cbn [print_pipe fst snd]. destruct (is_ident_inv k Hwf) as (c & r & E & _). eauto.
  - rewrite (print_pipe_typed k t Hn). destruct (print_key_head k) as (c & r & E & _).
    rewrite E. cbn [append]. eauto.
Qed.

Lemma find_all_pipe_item p tl :
  wf_pipe p = true -> pipe_tail tl ->
  find_all m_pipe (print_pipe p ++ tl) 0 = print_pipe p :: find_all m_pipe tl 0.
Proof.
  intros Hwf Ht. pose proof (m_pipe_item p tl Hwf Ht) as M.
  destruct (print_pipe_head p Hwf) as (c & r & E). rewrite E in *.
  apply find_all_match. exact M.
Qed.

Definition pipe_body (ps : list (string * ptyp)) : string := join ", " (map print_pipe ps).

Lemma find_all_pipe_body ps :
  forallb wf_pipe ps = true ->
  find_all m_pipe (pipe_body ps ++ "}") 0 = map print_pipe ps.
Proof.
  unfold pipe_body. induction ps as [|p ps IH]; [reflexivity|].
  cbn [forallb]. intros H. apply andb_true_iff in H as [Hp Hps].
  destruct ps as [|p2 ps].
  - cbn [map join]. rewrite find_all_pipe_item; [reflexivity|exact Hp|right; reflexivity].
  - change (join ", " (map print_pipe (p :: p2 :: ps)))
      with (print_pipe p ++ ", " ++ join ", " (map print_pipe (p2 :: ps))).
    rewrite !sapp_assoc.
    rewrite find_all_pipe_item; [|exact Hp|left; reflexivity].
    cbn [append]. rewrite find_all_nomatch by reflexivity. rewrite find_all_nomatch by reflexivity.
    rewrite (IH Hps). reflexivity.
Qed.

Lemma mapM_parse_pipes ps :
  forallb wf_pipe ps = true -> mapM parse_pipe_item (map print_pipe ps) = Ok (map pipe_tok ps).
Proof.
  induction ps as [|p ps IH]; [reflexivity|]. cbn [forallb map]. intros H.
  apply andb_true_iff in H as [Hp Hps].
  apply mapM_cons_ok; [now apply parse_pipe_item_print|now apply IH].
Qed.

(* ---------- step texts ---------- *)

Definition step_text (st : step) : string :=
  match st with
  | Key k => print_key k
  | Index ds => String c_lbra ((keep_prefix false ++ print_dims ds) ++ String c_rbra EmptyString)
  | Keep ds => String c_lbra ((keep_prefix true ++ print_dims ds) ++ String c_rbra EmptyString)
  | Pipe ps => String c_lcur (pipe_body ps ++ String c_rcur EmptyString)
  end.

Lemma print_step_text first st :
  print_step first st = (match st with Key _ => if first then "" else "." | _ => "" end) ++ step_text st.
Proof.
  destruct st; cbn [print_step step_text keep_prefix]; try reflexivity; sapp_norm; reflexivity.
Qed.

Lemma parse_token_step st : wf_step st = true -> parse_token (step_text st) = Ok (step_tok st).
Proof.
  intros Hwf. destruct st as [k|ds|ds|ps]; cbn [wf_step] in Hwf; cbn [step_text step_tok].
  - now apply parse_token_key.
  - unfold parse_token. cbn [byte0 bind]. rewrite ceq_refl. now apply (parse_array_print false).
  - unfold parse_token. cbn [byte0 bind]. rewrite ceq_refl. now apply (parse_array_print true).
  - unfold parse_token. cbn [byte0 bind].
    replace (ceq c_lcur c_lbra) with false by reflexivity. rewrite ceq_refl.
    unfold parse_pipe. rewrite find_all_nomatch by reflexivity.
    change (String c_rcur EmptyString) with "}".
    rewrite (find_all_pipe_body ps Hwf), (mapM_parse_pipes ps Hwf). reflexivity.
Qed.

Lemma lacks2 o cl s :
  lacks o s = true -> lacks cl s = true ->
  all_chars (fun x => negb (ceq x o || ceq x cl)) s = true.
Proof.
  unfold lacks, ceq. induction s as [|c s IH]; cbn [all_chars]; [reflexivity|].
  intros H1 H2. apply andb_true_iff in H1 as [A1 B1]. apply andb_true_iff in H2 as [A2 B2].
  rewrite (IH B1 B2). apply negb_true_iff in A1. apply negb_true_iff in A2. rewrite A1, A2. reflexivity.
Qed.

Lemma alt_group_print o cl body tl :
  lacks o body = true -> lacks cl body = true ->
  alt_group o cl (String o (body ++ String cl EmptyString) ++ tl) = Some (String o (body ++ String cl EmptyString)).
Proof.
  intros H1 H2. cbn [append alt_group]. rewrite ceq_refl. rewrite sapp_assoc. cbn [append].
  rewrite (span_app (fun x => negb (ceq x o || ceq x cl)) body (String cl tl)).
  - now rewrite ceq_refl.
  - now apply lacks2.
  - cbn. rewrite ceq_refl. now rewrite orb_true_r.
Qed.

Lemma bracket_body_lacks keep ds x :
  ceq x c_lbra || ceq x c_rbra = true -> lacks x (keep_prefix keep ++ print_dims ds) = true.
Proof.
  intros Hx. rewrite lacks_app, keep_prefix_chars by exact Hx.
  rewrite (dim_chars_lack x (print_dims ds)); [reflexivity| |apply print_dims_chars].
  apply orb_true_iff in Hx as [H|H]; apply ceq_true in H; subst; reflexivity.
Qed.

Lemma print_pipe_lacks x p :
  (x = c_lcur \/ x = c_rcur) -> wf_pipe p = true -> lacks x (print_pipe p) = true.
Proof.
  intros Hx Hwf. destruct p as [k t]. destruct (ptyp_eq_none t) as [->|Hn].
  - cbn [print_pipe fst snd]. cbn [wf_pipe snd fst] in Hwf.
    destruct (is_ident_inv k Hwf) as (_ & _ & _ & _ & Hall).
    apply all_word_lacks; [destruct Hx; subst; reflexivity|exact Hall].
  - rewrite (print_pipe_typed k t Hn).
    destruct (wf_pipe_typed_inv k t Hn Hwf) as (_ & _ & Hl & Hr).
    change (String c_pipe (ptyp_text t)) with ("|" ++ ptyp_text t). rewrite !lacks_app.
    rewrite print_key_lacks; [|destruct Hx; subst; reflexivity|destruct Hx; subst; assumption].
    destruct (ptyp_text_word t Hn) as (_ & Tw & _).
    rewrite (all_word_lacks x (ptyp_text t)); [|destruct Hx; subst; reflexivity|exact Tw].
    destruct Hx; subst; reflexivity.
Qed.

Lemma pipe_body_lacks x ps :
  (x = c_lcur \/ x = c_rcur) -> forallb wf_pipe ps = true -> lacks x (pipe_body ps) = true.
Proof.
  intros Hx. unfold pipe_body. induction ps as [|p ps IH]; [reflexivity|].
  cbn [forallb]. intros H. apply andb_true_iff in H as [Hp Hps].
  destruct ps as [|p2 ps]; [cbn [map join]; now apply print_pipe_lacks|].
  change (join ", " (map print_pipe (p :: p2 :: ps)))
    with (print_pipe p ++ ", " ++ join ", " (map print_pipe (p2 :: ps))).
  rewrite !lacks_app, (print_pipe_lacks x p Hx Hp), (IH Hps).
  destruct Hx; subst; reflexivity.
Qed.

Lemma step_text_head st : exists c r, step_text st = String c r.
Proof.
  destruct st as [k| | |]; cbn [step_text]; eauto.
  destruct (print_key_head k) as (c & r & E & _). eauto.
Qed.

Lemma m_full_group o cl body tl :
  (o = c_lbra /\ cl = c_rbra) \/ (o = c_lcur /\ cl = c_rcur) ->
  lacks o body = true -> lacks cl body = true ->
  m_full (String o (body ++ String cl EmptyString) ++ tl) = Some (String o (body ++ String cl EmptyString)).
Proof.
  intros Hc H1 H2. pose proof (alt_group_print o cl body tl H1 H2) as G.
  unfold m_full. cbn [first_of]. cbn [append] in *.
  destruct Hc as [[-> ->]|[-> ->]].
  - match goal with |- context [alt_quoted ?s] => replace (alt_quoted s) with (@None string) by reflexivity end.
    rewrite alt_back_none by reflexivity. rewrite alt_star_none by reflexivity.
    rewrite alt_word_none by reflexivity. rewrite G. reflexivity.
  - match goal with |- context [alt_quoted ?s] => replace (alt_quoted s) with (@None string) by reflexivity end.
    rewrite alt_back_none by reflexivity. rewrite alt_star_none by reflexivity.
    rewrite alt_word_none by reflexivity.
    match goal with |- context [alt_group c_lbra c_rbra ?s] =>
      replace (alt_group c_lbra c_rbra s) with (@None string) by reflexivity end.
    rewrite G. reflexivity.
Qed.

Lemma m_full_step st tl :
  wf_step st = true -> step_tail tl -> m_full (step_text st ++ tl) = Some (step_text st).
Proof.
  intros Hwf Ht. destruct st as [k|ds|ds|ps]; cbn [wf_step] in Hwf; cbn [step_text].
  - now apply m_full_key.
  - apply m_full_group; [auto| |]; apply bracket_body_lacks; reflexivity.
  - apply m_full_group; [auto| |]; apply bracket_body_lacks; reflexivity.
  - apply m_full_group; [auto| |]; apply pipe_body_lacks; auto.
Qed.

Lemma find_all_step st tl :
  wf_step st = true -> step_tail tl ->
  find_all m_full (step_text st ++ tl) 0 = step_text st :: find_all m_full tl 0.
Proof.
  intros Hwf Ht. pose proof (m_full_step st tl Hwf Ht) as M.
  destruct (step_text_head st) as (c & r & E). rewrite E in *.
  apply find_all_match. exact M.
Qed.

Lemma print_rest_tail steps : step_tail (print_rest steps).
Proof.
  destruct steps as [|st r]; [exact I|]. cbn [print_rest].
  destruct st; cbn [print_step append step_tail]; auto.
Qed.

Lemma m_full_dot r : m_full (String "." r) = None.
Proof. unfold m_full. cbn [first_of]. rewrite alt_back_none by reflexivity. reflexivity. Qed.

Lemma find_all_print_step first st tl :
  wf_step st = true -> step_tail tl ->
  find_all m_full (print_step first st ++ tl) 0 = step_text st :: find_all m_full tl 0.
Proof.
  intros Hwf Ht. rewrite print_step_text, sapp_assoc.
  destruct st as [k| | |]; try (cbn [append]; now apply find_all_step).
  destruct first; cbn [append]; [now apply find_all_step|].
  rewrite find_all_nomatch by apply m_full_dot. now apply find_all_step.
Qed.

Lemma scan_rest steps :
  forallb wf_step steps = true ->
  mapM parse_token (find_all m_full (print_rest steps) 0) = Ok (map step_tok steps).
Proof.
  induction steps as [|st r IH]; [reflexivity|]. cbn [forallb print_rest map]. intros H.
  apply andb_true_iff in H as [Hst Hr].
  rewrite find_all_print_step; [|exact Hst|apply print_rest_tail].
  apply mapM_cons_ok; [now apply parse_token_step|now apply IH].
Qed.

Lemma scan_steps steps :
  forallb wf_step steps = true ->
  mapM parse_token (find_all m_full (print_steps steps) 0) = Ok (map step_tok steps).
Proof.
  destruct steps as [|st r]; [reflexivity|]. cbn [forallb print_steps map]. intros H.
  apply andb_true_iff in H as [Hst Hr].
  rewrite find_all_print_step; [|exact Hst|apply print_rest_tail].
  apply mapM_cons_ok; [now apply parse_token_step|now apply scan_rest].
Qed.

(* ---------- "=>" does not split a path ---------- *)

Lemma arrow_guard_key k r : arrow_guard r -> arrow_guard (print_key k ++ r).
Proof.
  intros Hr. unfold print_key. destruct (is_ident k) eqn:I.
  - destruct (is_ident_inv k I) as (_ & _ & _ & _ & Hall).
    apply arrow_guard_app; [|exact Hr]. apply all_word_lacks; [reflexivity|exact Hall].
  - cbn [append]. apply arrow_guard_open. reflexivity.
Qed.

Lemma arrow_guard_step first st r : arrow_guard r -> arrow_guard (print_step first st ++ r).
Proof.
  intros Hr. destruct st as [k|ds|ds|ps]; cbn [print_step].
  - rewrite sapp_assoc. destruct first; cbn [append]; [now apply arrow_guard_key|].
    apply arrow_guard_cons; [reflexivity|now apply arrow_guard_key].
  - cbn [append]. apply arrow_guard_open. reflexivity.
  - cbn [append]. apply arrow_guard_open. reflexivity.
  - cbn [append]. apply arrow_guard_open. reflexivity.
Qed.

Lemma arrow_guard_rest steps : arrow_guard (print_rest steps).
Proof.
  induction steps as [|st r IH]; [exact I|]. cbn [print_rest]. now apply arrow_guard_step.
Qed.

Lemma arrow_guard_steps steps : arrow_guard (print_steps steps).
Proof.
  destruct steps as [|st r]; [exact I|]. cbn [print_steps]. apply arrow_guard_step, arrow_guard_rest.
Qed.

Lemma parse_selector_guarded s :
  arrow_guard s -> parse_selector s = (let! toks := mapM parse_token (find_all m_full s 0) in Ok toks).
Proof.
  unfold arrow_guard, parse_selector. destruct (split_arrow s) as [[p q]|]; [intros ->|intros _]; reflexivity.
Qed.

Lemma ident_no_open f : all_chars is_word f = true -> contains_open f = false.
Proof.
  induction f as [|c f IH]; [reflexivity|]. cbn [all_chars contains_open]. intros H.
  apply andb_true_iff in H as [Hc Hf]. rewrite (IH Hf).
  rewrite (word_neq c c_lbra Hc eq_refl), (word_neq c c_lcur Hc eq_refl), (word_neq c c_sq Hc eq_refl).
  reflexivity.
Qed.

Lemma parse_selector_print g : wf_seg g = true -> parse_selector (print_seg g) = Ok (seg_toks g).
Proof.
  destruct g as [fn steps]. unfold wf_seg, print_seg, seg_toks. cbn [seg_fn seg_steps].
  intros H. apply andb_true_iff in H as [Hf Hs]. destruct fn as [f|].
  - destruct (is_ident_inv f Hf) as (_ & _ & _ & _ & Hall).
    unfold parse_selector. cbn [append].
    change (f ++ String "=" (String ">" (print_steps steps)))
      with (f ++ String "=" (String ">" (print_steps steps))).
    replace (f ++ "=>" ++ print_steps steps) with (f ++ String "=" (String ">" (print_steps steps))) by reflexivity.
    rewrite split_arrow_app by (apply all_word_lacks; [reflexivity|exact Hall]).
    rewrite (ident_no_open f Hall). rewrite (scan_steps steps Hs). reflexivity.
  - rewrite parse_selector_guarded by apply arrow_guard_steps.
    rewrite (scan_steps steps Hs). reflexivity.
Qed.

(* ---------- "::" only separates ---------- *)

Lemma dc_safe_lit s : has_dcolon s = false -> starts_colon s = false -> ends_colon s = false -> dc_safe s.
Proof. repeat split; assumption. Qed.

Lemma dc_safe_word s : all_chars is_word s = true -> dc_safe s.
Proof. intros H. apply lacks_colon_safe. apply all_word_lacks; [reflexivity|exact H]. Qed.

Lemma wf_key_dc k : wf_key k = true -> has_dcolon k = false.
Proof. unfold wf_key. intros H. apply andb_true_iff in H as [_ H]. now apply negb_true_iff in H. Qed.

Lemma dc_safe_key k : wf_key k = true -> dc_safe (print_key k).
Proof.
  intros Hk. unfold print_key. destruct (is_ident k) eqn:I.
  - destruct (is_ident_inv k I) as (_ & _ & _ & _ & Hall). now apply dc_safe_word.
  - pose proof (wf_key_dc k Hk) as D. unfold dc_safe.
    rewrite !has_dcolon_app, !starts_colon_app, !ends_colon_app, D. cbn.
    rewrite andb_false_r. destruct (is_nil (k ++ "'")); auto.
Qed.

Lemma dc_safe_colon a b :
  dc_safe a -> dc_safe b -> is_nil a = false -> is_nil b = false -> dc_safe (a ++ ":" ++ b).
Proof.
  intros (A1 & A2 & A3) (B1 & B2 & B3) Na Nb. unfold dc_safe.
  rewrite !has_dcolon_app, !starts_colon_app, !ends_colon_app, A1, A2, A3, B1, B2, B3, Na, Nb. cbn. auto.
Qed.

Lemma print_bound_safe kw b : all_chars is_word kw = true -> dc_safe (print_bound kw b).
Proof. intros H. apply dc_safe_word. now apply print_bound_word. Qed.

Lemma print_bound_nonnil kw b : is_nil kw = false -> is_nil (print_bound kw b) = false.
Proof.
  intros H. destruct b as [n|]; [|exact H]. cbn [print_bound].
  destruct (N_to_dec_head n) as (c & r & E & _). now rewrite E.
Qed.

Lemma dc_safe_dim d : dc_safe (print_dim d) /\ is_nil (print_dim d) = false.
Proof.
  split; [|destruct (print_dim_nonempty d) as (c & r & E); now rewrite E].
  destruct d as [|n|b e]; cbn [print_dim].
  - apply dc_safe_word. reflexivity.
  - apply dc_safe_word, all_digit_word, N_to_dec_digits.
  - apply dc_safe_app; [apply dc_safe_lit; reflexivity|].
    rewrite <- sapp_assoc. rewrite <- sapp_assoc. apply dc_safe_app; [|apply dc_safe_lit; reflexivity].
    rewrite sapp_assoc.
    apply dc_safe_colon; try (apply print_bound_safe; reflexivity); apply print_bound_nonnil; reflexivity.
Qed.

Lemma dc_safe_dims ds : dc_safe (print_dims ds) /\ (ds <> [] -> is_nil (print_dims ds) = false).
Proof.
  unfold print_dims. induction ds as [|d ds IH]; [split; [apply dc_safe_nil|congruence]|].
  destruct (dc_safe_dim d) as (Sd & Nd). destruct ds as [|d2 ds].
  - cbn [map join]. split; auto.
  - change (join ":" (map print_dim (d :: d2 :: ds)))
      with (print_dim d ++ ":" ++ join ":" (map print_dim (d2 :: ds))).
    destruct IH as (S2 & N2). split.
    + apply dc_safe_colon; auto. apply N2. discriminate.
    + intros _. destruct (print_dim d); [discriminate|reflexivity].
Qed.

Lemma dc_safe_pipe p : wf_pipe p = true -> dc_safe (print_pipe p).
Proof.
  destruct p as [k t]. intros Hwf. destruct (ptyp_eq_none t) as [->|Hn].
  - cbn [print_pipe fst snd]. cbn [wf_pipe fst snd] in Hwf.
    destruct (is_ident_inv k Hwf) as (_ & _ & _ & _ & Hall). now apply dc_safe_word.
  - rewrite (print_pipe_typed k t Hn). destruct (wf_pipe_typed_inv k t Hn Hwf) as (Hk & _).
    apply dc_safe_app; [now apply dc_safe_key|].
    destruct t; [congruence| |]; apply dc_safe_lit; reflexivity.
Qed.

Lemma dc_safe_pipe_body ps : forallb wf_pipe ps = true -> dc_safe (pipe_body ps).
Proof.
  unfold pipe_body. induction ps as [|p ps IH]; [intros; apply dc_safe_nil|].
  cbn [forallb]. intros H. apply andb_true_iff in H as [Hp Hps].
  destruct ps as [|p2 ps]; [cbn [map join]; now apply dc_safe_pipe|].
  change (join ", " (map print_pipe (p :: p2 :: ps)))
    with (print_pipe p ++ ", " ++ join ", " (map print_pipe (p2 :: ps))).
  apply dc_safe_app; [now apply dc_safe_pipe|].
  apply dc_safe_app; [apply dc_safe_lit; reflexivity|now apply IH].
Qed.

Lemma dc_safe_step first st : wf_step st = true -> dc_safe (print_step first st).
Proof.
  intros Hwf. destruct st as [k|ds|ds|ps]; cbn [wf_step] in Hwf; cbn [print_step].
  - apply dc_safe_app; [destruct first; apply dc_safe_lit; reflexivity|now apply dc_safe_key].
  - apply dc_safe_app; [apply dc_safe_lit; reflexivity|].
    apply dc_safe_app; [apply dc_safe_dims|apply dc_safe_lit; reflexivity].
  - apply dc_safe_app; [apply dc_safe_lit; reflexivity|].
    apply dc_safe_app; [apply dc_safe_dims|apply dc_safe_lit; reflexivity].
  - apply dc_safe_app; [apply dc_safe_lit; reflexivity|].
    apply dc_safe_app; [now apply dc_safe_pipe_body|apply dc_safe_lit; reflexivity].
Qed.

Lemma dc_safe_rest steps : forallb wf_step steps = true -> dc_safe (print_rest steps).
Proof.
  induction steps as [|st r IH]; [intros; apply dc_safe_nil|]. cbn [forallb print_rest]. intros H.
  apply andb_true_iff in H as [Hst Hr]. apply dc_safe_app; [now apply dc_safe_step|now apply IH].
Qed.

Lemma dc_safe_steps steps : forallb wf_step steps = true -> dc_safe (print_steps steps).
Proof.
  destruct steps as [|st r]; [intros; apply dc_safe_nil|]. cbn [forallb print_steps]. intros H.
  apply andb_true_iff in H as [Hst Hr]. apply dc_safe_app; [now apply dc_safe_step|now apply dc_safe_rest].
Qed.

Lemma dc_safe_seg g : wf_seg g = true -> dc_safe (print_seg g).
Proof.
  destruct g as [fn steps]. unfold wf_seg, print_seg. cbn [seg_fn seg_steps]. intros H.
  apply andb_true_iff in H as [Hf Hs]. destruct fn as [f|]; [|now apply dc_safe_steps].
  destruct (is_ident_inv f Hf) as (_ & _ & _ & _ & Hall).
  apply dc_safe_app; [now apply dc_safe_word|].
  apply dc_safe_app; [apply dc_safe_lit; reflexivity|now apply dc_safe_steps].
Qed.

(* ---------- the whole selector ---------- *)

Lemma wf_sel_inv a : wf_sel a = true -> a <> [] /\ forallb wf_seg a = true.
Proof. destruct a; [discriminate|]. intros H. split; [discriminate|exact H]. Qed.

Theorem parse_print a : wf_sel a = true -> parse_all (print_sel a) = Ok (tokens_of a).
Proof.
  intros Hwf. apply wf_sel_inv in Hwf as [Hne Hwf].
  unfold parse_all, print_sel, tokens_of.
  rewrite split_dc_join.
  - clear Hne. induction a as [|g a IH]; [reflexivity|]. cbn [forallb map] in *.
    apply andb_true_iff in Hwf as [Hg Ha].
    apply mapM_cons_ok; [now apply parse_selector_print|now apply IH].
  - destruct a; [congruence|discriminate].
  - clear Hne. induction a as [|g a IH]; [constructor|]. cbn [forallb map] in *.
    apply andb_true_iff in Hwf as [Hg Ha]. constructor; [now apply dc_safe_seg|now apply IH].
Qed.

(* different syntax trees stand for different token lists: nothing is lost in tokens_of *)
Lemma dim_tok_inj d1 d2 : wf_dim d1 = true -> wf_dim d2 = true -> dim_tok d1 = dim_tok d2 -> d1 = d2.
Proof.
  destruct d1 as [|n1|b1 e1], d2 as [|n2|b2 e2]; cbn [dim_tok]; intros _ _ E; try discriminate; try reflexivity.
  - injection E as E. lia.
  - injection E as E. lia.
  - injection E as E. f_equal. lia.
  - injection E as E1 E2.
    assert (B : forall x y : option N, bound_tok x = bound_tok y -> x = y).
    { intros [x|] [y|]; cbn [bound_tok]; intros Q; try reflexivity; try lia. f_equal. lia. }
    f_equal; now apply B.
Qed.
