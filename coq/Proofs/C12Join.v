(* Proofs/C12Join.v — property C12 for join.go:
   (1) the rows ExecJoin returns are merges of clean rows (plus a NULL under the other side's
       identifier for outer joins), hence clean: [exec_join] meets [join_ok];
   (2) the Go drivers range over two Go maps (the left catalog in HashJoinFunc / JoinFunc, the right
       catalog inside JoinMatchFunc).  [exec_join_ord oL oR] is ExecJoin with both iteration orders
       made explicit; for ANY two orders it succeeds exactly when [exec_join] does and returns a
       permutation of the same rows. *)
From Coq Require Import Floats Sorting.Permutation.
From GenqlV Require Import Base.Prelude Base.Value Model.Ast Model.Eval Model.Exec Model.Join
                           Spec.PlainSpec Proofs.C12Clean Proofs.C12Eval Proofs.C12Lemmas.
Local Open Scope list_scope.

(* ------------------------------------------------------------------ *)
(* catalogs                                                             *)
(* ------------------------------------------------------------------ *)

Definition cat_keys (c : list centry) : list string := map fst c.
Definition cat_all (P : value -> Prop) (c : list centry) : Prop :=
  Forall (fun e : centry => Forall P (snd (snd e))) c.

Lemma cat_insert_all : forall (P : value -> Prop) k km r c, P r -> cat_all P c -> cat_all P (cat_insert k km r c).
Proof.
  intros P k km r. induction c as [|[k' [km' rs]] rest IH]; intros Hr Hc; cbn.
  - constructor; [cbn; constructor; [exact Hr|constructor]|constructor].
  - inversion Hc as [|? ? He Hrest]; subst. cbn in He. destruct (String.eqb k k').
    + constructor; [cbn; apply Forall_app; split; [exact He|constructor; [exact Hr|constructor]]|exact Hrest].
    + constructor; [exact He|apply IH; assumption].
Qed.

Lemma cat_insert_keys : forall k km r c,
  cat_keys (cat_insert k km r c) = if existsb (String.eqb k) (cat_keys c) then cat_keys c else cat_keys c ++ [k].
Proof.
  intros k km r. induction c as [|[k' [km' rs]] rest IH]; cbn; [reflexivity|].
  destruct (String.eqb k k') eqn:E; cbn; [reflexivity|].
  unfold cat_keys in IH. rewrite IH. destruct (existsb (String.eqb k) (map fst rest)); reflexivity.
Qed.

Lemma cat_insert_nodup : forall k km r c, NoDup (cat_keys c) -> NoDup (cat_keys (cat_insert k km r c)).
Proof.
  intros k km r c H. rewrite cat_insert_keys. destruct (existsb (String.eqb k) (cat_keys c)) eqn:E; [exact H|].
  apply NoDup_rev in H. rewrite <- (rev_involutive (cat_keys c ++ [k])). apply NoDup_rev.
  rewrite rev_app_distr. cbn. constructor; [|exact H].
  intros Hin. apply in_rev in Hin.
  assert (Ht : existsb (String.eqb k) (cat_keys c) = true)
    by (apply existsb_exists; exists k; split; [exact Hin|apply String.eqb_refl]).
  congruence.
Qed.

Lemma to_catalog_facts : forall (P : value -> Prop) rows li ri on cat,
  Forall P rows -> to_catalog rows li ri on = Ok cat -> cat_all P cat /\ NoDup (cat_keys cat).
Proof.
  intros P rows li ri on cat Hr H. unfold to_catalog in H.
  destruct (join_columns li ri on) as [cols| | |]; cbn [bind] in H; try discriminate.
  assert (Hinv : cat_all P [] /\ NoDup (cat_keys [])) by (split; constructor).
  revert Hinv H. generalize (@nil centry).
  induction rows as [|r rest IH]; intros c Hinv H.
  - inversion H; subst. exact Hinv.
  - inversion Hr as [|? ? Hpr Hrest]; subst.
    destruct (mapM (fun p => reader p r) cols) as [vals0| | |]; cbn [bind] in H; try discriminate.
    destruct (key_text (map norm_zero vals0)) as [k| | |]; cbn [bind] in H; try discriminate.
    eapply (IH Hrest); [|exact H]. destruct Hinv as [Ha Hn].
    split; [apply cat_insert_all; assumption|apply cat_insert_nodup; assumption].
Qed.

Lemma cat_find_in : forall k c v, cat_find k c = Some v -> exists k', In (k', v) c.
Proof.
  intros k c v H. unfold cat_find in H.
  match type of H with match ?x with _ => _ end = _ => destruct x as [[k' v']|] eqn:Ef end; [|discriminate].
  inversion H; subst. apply find_some in Ef. exists k'. apply Ef.
Qed.

(* ------------------------------------------------------------------ *)
(* (1) joined rows are clean                                            *)
(* ------------------------------------------------------------------ *)

Lemma merge_rows_clean : forall l r v, clean l -> clean r -> merge_rows l r = Ok v -> clean v.
Proof.
  intros l r v Hl Hr H. unfold merge_rows, as_row in H.
  destruct l; try discriminate. destruct r; try discriminate. cbn [bind] in H. inversion H; subst.
  apply clean_obj_merge; [apply clean_obj_merge; [apply clean_obj_nil|exact Hl]|exact Hr].
Qed.

Lemma with_null_clean : forall l ri v, name_ok ri = true -> clean l -> with_null l ri = Ok v -> clean v.
Proof.
  intros l ri v Hn Hl H. unfold with_null, as_row in H. destruct l; try discriminate.
  cbn [bind] in H. inversion H; subst.
  apply clean_obj_set; [apply name_ok_iff, Hn|apply clean_null|].
  apply clean_obj_merge; [apply clean_obj_nil|exact Hl].
Qed.

Lemma concat_Forall : forall {A} (P : A -> Prop) (ll : list (list A)),
  Forall (Forall P) ll -> Forall P (List.concat ll).
Proof.
  intros A P. induction ll as [|l r IH]; intros H; cbn; [constructor|].
  inversion H; subst. apply Forall_app. split; auto.
Qed.

Lemma pairs_clean : forall ls rs out,
  Forall clean ls -> Forall clean rs -> pairs ls rs = Ok out -> Forall clean out.
Proof.
  intros ls rs out Hl Hr H. unfold pairs in H.
  match type of H with bind ?x _ = _ => destruct x as [nested| | |] eqn:En; cbn [bind] in H; try discriminate end.
  inversion H; subst. apply concat_Forall.
  eapply (mapM_Forall' _ clean (Forall clean)); [|exact Hl|exact En].
  intros l row Hcl Hrow. eapply (mapM_Forall' _ clean clean); [|exact Hr|exact Hrow].
  intros r v Hcr Hv. exact (merge_rows_clean _ _ _ Hcl Hcr Hv).
Qed.

Lemma nulls_clean : forall ri lrows out,
  name_ok ri = true -> Forall clean lrows -> mapM (fun l => with_null l ri) lrows = Ok out ->
  Forall clean out.
Proof.
  intros ri lrows out Hn Hl H. eapply (mapM_Forall' _ clean clean); [|exact Hl|exact H].
  intros l v Hc Hv. exact (with_null_clean _ _ _ Hn Hc Hv).
Qed.

Lemma hash_match_clean : forall inner ri le rcat out,
  name_ok ri = true -> Forall clean (snd (snd le)) -> cat_all clean rcat ->
  hash_match inner ri le rcat = Ok out -> Forall clean out.
Proof.
  intros inner ri [k [km lrows]] rcat out Hn Hl Hr H. cbn in Hl. unfold hash_match in H.
  destruct (cat_find k rcat) as [[km' rrows]|] eqn:Ef.
  - destruct (cat_find_in _ _ _ Ef) as [k' Hin]. unfold cat_all in Hr. rewrite Forall_forall in Hr.
    specialize (Hr _ Hin). cbn in Hr. exact (pairs_clean _ _ _ Hl Hr H).
  - destruct inner; [inversion H; constructor|]. exact (nulls_clean _ _ _ Hn Hl H).
Qed.

Lemma loop_match_clean : forall data inner ri on le rcat out,
  name_ok ri = true -> Forall clean (snd (snd le)) -> cat_all clean rcat ->
  loop_match data inner ri on le rcat = Ok out -> Forall clean out.
Proof.
  intros data inner ri on [k [lkeys lrows]] rcat out Hn Hl Hr H. cbn in Hl. unfold loop_match in H.
  match type of H with bind ?x _ = _ => destruct x as [per_right| | |] eqn:Ep; cbn [bind] in H; try discriminate end.
  assert (Hpr : Forall (Forall clean) per_right).
  { eapply (mapM_Forall' _ (fun e : centry => Forall clean (snd (snd e))) (Forall clean)); [|exact Hr|exact Ep].
    intros [rk [rkeys rrows]] b Hre Hb. cbn in Hre.
    match type of Hb with bind ?x _ = _ => destruct x as [rr| | |]; cbn [bind] in Hb; try discriminate end.
    destruct rr as [[ |[|]| | | | ]| | | | | ]; try discriminate.
    - exact (pairs_clean _ _ _ Hl Hre Hb).
    - inversion Hb; constructor. }
  destruct (List.concat per_right) as [|x xs] eqn:Ec.
  - destruct inner; [inversion H; constructor|]. exact (nulls_clean _ _ _ Hn Hl H).
  - inversion H; subst. rewrite <- Ec. apply concat_Forall, Hpr.
Qed.

Theorem exec_join_ok : join_ok exec_join.
Proof.
  intros jt st l r lid rid on data rows Hl Hr Hnl Hnr H. unfold exec_join in H.
  match type of H with (if ?c then _ else _) = _ => destruct c end; [discriminate|].
  set (swap := match jt with JRight => negb (is_straight st) | _ => false end) in H.
  assert (Hgen : forall L R li ri,
            Forall clean L -> Forall clean R -> name_ok ri = true ->
            (let! lcat := to_catalog L li ri on in
             let! rcat := to_catalog R ri li on in
             let! batches := mapM (fun le =>
                 if negb (is_straight st) && hash_join_analyze on
                 then hash_match (match jt with JInner => true | _ => false end) ri le rcat
                 else loop_match data (match jt with JInner => true | _ => false end) ri on le rcat) lcat in
             Ok (List.concat batches)) = Ok rows -> Forall clean rows).
  { intros L R li ri HL HR Hri H'.
    destruct (to_catalog L li ri on) as [lcat| | |] eqn:Elc; cbn [bind] in H'; try discriminate.
    destruct (to_catalog R ri li on) as [rcat| | |] eqn:Erc; cbn [bind] in H'; try discriminate.
    destruct (to_catalog_facts clean _ _ _ _ _ HL Elc) as [Hlc _].
    destruct (to_catalog_facts clean _ _ _ _ _ HR Erc) as [Hrc _].
    match type of H' with bind ?x _ = _ => destruct x as [batches| | |] eqn:Eb; cbn [bind] in H'; try discriminate end.
    inversion H'; subst. apply concat_Forall.
    eapply (mapM_Forall' _ (fun e : centry => Forall clean (snd (snd e))) (Forall clean)); [|exact Hlc|exact Eb].
    intros le b Hle Hb. destruct (negb (is_straight st) && hash_join_analyze on).
    - eapply hash_match_clean; eauto.
    - eapply loop_match_clean; eauto. }
  destruct swap; cbn beta iota in H.
  - exact (Hgen r l rid lid Hr Hl Hnl H).
  - exact (Hgen l r lid rid Hl Hr Hnr H).
Qed.

(* ------------------------------------------------------------------ *)
(* (2) the iteration order of the two catalogs is irrelevant            *)
(* ------------------------------------------------------------------ *)

(* Join.Exec with the two `for k := range map` orders as parameters: [oL] reorders the left catalog
   the driver ranges over, [oR] the right catalog JoinMatchFunc ranges over (and HashJoinMatchFunc
   looks a key up in) *)
Definition exec_join_ord (oL oR : list centry -> list centry)
           (jt : jointype) (st : jstrategy) (lrows rrows : list value) (lid rid : string)
           (on : expr stmt) (data : row) : res (list value) :=
  if is_straight st && negb (match jt with JInner => true | _ => false end) then Err else
  let swap := match jt with JRight => negb (is_straight st) | _ => false end in
  let '(L, R, li, ri) := if swap then (rrows, lrows, rid, lid) else (lrows, rrows, lid, rid) in
  let inner := match jt with JInner => true | _ => false end in
  let! lcat := to_catalog L li ri on in
  let! rcat := to_catalog R ri li on in
  let use_hash := negb (is_straight st) && hash_join_analyze on in
  let! batches := mapM (fun le => if use_hash then hash_match inner ri le (oR rcat)
                                  else loop_match data inner ri on le (oR rcat)) (oL lcat) in
  Ok (List.concat batches).

Lemma exec_join_ord_id : forall jt st l r lid rid on data,
  exec_join_ord (fun c => c) (fun c => c) jt st l r lid rid on data = exec_join jt st l r lid rid on data.
Proof. reflexivity. Qed.

(* same outcome class, and on success the same multiset *)
Definition res_perm {A} (x y : res (list A)) : Prop :=
  match x, y with
  | Ok a, Ok b => Permutation a b
  | Ok _, _ | _, Ok _ => False
  | _, _ => True
  end.

Lemma res_perm_refl : forall {A} (x : res (list A)), res_perm x x.
Proof. intros A [a| | |]; cbn; auto. Qed.

Lemma res_perm_trans : forall {A} (x y z : res (list A)), res_perm x y -> res_perm y z -> res_perm x z.
Proof.
  intros A [a| | |] [b| | |] [c| | |]; cbn; auto; try contradiction. apply Permutation_trans.
Qed.

Definition batches {A B} (f : A -> res (list B)) (l : list A) : res (list B) :=
  let! bs := mapM f l in Ok (List.concat bs).

Lemma batches_cons : forall {A B} (f : A -> res (list B)) a l,
  batches f (a :: l) = let! x := f a in let! r := batches f l in Ok (x ++ r).
Proof. intros A B f a l. unfold batches. cbn [mapM]. destruct (f a); cbn; try reflexivity. destruct (mapM f l); reflexivity. Qed.

Lemma batches_pointwise : forall {A B} (f' f : A -> res (list B)) l,
  (forall a, In a l -> res_perm (f' a) (f a)) -> res_perm (batches f' l) (batches f l).
Proof.
  intros A B f' f. induction l as [|a l IH]; intros H; [cbn; constructor|].
  rewrite !batches_cons. pose proof (H a (or_introl eq_refl)) as Ha.
  assert (Hl : res_perm (batches f' l) (batches f l)) by (apply IH; intros x Hx; apply H; right; exact Hx).
  destruct (f' a), (f a); cbn in Ha |- *; try contradiction; auto;
    destruct (batches f' l), (batches f l); cbn in Hl |- *; try contradiction; auto.
  apply Permutation_app; assumption.
Qed.

Lemma batches_perm : forall {A B} (f : A -> res (list B)) l' l,
  Permutation l' l -> res_perm (batches f l') (batches f l).
Proof.
  intros A B f l' l P. induction P as [|x l' l P IH|x y l|l1 l2 l3 P1 IH1 P2 IH2].
  - apply res_perm_refl.
  - rewrite !batches_cons. destruct (f x); cbn; auto.
    destruct (batches f l'), (batches f l); cbn in IH |- *; try contradiction; auto.
    apply Permutation_app_head, IH.
  - rewrite !batches_cons. destruct (f x), (f y); cbn; auto; destruct (batches f l); cbn; auto.
    apply Permutation_app_swap_app.
  - eapply res_perm_trans; eassumption.
Qed.

(* key lookup in a catalog with unique keys does not depend on its order *)
Lemma cat_find_some_iff : forall k c v,
  NoDup (cat_keys c) -> (cat_find k c = Some v <-> In (k, v) c).
Proof.
  intros k c v Hn. unfold cat_find. split.
  - intros H. match type of H with match ?x with _ => _ end = _ => destruct x as [[k' v']|] eqn:Ef end; [|discriminate].
    inversion H; subst. apply find_some in Ef. destruct Ef as [Hin He]. cbn in He.
    apply String.eqb_eq in He. subst. exact Hin.
  - induction c as [|[k' v'] r IH]; intros Hin; [destruct Hin|].
    cbn [find fst]. destruct (String.eqb k' k) eqn:E.
    + apply String.eqb_eq in E. subst k'. destruct Hin as [Heq|Hin]; [inversion Heq; reflexivity|].
      exfalso. inversion Hn as [|? ? Hnot _]; subst. apply Hnot. unfold cat_keys.
      apply in_map_iff. exists (k, v). split; [reflexivity|exact Hin].
    + destruct Hin as [Heq|Hin]; [inversion Heq; subst; rewrite String.eqb_refl in E; discriminate|].
      inversion Hn; subst. apply IH; assumption.
Qed.

Lemma cat_find_perm : forall k c' c,
  NoDup (cat_keys c) -> Permutation c' c -> cat_find k c' = cat_find k c.
Proof.
  intros k c' c Hn P.
  assert (Hn' : NoDup (cat_keys c')).
  { eapply Permutation_NoDup; [|exact Hn]. apply Permutation_map, Permutation_sym, P. }
  destruct (cat_find k c) as [v|] eqn:E.
  - apply cat_find_some_iff; [exact Hn'|]. apply cat_find_some_iff in E; [|exact Hn].
    eapply Permutation_in; [apply Permutation_sym, P|exact E].
  - destruct (cat_find k c') as [v'|] eqn:E'; [|reflexivity].
    apply cat_find_some_iff in E'; [|exact Hn'].
    assert (E2 : cat_find k c = Some v')
      by (apply cat_find_some_iff; [exact Hn|eapply Permutation_in; [exact P|exact E']]).
    congruence.
Qed.

Lemma hash_match_perm : forall inner ri le rcat' rcat,
  NoDup (cat_keys rcat) -> Permutation rcat' rcat ->
  hash_match inner ri le rcat' = hash_match inner ri le rcat.
Proof.
  intros inner ri [k [km lrows]] rcat' rcat Hn P. unfold hash_match. rewrite (cat_find_perm k _ _ Hn P).
  reflexivity.
Qed.

Lemma loop_match_batches : forall data inner ri on k lkeys lrows rcat,
  loop_match data inner ri on (k, (lkeys, lrows)) rcat =
  let! out := batches (fun re : centry =>
        let '(_, (rkeys, rrows)) := re in
        let! r := eval (on_env data) (obj_merge (obj_merge [] lkeys) rkeys) on in
        match r with
        | RVal (VBool true) => pairs lrows rrows
        | RVal (VBool false) => Ok []
        | _ => Err
        end) rcat in
  match out with
  | [] => if inner then Ok [] else mapM (fun l => with_null l ri) lrows
  | _ => Ok out
  end.
Proof.
  intros. unfold loop_match, batches.
  match goal with |- bind ?x _ = _ => destruct x; reflexivity end.
Qed.

Lemma loop_match_perm : forall data inner ri on le rcat' rcat,
  Permutation rcat' rcat ->
  res_perm (loop_match data inner ri on le rcat') (loop_match data inner ri on le rcat).
Proof.
  intros data inner ri on [k [lkeys lrows]] rcat' rcat P. rewrite !loop_match_batches.
  match goal with |- res_perm (bind (batches ?g _) _) _ => pose proof (batches_perm g _ _ P) as Hb end.
  match type of Hb with res_perm ?x ?y => destruct x as [a| | |], y as [b| | |] end;
    cbn in Hb |- *; try contradiction; auto.
  destruct a as [|x a].
  - apply Permutation_nil in Hb. subst b. apply res_perm_refl.
  - destruct b as [|y b]; [apply Permutation_sym, Permutation_nil in Hb; discriminate|]. exact Hb.
Qed.

Theorem exec_join_order_irrelevant : forall oL oR,
  (forall c, Permutation (oL c) c) -> (forall c, Permutation (oR c) c) ->
  forall jt st l r lid rid on data,
    res_perm (exec_join_ord oL oR jt st l r lid rid on data) (exec_join jt st l r lid rid on data).
Proof.
  intros oL oR HL HR jt st l r lid rid on data. unfold exec_join_ord, exec_join.
  destruct (is_straight st && negb match jt with JInner => true | _ => false end); [exact I|].
  set (inner := match jt with JInner => true | _ => false end).
  set (use_hash := negb (is_straight st) && hash_join_analyze on).
  assert (Hgen : forall L R li ri,
    res_perm
      (let! lcat := to_catalog L li ri on in
       let! rcat := to_catalog R ri li on in
       let! bs := mapM (fun le => if use_hash then hash_match inner ri le (oR rcat)
                                  else loop_match data inner ri on le (oR rcat)) (oL lcat) in
       Ok (List.concat bs))
      (let! lcat := to_catalog L li ri on in
       let! rcat := to_catalog R ri li on in
       let! bs := mapM (fun le => if use_hash then hash_match inner ri le rcat
                                  else loop_match data inner ri on le rcat) lcat in
       Ok (List.concat bs))).
  { intros L R li ri.
    destruct (to_catalog L li ri on) as [lcat| | |]; cbn [bind]; try exact I.
    destruct (to_catalog R ri li on) as [rcat| | |] eqn:Erc; cbn [bind]; try exact I.
    destruct (to_catalog_facts (fun _ => True) R ri li on rcat) as [_ Hn];
      [apply Forall_forall; auto|exact Erc|].
    match goal with |- res_perm (bind (mapM ?f' ?l') _) (bind (mapM ?f ?l) _) =>
      change (res_perm (batches f' l') (batches f l));
      apply (res_perm_trans _ (batches f l')); [apply batches_pointwise|apply batches_perm, HL]
    end.
    intros le _. destruct use_hash.
    - rewrite (hash_match_perm inner ri le _ _ Hn (HR rcat)). apply res_perm_refl.
    - apply loop_match_perm, HR. }
  destruct (match jt with JRight => negb (is_straight st) | _ => false end); apply Hgen.
Qed.

(* hence cleanliness of the joined rows holds for every iteration order *)
Theorem exec_join_ord_ok : forall oL oR,
  (forall c, Permutation (oL c) c) -> (forall c, Permutation (oR c) c) -> join_ok (exec_join_ord oL oR).
Proof.
  intros oL oR HL HR jt st l r lid rid on data rows Hl Hr Hnl Hnr H.
  pose proof (exec_join_order_irrelevant oL oR HL HR jt st l r lid rid on data) as P.
  rewrite H in P. destruct (exec_join jt st l r lid rid on data) as [rows0| | |] eqn:E; cbn in P; try contradiction.
  eapply Permutation_Forall; [apply Permutation_sym, P|].
  exact (exec_join_ok jt st l r lid rid on data rows0 Hl Hr Hnl Hnr E).
Qed.
