(* Proofs/C17Scan.v — the index/fuel loops of Model/Processors.v refine reference scanners that are
   structurally recursive on the remaining input.  Valid for ALL inputs (arbitrary bytes).
   Consequence: the rewriters never panic and never run out of fuel. *)
From Coq Require Import ZifyBool ZifyNat.
From GenqlV Require Import Base.Prelude Model.Processors.
Local Open Scope Z_scope.

(* ------------------------------------------------------------------ *)
(* primitives                                                          *)
(* ------------------------------------------------------------------ *)

Lemma blen_nil : blen [] = 0.
Proof. reflexivity. Qed.

Lemma blen_cons : forall c r, blen (c :: r) = 1 + blen r.
Proof. intros. unfold blen. cbn [List.length]. lia. Qed.

Lemma blen_app : forall a b, blen (a ++ b)%list = blen a + blen b.
Proof. intros. unfold blen. rewrite app_length. lia. Qed.

Lemma blen_nonneg : forall s, 0 <= blen s.
Proof. intros. unfold blen. lia. Qed.

Lemma byte_at_mid : forall pre c rest, byte_at (pre ++ c :: rest)%list (blen pre) = Ok c.
Proof.
  intros. unfold byte_at, blen.
  destruct (Z.of_nat (List.length pre) <? 0) eqn:E; [lia|].
  rewrite Nat2Z.id, nth_error_app2 by lia. rewrite Nat.sub_diag. reflexivity.
Qed.

Lemma byte_at_mid1 : forall pre c d rest,
  byte_at (pre ++ c :: d :: rest)%list (blen pre + 1) = Ok d.
Proof.
  intros. replace (pre ++ c :: d :: rest)%list with ((pre ++ [c]) ++ d :: rest)%list
    by (rewrite <- app_assoc; reflexivity).
  replace (blen pre + 1) with (blen (pre ++ [c])%list) by (rewrite blen_app, blen_cons, blen_nil; lia).
  apply byte_at_mid.
Qed.

Lemma snoc_assoc : forall (pre : list ascii) c rest, (pre ++ c :: rest = (pre ++ [c]) ++ rest)%list.
Proof. intros. rewrite <- app_assoc. reflexivity. Qed.

Lemma blen_snoc : forall pre (c : ascii), blen (pre ++ [c])%list = blen pre + 1.
Proof. intros. rewrite blen_app, blen_cons, blen_nil. lia. Qed.

Definition lift {A} (o : option A) : res A := match o with Some a => Ok a | None => Err end.
Definition lift_app (buf : list ascii) (o : option (list ascii)) : res (list ascii) :=
  match o with Some w => Ok (buf ++ w)%list | None => Err end.
Definition ocons (c : ascii) (o : option (list ascii)) : option (list ascii) :=
  match o with Some w => Some (c :: w) | None => None end.

Lemma lift_app_ocons : forall buf c o, lift_app buf (ocons c o) = lift_app (buf ++ [c])%list o.
Proof. intros. destruct o; cbn; [rewrite <- app_assoc|]; reflexivity. Qed.

(* ------------------------------------------------------------------ *)
(* DoubleQuotesToBackTick: reference scanner                           *)
(* ------------------------------------------------------------------ *)

Inductive qst := QRaw | QSq | QBt | QDq.

Fixpoint dq_ref (fx : fixes) (st : qst) (s : list ascii) : option (list ascii) :=
  match s with
  | [] => Some []
  | c :: r =>
    match st with
    | QRaw =>
      if beq c c_sq then ocons c (dq_ref fx QSq r)
      else if beq c c_bt then ocons c (dq_ref fx QBt r)
      else if beq c c_dq then ocons c_bt (dq_ref fx QDq r)
      else ocons c (dq_ref fx QRaw r)
    | QSq =>
      if beq c c_sq then ocons c (dq_ref fx QRaw r)
      else if beq c c_bs then
        match r with
        | [] => None
        | d :: r' => ocons c (ocons d (dq_ref fx QSq r'))
        end
      else ocons c (dq_ref fx QSq r)
    | QBt =>
      if beq c c_bt then ocons c (dq_ref fx QRaw r) else ocons c (dq_ref fx QBt r)
    | QDq =>
      if beq c c_dq then ocons c_bt (dq_ref fx QRaw r)
      else if beq c c_bs then
        match r with
        | [] => None
        | d :: r' => if beq d c_dq then ocons d (dq_ref fx QDq r')
                     else ocons c (dq_ref fx QDq r)
        end
      else if fx_d48 fx && beq c c_bt then ocons c_bt (ocons c (dq_ref fx QDq r))
      else ocons c (dq_ref fx QDq r)
    end
  end.

(* hypothesis on the continuation of an inner loop: what the outer loop does when re-entered *)
Definition outer_ok (fx : fixes) (s : list ascii) (bound : nat)
  (K : Z * list ascii -> res (list ascii)) : Prop :=
  forall pre' rest' buf', s = (pre' ++ rest')%list -> (List.length rest' <= bound)%nat ->
    K (blen pre', buf') = lift_app buf' (dq_ref fx QRaw rest').

Ltac fuel_S fuel := destruct fuel as [|fuel]; [cbn [List.length] in *; lia|].

Lemma cond_in : forall pre c rest r,
  ((blen pre <? blen (pre ++ c :: rest)%list) && negb (beq r r))%bool = false.
Proof. intros. unfold beq. rewrite Ascii.eqb_refl. cbn. apply andb_false_r. Qed.

Lemma lt_mid : forall pre (c : ascii) rest, (blen pre <? blen (pre ++ c :: rest)%list) = true.
Proof. intros. rewrite blen_app, blen_cons. pose proof (blen_nonneg rest). lia. Qed.

Lemma lt_end : forall pre : list ascii, (blen pre <? blen (pre ++ [])%list) = false.
Proof. intros. rewrite app_nil_r. lia. Qed.

Lemma last_yes : forall pre (c : ascii), (blen pre + 1 =? blen (pre ++ [c])%list) = true.
Proof. intros. rewrite blen_snoc. lia. Qed.

Lemma last_no : forall pre (c d : ascii) rest,
  (blen pre + 1 =? blen (pre ++ c :: d :: rest)%list) = false.
Proof. intros. rewrite blen_app, !blen_cons. pose proof (blen_nonneg rest). lia. Qed.

Lemma wr_id : forall fx c, fx_d49 fx = true -> wr fx c = [c].
Proof. intros fx c H. unfold wr. rewrite H. reflexivity. Qed.

(* --- the single-quote loop --- *)
Lemma sq_loop_ref : forall fx, fx_d49 fx = true -> forall n rest s pre buf r fuel K,
  (List.length rest <= n)%nat -> s = (pre ++ rest)%list -> (List.length rest < fuel)%nat ->
  outer_ok fx s (List.length rest) K ->
  bind (dq_sq_loop fx fuel s (blen pre) r buf) K =
    if beq r c_sq then lift_app buf (dq_ref fx QRaw rest)
    else lift_app buf (dq_ref fx QSq rest).
Proof.
  intros fx Hw. destruct fx as [f1 f2 f3 f4]. cbn in Hw. subst f4. set (fx := {| fx_d25 := f1; fx_d47 := f2; fx_d48 := f3; fx_d49 := true |}).
  induction n as [|n IH]; intros rest s pre buf r fuel K Hn Hs Hf HK.
  - destruct rest; [|cbn in Hn; lia]. fuel_S fuel. subst s.
    cbn [dq_sq_loop]. change (wr fx) with (fun c : ascii => [c]). cbv beta. rewrite lt_end. cbn [andb bind].
    rewrite (HK pre [] buf) by (auto; cbn; lia).
    cbn. destruct (beq r c_sq); reflexivity.
  - fuel_S fuel. cbn [dq_sq_loop]. change (wr fx) with (fun c : ascii => [c]). cbv beta.
    destruct (beq r c_sq) eqn:Er.
    + (* the closing quote was the last byte read: the loop exits *)
      rewrite andb_false_r. cbn [bind]. apply HK; auto.
    + destruct rest as [|c rest].
      * subst s. rewrite lt_end. cbn [andb bind]. rewrite (HK pre [] buf) by (auto; cbn; lia).
        reflexivity.
      * subst s. rewrite lt_mid. cbn [andb negb]. rewrite byte_at_mid. cbn [bind].
        cbn [dq_ref]. destruct (beq c c_bs) eqn:Ebs.
        -- assert (Esq : beq c c_sq = false).
           { unfold beq in *. apply Ascii.eqb_eq in Ebs. subst c. reflexivity. }
           rewrite Esq.
           destruct rest as [|d rest].
           ++ rewrite last_yes. reflexivity.
           ++ rewrite last_no. rewrite byte_at_mid1. cbn [bind].
              replace (blen pre + 1 + 1) with (blen ((pre ++ [c]) ++ [d])%list)
                by (rewrite !blen_snoc; lia).
              rewrite (IH rest _ ((pre ++ [c]) ++ [d])%list _ _ _ K).
              ** rewrite Esq. rewrite !lift_app_ocons. reflexivity.
              ** cbn in Hn. lia.
              ** rewrite <- !app_assoc. reflexivity.
              ** cbn in Hf. lia.
              ** intros p' r' b' E L. apply HK; auto. cbn. lia.
        -- replace (blen pre + 1) with (blen (pre ++ [c])%list) by (rewrite blen_snoc; lia).
           rewrite (IH rest _ (pre ++ [c])%list _ _ _ K).
           ++ destruct (beq c c_sq); rewrite lift_app_ocons; reflexivity.
           ++ cbn in Hn. lia.
           ++ apply snoc_assoc.
           ++ cbn in Hf. lia.
           ++ intros p' r' b' E L. apply HK; auto. cbn. lia.
Qed.

(* --- the backtick loop --- *)
Lemma bt_loop_ref : forall fx, fx_d49 fx = true -> forall rest s pre buf r fuel K,
  s = (pre ++ rest)%list -> (List.length rest < fuel)%nat ->
  outer_ok fx s (List.length rest) K ->
  bind (dq_bt_loop fx fuel s (blen pre) r buf) K =
    if beq r c_bt then lift_app buf (dq_ref fx QRaw rest)
    else lift_app buf (dq_ref fx QBt rest).
Proof.
  intros fx Hw. destruct fx as [f1 f2 f3 f4]. cbn in Hw. subst f4. set (fx := {| fx_d25 := f1; fx_d47 := f2; fx_d48 := f3; fx_d49 := true |}).
  induction rest as [|c rest IH]; intros s pre buf r fuel K Hs Hf HK.
  - fuel_S fuel. subst s. cbn [dq_bt_loop]. change (wr fx) with (fun c : ascii => [c]). cbv beta. rewrite lt_end. cbn [andb bind].
    rewrite (HK pre [] buf) by (auto; cbn; lia). cbn. destruct (beq r c_bt); reflexivity.
  - fuel_S fuel. cbn [dq_bt_loop]. change (wr fx) with (fun c : ascii => [c]). cbv beta. destruct (beq r c_bt) eqn:Er.
    + rewrite andb_false_r. cbn [bind]. apply HK; auto.
    + subst s. rewrite lt_mid. cbn [andb negb]. rewrite byte_at_mid. cbn [bind dq_ref].
      replace (blen pre + 1) with (blen (pre ++ [c])%list) by (rewrite blen_snoc; lia).
      rewrite (IH _ (pre ++ [c])%list _ _ _ K).
      * destruct (beq c c_bt); rewrite lift_app_ocons; reflexivity.
      * apply snoc_assoc.
      * cbn in Hf. lia.
      * intros p' r' b' E L. apply HK; auto. cbn. lia.
Qed.

(* --- the double-quote loop --- *)
Lemma dq_loop_ref : forall fx, fx_d49 fx = true -> forall n rest s pre buf r fuel K,
  (List.length rest <= n)%nat -> s = (pre ++ rest)%list -> (List.length rest < fuel)%nat ->
  outer_ok fx s (List.length rest) K ->
  bind (dq_dq_loop fx fuel s (blen pre) r buf) K =
    if beq r c_dq then lift_app buf (dq_ref fx QRaw rest)
    else lift_app buf (dq_ref fx QDq rest).
Proof.
  intros fx Hw. destruct fx as [f1 f2 f3 f4]. cbn in Hw. subst f4. set (fx := {| fx_d25 := f1; fx_d47 := f2; fx_d48 := f3; fx_d49 := true |}).
  induction n as [|n IH]; intros rest s pre buf r fuel K Hn Hs Hf HK.
  - destruct rest; [|cbn in Hn; lia]. fuel_S fuel. subst s.
    cbn [dq_dq_loop]. change (wr fx) with (fun c : ascii => [c]). cbv beta. rewrite lt_end. cbn [andb bind].
    rewrite (HK pre [] buf) by (auto; cbn; lia).
    cbn. destruct (beq r c_dq); reflexivity.
  - fuel_S fuel. cbn [dq_dq_loop]. change (wr fx) with (fun c : ascii => [c]). cbv beta.
    destruct (beq r c_dq) eqn:Er.
    + rewrite andb_false_r. cbn [bind]. apply HK; auto.
    + destruct rest as [|c rest].
      * subst s. rewrite lt_end. cbn [andb bind]. rewrite (HK pre [] buf) by (auto; cbn; lia).
        reflexivity.
      * subst s. rewrite lt_mid. cbn [andb negb]. rewrite byte_at_mid. cbn [bind].
        cbn [dq_ref].
        (* the common tail: [fx_d48] then write r *)
        assert (TAIL : beq c c_dq = false ->
          bind (dq_dq_loop fx fuel (pre ++ c :: rest)%list (blen pre + 1) c
                  ((if fx_d48 fx && beq c c_bt then (buf ++ [c_bt])%list else buf) ++ [c])%list) K =
          lift_app buf (if fx_d48 fx && beq c c_bt then ocons c_bt (ocons c (dq_ref fx QDq rest))
                        else ocons c (dq_ref fx QDq rest))).
        { intros Ec.
          replace (blen pre + 1) with (blen (pre ++ [c])%list) by (rewrite blen_snoc; lia).
          rewrite (IH rest _ (pre ++ [c])%list _ _ _ K).
          - rewrite Ec. destruct (fx_d48 fx && beq c c_bt); rewrite !lift_app_ocons; reflexivity.
          - cbn in Hn. lia.
          - apply snoc_assoc.
          - cbn in Hf. lia.
          - intros p' r' b' E L. apply HK; auto. cbn. lia. }
        destruct (beq c c_dq) eqn:Edq.
        -- replace (blen pre + 1) with (blen (pre ++ [c])%list) by (rewrite blen_snoc; lia).
           rewrite (IH rest _ (pre ++ [c])%list _ _ _ K).
           ++ rewrite Edq. rewrite lift_app_ocons. reflexivity.
           ++ cbn in Hn. lia.
           ++ apply snoc_assoc.
           ++ cbn in Hf. lia.
           ++ intros p' r' b' E L. apply HK; auto. cbn. lia.
        -- destruct (beq c c_bs) eqn:Ebs.
           ++ destruct rest as [|d rest].
              ** rewrite last_yes. reflexivity.
              ** rewrite last_no. rewrite byte_at_mid1. cbn [bind].
                 destruct (beq d c_dq) eqn:Ed.
                 --- replace (blen pre + 1 + 1) with (blen ((pre ++ [c]) ++ [d])%list)
                       by (rewrite !blen_snoc; lia).
                     rewrite (IH rest _ ((pre ++ [c]) ++ [d])%list _ _ _ K).
                     +++ rewrite Edq. rewrite lift_app_ocons. reflexivity.
                     +++ cbn in Hn. lia.
                     +++ rewrite <- !app_assoc. reflexivity.
                     +++ cbn in Hf. lia.
                     +++ intros p' r' b' E L. apply HK; auto. cbn. lia.
                 --- rewrite (TAIL eq_refl).
                     assert (Ebt : beq c c_bt = false).
                     { unfold beq in *. apply Ascii.eqb_eq in Ebs. subst c. reflexivity. }
                     rewrite Ebt, andb_false_r. reflexivity.
           ++ rewrite (TAIL eq_refl). reflexivity.
Qed.

(* --- the outer loop --- *)
Lemma outer_ref : forall fx, fx_d49 fx = true -> forall n rest s pre buf fuel,
  (List.length rest <= n)%nat -> s = (pre ++ rest)%list -> (List.length rest < fuel)%nat ->
  dq_outer fx fuel s (blen pre) buf = lift_app buf (dq_ref fx QRaw rest).
Proof.
  intros fx Hw. destruct fx as [f1 f2 f3 f4]. cbn in Hw. subst f4. set (fx := {| fx_d25 := f1; fx_d47 := f2; fx_d48 := f3; fx_d49 := true |}).
  assert (Hw : fx_d49 fx = true) by reflexivity.
  induction n as [|n IH]; intros rest s pre buf fuel Hn Hs Hf.
  - destruct rest; [|cbn in Hn; lia]. fuel_S fuel. subst s. cbn [dq_outer]. change (wr fx) with (fun c : ascii => [c]). cbv beta.
    rewrite lt_end. cbn. rewrite app_nil_r. reflexivity.
  - destruct rest as [|c rest].
    + fuel_S fuel. subst s. cbn [dq_outer]. change (wr fx) with (fun c : ascii => [c]). cbv beta. rewrite lt_end. cbn. rewrite app_nil_r. reflexivity.
    + fuel_S fuel. cbn [dq_outer]. change (wr fx) with (fun c : ascii => [c]). cbv beta.
      subst s. rewrite lt_mid, byte_at_mid. cbn [bind dq_ref].
      assert (HK : forall fxk, fxk = fx -> outer_ok fx (pre ++ c :: rest)%list (List.length rest)
                (fun '(i', buf') => dq_outer fxk fuel (pre ++ c :: rest)%list (i' - 1 + 1) buf')).
      { intros fxk -> p' r' b' E L. replace (blen p' - 1 + 1) with (blen p') by lia.
        apply IH; auto. cbn in Hn; lia. cbn in Hf; lia. }
      assert (Hlen : (List.length rest < S (List.length (pre ++ c :: rest)))%nat).
      { rewrite app_length. cbn. lia. }
      replace (blen pre + 1) with (blen (pre ++ [c])%list) by (rewrite blen_snoc; lia).
      destruct (beq c c_sq) eqn:Esq; [|destruct (beq c c_bt) eqn:Ebt; [|destruct (beq c c_dq) eqn:Edq]].
      * pose proof (sq_loop_ref fx Hw (List.length rest) rest (pre ++ c :: rest)%list (pre ++ [c])%list
                      (buf ++ [c])%list c_0 _ _ (le_n _) (snoc_assoc _ _ _) Hlen (HK fx eq_refl)) as H.
        cbn [bind] in H. rewrite H. cbn [beq c_0 c_sq Ascii.eqb]. rewrite lift_app_ocons. reflexivity.
      * pose proof (bt_loop_ref fx Hw rest (pre ++ c :: rest)%list (pre ++ [c])%list
                      (buf ++ [c])%list c_0 _ _ (snoc_assoc _ _ _) Hlen (HK fx eq_refl)) as H.
        cbn [bind] in H. rewrite H. cbn [beq c_0 c_bt Ascii.eqb]. rewrite lift_app_ocons. reflexivity.
      * pose proof (dq_loop_ref fx Hw (List.length rest) rest (pre ++ c :: rest)%list (pre ++ [c])%list
                      (buf ++ [c_bt])%list c_0 _ _ (le_n _) (snoc_assoc _ _ _) Hlen (HK fx eq_refl)) as H.
        cbn [bind] in H. rewrite H. cbn [beq c_0 c_dq Ascii.eqb]. rewrite lift_app_ocons. reflexivity.
      * rewrite (IH rest (pre ++ c :: rest)%list (pre ++ [c])%list).
        -- rewrite lift_app_ocons. reflexivity.
        -- cbn in Hn; lia.
        -- apply snoc_assoc.
        -- cbn in Hf; lia.
Qed.

Theorem dq_to_bt_l_ref : forall fx s, fx_d49 fx = true -> dq_to_bt_l fx s = lift (dq_ref fx QRaw s).
Proof.
  intros fx s Hw. unfold dq_to_bt_l.
  change 0 with (blen []).
  rewrite (outer_ref fx Hw (List.length s) s s [] []); auto.
Qed.

(* ------------------------------------------------------------------ *)
(* FindArrayIndex: per-byte classification + the FIFO pairing machine   *)
(* ------------------------------------------------------------------ *)

Inductive mark := MO | MC | MP.     (* unquoted [ , unquoted ] , anything else *)

Fixpoint fa_marks (fx : fixes) (hold : option ascii) (s : list ascii) : list mark :=
  match s with
  | [] => []
  | c :: r =>
    if beq c c_bs then
      if fai_bs_skips fx hold then
        match r with [] => [MP] | _ :: r' => MP :: MP :: fa_marks fx hold r' end
      else MP :: fa_marks fx hold r
    else if beq c c_dq then MP :: fa_marks fx (fst (fai_quote hold c_dq)) r
    else if beq c c_sq then MP :: fa_marks fx (fst (fai_quote hold c_sq)) r
    else if beq c c_bt then MP :: fa_marks fx (fst (fai_quote hold c_bt)) r
    else match hold with
         | Some _ => MP :: fa_marks fx hold r
         | None => if beq c c_lb then MO :: fa_marks fx hold r
                   else if beq c c_rb then MC :: fa_marks fx hold r
                   else MP :: fa_marks fx hold r
         end
  end.

(* the state of FindArrayIndex, abstractly: [done] = pairs already closed, [pending] = opening
   positions still waiting, oldest first.  The Go code keeps them in [output] (pending ones with
   end 0), a [stack] of output indexes popped FROM THE FRONT, and a counter [pos]. *)
Definition pend (a : Z) : Z * Z := (a, 0).
Definition repr_out (done : list (Z * Z)) (pending : list Z) : list (Z * Z) :=
  (done ++ map pend pending)%list.
Definition repr_stack (done : list (Z * Z)) (pending : list Z) : list Z :=
  map Z.of_nat (seq (List.length done) (List.length pending)).
Definition repr_pos (done : list (Z * Z)) (pending : list Z) : Z :=
  Z.of_nat (List.length done + List.length pending).

Fixpoint q_run (fx : fixes) (base : Z) (m : list mark) (done : list (Z * Z)) (pending : list Z)
  : option (list (Z * Z)) :=
  match m with
  | [] => match pending with
          | [] => Some (repr_out done pending)
          | _ :: _ => if fx_d25 fx then None else Some (repr_out done pending)
          end
  | MP :: m => q_run fx (base + 1) m done pending
  | MO :: m => q_run fx (base + 1) m done (pending ++ [base])%list
  | MC :: m => match pending with
               | [] => None
               | a :: p => q_run fx (base + 1) m (done ++ [(a, base)])%list p
               end
  end.

Lemma set_snd_repr : forall done a p v,
  set_snd (repr_out done (a :: p)) (Z.of_nat (List.length done)) v
  = Ok (repr_out (done ++ [(a, v)])%list p).
Proof.
  intros. unfold set_snd, repr_out.
  destruct (Z.of_nat (List.length done) <? 0) eqn:E; [lia|].
  rewrite Nat2Z.id. cbn [map pend].
  rewrite nth_error_app2 by lia. rewrite Nat.sub_diag. cbn [nth_error].
  rewrite firstn_app, Nat.sub_diag, firstn_all. cbn [firstn]. rewrite app_nil_r.
  replace (S (List.length done)) with (List.length (done ++ [pend a])%list)
    by (rewrite app_length; cbn; lia).
  replace (done ++ pend a :: map pend p)%list with ((done ++ [pend a]) ++ map pend p)%list
    by (rewrite <- app_assoc; reflexivity).
  rewrite skipn_app, skipn_all, Nat.sub_diag. cbn [skipn app].
  rewrite <- app_assoc. reflexivity.
Qed.

Lemma repr_open : forall done pending base,
  (repr_out done pending ++ [(base, 0)])%list = repr_out done (pending ++ [base])%list
  /\ (repr_stack done pending ++ [repr_pos done pending])%list = repr_stack done (pending ++ [base])%list
  /\ repr_pos done pending + 1 = repr_pos done (pending ++ [base])%list.
Proof.
  intros. unfold repr_out, repr_stack, repr_pos. repeat split.
  - rewrite map_app, app_assoc. reflexivity.
  - rewrite app_length. cbn [List.length]. rewrite Nat.add_1_r, seq_S, map_app. reflexivity.
  - rewrite app_length. cbn [List.length]. lia.
Qed.

Lemma repr_close : forall done a p base,
  repr_stack done (a :: p) = (Z.of_nat (List.length done) :: repr_stack (done ++ [(a, base)])%list p)
  /\ repr_pos done (a :: p) = repr_pos (done ++ [(a, base)])%list p.
Proof.
  intros. unfold repr_stack, repr_pos. split.
  - cbn [List.length seq map]. rewrite app_length. cbn [List.length]. rewrite Nat.add_1_r. reflexivity.
  - rewrite app_length. cbn [List.length]. lia.
Qed.

Lemma beq_eq : forall a b, beq a b = true -> a = b.
Proof. intros a b H. apply Ascii.eqb_eq. exact H. Qed.

Lemma fai_loop_ref : forall fx n rest s pre hold done pending fuel out st pos,
  (List.length rest <= n)%nat -> s = (pre ++ rest)%list -> (List.length rest < fuel)%nat ->
  out = repr_out done pending -> st = repr_stack done pending -> pos = repr_pos done pending ->
  fai_loop fx fuel s (blen pre) hold out st pos
  = lift (q_run fx (blen pre) (fa_marks fx hold rest) done pending).
Proof.
  induction n as [|n IH]; intros rest s pre hold done pending fuel out st pos Hn Hs Hf Ho Hst Hp.
  { destruct rest; [|cbn in Hn; lia]. fuel_S fuel. subst s. cbn [fai_loop fa_marks q_run].
    rewrite lt_end. subst. destruct pending, (fx_d25 fx); reflexivity. }
  destruct rest as [|c rest].
  { fuel_S fuel. subst s. cbn [fai_loop fa_marks q_run].
    rewrite lt_end. subst. destruct pending, (fx_d25 fx); reflexivity. }
  fuel_S fuel. cbn [fai_loop]. subst s. rewrite lt_mid, byte_at_mid. cbn [bind fa_marks].
  (* plain advance by one byte *)
  assert (ADV : forall hold' done' pending' out' st' pos' m',
    out' = repr_out done' pending' -> st' = repr_stack done' pending' -> pos' = repr_pos done' pending' ->
    m' = fa_marks fx hold' rest ->
    fai_loop fx fuel (pre ++ c :: rest)%list (blen pre + 1) hold' out' st' pos'
    = lift (q_run fx (blen pre + 1) m' done' pending')).
  { intros hold' done' pending' out' st' pos' m' E1 E2 E3 E4. subst m'.
    replace (blen pre + 1) with (blen (pre ++ [c])%list) by (rewrite blen_snoc; lia).
    apply IH; auto. cbn in Hn; lia. apply snoc_assoc. cbn in Hf; lia. }
  destruct (beq c c_bs) eqn:Ebs.
  { (* backslash *)
    apply beq_eq in Ebs. subst c.
    destruct (fai_bs_skips fx hold) eqn:Esk.
    - assert (SKIP : fai_loop fx fuel (pre ++ c_bs :: rest)%list (blen pre + 1 + 1) hold out st pos
               = lift (q_run fx (blen pre) (match rest with [] => [MP] | _ :: r' => MP :: MP :: fa_marks fx hold r' end)
                         done pending)).
      { destruct rest as [|d rest].
        - fuel_S fuel. cbn [fai_loop q_run].
          replace (blen pre + 1 + 1 <? blen (pre ++ [c_bs])%list) with false
            by (rewrite blen_snoc; lia).
          subst. destruct pending, (fx_d25 fx); reflexivity.
        - cbn [q_run].
          replace (blen pre + 1 + 1) with (blen ((pre ++ [c_bs]) ++ [d])%list) by (rewrite !blen_snoc; lia).
          apply IH; auto. cbn in Hn; lia. rewrite <- !app_assoc; reflexivity. cbn in Hf; lia. }
      destruct hold; [exact SKIP|].
      change (beq c_bs c_lb) with false. change (beq c_bs c_rb) with false. cbv iota. exact SKIP.
    - destruct hold as [h|]; [|discriminate Esk].
      cbn [q_run]. apply ADV; auto. }
  assert (QUOTE : forall q, beq q c_lb = false -> beq q c_rb = false -> c = q ->
     (let '(i, hold0, cont) := let '(h, c0) := fai_quote hold q in (blen pre, h, c0) in
      if cont then fai_loop fx fuel (pre ++ c :: rest)%list (i + 1) hold0 out st pos
      else match hold0 with
           | Some _ => fai_loop fx fuel (pre ++ c :: rest)%list (i + 1) hold0 out st pos
           | None =>
             if beq c c_lb then fai_loop fx fuel (pre ++ c :: rest)%list (i + 1) hold0 (out ++ [(i, 0)])%list (st ++ [pos])%list (pos + 1)
             else if beq c c_rb then
               match st with
               | [] => Err
               | index :: stack' => let! output' := set_snd out index i in
                                    fai_loop fx fuel (pre ++ c :: rest)%list (i + 1) hold0 output' stack' pos
               end
             else fai_loop fx fuel (pre ++ c :: rest)%list (i + 1) hold0 out st pos
           end)
     = lift (q_run fx (blen pre) (MP :: fa_marks fx (fst (fai_quote hold q)) rest) done pending)).
  { intros q L R ->. cbn [q_run]. unfold fai_quote. destruct hold as [h|].
    - destruct (beq h q); cbn [fst].
      + rewrite L, R. apply ADV; auto.
      + apply ADV; auto.
    - cbn [fst]. apply ADV; auto. }
  destruct (beq c c_dq) eqn:Edq.
  { apply QUOTE; auto using beq_eq. }
  destruct (beq c c_sq) eqn:Esq.
  { apply QUOTE; auto using beq_eq. }
  destruct (beq c c_bt) eqn:Ebt.
  { apply QUOTE; auto using beq_eq. }
  destruct hold as [h|].
  { cbn [q_run]. apply ADV; auto. }
  destruct (beq c c_lb) eqn:Elb.
  { cbn [q_run]. destruct (repr_open done pending (blen pre)) as (A & B & C).
    apply ADV; subst; auto. }
  destruct (beq c c_rb) eqn:Erb.
  { cbn [q_run]. destruct pending as [|a p].
    - subst st. reflexivity.
    - destruct (repr_close done a p (blen pre)) as (A & B).
      subst st. rewrite A. subst out. rewrite set_snd_repr. cbn [bind].
      apply ADV; auto. subst pos. exact B. }
  cbn [q_run]. apply ADV; auto.
Qed.

Theorem find_array_index_l_ref : forall fx s,
  find_array_index_l fx s = lift (q_run fx 0 (fa_marks fx None s) [] []).
Proof.
  intros. unfold find_array_index_l. change 0 with (blen []).
  apply (fai_loop_ref fx (List.length s) s s [] None [] []); auto.
Qed.
