(* Proofs/C14Kernel.v — the interleaving machine of Model/Strategies.v: an invariant that holds
   after EVERY schedule (induction on the schedule, as in notes/feasibility_conc_mutex.v), and its
   consequences: the value Exec returns does not depend on the schedule, every counted goroutine
   has finished when Exec returns, invocations are exactly-once, and no reachable state is stuck. *)
From Coq Require Import Permutation Lia.
From GenqlV Require Import Base.Prelude Base.Value Model.Strategies.
Local Open Scope list_scope.

(* ------------------------------------------------------------------ *)
(* lists                                                                *)
(* ------------------------------------------------------------------ *)

Lemma set_nth_length {A} n (a : A) l : List.length (set_nth n a l) = List.length l.
Proof. revert n; induction l as [|x r IH]; intros [|n]; cbn; auto. Qed.

Lemma In_set_nth {A} n (a x : A) l : In x (set_nth n a l) -> x = a \/ In x l.
Proof.
  revert n; induction l as [|y r IH]; intros [|n]; cbn; auto.
  - intros [H|H]; auto.
  - intros [H|H]; auto. destruct (IH _ H); auto.
Qed.

Lemma Forall_set_nth {A} (P : A -> Prop) n a l : Forall P l -> P a -> Forall P (set_nth n a l).
Proof.
  intros Hl Ha. revert n; induction Hl as [|y r Hy Hr IH]; intros [|n]; cbn; auto.
Qed.

Lemma map_set_nth_same {A B} (h : A -> B) n a w l :
  nth_error l n = Some w -> h a = h w -> map h (set_nth n a l) = map h l.
Proof.
  revert n; induction l as [|y r IH]; intros [|n]; cbn; try discriminate.
  - intros [= ->] ->. reflexivity.
  - intros H1 H2. f_equal. eauto.
Qed.

Lemma flat_map_set_nth_same {A B} (h : A -> list B) n a w l :
  nth_error l n = Some w -> h a = h w -> flat_map h (set_nth n a l) = flat_map h l.
Proof.
  revert n; induction l as [|y r IH]; intros [|n]; cbn; try discriminate.
  - intros [= ->] ->. reflexivity.
  - intros H1 H2. f_equal. eauto.
Qed.

Lemma flat_map_set_nth_perm {A B} (h : A -> list B) n a w l extra :
  nth_error l n = Some w -> Permutation (h a) (h w ++ extra) ->
  Permutation (flat_map h (set_nth n a l)) (flat_map h l ++ extra).
Proof.
  revert n; induction l as [|y r IH]; intros [|n]; cbn; try discriminate.
  - intros [= ->] Hp. rewrite Hp. rewrite <- !app_assoc. apply Permutation_app_head.
    apply Permutation_app_comm.
  - intros H1 H2. rewrite <- app_assoc. apply Permutation_app_head. eauto.
Qed.

Lemma nth_error_In' {A} (l : list A) n x : nth_error l n = Some x -> In x l.
Proof. apply nth_error_In. Qed.

(* ------------------------------------------------------------------ *)
(* static shape of main's action list                                   *)
(* ------------------------------------------------------------------ *)

Definition agroup (a : action) : option nat :=
  match a with ASync _ => None | ASpawn _ g _ => Some g | AFwd g => Some g end.

(* after the forwarder of group g has been started nothing is added to group g; g is not the root *)
Fixpoint wfP (acts : list action) : Prop :=
  match acts with
  | [] => True
  | a :: r => match a with
              | AFwd g => g <> 0 /\ Forall (fun b => agroup b <> Some g) r
              | _ => True
              end /\ wfP r
  end.

(* every counted goroutine of a nested group is followed by that group's forwarder *)
Fixpoint coveredP (acts : list action) : Prop :=
  match acts with
  | [] => True
  | a :: r => match a with
              | ASpawn k g c => counted k = true -> g <> 0 -> In (AFwd g) r
              | _ => True
              end /\ coveredP r
  end.

Lemma wfP_mid done a rest g :
  wfP (done ++ a :: rest) -> In (AFwd g) done -> g <> 0 /\ agroup a <> Some g.
Proof.
  induction done as [|b r IH]; cbn; [easy|].
  intros [Hb Hr] [->|Hin]; [|auto].
  destruct Hb as [Hg Hall]. split; [exact Hg|].
  rewrite Forall_forall in Hall. apply Hall. apply in_or_app. right. now left.
Qed.

Lemma wfP_fwd_nonroot acts g : wfP acts -> In (AFwd g) acts -> g <> 0.
Proof.
  induction acts as [|b r IH]; cbn; [easy|].
  intros [Hb Hr] [->|Hin]; [tauto|auto].
Qed.

Lemma coveredP_in acts k g c :
  coveredP acts -> In (ASpawn k g c) acts -> counted k = true -> g <> 0 -> In (AFwd g) acts.
Proof.
  induction acts as [|b r IH]; cbn; [easy|].
  intros [Hb Hr] [->|Hin] Hk Hg; [right; auto|right; auto].
Qed.

Lemma wfP_app l1 l2 :
  wfP l1 -> wfP l2 ->
  (forall g, In (AFwd g) l1 -> Forall (fun b => agroup b <> Some g) l2) ->
  wfP (l1 ++ l2).
Proof.
  induction l1 as [|a r IH]; cbn; [auto|].
  intros [Ha Hr] H2 Hx. split.
  - destruct a; auto. destruct Ha as [Hg Hall]. split; [auto|].
    apply Forall_app. split; [auto|]. apply Hx. now left.
  - apply IH; auto.
Qed.

Lemma coveredP_app l1 l2 :
  coveredP l1 -> coveredP l2 -> coveredP (l1 ++ l2).
Proof.
  induction l1 as [|a r IH]; cbn; [auto|].
  intros [Ha Hr] H2. split; [|auto].
  destruct a; auto. intros Hk Hg. apply in_or_app. left. auto.
Qed.

(* groups used by a flattened block list *)
Definition grp_in (lo hi : nat) (b : action) : Prop :=
  forall h, agroup b = Some h -> h = 0 \/ (lo <= h /\ h < hi).

Lemma lift_group g a h : agroup (lift g a) = Some h -> h = g.
Proof. destruct a; cbn; congruence. Qed.

Lemma grp_in_weaken lo hi lo' hi' l :
  lo' <= lo -> hi <= hi' -> Forall (grp_in lo hi) l -> Forall (grp_in lo' hi') l.
Proof.
  intros H1 H2. apply Forall_impl. intros a Ha h Hh. destruct (Ha h Hh); [auto|right; lia].
Qed.

Lemma flatten_groups g bs :
  Forall (grp_in g (g + List.length bs)) (flatten_from g bs).
Proof.
  revert g; induction bs as [|b r IH]; intros g; cbn [flatten_from]; [constructor|].
  apply Forall_app. split.
  - destruct b as [a|l]; cbn [flat_block].
    + constructor; [|constructor]. intros h Hh. apply lift_group in Hh. auto.
    + apply Forall_app. split.
      * apply Forall_forall. intros x Hx. apply in_map_iff in Hx. destruct Hx as [a [<- _]].
        intros h Hh. apply lift_group in Hh. subst. right. cbn. lia.
      * constructor; [|constructor]. intros h [= <-]. right. cbn. lia.
  - eapply grp_in_weaken; [| |apply IH]; cbn; lia.
Qed.

Lemma wfP_flatten g bs : 0 < g -> wfP (flatten_from g bs).
Proof.
  revert g; induction bs as [|b r IH]; intros g Hg; cbn [flatten_from]; [exact I|].
  apply wfP_app.
  - destruct b as [a|l]; cbn [flat_block].
    + destruct a; cbn; auto.
    + induction l as [|a l IHl]; cbn.
      * split; [|exact I]. split; [lia|constructor].
      * split; [destruct a; cbn; auto|exact IHl].
  - apply IH. lia.
  - intros h Hin. destruct b as [a|l]; cbn [flat_block] in Hin.
    + destruct Hin as [Hin|[]]. destruct a; discriminate.
    + apply in_app_or in Hin. destruct Hin as [Hin|[Hin|[]]].
      * apply in_map_iff in Hin. destruct Hin as [a [Ha _]]. destruct a; discriminate.
      * injection Hin as <-. pose proof (flatten_groups (S g) r) as HG.
        eapply Forall_impl; [|exact HG]. intros x Hx Heq. destruct (Hx _ Heq); lia.
Qed.

Lemma coveredP_flatten g bs : coveredP (flatten_from g bs).
Proof.
  revert g; induction bs as [|b r IH]; intros g; cbn [flatten_from]; [exact I|].
  apply coveredP_app; [|apply IH].
  destruct b as [a|l]; cbn [flat_block].
  - destruct a; cbn; auto.
  - induction l as [|a l IHl]; cbn; [auto|].
    split; [|exact IHl]. destruct a; cbn; auto.
    intros _ _. apply in_or_app. right. now left.
Qed.

Lemma wfP_prog p : wfP (prog_acts p).
Proof.
  destruct p as [bs partial|bs t]; cbn [prog_acts]; [|apply wfP_flatten; lia].
  apply wfP_app.
  - apply wfP_flatten; lia.
  - induction partial as [|a l IHl]; cbn; [exact I|]. split; [destruct a; cbn; auto|exact IHl].
  - intros h Hin. pose proof (flatten_groups 1 bs) as HG. rewrite Forall_forall in HG.
    specialize (HG _ Hin h eq_refl).
    apply Forall_forall. intros x Hx Heq. apply in_map_iff in Hx. destruct Hx as [a [<- _]].
    apply lift_group in Heq. pose proof (wfP_fwd_nonroot _ _ (wfP_flatten 1 bs ltac:(lia)) Hin). lia.
Qed.

Lemma coveredP_prog bs t : coveredP (prog_acts (PPost bs t)).
Proof. apply coveredP_flatten. Qed.

(* ------------------------------------------------------------------ *)
(* counting pending goroutines                                          *)
(* ------------------------------------------------------------------ *)

Definition pend (g : nat) (w : worker) : nat :=
  match target (w_prog w) with
  | Some h => if Nat.eqb h g then (if w_pc w <? 3 then 1 else 0) else 0
  | None => 0
  end.
Fixpoint cnt (g : nat) (l : list worker) : nat :=
  match l with [] => 0 | w :: r => pend g w + cnt g r end.

Lemma cnt_app g l1 l2 : cnt g (l1 ++ l2) = cnt g l1 + cnt g l2.
Proof. induction l1; cbn; lia. Qed.

Lemma cnt_set_nth g n w w' l :
  nth_error l n = Some w -> cnt g (set_nth n w' l) + pend g w = cnt g l + pend g w'.
Proof.
  revert n; induction l as [|y r IH]; intros [|n]; cbn; try discriminate.
  - intros [= ->]. lia.
  - intros H. specialize (IH _ H). lia.
Qed.

Lemma cnt_zero_pc g l w :
  cnt g l = 0 -> In w l -> target (w_prog w) = Some g -> 3 <= w_pc w.
Proof.
  induction l as [|y r IH]; cbn; [easy|].
  intros H0 [->|Hin] Ht.
  - assert (Hp : pend g w = 0) by lia. unfold pend in Hp. rewrite Ht, Nat.eqb_refl in Hp.
    destruct (w_pc w <? 3) eqn:E; [discriminate|]. apply Nat.ltb_ge in E. exact E.
  - apply IH; auto. lia.
Qed.

(* invocations made by goroutines so far *)
Definition called1 (w : worker) : list call :=
  match w_prog w with
  | WCall _ _ c => if 1 <=? w_pc w then [c] else []
  | WFwd _ => []
  end.
Definition called (l : list worker) : list call := flat_map called1 l.

(* per-goroutine facts *)
Definition wok (f : oracle) (w : worker) : Prop :=
  w_pc w <= 3 /\
  (forall k g c, w_prog w = WCall k g c ->
     (1 <= w_pc w -> w_tmp w = Some (apply_f f c)) /\ (2 <= w_pc w -> w_slot w = Some (apply_f f c))) /\
  (forall g, w_prog w = WFwd g -> w_pc w <> 1).

Section Kernel.
Variable f : oracle.
Variable acts : list action.
Variable e : fin.
Hypothesis Hwf : wfP acts.
Hypothesis Hcov : forall t, e = FinPost t -> coveredP acts.

Record Inv (s : st) : Prop := {
  I_split : acts = m_done s ++ m_todo s;
  I_ws : map w_prog (ws s) = spawned (m_done s);
  I_ok : Forall (wok f) (ws s);
  I_wg : forall g, wgs s g = cnt g (ws s);
  I_fwd : forall w g, In w (ws s) -> w_prog w = WFwd g -> 2 <= w_pc w -> wgs s g = 0;
  I_log : Permutation (log s) (sync_calls (m_done s) ++ called (ws s));
  I_phase : m_phase s <> Running ->
            m_todo s = [] /\ (exists t, e = FinPost t) /\
            forall w, In w (ws s) -> target (w_prog w) <> None -> w_pc w = 3;
  I_res : forall r, m_res s = Some r ->
          r = seq_result f acts e /\ m_todo s = [] /\ (forall t, e = FinPost t -> m_phase s = Finished)
}.

Lemma Inv_init : Inv (init acts).
Proof.
  constructor; cbn; auto; try easy.
Qed.

Lemma spawned_snoc l a : spawned (l ++ [a]) = spawned l ++ spawned_by a.
Proof. unfold spawned. rewrite flat_map_app. cbn. now rewrite app_nil_r. Qed.

Lemma sync_calls_snoc l a :
  sync_calls (l ++ [a]) = sync_calls l ++ match a with ASync c => [c] | _ => [] end.
Proof. unfold sync_calls. rewrite flat_map_app. cbn. now rewrite app_nil_r. Qed.

Lemma split_snoc {A} (l : list A) a r : l ++ a :: r = (l ++ [a]) ++ r.
Proof. now rewrite <- app_assoc. Qed.

Lemma in_spawned_fwd l g : In (WFwd g) (spawned l) -> In (AFwd g) l.
Proof.
  unfold spawned. intros H. apply in_flat_map in H. destruct H as [a [Ha Hb]].
  destruct a; cbn in Hb; try tauto; destruct Hb as [Hb|[]]; try discriminate.
  now injection Hb as ->.
Qed.

Lemma in_spawned_call l k g c : In (WCall k g c) (spawned l) -> In (ASpawn k g c) l.
Proof.
  unfold spawned. intros H. apply in_flat_map in H. destruct H as [a [Ha Hb]].
  destruct a; cbn in Hb; try tauto; destruct Hb as [Hb|[]]; try discriminate.
  now injection Hb as -> -> ->.
Qed.

Lemma in_fwd_spawned l g : In (AFwd g) l -> In (WFwd g) (spawned l).
Proof. intros H. unfold spawned. apply in_flat_map. exists (AFwd g). split; [auto|now left]. Qed.

(* main starts a goroutine *)
Lemma Inv_spawn s a rest p :
  Inv s -> m_res s = None -> m_todo s = a :: rest -> spawned_by a = [p] ->
  (match a with ASync _ => False | _ => True end) ->
  Inv (mkSt (m_done s ++ [a]) rest (m_phase s) None (add_for (wgs s) p)
            (ws s ++ [new_worker p]) (log s) (rep s)).
Proof.
  intros [Hs Hw Hok Hg Hf Hl Hp Hr] Hres Htodo Hsp Hns.
  assert (Hph : m_phase s = Running).
  { destruct (m_phase s) eqn:E; auto; destruct Hp as [Hp _]; try congruence; rewrite Htodo in Hp; discriminate. }
  assert (Hacts : acts = m_done s ++ a :: rest) by (rewrite Hs, Htodo; reflexivity).
  (* no forwarder of the group this goroutine counts on has been started *)
  assert (Hnofwd : forall g, target p = Some g -> ~ In (WFwd g) (map w_prog (ws s))).
  { intros g Ht Hin. rewrite Hw in Hin. apply in_spawned_fwd in Hin.
    rewrite Hacts in Hwf. destruct (wfP_mid _ _ _ _ Hwf Hin) as [Hg0 Hag].
    destruct a; cbn in Hsp; try discriminate; injection Hsp as <-; cbn in Ht.
    - destruct (counted k); [|discriminate]. injection Ht as ->. cbn in Hag. congruence.
    - injection Ht as <-. congruence. }
  constructor; cbn.
  - rewrite Hacts. apply split_snoc.
  - rewrite map_app, spawned_snoc, Hw, Hsp. reflexivity.
  - apply Forall_app. split; [auto|]. constructor; [|constructor].
    unfold wok, new_worker; cbn. repeat split; try lia.
  - intros g. rewrite cnt_app. unfold add_for. cbn. unfold pend at 1. cbn.
    destruct (target p) as [h|] eqn:Et.
    + unfold upd. destruct (Nat.eqb_spec g h) as [->|Hne].
      * rewrite Nat.eqb_refl. rewrite Hg. lia.
      * destruct (Nat.eqb_spec h g); [congruence|]. rewrite Hg. lia.
    + rewrite Hg. lia.
  - intros w g Hin Hpw Hpc. apply in_app_or in Hin. destruct Hin as [Hin|[<-|[]]]; [|cbn in Hpc; lia].
    unfold add_for. destruct (target p) as [h|] eqn:Et; [|eauto].
    unfold upd. destruct (Nat.eqb_spec g h) as [->|Hne]; [|eauto].
    exfalso. apply (Hnofwd h eq_refl). rewrite <- Hpw. now apply in_map.
  - rewrite sync_calls_snoc. unfold called. rewrite flat_map_app.
    destruct a; try tauto; cbn in Hsp; injection Hsp as <-; cbn; rewrite !app_nil_r; exact Hl.
  - rewrite Hph. congruence.
  - discriminate.
Qed.

(* a goroutine advances: same program, larger pc *)
Lemma Inv_worker s n w w' wgs' log' rep' extra :
  Inv s -> nth_error (ws s) n = Some w ->
  w_prog w' = w_prog w -> w_pc w < w_pc w' -> wok f w' ->
  (forall g, wgs' g + pend g w = wgs s g + pend g w') ->
  (forall g, w_prog w' = WFwd g -> 2 <= w_pc w' -> wgs' g = 0) ->
  log' = log s ++ extra -> Permutation (called1 w') (called1 w ++ extra) ->
  Inv (mkSt (m_done s) (m_todo s) (m_phase s) (m_res s) wgs' (set_nth n w' (ws s)) log' rep').
Proof.
  intros [Hs Hw Hok Hg Hf Hl Hp Hr] Hn Hprog Hpc Hwok Hwg Hfw Hlog Hcal.
  assert (Hle : forall g, wgs' g <= wgs s g).
  { intros g. specialize (Hwg g). assert (pend g w' <= pend g w); [|lia].
    unfold pend. rewrite Hprog. destruct (target (w_prog w)); [|lia].
    destruct (Nat.eqb n0 g); [|lia].
    destruct (w_pc w' <? 3) eqn:E1; destruct (w_pc w <? 3) eqn:E2; try lia.
    apply Nat.ltb_lt in E1. apply Nat.ltb_ge in E2. lia. }
  constructor; cbn.
  - exact Hs.
  - etransitivity; [|exact Hw]. eapply map_set_nth_same; eauto.
  - apply Forall_set_nth; auto.
  - intros g. pose proof (cnt_set_nth g n w w' (ws s) Hn). specialize (Hwg g). rewrite Hg in Hwg. lia.
  - intros x g Hin Hpx Hpcx. apply In_set_nth in Hin. destruct Hin as [->|Hin]; [auto|].
    specialize (Hf _ _ Hin Hpx Hpcx). specialize (Hle g). lia.
  - subst log'. rewrite Hl. rewrite <- app_assoc. apply Permutation_app_head.
    symmetry. unfold called. eapply flat_map_set_nth_perm; eauto.
  - intros Hph. destruct (Hp Hph) as [H1 [H2 H3]]. repeat split; auto.
    intros x Hin Ht. apply In_set_nth in Hin. destruct Hin as [->|Hin]; [|auto].
    rewrite Hprog in Ht. pose proof (H3 _ (nth_error_In _ _ Hn) Ht).
    destruct Hwok as [Hle3 _]. lia.
  - exact Hr.
Qed.

Lemma wok_nth s n w : Inv s -> nth_error (ws s) n = Some w -> wok f w.
Proof.
  intros HI Hn. pose proof (I_ok _ HI) as H. rewrite Forall_forall in H. apply H.
  eapply nth_error_In; eauto.
Qed.

Lemma upd_same m g v : upd m g v g = v.
Proof. unfold upd. now rewrite Nat.eqb_refl. Qed.
Lemma upd_other m g v h : h <> g -> upd m g v h = m h.
Proof. unfold upd. intros H. destruct (Nat.eqb_spec h g); congruence. Qed.

Ltac wok_tac := unfold wok; cbn; repeat split; intros; try lia; try congruence.

Lemma cnt_ge1 g l n w : nth_error l n = Some w -> pend g w = 1 -> 1 <= cnt g l.
Proof.
  revert n; induction l as [|y r IH]; intros [|n]; cbn; try discriminate.
  - intros [= ->] H. lia.
  - intros H1 H2. specialize (IH _ H1 H2). lia.
Qed.

Ltac fin_tac Hp Hpc :=
  try solve [wok_tac];
  try solve [intros h; unfold pend; cbn; rewrite Hp, Hpc; cbn; reflexivity];
  try solve [unfold called1; cbn; rewrite Hp, ?Hpc; cbn; reflexivity];
  try solve [intros h Hx; congruence];
  try solve [now rewrite app_nil_r].

Lemma Inv_worker_step s n : Inv s -> Inv (worker_step f s n).
Proof.
  intros HI. unfold worker_step. destruct (nth_error (ws s) n) as [w|] eqn:Hn; [|exact HI].
  pose proof (wok_nth _ _ _ HI Hn) as [Hle3 [Hcall Hfwd]].
  destruct (w_prog w) as [k g c|g] eqn:Hp; destruct (w_pc w) as [|[|[|pc]]] eqn:Hpc; try exact HI.
  - (* call *)
    eapply Inv_worker with (w := w) (extra := [c]); eauto; cbn; try lia; fin_tac Hp Hpc.
  - (* store *)
    destruct (Hcall _ _ _ eq_refl) as [Htmp _]. specialize (Htmp ltac:(lia)).
    eapply Inv_worker with (w := w) (extra := []); eauto; cbn; try lia; fin_tac Hp Hpc.
  - (* Done of a call goroutine *)
    destruct (Hcall _ _ _ eq_refl) as [Htmp Hslot]. specialize (Htmp ltac:(lia)). specialize (Hslot ltac:(lia)).
    eapply Inv_worker with (w := w) (extra := []); eauto; cbn; try lia; fin_tac Hp Hpc.
    intros h. unfold pend, done_on; cbn. rewrite Hp, Hpc. cbn.
    destruct (counted k) eqn:Ek; [|reflexivity].
    destruct (Nat.eqb_spec g h) as [->|Hne].
    + rewrite upd_same. pose proof (I_wg _ HI h) as Hc.
      assert (1 <= cnt h (ws s)).
      { eapply cnt_ge1; eauto. unfold pend. rewrite Hp, Hpc. cbn. rewrite Ek, Nat.eqb_refl. reflexivity. }
      lia.
    + rewrite upd_other by congruence. lia.
  - (* forwarder: Wait *)
    destruct (Nat.eqb_spec (wgs s g) 0) as [Hz|Hnz]; [|exact HI].
    eapply Inv_worker with (w := w) (extra := []); eauto; cbn; try lia; fin_tac Hp Hpc.
  - (* forwarder: Done on the root *)
    eapply Inv_worker with (w := w) (extra := []); eauto; cbn; try lia; fin_tac Hp Hpc.
    + intros h. unfold pend, done_on. cbn [w_prog w_pc]. rewrite Hp, Hpc. cbn [target].
      destruct (Nat.eqb_spec 0 h) as [<-|Hne].
      * rewrite upd_same. pose proof (I_wg _ HI 0) as Hc.
        assert (1 <= cnt 0 (ws s)).
        { eapply cnt_ge1; eauto. unfold pend. rewrite Hp, Hpc. reflexivity. }
        cbn. lia.
      * rewrite upd_other by congruence. destruct h; cbn; lia.
    + intros h Hx _. injection Hx as <-.
      (* the forwarder passed its Wait at pc 2 already *)
      destruct (Nat.eqb_spec g 0) as [->|Hg0].
      * exfalso. pose proof (I_ws _ HI) as Hw. pose proof (I_split _ HI) as Hs.
        assert (Hin : In (WFwd 0) (spawned (m_done s))).
        { rewrite <- Hw. rewrite <- Hp. apply in_map. eapply nth_error_In; eauto. }
        apply in_spawned_fwd in Hin. eapply (wfP_fwd_nonroot acts 0); eauto.
        rewrite Hs. apply in_or_app. now left.
      * unfold done_on; cbn. rewrite upd_other by auto.
        eapply (I_fwd _ HI w g); eauto. eapply nth_error_In; eauto. lia.
Qed.

Lemma slots_ideal l :
  Forall (wok f) l -> (forall w, In w l -> target (w_prog w) <> None -> w_pc w = 3) ->
  slots_of l = map (ideal_slot f) (map w_prog l).
Proof.
  intros Hok Hdone. unfold slots_of. rewrite map_map. apply map_ext_in.
  intros w Hin. rewrite Forall_forall in Hok. destruct (Hok _ Hin) as [_ [Hcall _]].
  destruct (w_prog w) as [k g c|g] eqn:Hp; cbn; [|reflexivity].
  destruct k; try reflexivity.
  destruct (Hcall _ _ _ eq_refl) as [_ Hslot]. apply Hslot.
  rewrite (Hdone _ Hin); [lia|]. rewrite Hp. cbn. discriminate.
Qed.

Lemma Inv_main_step s : Inv s -> Inv (main_step e s).
Proof.
  intros HI. unfold main_step. destruct (m_res s) as [r|] eqn:Hres; [exact HI|].
  destruct (m_todo s) as [|a rest] eqn:Htodo.
  - (* end of the action list *)
    destruct e as [|t] eqn:He.
    + (* exec returned an error *)
      destruct HI as [Hs Hw Hok Hg Hf Hl Hp Hr]. constructor; cbn; auto.
      * rewrite Hs, Htodo. reflexivity.
      * intros Hph. destruct (Hp Hph) as [_ [[t Ht] _]]. rewrite He in Ht. discriminate.
      * intros r [= <-]. rewrite He. repeat split. intros t Ht. discriminate.
    + destruct (m_phase s) eqn:Hph.
      * (* Wait *)
        destruct (Nat.eqb_spec (wgs s 0) 0) as [Hz|Hnz]; [|exact HI].
        pose proof HI as [Hs Hw Hok Hg Hf Hl Hp Hr]. constructor; cbn; auto.
        -- rewrite Hs, Htodo. reflexivity.
        -- intros _. split; [reflexivity|]. split; [now exists t|].
           intros w Hin Ht.
           assert (Hle : w_pc w <= 3).
           { rewrite Forall_forall in Hok. now destruct (Hok _ Hin). }
           destruct (target (w_prog w)) as [g|] eqn:Etg; [|congruence].
           assert (Hz0 : forall w0, In w0 (ws s) -> target (w_prog w0) = Some 0 -> w_pc w0 = 3).
           { intros w0 Hin0 Ht0. rewrite Hg in Hz.
             pose proof (cnt_zero_pc _ _ _ Hz Hin0 Ht0).
             rewrite Forall_forall in Hok. destruct (Hok _ Hin0). lia. }
           destruct (Nat.eqb_spec g 0) as [->|Hg0]; [auto|].
           (* a nested group: its forwarder was started and has finished *)
           assert (Hdone : m_done s = acts) by (rewrite Hs, Htodo, app_nil_r; reflexivity).
           destruct (w_prog w) as [k g' c|g'] eqn:Hpw; cbn in Etg; [|congruence].
           destruct (counted k) eqn:Ek; [|discriminate]. injection Etg as ->.
           assert (Hin1 : In (ASpawn k g c) acts).
           { rewrite <- Hdone. apply in_spawned_call. rewrite <- Hw, <- Hpw. now apply in_map. }
           pose proof (coveredP_in _ _ _ _ (Hcov t eq_refl) Hin1 Ek Hg0) as Hfw.
           rewrite <- Hdone in Hfw. apply in_fwd_spawned in Hfw. rewrite <- Hw in Hfw.
           apply in_map_iff in Hfw. destruct Hfw as [w1 [Hp1 Hin1']].
           assert (Hpc1 : w_pc w1 = 3) by (apply Hz0; [auto|rewrite Hp1; reflexivity]).
           assert (Hzg : wgs s g = 0) by (eapply Hf; eauto; lia).
           rewrite Hg in Hzg.
           assert (3 <= w_pc w).
           { eapply cnt_zero_pc; eauto. rewrite Hpw. cbn. now rewrite Ek. }
           lia.
        -- discriminate.
      * (* post-processors after the wait *)
        pose proof HI as [Hs Hw Hok Hg Hf Hl Hp Hr].
        destruct Hp as [_ [_ Hall]]; [congruence|].
        constructor; cbn; auto.
        -- rewrite Hs, Htodo. reflexivity.
        -- intros _. repeat split; eauto.
        -- intros r [= <-]. rewrite He. repeat split; auto. cbn.
           unfold ideal_slots. f_equal. rewrite slots_ideal; auto. rewrite Hw.
           rewrite Hs, Htodo, app_nil_r. reflexivity.
      * pose proof HI as [Hs Hw Hok Hg Hf Hl Hp Hr].
        destruct Hp as [_ [_ Hall]]; [congruence|].
        constructor; cbn; auto.
        -- rewrite Hs, Htodo. reflexivity.
        -- intros _. repeat split; eauto.
        -- intros r [= <-]. rewrite He. repeat split; auto. cbn.
           unfold ideal_slots. f_equal. rewrite slots_ideal; auto. rewrite Hw.
           rewrite Hs, Htodo, app_nil_r. reflexivity.
  - destruct a as [c|k g c|g].
    + (* synchronous call *)
      pose proof HI as [Hs Hw Hok Hg Hf Hl Hp Hr].
      assert (Hph : m_phase s = Running).
      { destruct (m_phase s) eqn:E; auto; destruct Hp as [Hp _]; try congruence. }
      constructor; cbn; auto.
      * rewrite Hs, Htodo. apply split_snoc.
      * rewrite spawned_snoc, app_nil_r. exact Hw.
      * rewrite sync_calls_snoc. rewrite Hl. rewrite <- !app_assoc. apply Permutation_app_head.
        apply Permutation_app_comm.
      * rewrite Hph. congruence.
      * discriminate.
    + apply (Inv_spawn s (ASpawn k g c) rest (WCall k g c)); auto.
    + apply (Inv_spawn s (AFwd g) rest (WFwd g)); auto.
Qed.

Lemma Inv_step s t : Inv s -> Inv (step f e s t).
Proof. destruct t; cbn; [apply Inv_main_step|apply Inv_worker_step]. Qed.

Theorem Inv_run sched : Inv (run f acts e sched).
Proof.
  unfold run. assert (H : Inv (init acts)) by apply Inv_init. revert H. generalize (init acts).
  induction sched as [|t sched IH]; cbn; intros s H; [exact H|]. apply IH, Inv_step, H.
Qed.

(* ---------- consequences, for every schedule ---------- *)

(* the value Exec returns does not depend on the schedule *)
Theorem run_result sched r :
  m_res (run f acts e sched) = Some r -> r = seq_result f acts e.
Proof. intros H. now destruct (I_res _ (Inv_run sched) _ H). Qed.

(* when Exec returns after the wait, every goroutine that called wg.Add (ASYNC, SPINASYNC,
   forwarders — in every nested group) has been started and has finished *)
Theorem run_completed sched r t :
  m_res (run f acts e sched) = Some r -> e = FinPost t ->
  map w_prog (ws (run f acts e sched)) = spawned acts /\
  forall w, In w (ws (run f acts e sched)) -> target (w_prog w) <> None -> w_pc w = 3.
Proof.
  intros H He. pose proof (Inv_run sched) as HI. set (s := run f acts e sched) in *.
  destruct (I_res _ HI _ H) as [_ [Htodo Hph]]. specialize (Hph _ He).
  destruct (I_phase _ HI) as [_ [_ Hall]]; [congruence|]. split; [|exact Hall].
  rewrite (I_ws _ HI). f_equal. pose proof (I_split _ HI) as Hsp.
  rewrite Htodo, app_nil_r in Hsp. symmetry. exact Hsp.
Qed.

(* invocations *)
Definition wcall_counted (p : wprog) : list call :=
  match p with WCall k _ c => if counted k then [c] else [] | WFwd _ => [] end.
Definition wcall_spin (p : wprog) : list call :=
  match p with WCall WSpin _ c => [c] | _ => [] end.
Definition spun1 (w : worker) : list call :=
  match w_prog w with WCall WSpin _ _ => called1 w | _ => [] end.
Definition unspun1 (w : worker) : list call :=
  match w_prog w with WCall WSpin _ c => if 1 <=? w_pc w then [] else [c] | _ => [] end.

Lemma called_split l :
  (forall w, In w l -> target (w_prog w) <> None -> w_pc w = 3) ->
  Permutation (called l) (flat_map wcall_counted (map w_prog l) ++ flat_map spun1 l).
Proof.
  induction l as [|w r IH]; intros H; cbn; [constructor|].
  assert (IH' := IH (fun x Hx => H x (or_intror Hx))). clear IH.
  pose proof (H w (or_introl eq_refl)) as Hw.
  unfold called1 at 1, spun1 at 1. destruct (w_prog w) as [k g c|g] eqn:Hp; cbn; [|exact IH'].
  destruct k; cbn in *.
  - rewrite Hw by discriminate. cbn. apply perm_skip. exact IH'.
  - rewrite Hw by discriminate. cbn. apply perm_skip. exact IH'.
  - unfold called1. rewrite Hp. rewrite IH'.
    rewrite !app_assoc. apply Permutation_app_tail. apply Permutation_app_comm.
Qed.

Lemma spin_split l :
  Permutation (flat_map wcall_spin (map w_prog l)) (flat_map spun1 l ++ flat_map unspun1 l).
Proof.
  induction l as [|w r IH]; cbn; [constructor|].
  unfold spun1 at 1, unspun1 at 1, called1. destruct (w_prog w) as [k g c|g] eqn:Hp; cbn; [|exact IH].
  destruct k; cbn; try exact IH.
  destruct (w_pc w) as [|pc]; cbn.
  - rewrite IH. apply Permutation_middle.
  - apply perm_skip. exact IH.
Qed.

Definition prog_calls (l : list action) : list call :=
  flat_map (fun a => match a with
                     | ASync c => [c]
                     | ASpawn k _ c => if counted k then [c] else []
                     | AFwd _ => []
                     end) l.
Definition spin_calls (l : list action) : list call :=
  flat_map (fun a => match a with ASpawn WSpin _ c => [c] | _ => [] end) l.

Lemma prog_calls_perm l :
  Permutation (prog_calls l) (sync_calls l ++ flat_map wcall_counted (spawned l)).
Proof.
  induction l as [|a r IH]; cbn; [constructor|].
  destruct a as [c|k g c|g]; cbn.
  - apply perm_skip. exact IH.
  - rewrite ?app_nil_r. destruct (counted k); cbn; [|exact IH].
    rewrite IH. apply Permutation_middle.
  - exact IH.
Qed.

Lemma spin_calls_eq l : spin_calls l = flat_map wcall_spin (spawned l).
Proof.
  induction l as [|a r IH]; cbn; [reflexivity|].
  destruct a as [c|k g c|g]; cbn; auto. destruct k; cbn; auto. f_equal. exact IH.
Qed.

(* exactly once: when Exec returns after the wait, the invocation log consists of every
   synchronous, ASYNC and SPINASYNC call of the run exactly once, plus those SPIN calls that
   happened to run already (each at most once) *)
Theorem run_exactly_once sched r t :
  m_res (run f acts e sched) = Some r -> e = FinPost t ->
  exists spun unspun,
    Permutation (log (run f acts e sched)) (prog_calls acts ++ spun) /\
    Permutation (spin_calls acts) (spun ++ unspun).
Proof.
  intros H He. destruct (run_completed _ _ _ H He) as [Hws Hall].
  pose proof (Inv_run sched) as HI. set (s := run f acts e sched) in *.
  destruct (I_res _ HI _ H) as [_ [Htodo _]].
  exists (flat_map spun1 (ws s)), (flat_map unspun1 (ws s)). split.
  - rewrite (I_log _ HI). rewrite (called_split _ Hall). rewrite Hws.
    assert (Hd : m_done s = acts).
    { pose proof (I_split _ HI) as Hsp. rewrite Htodo, app_nil_r in Hsp. symmetry. exact Hsp. }
    rewrite Hd. rewrite app_assoc. apply Permutation_app_tail. symmetry. apply prog_calls_perm.
  - rewrite spin_calls_eq, <- Hws. apply spin_split.
Qed.

(* ---------- no deadlock ---------- *)

Fixpoint wsum (l : list worker) : nat :=
  match l with [] => 0 | w :: r => (3 - w_pc w) + wsum r end.

Definition mainpart (s : st) : nat :=
  4 * List.length (m_todo s) +
  match m_res s with
  | Some _ => 0
  | None => match m_phase s with Running => 2 | _ => 1 end
  end.

Definition mu (s : st) : nat := mainpart s + wsum (ws s).

Lemma wsum_app l1 l2 : wsum (l1 ++ l2) = wsum l1 + wsum l2.
Proof. induction l1; cbn [wsum app]; lia. Qed.

Lemma wsum_set_nth n w w' l :
  nth_error l n = Some w -> wsum (set_nth n w' l) + (3 - w_pc w) = wsum l + (3 - w_pc w').
Proof.
  revert n; induction l as [|y r IH]; intros [|n]; cbn [wsum set_nth nth_error]; try discriminate.
  - intros [= ->]. lia.
  - intros H. specialize (IH _ H). lia.
Qed.

Lemma find_first {A} (p : A -> bool) l :
  (exists n w, nth_error l n = Some w /\ p w = true) \/ Forall (fun w => p w = false) l.
Proof.
  induction l as [|x r IH]; [right; constructor|].
  destruct (p x) eqn:E; [left; exists 0, x; auto|].
  destruct IH as [[n [w [H1 H2]]]|H]; [left; exists (S n), w; auto|right; constructor; auto].
Qed.

Lemma cnt_all_zero g l : (forall w, In w l -> pend g w = 0) -> cnt g l = 0.
Proof.
  induction l as [|x r IH]; cbn; intros H; [reflexivity|].
  rewrite (H x (or_introl eq_refl)), IH; auto.
Qed.

Definition call_pending (w : worker) : bool :=
  match w_prog w with WCall _ _ _ => w_pc w <? 3 | WFwd _ => false end.
Definition fwd_pending (w : worker) : bool :=
  match w_prog w with WFwd _ => w_pc w <? 3 | WCall _ _ _ => false end.

Definition is_final (s : st) : Prop := m_res s <> None /\ Forall (fun w => w_pc w = 3) (ws s).

(* in every reachable state that is not final some thread can take a step (which lowers mu) *)
Lemma progress s : Inv s -> is_final s \/ exists t, mu (step f e s t) < mu s.
Proof.
  intros HI. pose proof HI as [Hs Hw Hok Hg Hf Hl Hp Hr].
  destruct (find_first call_pending (ws s)) as [[n [w [Hn Hc]]]|Hnc].
  { (* a call goroutine can always move *)
    right. exists (S n). cbn. unfold worker_step. rewrite Hn.
    unfold call_pending in Hc. destruct (w_prog w) as [k g c|g] eqn:Hpw; [|discriminate].
    apply Nat.ltb_lt in Hc.
    destruct (w_pc w) as [|[|[|pc]]] eqn:Hpc; try lia; unfold mu, mainpart; cbn;
      match goal with |- context [set_nth n ?w' _] => pose proof (wsum_set_nth n w w' (ws s) Hn) as Hsum end;
      cbn in Hsum; rewrite Hpc in Hsum; lia. }
  assert (Hcall3 : forall w, In w (ws s) -> forall k g c, w_prog w = WCall k g c -> w_pc w = 3).
  { intros w Hin k g c Hpw. rewrite Forall_forall in Hnc, Hok. specialize (Hnc _ Hin).
    unfold call_pending in Hnc. rewrite Hpw in Hnc. apply Nat.ltb_ge in Hnc.
    destruct (Hok _ Hin). lia. }
  destruct (find_first fwd_pending (ws s)) as [[n [w [Hn Hc]]]|Hnf].
  { (* a forwarder: its group is complete *)
    right. exists (S n). cbn. unfold worker_step. rewrite Hn.
    unfold fwd_pending in Hc. destruct (w_prog w) as [k g c|g] eqn:Hpw; [discriminate|].
    apply Nat.ltb_lt in Hc.
    assert (Hin : In w (ws s)) by (eapply nth_error_In; eauto).
    assert (Hg0 : g <> 0).
    { eapply (wfP_fwd_nonroot acts); eauto. rewrite Hs. apply in_or_app. left.
      apply in_spawned_fwd. rewrite <- Hw, <- Hpw. now apply in_map. }
    assert (Hzero : wgs s g = 0).
    { rewrite Hg. apply cnt_all_zero. intros x Hx. unfold pend.
      destruct (w_prog x) as [k' g' c'|g'] eqn:Hpx; cbn.
      - rewrite (Hcall3 _ Hx _ _ _ Hpx). cbn. destruct (counted k'); [|reflexivity].
        destruct (Nat.eqb g' g); reflexivity.
      - destruct g; [congruence|reflexivity]. }
    rewrite Forall_forall in Hok. destruct (Hok _ Hin) as [_ [_ Hne1]]. specialize (Hne1 _ Hpw).
    destruct (w_pc w) as [|[|[|pc]]] eqn:Hpc; try lia; try congruence.
    - rewrite Hzero. cbn. unfold mu, mainpart; cbn.
      match goal with |- context [set_nth n ?w' _] => pose proof (wsum_set_nth n w w' (ws s) Hn) as Hsum end.
      cbn in Hsum; rewrite Hpc in Hsum; lia.
    - unfold mu, mainpart; cbn.
      match goal with |- context [set_nth n ?w' _] => pose proof (wsum_set_nth n w w' (ws s) Hn) as Hsum end.
      cbn in Hsum; rewrite Hpc in Hsum; lia. }
  assert (Hall3 : Forall (fun w => w_pc w = 3) (ws s)).
  { apply Forall_forall. intros w Hin. destruct (w_prog w) as [k g c|g] eqn:Hpw; [eauto|].
    rewrite Forall_forall in Hnf, Hok. specialize (Hnf _ Hin). unfold fwd_pending in Hnf.
    rewrite Hpw in Hnf. apply Nat.ltb_ge in Hnf. destruct (Hok _ Hin). lia. }
  destruct (m_res s) as [r|] eqn:Hres.
  { left. split; [congruence|exact Hall3]. }
  right. exists 0. cbn. unfold main_step. rewrite Hres.
  destruct (m_todo s) as [|a rest] eqn:Htodo.
  - destruct e as [|t].
    + unfold mu, mainpart; cbn. rewrite ?Hres, ?Htodo. cbn. destruct (m_phase s); lia.
    + destruct (m_phase s) eqn:Hph.
      * assert (Hz : wgs s 0 = 0).
        { rewrite Hg. apply cnt_all_zero. intros x Hx. unfold pend.
          rewrite Forall_forall in Hall3. rewrite (Hall3 _ Hx). cbn.
          destruct (target (w_prog x)); [|reflexivity]. destruct (Nat.eqb n 0); reflexivity. }
        rewrite Hz. cbn. unfold mu, mainpart; cbn. rewrite ?Hres, ?Htodo, ?Hph. cbn. lia.
      * unfold mu, mainpart; cbn. rewrite ?Hres, ?Htodo, ?Hph. cbn. lia.
      * unfold mu, mainpart; cbn. rewrite ?Hres, ?Htodo, ?Hph. cbn. lia.
  - destruct a as [c|k g c|g]; unfold mu, mainpart; cbn; rewrite ?Hres, ?Htodo; cbn;
      rewrite ?wsum_app; cbn; destruct (m_phase s); lia.
Qed.

Lemma completes_from n : forall s, mu s <= n -> Inv s ->
  exists ext, is_final (fold_left (step f e) ext s).
Proof.
  induction n as [|n IH]; intros s Hmu HI.
  - destruct (progress s HI) as [Hfin|[t Ht]]; [exists []; exact Hfin|lia].
  - destruct (progress s HI) as [Hfin|[t Ht]]; [exists []; exact Hfin|].
    destruct (IH (step f e s t)) as [ext Hext]; [lia|apply Inv_step; exact HI|].
    exists (t :: ext). exact Hext.
Qed.

(* every schedule can be extended to one after which Exec has returned and every goroutine has
   finished; then every WaitGroup counter is zero: each Add has been matched by a Done *)
Theorem run_no_deadlock sched :
  exists ext, is_final (run f acts e (sched ++ ext)) /\
              forall g, wgs (run f acts e (sched ++ ext)) g = 0.
Proof.
  destruct (completes_from (mu (run f acts e sched)) _ (le_n _) (Inv_run sched)) as [ext Hext].
  exists ext.
  assert (Hrun : run f acts e (sched ++ ext) = fold_left (step f e) ext (run f acts e sched))
    by (unfold run; apply fold_left_app).
  split; [rewrite Hrun; exact Hext|].
  intros g. rewrite (I_wg _ (Inv_run (sched ++ ext))). apply cnt_all_zero.
  rewrite Hrun. destruct Hext as [_ Hall]. rewrite Forall_forall in Hall.
  intros w Hin. unfold pend. rewrite (Hall _ Hin). cbn.
  destruct (target (w_prog w)) as [h|]; [|reflexivity]. destruct (Nat.eqb h g); reflexivity.
Qed.

End Kernel.
