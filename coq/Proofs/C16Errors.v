(* Proofs/C16Errors.v -- Command.Sanitize never panics; $0, missing, unused and unsupported
   arguments are errors (C16_errors_total). *)
From Coq Require Import SpecFloat Lia ZifyBool.
From GenqlV Require Import Base.Prelude Base.Fmt Model.MySqlString Model.Sanitizer.
Local Open Scope string_scope.
Local Open Scope bool_scope.
Local Opaque strip10 wrap64.

Lemma set_nth_length {A} (l : list A) i x l' : set_nth l i x = Some l' -> List.length l' = List.length l.
Proof.
  revert i l'. induction l as [|y r IH]; intros i l' H; [destruct i; discriminate|].
  destruct i as [|k]; cbn in H.
  - inversion H. reflexivity.
  - destruct (set_nth r k x) eqn:E; [|discriminate]. inversion H. cbn. f_equal. eapply IH. eassumption.
Qed.

Lemma set_nth_some {A} (l : list A) i x : (i < List.length l)%nat -> exists l', set_nth l i x = Some l'.
Proof.
  revert i. induction l as [|y r IH]; intros i H; [cbn in H; lia|].
  destruct i as [|k]; cbn; [eauto|]. destruct (IH k) as [l' ->]; [cbn in H; lia|]. eauto.
Qed.

Lemma set_nth_get {A} (l : list A) i x l' j :
  set_nth l i x = Some l' -> nth_error l' j = if Nat.eqb j i then Some x else nth_error l j.
Proof.
  revert i l' j. induction l as [|y r IH]; intros i l' j H; [destruct i; discriminate|].
  destruct i as [|k]; cbn in H.
  - inversion H. destruct j; reflexivity.
  - destruct (set_nth r k x) eqn:E; [|discriminate]. inversion H. destruct j; cbn; [reflexivity|].
    eapply IH. eassumption.
Qed.

Lemma fmt_f_no_panic f : fmt_f f <> Panic.
Proof.
  destruct f; unfold fmt_f; try discriminate.
  destruct (strip10 _ _ _). destruct (Nat.leb _ _); discriminate.
Qed.

Lemma fmt_arg_no_panic a : fmt_arg a <> Panic.
Proof. destruct a; unfold fmt_arg; try discriminate. apply fmt_f_no_panic. Qed.

Section Loop.
  Variable qs : bytes -> bytes.
  Variable ff : spec_float -> res bytes.
  Hypothesis ff_no_panic : forall f, ff f <> Panic.

  Lemma fmt_no_panic a :
    match a with AStr s => Ok (qs s) | AFloat f => ff f | _ => fmt_arg a end <> Panic.
  Proof. destruct a; try discriminate; try apply ff_no_panic. Qed.

  (* with the D37 test, every index is in range: no Panic *)
  Lemma san_loop_no_panic : forall parts args used buf,
    List.length used = List.length args ->
    san_loop true qs ff parts args used buf <> Panic.
  Proof.
    induction parts as [|p ps IH]; intros args used buf Hlen; [discriminate|].
    destruct p as [s|n]; cbn [san_loop]; [now apply IH|].
    cbn [andb]. destruct (wrap64 (n - 1) <? 0)%Z eqn:H0; [discriminate|].
    destruct (wrap64 (n - 1) >=? zlen args)%Z eqn:H1; [discriminate|].
    unfold zlen in H1.
    assert (Hi : (Z.to_nat (wrap64 (n - 1)) < List.length args)%nat) by lia.
    unfold index_z. rewrite H0.
    destruct (nth_error args (Z.to_nat (wrap64 (n - 1)))) as [a|] eqn:Ha.
    2: { apply nth_error_None in Ha. lia. }
    cbn [bind].
    pose proof (fmt_no_panic a) as Hf.
    destruct (match a with AStr s => Ok (qs s) | AFloat f => ff f | _ => fmt_arg a end) as [str| | |];
      try discriminate; [|congruence]. cbn [bind].
    unfold set_index_z. rewrite H0.
    destruct (set_nth_some used (Z.to_nat (wrap64 (n - 1))) true) as [u' Hu]; [lia|]. rewrite Hu. cbn [bind].
    apply IH. rewrite (set_nth_length _ _ _ _ Hu). exact Hlen.
  Qed.

  Definition idx (n : Z) : Z := wrap64 (n - 1).

  (* what a successful loop implies *)
  Lemma san_loop_ok_inv : forall parts args used buf buf' used',
    List.length used = List.length args ->
    san_loop true qs ff parts args used buf = Ok (buf', used') ->
    (forall n, In (PArg n) parts ->
        (0 <= idx n < zlen args)%Z /\
        exists a, nth_error args (Z.to_nat (idx n)) = Some a /\
                  is_ok (match a with AStr s => Ok (qs s) | AFloat f => ff f | _ => fmt_arg a end) = true) /\
    (forall j, nth_error used' j = Some true ->
        nth_error used j = Some true \/ exists n, In (PArg n) parts /\ Z.to_nat (idx n) = j) /\
    List.length used' = List.length args.
  Proof.
    induction parts as [|p ps IH]; intros args used buf buf' used' Hlen H.
    - cbn in H. inversion H; subst. split; [intros n []|]. split; [auto|assumption].
    - destruct p as [s|n]; cbn [san_loop] in H.
      + destruct (IH _ _ _ _ _ Hlen H) as [H1 [H2 H3]]. split; [|split; [|assumption]].
        * intros n [Hn|Hn]; [discriminate|]. now apply H1.
        * intros j Hj. destruct (H2 j Hj) as [?|[n [? ?]]]; [now left|right]. exists n. split; [now right|assumption].
      + cbn [andb] in H. fold (idx n) in H.
        destruct (idx n <? 0)%Z eqn:H0; [discriminate|].
        destruct (idx n >=? zlen args)%Z eqn:Hge; [discriminate|].
        unfold index_z in H. rewrite H0 in H.
        destruct (nth_error args (Z.to_nat (idx n))) as [a|] eqn:Ha; [|discriminate]. cbn [bind] in H.
        destruct (match a with AStr s => Ok (qs s) | AFloat f => ff f | _ => fmt_arg a end) as [str| | |] eqn:Hf;
          try discriminate. cbn [bind] in H.
        unfold set_index_z in H. rewrite H0 in H.
        destruct (set_nth used (Z.to_nat (idx n)) true) as [u'|] eqn:Hu; [|discriminate]. cbn [bind] in H.
        assert (Hlen' : List.length u' = List.length args) by (rewrite (set_nth_length _ _ _ _ Hu); exact Hlen).
        destruct (IH _ _ _ _ _ Hlen' H) as [H1 [H2 H3]]. split; [|split; [|assumption]].
        * intros k [Hk|Hk]; [|now apply H1]. inversion Hk; subst k. split; [lia|].
          exists a. split; [assumption|]. now rewrite Hf.
        * intros j Hj. destruct (H2 j Hj) as [Hj'|[k [? ?]]].
          -- rewrite (set_nth_get _ _ _ _ j Hu) in Hj'. destruct (Nat.eqb_spec j (Z.to_nat (idx n))).
             ++ right. exists n. split; [now left|congruence].
             ++ now left.
          -- right. exists k. split; [now right|assumption].
  Qed.
End Loop.

Lemma nth_error_repeat_false n j : nth_error (repeat false n) j <> Some true.
Proof. revert j. induction n; intros [|j]; cbn; try discriminate. apply IHn. Qed.

Lemma forallb_nth (l : list bool) : forallb (fun b => b) l = true ->
  forall j, (j < List.length l)%nat -> nth_error l j = Some true.
Proof.
  induction l as [|b r IH]; intros H j Hj; [cbn in Hj; lia|].
  cbn in H. apply andb_prop in H. destruct H as [-> H]. destruct j; [reflexivity|]. apply IH; [assumption|cbn in Hj; lia].
Qed.

(* ---- the claims ---- *)

Theorem sanitize_no_panic : forall parts args, sanitize parts args <> Panic.
Proof.
  intros parts args. unfold sanitize, sanitize_with.
  pose proof (san_loop_no_panic quote_string fmt_f fmt_f_no_panic parts args
                (repeat false (List.length args)) EmptyString (repeat_length _ _)) as H.
  destruct (san_loop _ _ _ _ _ _ _) as [[buf used]| | |]; cbn [bind]; try discriminate; [|congruence].
  destruct (forallb _ _); discriminate.
Qed.

Theorem sanitize_sql_total : forall t args, sanitize_sql t args <> Panic.
Proof. intros. apply sanitize_no_panic. Qed.

(* everything a successful call implies: every placeholder number is within 1..len(args), its
   argument has a supported type (and is a finite float), and every argument is used *)
Theorem sanitize_ok_inv : forall parts args out,
  sanitize parts args = Ok out ->
  (forall n, In (PArg n) parts ->
     (0 <= wrap64 (n - 1) < zlen args)%Z /\
     exists a, nth_error args (Z.to_nat (wrap64 (n - 1))) = Some a /\ is_ok (fmt_arg a) = true) /\
  (forall j, (j < List.length args)%nat -> exists n, In (PArg n) parts /\ Z.to_nat (wrap64 (n - 1)) = j).
Proof.
  intros parts args out H. unfold sanitize, sanitize_with in H.
  destruct (san_loop true quote_string fmt_f parts args (repeat false (List.length args)) EmptyString)
    as [[buf used]| | |] eqn:Hl; cbn [bind] in H; try discriminate.
  destruct (forallb (fun b => b) used) eqn:Hu; [|discriminate].
  destruct (san_loop_ok_inv quote_string fmt_f parts args _ _ _ _ (repeat_length _ _) Hl) as [H1 [H2 H3]].
  split.
  - intros n Hn. destruct (H1 n Hn) as [Hr [a [Ha Hf]]]. split; [exact Hr|]. exists a. split; [exact Ha|].
    destruct a; exact Hf.
  - intros j Hj. pose proof (forallb_nth used Hu j ltac:(lia)) as Hj'.
    destruct (H2 j Hj') as [Hbad|Hex]; [|exact Hex]. exfalso. eapply nth_error_repeat_false. eassumption.
Qed.

Local Transparent wrap64.
Lemma wrap64_id z : (-9223372036854775808 <= z < 9223372036854775808)%Z -> wrap64 z = z.
Proof. intro H. unfold wrap64. rewrite Z.mod_small; lia. Qed.
Local Opaque wrap64.

(* $0 (and any placeholder number below 1 that fits an int64) is an error, never a panic *)
Corollary dollar_zero_is_error : forall parts args n,
  In (PArg n) parts -> (-9223372036854775807 <= n <= 0)%Z ->
  is_ok (sanitize parts args) = false /\ sanitize parts args <> Panic.
Proof.
  intros parts args n Hin Hn. split; [|apply sanitize_no_panic].
  destruct (sanitize parts args) as [out| | |] eqn:H; try reflexivity.
  destruct (sanitize_ok_inv _ _ _ H) as [H1 _]. destruct (H1 n Hin) as [Hr _].
  rewrite wrap64_id in Hr by lia. lia.
Qed.

Corollary missing_argument_is_error : forall parts args n,
  In (PArg n) parts -> (zlen args < n < 9223372036854775808)%Z ->
  is_ok (sanitize parts args) = false /\ sanitize parts args <> Panic.
Proof.
  intros parts args n Hin Hn. split; [|apply sanitize_no_panic].
  destruct (sanitize parts args) as [out| | |] eqn:H; try reflexivity.
  destruct (sanitize_ok_inv _ _ _ H) as [H1 _]. destruct (H1 n Hin) as [Hr _].
  unfold zlen in *. rewrite wrap64_id in Hr by lia. lia.
Qed.

Corollary unused_argument_is_error : forall parts args j,
  (j < List.length args)%nat -> (forall n, In (PArg n) parts -> Z.to_nat (wrap64 (n - 1)) <> j) ->
  is_ok (sanitize parts args) = false /\ sanitize parts args <> Panic.
Proof.
  intros parts args j Hj Hno. split; [|apply sanitize_no_panic].
  destruct (sanitize parts args) as [out| | |] eqn:H; try reflexivity.
  destruct (sanitize_ok_inv _ _ _ H) as [_ H2]. destruct (H2 j Hj) as [n [Hin Hn]]. exfalso. eapply Hno; eassumption.
Qed.

Corollary unsupported_argument_is_error : forall parts args n a,
  In (PArg n) parts -> nth_error args (Z.to_nat (wrap64 (n - 1))) = Some a ->
  (a = AOther \/ a = AFloat S754_nan \/ exists s, a = AFloat (S754_infinity s)) ->
  is_ok (sanitize parts args) = false /\ sanitize parts args <> Panic.
Proof.
  intros parts args n a Hin Ha Hbad. split; [|apply sanitize_no_panic].
  destruct (sanitize parts args) as [out| | |] eqn:H; try reflexivity.
  destruct (sanitize_ok_inv _ _ _ H) as [H1 _]. destruct (H1 n Hin) as [_ [a' [Ha' Hf]]].
  rewrite Ha in Ha'. inversion Ha'; subst a'.
  destruct Hbad as [-> | [-> | [s ->]]]; discriminate.
Qed.

(* the pinned Sanitize (no argIdx < 0 test) panics on $0 *)
Theorem pinned_dollar_zero_panics :
  exists t args, pinned_sanitize (lex t) args = Panic /\ sanitize_sql t args = Err.
Proof. exists "SELECT $0 AS v FROM dual", [AStr "x"]. split; vm_compute; reflexivity. Qed.
