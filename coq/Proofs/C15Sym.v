(* Proofs/C15Sym.v — the comparison is defined, and reports equality, symmetrically. *)
From Coq Require Import QArith.
From GenqlV Require Import Base.Prelude Base.Fmt Model.Compare Spec.OrderSpec Proofs.StrOrder
  Proofs.C15Lemmas.
Local Open Scope Z_scope.

(* whenever the comparison answers one way round it answers the other way round too *)
Lemma Compare_defined_sym a b x : Compare a b = Ok x -> exists y, Compare b a = Ok y.
Proof.
  unfold Compare, compare_num, Cmp.
  destruct a as [ka u|sa ma ea|s|bb|], b as [kb v|sb mb eb|t|cc|]; intros H;
    cbn [bind fmt_gval as_f64] in H |- *;
    bind_inv H;
    repeat match goal with
    | E : ?r = Ok _ |- context [?r] => rewrite E
    end;
    cbn [bind]; eauto.
Qed.

(* ... with the opposite sign: the full antisymmetry statement without the second hypothesis *)
Lemma Compare_flip a b x : Compare a b = Ok x -> Compare b a = Ok (- x).
Proof.
  intros H. destruct (Compare_defined_sym a b x H) as [y Hy].
  rewrite Hy. f_equal. rewrite (Compare_antisym a b x y H Hy). lia.
Qed.

Lemma Compare_eq_sym a b : Compare a b = Ok 0 -> Compare b a = Ok 0.
Proof. intros H. apply Compare_flip in H. exact H. Qed.

Lemma Compare_lt_gt a b : Compare a b = Ok (-1) <-> Compare b a = Ok 1.
Proof. split; intros H; apply Compare_flip in H; exact H. Qed.
