(* Proofs/C08Lemmas.v — a multi-dimensional FROM applies the query inside every inner array; `mix=>`
   followed by one query returns the concatenation of the inner results.  Claims are restated in
   Properties/C08.v. *)
From Coq Require Import Floats.
From GenqlV Require Import Base.Prelude Base.Fmt Base.Value Model.Ast Model.Like Model.Num Model.Eval Model.Exec.
From GenqlV Require Import Spec.NestedSpec.
From Coq Require Import ZifyBool ZifyNat.
Local Open Scope list_scope.

(* ================================================================== *)
(* 0. small facts about the outcome monad                              *)
(* ================================================================== *)

Lemma bind_ok {A B} (r : res A) (f : A -> res B) b :
  bind r f = Ok b -> exists a, r = Ok a /\ f a = Ok b.
Proof. destruct r; cbn; try discriminate. eauto. Qed.

Lemma catch_panic_ok {A} (r : res A) a : catch_panic r = Ok a -> r = Ok a.
Proof. destruct r; cbn; congruence. Qed.

Lemma catch_panic_ok_iff {A} (r : res A) a : catch_panic r = Ok a <-> r = Ok a.
Proof. destruct r; cbn; split; congruence. Qed.

Lemma mapM_cons {X Y} (f : X -> res Y) a r :
  mapM f (a :: r) = let! b := f a in let! bs := mapM f r in Ok (b :: bs).
Proof. reflexivity. Qed.

Lemma mapM_ok_Forall2 {X Y} (f : X -> res Y) l l' :
  mapM f l = Ok l' <-> Forall2 (fun x y => f x = Ok y) l l'.
Proof.
  revert l'. induction l as [|a l IH]; intros l'; cbn [mapM].
  - split; [intros H; inversion H; constructor | intros H; inversion H; reflexivity].
  - split.
    + intros H. apply bind_ok in H. destruct H as (b & Hb & H).
      apply bind_ok in H. destruct H as (bs & Hbs & H). inversion H; subst.
      constructor; auto. apply IH. exact Hbs.
    + intros H. inversion H as [|? y ? ys Hy Hys]; subst. apply IH in Hys.
      rewrite Hy, Hys. reflexivity.
Qed.

Lemma mapM_app_ok {X Y} (f : X -> res Y) l1 l2 o :
  mapM f (l1 ++ l2) = Ok o <-> exists o1 o2, mapM f l1 = Ok o1 /\ mapM f l2 = Ok o2 /\ o = o1 ++ o2.
Proof.
  rewrite mapM_ok_Forall2. split.
  - intros H. apply Forall2_app_inv_l in H. destruct H as (o1 & o2 & H1 & H2 & ->).
    exists o1, o2. rewrite !mapM_ok_Forall2. auto.
  - intros (o1 & o2 & H1 & H2 & ->). apply Forall2_app; apply mapM_ok_Forall2; auto.
Qed.

Lemma Forall2_impl {X Y} (P Q : X -> Y -> Prop) l l' :
  (forall a b, P a b -> Q a b) -> Forall2 P l l' -> Forall2 Q l l'.
Proof. intros H. induction 1; constructor; auto. Qed.

(* ================================================================== *)
(* 1. CopyQuery and the row loop of exec()                             *)
(* ================================================================== *)

(* the query the engine runs inside an inner array *)
Definition copy_query (s : select stmt) : select stmt :=
  {| s_with := []; s_from := s_from s; s_where := s_where s; s_group := s_group s;
     s_having := s_having s; s_items := s_items s; s_distinct := false;
     s_order := s_order s; s_limit := s_limit s; s_offset := s_offset s |}.

(* what it carries over, and the two things it drops *)
Lemma copy_query_fields s :
  s_from (copy_query s) = s_from s /\ s_where (copy_query s) = s_where s /\
  s_group (copy_query s) = s_group s /\ s_having (copy_query s) = s_having s /\
  s_items (copy_query s) = s_items s /\ s_order (copy_query s) = s_order s /\
  s_limit (copy_query s) = s_limit s /\ s_offset (copy_query s) = s_offset s /\
  s_distinct (copy_query s) = false /\ s_with (copy_query s) = [].
Proof. repeat split. Qed.

Section Run.
  Variable rec : qctx -> job -> res value.
  Variable call : string -> string -> list value -> row -> res raw.
  Variable join : jointype -> jstrategy -> list value -> list value -> string -> string ->
                  expr stmt -> row -> res (list value).

  Notation run := (run_select rec call join).

  (* the loop body, one element at a time *)
  Lemma filter_rows_nil ctx s E : filter_rows rec ctx s E [] = Ok [].
  Proof. reflexivity. Qed.

  Lemma filter_rows_arr ctx s E inner r :
    filter_rows rec ctx s E (VArr inner :: r) =
    let! rs := rec ctx (JRows (copy_query s) inner) in
    let! rest := filter_rows rec ctx s E r in Ok (rs :: rest).
  Proof. reflexivity. Qed.

  Lemma filter_rows_obj ctx s E kv r :
    filter_rows rec ctx s E (VObj kv :: r) =
    let! keep := eval_cond E kv (s_where s) in
    let! rest := filter_rows rec ctx s E r in
    Ok (if keep then VObj kv :: rest else rest).
  Proof. reflexivity. Qed.

  Lemma filter_rows_skip ctx s E v r :
    match v with VArr _ | VObj _ => False | _ => True end ->
    filter_rows rec ctx s E (v :: r) = filter_rows rec ctx s E r.
  Proof. destruct v; intros H; try contradiction; reflexivity. Qed.

  (* run_select never looks at the WITH list, and at the DISTINCT flag only in the DISTINCT step:
     the copy behaves as the query itself when the query has no DISTINCT *)
  Lemma run_copy_query ctx s src :
    s_distinct s = false -> run ctx (copy_query s) src = run ctx s src.
  Proof.
    destruct s as [w f wh g h it d o li off]. cbn [s_distinct]. intros ->. reflexivity.
  Qed.

  (* on an array of arrays the loop is a map of the recursive call *)
  Lemma filter_rows_arrays ctx s E inners :
    filter_rows rec ctx s E (map VArr inners) =
    mapM (fun inner => rec ctx (JRows (copy_query s) inner)) inners.
  Proof.
    induction inners as [|i inners IH]; [reflexivity|].
    cbn [map]. rewrite filter_rows_arr, IH. reflexivity.
  Qed.

  (* ---------------------------------------------------------------- *)
  (* "filter/projection queries": what [simple] excludes                *)
  (* ---------------------------------------------------------------- *)

  (* At the level that sees the inner arrays as its rows, GROUP BY would group arrays, a select list
     made only of aggregates would collapse them into one row, DISTINCT would drop equal inner
     results, ORDER BY would sort the inner arrays and LIMIT/OFFSET would count inner arrays instead
     of rows.  None of these is a filter or a projection, so the property does not speak about them. *)
  Definition simple (s : select stmt) : bool :=
    match s_group s with [] => true | _ => false end &&
    negb (all_aggregate (s_items s)) &&
    negb (s_distinct s) &&
    match s_order s with [] => true | _ => false end &&
    match s_limit s with None => true | _ => false end &&
    match s_offset s with None => true | _ => false end.

  Lemma simple_inv s :
    simple s = true ->
    s_group s = [] /\ all_aggregate (s_items s) = false /\ s_distinct s = false /\
    s_order s = [] /\ s_limit s = None /\ s_offset s = None.
  Proof.
    unfold simple. intros H. repeat (apply Bool.andb_true_iff in H; destruct H as [H ?]).
    destruct (s_group s), (s_order s), (s_limit s), (s_offset s); try discriminate.
    repeat split; auto; now apply Bool.negb_true_iff.
  Qed.

  Lemma window_none rs : window rs (List.length rs) None None = Ok rs.
  Proof.
    unfold window. destruct (Z.of_nat (List.length rs) <=? 0)%Z eqn:H0.
    - destruct rs; [reflexivity | cbn [List.length] in H0; lia].
    - rewrite Z.sub_0_r, Z.ltb_irrefl. unfold go_slice.
      replace ((0 <=? 0)%Z && (0 <=? 0 + Z.of_nat (List.length rs))%Z &&
               (0 + Z.of_nat (List.length rs) <=? Z.of_nat (List.length rs))%Z) with true by lia.
      rewrite Nat.sub_diag. cbn [repeat]. rewrite app_nil_r. cbn [Z.to_nat skipn].
      replace (Z.to_nat (0 + Z.of_nat (List.length rs) - 0)) with (List.length rs) by lia.
      now rewrite firstn_all.
  Qed.

  (* the per-row projection of ExecSelect *)
  Definition project_row (E : env stmt) (s : select stmt) (cur : value) : res value :=
    match cur with
    | VArr _ => Ok cur
    | VObj kv => let! r := select_expr E kv (s_items s) [] in Ok (VObj r)
    | _ => Err
    end.

  (* a simple query is WHERE followed by the select list, row by row *)
  Lemma run_simple ctx s from :
    simple s = true ->
    run ctx s (Some from) =
    catch_panic (let! filtered := filter_rows rec ctx s (mk_env rec call join ctx s []) from in
                 let! selected := mapM (project_row (mk_env rec call join ctx s filtered) s) filtered in
                 Ok (VArr selected)).
  Proof.
    intros H. apply simple_inv in H. destruct H as (Hg & Ha & Hd & Ho & Hl & Hf).
    unfold run_select. f_equal.
    destruct (filter_rows rec ctx s (mk_env rec call join ctx s []) from) as [filtered| | |]; cbn [bind]; auto.
    unfold exec_group_by, exec_select. rewrite Hg, Ha, Hd, Ho, Hl, Hf. cbn [bind andb exec_distinct exec_order_by].
    fold (project_row (mk_env rec call join ctx s filtered) s).
    destruct (mapM (project_row (mk_env rec call join ctx s filtered) s) filtered) as [sel| | |]; cbn [bind]; auto.
    rewrite window_none. reflexivity.
  Qed.

  Lemma run_some_is_array ctx s from v : run ctx s (Some from) = Ok v -> exists l, v = VArr l.
  Proof.
    unfold run_select. intros H. apply catch_panic_ok in H.
    repeat (apply bind_ok in H; destruct H as (? & _ & H)). inversion H. eauto.
  Qed.

  (* ---------------------------------------------------------------- *)
  (* 2. one level of nesting                                            *)
  (* ---------------------------------------------------------------- *)

  Lemma mapM_project_arrays E s outs :
    mapM (project_row E s) (map VArr outs) = Ok (map VArr outs).
  Proof. induction outs as [|o outs IH]; [reflexivity|]. cbn [map]. rewrite mapM_cons, IH. reflexivity. Qed.

  (* FROM resolved to an array of arrays: the result is the array of the inner results, each obtained
     by running the copied query on that inner array *)
  Theorem nested_map ctx s inners outs :
    simple s = true ->
    Forall2 (fun inner out => rec ctx (JRows (copy_query s) inner) = Ok (VArr out)) inners outs ->
    run ctx s (Some (map VArr inners)) = Ok (VArr (map VArr outs)).
  Proof.
    intros Hs H. rewrite run_simple by auto. rewrite filter_rows_arrays.
    assert (Hm : mapM (fun inner => rec ctx (JRows (copy_query s) inner)) inners = Ok (map VArr outs)).
    { apply mapM_ok_Forall2. clear -H. induction H; cbn [map]; constructor; auto. }
    rewrite Hm. cbn [bind]. rewrite mapM_project_arrays. reflexivity.
  Qed.

  (* and conversely: when the whole query succeeds, every inner call succeeded and the result is the
     array of their results ([rec] on prepared rows only ever returns arrays, as run_select does) *)
  Theorem nested_map_inv ctx s inners v :
    simple s = true ->
    (forall c s' r w, rec c (JRows s' r) = Ok w -> exists l, w = VArr l) ->
    run ctx s (Some (map VArr inners)) = Ok v ->
    exists outs, v = VArr (map VArr outs) /\
      Forall2 (fun inner out => rec ctx (JRows (copy_query s) inner) = Ok (VArr out)) inners outs.
  Proof.
    intros Hs Hrec H. rewrite run_simple in H by auto. apply catch_panic_ok in H.
    rewrite filter_rows_arrays in H. apply bind_ok in H. destruct H as (filtered & Hf & H).
    apply mapM_ok_Forall2 in Hf.
    assert (Hex : exists outs, filtered = map VArr outs /\
              Forall2 (fun inner out => rec ctx (JRows (copy_query s) inner) = Ok (VArr out)) inners outs).
    { clear -Hf Hrec. induction Hf as [|i w inners ws Hi _ IH].
      - exists []. split; [reflexivity | constructor].
      - destruct IH as (outs & -> & IH). destruct (Hrec _ _ _ _ Hi) as (l & ->).
        exists (l :: outs). split; [reflexivity | constructor; auto]. }
    destruct Hex as (outs & -> & Hall). exists outs. split; auto.
    rewrite mapM_project_arrays in H. cbn [bind] in H. congruence.
  Qed.
End Run.

(* ================================================================== *)
(* 3. any depth, through the fuelled interpreter                       *)
(* ================================================================== *)

Section Depth.
  Variable call : string -> string -> list value -> row -> res raw.
  Variable join : jointype -> jstrategy -> list value -> list value -> string -> string ->
                  expr stmt -> row -> res (list value).

  Notation ex := (exec call join).

  Lemma exec_rows n ctx s rows :
    ex (S n) ctx (JRows s rows) = run_select (ex n) call join ctx s (Some rows).
  Proof. reflexivity. Qed.

  Lemma exec_rows_is_array n ctx s rows v : ex n ctx (JRows s rows) = Ok v -> exists l, v = VArr l.
  Proof. destruct n; [discriminate|]. rewrite exec_rows. apply run_some_is_array. Qed.

  (* one level: with one more unit of fuel, the query on an array of arrays returns the array of what
     the SAME query returns when run directly on each inner array *)
  Theorem nested_level n ctx s inners outs :
    simple s = true ->
    Forall2 (fun inner out => ex (S n) ctx (JRows s inner) = Ok out) inners outs ->
    ex (S (S n)) ctx (JRows s (map VArr inners)) = Ok (VArr outs).
  Proof.
    intros Hs H. rewrite exec_rows.
    assert (Hd : s_distinct s = false) by (apply simple_inv in Hs; tauto).
    assert (Hex : exists os, outs = map VArr os /\
              Forall2 (fun inner o => ex (S n) ctx (JRows (copy_query s) inner) = Ok (VArr o)) inners os).
    { clear Hs. induction H as [|i o inners outs Hi _ IH].
      - exists []. split; [reflexivity | constructor].
      - destruct IH as (os & -> & IH). destruct (exec_rows_is_array _ _ _ _ _ Hi) as (l & ->).
        exists (l :: os). split; [reflexivity|]. constructor; auto.
        rewrite exec_rows, run_copy_query by auto. rewrite <- exec_rows. exact Hi. }
    destruct Hex as (os & -> & Hall). apply nested_map; auto.
  Qed.

  (* "for every sufficiently large fuel, the query run on [rows] returns [out]" *)
  Definition converges (ctx : qctx) (s : select stmt) (rows : list value) (out : value) : Prop :=
    exists m0, forall m, (m0 <= m)%nat -> ex m ctx (JRows s rows) = Ok out.

  Lemma Forall2_converges_uniform ctx s inners outs :
    Forall2 (converges ctx s) inners outs ->
    exists M, Forall2 (fun i o => forall m, (M <= m)%nat -> ex m ctx (JRows s i) = Ok o) inners outs.
  Proof.
    induction 1 as [|i o inners outs (m0 & Hi) _ (M & IH)].
    - exists 0%nat. constructor.
    - exists (Nat.max m0 M). constructor.
      + intros m Hm. apply Hi. lia.
      + eapply Forall2_impl; [|exact IH]. cbv beta. intros a b Hab m Hm. apply Hab. lia.
  Qed.

  Lemma converges_level ctx s inners outs :
    simple s = true ->
    Forall2 (converges ctx s) inners outs -> converges ctx s (map VArr inners) (VArr outs).
  Proof.
    intros Hs H. destruct (Forall2_converges_uniform _ _ _ _ H) as (M & HM).
    exists (S (S M)). intros m Hm. destruct m as [|[|m]]; try lia.
    apply nested_level; auto.
    eapply Forall2_impl; [|exact HM]. cbv beta. intros a b Hab. apply Hab. lia.
  Qed.

  (* any depth (siblings may differ in depth and length, inner arrays may be empty): the result has
     the nesting of the source and every innermost table carries the query's own result on it *)
  Theorem nested_any_depth ctx s :
    simple s = true ->
    forall src out, nested_result (converges ctx s) src out -> converges ctx s src out.
  Proof.
    intros Hs. fix IH 3. intros src out H. destruct H as [rows out _ Hd | inners outs Hall].
    - exact Hd.
    - apply converges_level; auto.
      revert inners outs Hall. fix IHl 3. intros inners outs Hall.
      destruct Hall as [|i o inners outs Hio Hrest]; constructor.
      + apply IH. exact Hio.
      + apply IHl. exact Hrest.
  Qed.
End Depth.

(* ================================================================== *)
(* 4. filter/projection expressions do not look at the interpreter     *)
(* ================================================================== *)

Definition opt_holds {X} (P : X -> Prop) (o : option X) : Prop :=
  match o with Some x => P x | None => True end.

Section ExprInd.
  Variable Q : Type.
  Variable P : expr Q -> Prop.
  Hypothesis HCol : forall p, P (ECol p).
  Hypothesis HNum : forall f, P (ENum f).
  Hypothesis HStr : forall s, P (EStr s).
  Hypothesis HBool : forall b, P (EBool b).
  Hypothesis HNull : P ENull.
  Hypothesis HAnd : forall a b, P a -> P b -> P (EAnd a b).
  Hypothesis HOr : forall a b, P a -> P b -> P (EOr a b).
  Hypothesis HNot : forall a, P a -> P (ENot a).
  Hypothesis HCmp : forall op a b, P a -> P b -> P (ECmp op a b).
  Hypothesis HLike : forall neg a b, P a -> P b -> P (ELike neg a b).
  Hypothesis HIn : forall neg a items, P a -> Forall P items -> P (EIn neg a items).
  Hypothesis HInSub : forall neg a q, P a -> P (EInSub neg a q).
  Hypothesis HBetween : forall neg a lo hi, P a -> P lo -> P hi -> P (EBetween neg a lo hi).
  Hypothesis HIs : forall op a, P a -> P (EIs op a).
  Hypothesis HBin : forall op a b, P a -> P b -> P (EBin op a b).
  Hypothesis HUn : forall op a, P a -> P (EUn op a).
  Hypothesis HCase : forall whens els,
    Forall (fun w => P (fst w) /\ P (snd w)) whens ->
    opt_holds P els -> P (ECase whens els).
  Hypothesis HSub : forall q, P (ESub q).
  Hypothesis HExists : forall q, P (EExists q).
  Hypothesis HAgg : forall f arg, P (EAgg f arg).
  Hypothesis HCall : forall qual name args, Forall P args -> P (ECall qual name args).
  Hypothesis HTuple : forall items, Forall P items -> P (ETuple items).

  Fixpoint expr_ind' (e : expr Q) : P e :=
    match e with
    | ECol p => HCol p
    | ENum f => HNum f
    | EStr s => HStr s
    | EBool b => HBool b
    | ENull => HNull
    | EAnd a b => HAnd a b (expr_ind' a) (expr_ind' b)
    | EOr a b => HOr a b (expr_ind' a) (expr_ind' b)
    | ENot a => HNot a (expr_ind' a)
    | ECmp op a b => HCmp op a b (expr_ind' a) (expr_ind' b)
    | ELike neg a b => HLike neg a b (expr_ind' a) (expr_ind' b)
    | EIn neg a items =>
        HIn neg a items (expr_ind' a)
            ((fix go (l : list (expr Q)) : Forall P l :=
                match l with [] => Forall_nil _ | x :: r => Forall_cons _ (expr_ind' x) (go r) end) items)
    | EInSub neg a q => HInSub neg a q (expr_ind' a)
    | EBetween neg a lo hi => HBetween neg a lo hi (expr_ind' a) (expr_ind' lo) (expr_ind' hi)
    | EIs op a => HIs op a (expr_ind' a)
    | EBin op a b => HBin op a b (expr_ind' a) (expr_ind' b)
    | EUn op a => HUn op a (expr_ind' a)
    | ECase whens els =>
        HCase whens els
            ((fix go (l : list (expr Q * expr Q)) : Forall (fun w => P (fst w) /\ P (snd w)) l :=
                match l with
                | [] => Forall_nil _
                | w :: r =>
                    Forall_cons w (match w as w0 return (P (fst w0) /\ P (snd w0)) with
                                   | (c, v) => conj (expr_ind' c) (expr_ind' v)
                                   end) (go r)
                end) whens)
            (match els as o return opt_holds P o with
             | Some x => expr_ind' x
             | None => I
             end)
    | ESub q => HSub q
    | EExists q => HExists q
    | EAgg f arg => HAgg f arg
    | ECall qual name args =>
        HCall qual name args
            ((fix go (l : list (expr Q)) : Forall P l :=
                match l with [] => Forall_nil _ | x :: r => Forall_cons _ (expr_ind' x) (go r) end) args)
    | ETuple items =>
        HTuple items
            ((fix go (l : list (expr Q)) : Forall P l :=
                match l with [] => Forall_nil _ | x :: r => Forall_cons _ (expr_ind' x) (go r) end) items)
    end.
End ExprInd.

(* a filter/projection expression: columns, literals, comparisons, LIKE, IN (list), BETWEEN, IS,
   arithmetic, CASE, scalar function calls, value tuples — no aggregate and no subquery *)
Fixpoint plain_expr {Q} (e : expr Q) : bool :=
  match e with
  | ECol _ | ENum _ | EStr _ | EBool _ | ENull => true
  | EAnd a b | EOr a b | ECmp _ a b | ELike _ a b | EBin _ a b => plain_expr a && plain_expr b
  | ENot a | EIs _ a | EUn _ a => plain_expr a
  | EIn _ a items => plain_expr a && forallb plain_expr items
  | EBetween _ a lo hi => plain_expr a && plain_expr lo && plain_expr hi
  | ECase whens els =>
      forallb (fun w => plain_expr (fst w) && plain_expr (snd w)) whens &&
      match els with Some x => plain_expr x | None => true end
  | ECall _ _ args => forallb plain_expr args
  | ETuple items => forallb plain_expr items
  | EInSub _ _ _ | ESub _ | EExists _ | EAgg _ _ => false
  end.

Definition plain_item {Q} (it : sel_item Q) : bool :=
  match it with IStar => true | IExpr e _ => plain_expr e end.

Definition plain_query (s : select stmt) : bool :=
  match s_where s with Some e => plain_expr e | None => true end && forallb plain_item (s_items s).

Section EnvIrrelevant.
  Variable Q : Type.
  Variables E1 E2 : env Q.
  Hypothesis Hdata : e_data E1 = e_data E2.
  Hypothesis Hcall : e_call E1 = e_call E2.
  Hypothesis Hhard : e_hard E1 = e_hard E2.

  Lemma eval_plain : forall e, plain_expr e = true -> forall cur, eval E1 cur e = eval E2 cur e.
  Proof.
    induction e using expr_ind'; cbn [plain_expr]; intros Hp cur; try discriminate Hp;
      repeat match goal with
             | H : _ && _ = true |- _ => apply Bool.andb_true_iff in H; destruct H
             end;
      cbn [eval]; rewrite ?Hdata;
      repeat match goal with
             | IH : plain_expr ?a = true -> _, H : plain_expr ?a = true |- _ =>
                 specialize (IH H)
             end;
      repeat match goal with
             | IH : forall cur, eval E1 cur ?a = eval E2 cur ?a |- _ => rewrite !IH; clear IH
             end;
      try reflexivity.
    - (* ECol *) unfold col_path. rewrite Hhard. reflexivity.
    - (* EIn *)
      destruct (eval E2 (scope cur (e_data E2)) e) as [l| | |]; cbn [bind]; auto.
      destruct (value_of (scope cur (e_data E2)) l) as [lv| | |]; cbn [bind]; auto.
      f_equal.
      match goal with HF : Forall _ items, HP : forallb plain_expr items = true |- _ =>
        induction HF as [|x r Hx _ IHr]; [reflexivity|];
        cbn [forallb] in HP; apply Bool.andb_true_iff in HP; destruct HP as [HPx HPr];
        rewrite (Hx HPx), (IHr HPr); reflexivity
      end.
    - (* ECase *)
      match goal with HF : Forall _ whens, HP : forallb _ whens = true |- _ =>
        induction HF as [|[c v] r [Hc Hv] _ IHr];
        [ destruct els; [|reflexivity];
          match goal with HE : opt_holds _ (Some _) |- _ => apply HE; assumption end
        | cbn [forallb fst snd] in HP, Hc, Hv;
          apply Bool.andb_true_iff in HP; destruct HP as [HPx HPr];
          apply Bool.andb_true_iff in HPx; destruct HPx as [HPc HPv];
          rewrite (Hc HPc), (Hv HPv), (IHr HPr); reflexivity ]
      end.
    - (* ECall *)
      rewrite Hcall. f_equal.
      match goal with HF : Forall _ args, HP : forallb plain_expr args = true |- _ =>
        induction HF as [|x r Hx _ IHr]; [reflexivity|];
        cbn [forallb] in HP; apply Bool.andb_true_iff in HP; destruct HP as [HPx HPr];
        rewrite (Hx HPx), (IHr HPr); reflexivity
      end.
    - (* ETuple *)
      f_equal.
      match goal with HF : Forall _ items, HP : forallb plain_expr items = true |- _ =>
        induction HF as [|x r Hx _ IHr]; [reflexivity|];
        cbn [forallb] in HP; apply Bool.andb_true_iff in HP; destruct HP as [HPx HPr];
        rewrite (Hx HPx), (IHr HPr); reflexivity
      end.
  Qed.

  Lemma eval_cond_plain c cur :
    match c with Some e => plain_expr e | None => true end = true ->
    eval_cond E1 cur c = eval_cond E2 cur c.
  Proof. destruct c as [e|]; [|reflexivity]. intros H. cbn [eval_cond]. now rewrite (eval_plain e H). Qed.

  Lemma select_expr_plain items : forallb plain_item items = true ->
    forall cur acc, select_expr E1 cur items acc = select_expr E2 cur items acc.
  Proof.
    induction items as [|it items IH]; intros H cur acc; [reflexivity|].
    cbn [forallb] in H. apply Bool.andb_true_iff in H. destruct H as [Hit Hitems].
    destruct it as [|e name]; cbn [select_expr].
    - apply IH; auto.
    - cbn [plain_item] in Hit. rewrite (eval_plain e Hit).
      destruct (eval E2 cur e) as [x| | |]; cbn [bind]; auto.
      destruct x; try apply IH; auto;
        match goal with |- bind ?v _ = bind ?v _ => destruct v; cbn [bind]; auto end.
  Qed.
End EnvIrrelevant.

Arguments eval_plain {Q}. Arguments eval_cond_plain {Q}. Arguments select_expr_plain {Q}.

(* ================================================================== *)
(* 5. a simple filter/projection query over a table proper             *)
(* ================================================================== *)

Section Plain.
  Variable call : string -> string -> list value -> row -> res raw.
  Variable join : jointype -> jstrategy -> list value -> list value -> string -> string ->
                  expr stmt -> row -> res (list value).

  Lemma plain_query_inv s :
    plain_query s = true ->
    match s_where s with Some e => plain_expr e | None => true end = true /\
    forallb plain_item (s_items s) = true.
  Proof. unfold plain_query. intros H. apply Bool.andb_true_iff in H. exact H. Qed.

  (* any two environments made by mk_env for the same query data agree on a plain query *)
  Lemma project_row_plain rec1 rec2 ctx s f1 f2 cur :
    plain_query s = true ->
    project_row (mk_env rec1 call join ctx s f1) s cur = project_row (mk_env rec2 call join ctx s f2) s cur.
  Proof.
    intros H. apply plain_query_inv in H. destruct H as [_ Hi].
    destruct cur; try reflexivity. cbn [project_row].
    rewrite (select_expr_plain (mk_env rec1 call join ctx s f1) (mk_env rec2 call join ctx s f2)); auto.
  Qed.

  Lemma mapM_ext {X Y} (f g : X -> res Y) l : (forall x, f x = g x) -> mapM f l = mapM g l.
  Proof. intros H. induction l as [|a l IH]; [reflexivity|]. cbn [mapM]. now rewrite H, IH. Qed.

  (* on a table proper the row loop never recurses *)
  Lemma filter_rows_flat rec1 rec2 ctx s f1 f2 rows :
    plain_query s = true -> flat rows = true ->
    filter_rows rec1 ctx s (mk_env rec1 call join ctx s f1) rows =
    filter_rows rec2 ctx s (mk_env rec2 call join ctx s f2) rows.
  Proof.
    intros H. apply plain_query_inv in H. destruct H as [Hw _].
    induction rows as [|v rows IH]; intros Hf; [reflexivity|].
    cbn [flat forallb] in Hf. apply Bool.andb_true_iff in Hf. destruct Hf as [Hv Hf].
    specialize (IH Hf).
    destruct v; try discriminate Hv;
      try (rewrite !filter_rows_skip by exact I; exact IH).
    rewrite !filter_rows_obj, IH.
    rewrite (eval_cond_plain (mk_env rec1 call join ctx s f1) (mk_env rec2 call join ctx s f2)); auto.
  Qed.

  (* the result on a table proper does not depend on the interpreter handed to run_select: the fuel
     is irrelevant for filter/projection queries *)
  Theorem run_flat_rec_irrelevant rec1 rec2 ctx s rows :
    simple s = true -> plain_query s = true -> flat rows = true ->
    run_select rec1 call join ctx s (Some rows) = run_select rec2 call join ctx s (Some rows).
  Proof.
    intros Hs Hp Hf. rewrite !run_simple by auto.
    rewrite (filter_rows_flat rec1 rec2 ctx s [] [] rows Hp Hf). f_equal.
    destruct (filter_rows rec2 ctx s (mk_env rec2 call join ctx s []) rows) as [f| | |]; cbn [bind]; auto.
    rewrite (mapM_ext _ (project_row (mk_env rec2 call join ctx s f) s)); auto.
    intros x. apply project_row_plain; auto.
  Qed.

  Corollary converges_flat rec0 ctx s rows out :
    simple s = true -> plain_query s = true -> flat rows = true ->
    run_select rec0 call join ctx s (Some rows) = Ok out <-> converges call join ctx s rows out.
  Proof.
    intros Hs Hp Hf. split.
    - intros H. exists 1%nat. intros m Hm. destruct m as [|m]; [lia|].
      rewrite exec_rows, <- H. apply run_flat_rec_irrelevant; auto.
    - intros (m0 & H). specialize (H (S m0) ltac:(lia)). rewrite exec_rows in H.
      rewrite <- H. apply run_flat_rec_irrelevant; auto.
  Qed.

  (* ---------------------------------------------------------------- *)
  (* filter and projection commute with concatenation                   *)
  (* ---------------------------------------------------------------- *)

  Lemma filter_rows_app rec ctx s E r1 r2 :
    filter_rows rec ctx s E (r1 ++ r2) =
    let! a := filter_rows rec ctx s E r1 in
    let! b := filter_rows rec ctx s E r2 in Ok (a ++ b).
  Proof.
    induction r1 as [|v r1 IH]; cbn [app].
    - rewrite filter_rows_nil. cbn [bind]. destruct (filter_rows rec ctx s E r2); reflexivity.
    - destruct v; try (rewrite !filter_rows_skip by exact I; exact IH).
      + rewrite !filter_rows_arr, IH.
        destruct (rec ctx (JRows (copy_query s) l)); cbn [bind]; auto.
        destruct (filter_rows rec ctx s E r1); cbn [bind]; auto.
        destruct (filter_rows rec ctx s E r2); cbn [bind]; auto.
      + rewrite !filter_rows_obj, IH.
        destruct (eval_cond E kvs (s_where s)) as [k| | |]; cbn [bind]; auto.
        destruct (filter_rows rec ctx s E r1); cbn [bind]; auto.
        destruct (filter_rows rec ctx s E r2); cbn [bind]; auto.
        destruct k; reflexivity.
  Qed.

  Section Append.
    Variable rec : qctx -> job -> res value.
    Variable ctx : qctx.
    Variable s : select stmt.
    Hypothesis Hs : simple s = true.
    Hypothesis Hp : plain_query s = true.

    Let E0 := mk_env rec call join ctx s [].
    Let stage (from : list value) : res (list value) :=
      let! f := filter_rows rec ctx s E0 from in mapM (project_row E0 s) f.

    Lemma run_stage from :
      run_select rec call join ctx s (Some from) = catch_panic (let! o := stage from in Ok (VArr o)).
    Proof.
      rewrite run_simple by auto. unfold stage. f_equal. fold E0.
      destruct (filter_rows rec ctx s E0 from) as [f| | |]; cbn [bind]; auto.
      rewrite (mapM_ext _ (project_row E0 s)); auto.
      intros x. apply project_row_plain; auto.
    Qed.

    Lemma run_stage_ok from o :
      run_select rec call join ctx s (Some from) = Ok (VArr o) <-> stage from = Ok o.
    Proof.
      rewrite run_stage, catch_panic_ok_iff. destruct (stage from); cbn [bind]; split; congruence.
    Qed.

    Lemma stage_app r1 r2 o :
      stage (r1 ++ r2) = Ok o <->
      exists o1 o2, stage r1 = Ok o1 /\ stage r2 = Ok o2 /\ o = o1 ++ o2.
    Proof.
      unfold stage. rewrite filter_rows_app. split.
      - intros H. apply bind_ok in H. destruct H as (f & Hf & Hm).
        apply bind_ok in Hf. destruct Hf as (a & Ha & Hf).
        apply bind_ok in Hf. destruct Hf as (b & Hb & Hf). inversion Hf; subst f.
        apply mapM_app_ok in Hm. destruct Hm as (o1 & o2 & H1 & H2 & ->).
        exists o1, o2. rewrite Ha, Hb. cbn [bind]. auto.
      - intros (o1 & o2 & H1 & H2 & ->).
        apply bind_ok in H1. destruct H1 as (a & Ha & H1).
        apply bind_ok in H2. destruct H2 as (b & Hb & H2).
        rewrite Ha, Hb. cbn [bind]. apply mapM_app_ok. eauto.
    Qed.

    (* the query on a concatenation succeeds exactly when it succeeds on both parts, and then returns
       the concatenation of their results *)
    Theorem run_app r1 r2 o :
      run_select rec call join ctx s (Some (r1 ++ r2)) = Ok (VArr o) <->
      exists o1 o2, run_select rec call join ctx s (Some r1) = Ok (VArr o1) /\
                    run_select rec call join ctx s (Some r2) = Ok (VArr o2) /\ o = o1 ++ o2.
    Proof.
      rewrite run_stage_ok, stage_app. split; intros (o1 & o2 & H1 & H2 & ->); exists o1, o2.
      - rewrite !run_stage_ok. auto.
      - rewrite !run_stage_ok in *. auto.
    Qed.

    Lemma run_nil : run_select rec call join ctx s (Some []) = Ok (VArr []).
    Proof. apply run_stage_ok. reflexivity. Qed.

    Theorem run_concat rs os :
      Forall2 (fun r o => run_select rec call join ctx s (Some r) = Ok (VArr o)) rs os ->
      run_select rec call join ctx s (Some (List.concat rs)) = Ok (VArr (List.concat os)).
    Proof.
      induction 1 as [|r o rs os Hr _ IH]; cbn [List.concat]; [apply run_nil|].
      apply run_app. eauto.
    Qed.
  End Append.
End Plain.

(* ================================================================== *)
(* 6. mix=> : flatten every level, then query once                     *)
(* ================================================================== *)

(* selector.go MixArray returns the leaves, left to right *)
Lemma mix_array_leaves : forall v, mix_array v = leaves v.
Proof.
  induction v as [| b | f | s | l IH | kvs IH] using value_ind'; try reflexivity.
  cbn [mix_array leaves]. induction IH as [|x l Hx _ IHl]; [reflexivity|].
  cbn [flat_map]. rewrite IHl. f_equal. rewrite <- Hx. destruct x; reflexivity.
Qed.

Lemma leaves_flat rows : flat rows = true -> leaves (VArr rows) = rows.
Proof.
  cbn [leaves]. induction rows as [|v rows IH]; intros H; [reflexivity|].
  cbn [flat forallb] in H. apply Bool.andb_true_iff in H. destruct H as [Hv H].
  cbn [flat_map]. rewrite (IH H). destruct v; try discriminate Hv; reflexivity.
Qed.

Lemma leaves_arrays inners :
  leaves (VArr (map VArr inners)) = List.concat (map (fun i => leaves (VArr i)) inners).
Proof.
  cbn [leaves]. induction inners as [|i inners IH]; [reflexivity|].
  cbn [map flat_map List.concat]. now rewrite IH.
Qed.

Lemma leaves_outs outs : leaves (VArr outs) = List.concat (map leaves outs).
Proof. cbn [leaves]. apply flat_map_concat_map. Qed.

Lemma mix_array_flat rows : flat rows = true -> mix_array (VArr rows) = rows.
Proof. rewrite mix_array_leaves. apply leaves_flat. Qed.

Lemma mix_array_arrays inners :
  mix_array (VArr (map VArr inners)) = List.concat (map (fun i => mix_array (VArr i)) inners).
Proof.
  rewrite mix_array_leaves, leaves_arrays. f_equal. apply map_ext. intros i. now rewrite mix_array_leaves.
Qed.

Section Mix.
  Variable call : string -> string -> list value -> row -> res raw.
  Variable join : jointype -> jstrategy -> list value -> list value -> string -> string ->
                  expr stmt -> row -> res (list value).

  (* one interpreter [rec] throughout: querying the flattened source returns the concatenation of
     what the query returns on each innermost table *)
  Theorem mix_concat_rec rec ctx s :
    simple s = true -> plain_query s = true ->
    forall src o,
      concat_result (fun rows out => run_select rec call join ctx s (Some rows) = Ok out) src o ->
      run_select rec call join ctx s (Some (mix_array (VArr src))) = Ok (VArr o).
  Proof.
    intros Hs Hp. fix IH 3. intros src o H. destruct H as [rows o Hf Hd | inners os Hall].
    - rewrite mix_array_flat by auto. exact Hd.
    - rewrite mix_array_arrays. apply run_concat; auto.
      revert inners os Hall. fix IHl 3. intros inners os Hall.
      destruct Hall as [|i o inners os Hio Hrest]; cbn [map]; constructor.
      + apply IH. exact Hio.
      + apply IHl. exact Hrest.
  Qed.

  (* a simple plain query on a table proper returns a table proper (objects) *)
  Lemma run_flat_out rec ctx s rows out :
    simple s = true -> flat rows = true ->
    run_select rec call join ctx s (Some rows) = Ok out -> exists o, out = VArr o /\ flat o = true.
  Proof.
    intros Hs Hf H. rewrite run_simple in H by auto. apply catch_panic_ok in H.
    apply bind_ok in H. destruct H as (f & Hfl & H).
    apply bind_ok in H. destruct H as (o & Hm & H). inversion H; subst out. exists o. split; auto.
    assert (Hobj : Forall (fun v => exists kv, v = VObj kv) f).
    { clear -Hf Hfl. revert f Hfl. induction rows as [|v rows IH]; intros f Hfl.
      - rewrite filter_rows_nil in Hfl. inversion Hfl. constructor.
      - cbn [flat forallb] in Hf. apply Bool.andb_true_iff in Hf. destruct Hf as [Hv Hf].
        destruct v; try discriminate Hv;
          try (rewrite filter_rows_skip in Hfl by exact I; apply IH; auto).
        rewrite filter_rows_obj in Hfl.
        apply bind_ok in Hfl. destruct Hfl as (k & _ & Hfl).
        apply bind_ok in Hfl. destruct Hfl as (rest & Hrest & Hfl). inversion Hfl.
        specialize (IH Hf rest Hrest). destruct k; auto. constructor; eauto. }
    clear -Hm Hobj. apply mapM_ok_Forall2 in Hm.
    remember (mk_env rec call join ctx s f) as E eqn:HE. clear HE.
    induction Hm as [|x y f' o' Hxy _ IH]; [reflexivity|].
    inversion Hobj as [|? ? Hx Hobj']; subst. destruct Hx as (kv & ->).
    cbn [project_row] in Hxy. apply bind_ok in Hxy. destruct Hxy as (r & _ & Hxy). inversion Hxy.
    cbn [flat forallb is_arr negb andb]. apply IH. exact Hobj'.
  Qed.

  Lemma converges_flat_out ctx s rows out :
    simple s = true -> flat rows = true ->
    converges call join ctx s rows out -> exists o, out = VArr o /\ flat o = true.
  Proof.
    intros Hs Hf (m0 & H). specialize (H (S m0) ltac:(lia)). rewrite exec_rows in H.
    eapply run_flat_out; eauto.
  Qed.

  (* the concatenation of the inner results is the nested result with every level flattened *)
  Lemma nested_then_leaves (direct : list value -> value -> Prop) :
    (forall rows out, flat rows = true -> direct rows out -> exists o, out = VArr o /\ flat o = true) ->
    forall src out, nested_result direct src out -> concat_result direct src (leaves out).
  Proof.
    intros Hd. fix IH 3. intros src out H. destruct H as [rows out Hf Hdir | inners outs Hall].
    - destruct (Hd _ _ Hf Hdir) as (o & -> & Ho). rewrite leaves_flat by auto. apply cr_flat; auto.
    - rewrite leaves_outs. apply cr_deep.
      revert inners outs Hall. fix IHl 3. intros inners outs Hall.
      destruct Hall as [|i o inners outs Hio Hrest]; cbn [map]; constructor.
      + apply IH. exact Hio.
      + apply IHl. exact Hrest.
  Qed.

  Lemma concat_result_impl (d1 d2 : list value -> value -> Prop) :
    (forall rows out, flat rows = true -> d1 rows out -> d2 rows out) ->
    forall src o, concat_result d1 src o -> concat_result d2 src o.
  Proof.
    intros Hd. fix IH 3. intros src o H. destruct H as [rows o Hf Hdir | inners os Hall].
    - apply cr_flat; auto.
    - apply cr_deep.
      revert inners os Hall. fix IHl 3. intros inners os Hall.
      destruct Hall as [|i o inners os Hio Hrest]; constructor.
      + apply IH. exact Hio.
      + apply IHl. exact Hrest.
  Qed.

  (* through the fuelled interpreter *)
  Theorem mix_concat ctx s :
    simple s = true -> plain_query s = true ->
    forall src o,
      concat_result (converges call join ctx s) src o ->
      converges call join ctx s (mix_array (VArr src)) (VArr o).
  Proof.
    intros Hs Hp src o H. exists 1%nat. intros m Hm. destruct m as [|m]; [lia|].
    rewrite exec_rows. apply mix_concat_rec; auto.
    eapply concat_result_impl; [|exact H]. cbv beta. intros rows out Hf Hc.
    eapply converges_flat; eauto.
  Qed.

  (* the property as stated: whatever the nested query returns, the query over the flattened source
     returns its leaves, i.e. the inner results concatenated *)
  Theorem mix_is_flattened_nested ctx s :
    simple s = true -> plain_query s = true ->
    forall src out,
      nested_result (converges call join ctx s) src out ->
      converges call join ctx s src out /\
      converges call join ctx s (mix_array (VArr src)) (VArr (leaves out)).
  Proof.
    intros Hs Hp src out H. split.
    - apply nested_any_depth; auto.
    - apply mix_concat; auto. apply nested_then_leaves; auto.
      intros rows o Hf Hc. eapply converges_flat_out; eauto.
  Qed.
End Mix.

(* ================================================================== *)
(* 7. from the FROM clause to the rows                                  *)
(* ================================================================== *)

Section From.
  Variable rec : qctx -> job -> res value.
  Variable call : string -> string -> list value -> row -> res raw.
  Variable join : jointype -> jstrategy -> list value -> list value -> string -> string ->
                  expr stmt -> row -> res (list value).

  Lemma register_no_ctes ctx : register_ctes ctx [] = ctx.
  Proof. destruct ctx; reflexivity. Qed.

  (* a query that is not a subquery has nothing behind `<-` but what its document holds *)
  Lemma up_read_nil ctx p : c_up ctx = [] -> up_read ctx p = None.
  Proof.
    intros H. unfold up_read. rewrite H. destruct p as [|k rest]; [reflexivity|].
    destruct (String.eqb k "<-"); reflexivity.
  Qed.

  (* FROM path : the array the path resolves to (no CTE of that name, no alias).
     [up_read ctx path = None] (new hypothesis): the path does not run, behind `<-`, into a CTE thunk
     of an enclosing query — always so for a query that is not a subquery (up_read_nil) and for a
     path that does not start with `<-` *)
  Lemma build_from_table ctx k rest src :
    cte_lookup k (c_ctes ctx) = None ->
    up_read ctx (k :: rest) = None ->
    reader (k :: rest) (VObj (c_data ctx)) = Ok (VArr src) ->
    build_from rec join ctx (FTable (k :: rest) "") = Ok (Some src).
  Proof. intros Hc Hu Hr. cbn [build_from]. rewrite Hc, Hu, Hr. reflexivity. Qed.

  (* FROM mix=>path : the same array with every level flattened *)
  Lemma build_from_mix ctx path src :
    up_read ctx path = None ->
    reader path (VObj (c_data ctx)) = Ok (VArr src) ->
    build_from rec join ctx (FTableFn "mix" path "") = Ok (Some (mix_array (VArr src))).
  Proof. intros Hu Hr. cbn [build_from]. rewrite Hu, Hr. reflexivity. Qed.

  Theorem select_from_table ctx s k rest src :
    s_with s = [] -> s_from s = FTable (k :: rest) "" ->
    cte_lookup k (c_ctes ctx) = None ->
    up_read ctx (k :: rest) = None ->
    reader (k :: rest) (VObj (c_data ctx)) = Ok (VArr src) ->
    exec_step rec call join ctx (JStmt (SSelect s)) = exec_step rec call join ctx (JRows s src).
  Proof.
    intros Hw Hf Hc Hu Hr. cbn [exec_step]. rewrite Hw, register_no_ctes, Hf.
    rewrite (build_from_table _ _ _ _ Hc Hu Hr). reflexivity.
  Qed.

  Theorem select_from_mix ctx s path src :
    s_with s = [] -> s_from s = FTableFn "mix" path "" ->
    up_read ctx path = None ->
    reader path (VObj (c_data ctx)) = Ok (VArr src) ->
    exec_step rec call join ctx (JStmt (SSelect s)) =
    exec_step rec call join ctx (JRows s (mix_array (VArr src))).
  Proof.
    intros Hw Hf Hu Hr. cbn [exec_step]. rewrite Hw, register_no_ctes, Hf.
    rewrite (build_from_mix _ _ _ Hu Hr). reflexivity.
  Qed.
End From.

(* the FROM clause is not consulted once the rows are resolved: the nested query (FROM path) and the
   flattened one (FROM mix=>path) are the same query as far as run_select is concerned *)
Definition with_from (f : from_clause stmt) (s : select stmt) : select stmt :=
  {| s_with := s_with s; s_from := f; s_where := s_where s; s_group := s_group s;
     s_having := s_having s; s_items := s_items s; s_distinct := s_distinct s;
     s_order := s_order s; s_limit := s_limit s; s_offset := s_offset s |}.

Lemma run_flat_from_irrelevant rec call join ctx s f rows :
  flat rows = true ->
  run_select rec call join ctx (with_from f s) (Some rows) = run_select rec call join ctx s (Some rows).
Proof.
  intros Hf. unfold run_select. f_equal.
  assert (Hfr : forall E, filter_rows rec ctx (with_from f s) E rows = filter_rows rec ctx s E rows).
  { intros E. induction rows as [|v rows IH]; [reflexivity|].
    cbn [flat forallb] in Hf. apply Bool.andb_true_iff in Hf. destruct Hf as [Hv Hf].
    destruct v; try discriminate Hv;
      try (rewrite !filter_rows_skip by exact I; auto).
    rewrite !filter_rows_obj, IH; auto. }
  change (mk_env rec call join ctx (with_from f s)) with (mk_env rec call join ctx s).
  rewrite Hfr. reflexivity.
Qed.

(* ================================================================== *)
(* 8. the two SQL statements, end to end                                *)
(* ================================================================== *)

Section EndToEnd.
  Variable call : string -> string -> list value -> row -> res raw.
  Variable join : jointype -> jstrategy -> list value -> list value -> string -> string ->
                  expr stmt -> row -> res (list value).

  (* "for every sufficiently large fuel, the statement evaluates to [out]" *)
  Definition stmt_converges (ctx : qctx) (q : stmt) (out : value) : Prop :=
    exists m0, forall m, (m0 <= m)%nat -> exec call join m ctx (JStmt q) = Ok out.

  Lemma converges_with_from ctx s f rows out :
    flat rows = true ->
    converges call join ctx s rows out -> converges call join ctx (with_from f s) rows out.
  Proof.
    intros Hf (m0 & H). exists (S m0). intros m Hm. destruct m as [|m]; [lia|].
    rewrite exec_rows, run_flat_from_irrelevant by auto. rewrite <- exec_rows. apply H. lia.
  Qed.

  (*   SELECT items FROM path WHERE w          returns [out], the nested result, and
       SELECT items FROM mix=>path WHERE w     returns the leaves of [out]: the inner results
     concatenated — for every document whose [path] holds arrays nested to any depth *)
  Theorem nested_and_mix_statements ctx s k rest src out :
    simple s = true -> plain_query s = true ->
    s_with s = [] -> s_from s = FTable (k :: rest) "" ->
    cte_lookup k (c_ctes ctx) = None ->
    up_read ctx (k :: rest) = None ->
    reader (k :: rest) (VObj (c_data ctx)) = Ok (VArr src) ->
    nested_result (converges call join ctx s) src out ->
    stmt_converges ctx (SSelect s) out /\
    stmt_converges ctx (SSelect (with_from (FTableFn "mix" (k :: rest) "") s)) (VArr (leaves out)).
  Proof.
    intros Hs Hp Hw Hf Hc Hu Hr Hn.
    destruct (mix_is_flattened_nested call join ctx s Hs Hp src out Hn) as [(m1 & H1) _].
    split.
    - exists (S m1). intros m Hm. destruct m as [|m]; [lia|]. cbn [exec].
      rewrite (select_from_table _ _ _ ctx s k rest src Hw Hf Hc Hu Hr).
      change (exec call join (S m) ctx (JRows s src) = Ok out). apply H1. lia.
    - set (s' := with_from (FTableFn "mix" (k :: rest) "") s).
      assert (Hc' : concat_result (converges call join ctx s') src (leaves out)).
      { eapply concat_result_impl.
        - intros rows o Hfl Hcv. apply converges_with_from; [exact Hfl | exact Hcv].
        - apply nested_then_leaves; auto.
          intros rows o Hfl Hcv. eapply converges_flat_out; eauto. }
      destruct (mix_concat call join ctx s' Hs Hp src (leaves out) Hc') as (m2 & H2).
      exists (S m2). intros m Hm. destruct m as [|m]; [lia|]. cbn [exec].
      rewrite (select_from_mix _ _ _ ctx s' (k :: rest) src Hw eq_refl Hu Hr).
      change (exec call join (S m) ctx (JRows s' (mix_array (VArr src))) = Ok (VArr (leaves out))).
      apply H2. lia.
  Qed.
End EndToEnd.
