(* Proofs/C12Lemmas.v — property C12, pipeline level: every stage of exec() maps clean rows to clean
   rows, the source builder (tables, table functions, derived tables, CTEs, joins) yields clean rows,
   and — by induction on the fuel of the interpreter — every row of an API result is clean. *)
From Coq Require Import Floats.
From GenqlV Require Import Base.Prelude Base.Value Model.Ast Model.Eval Model.Exec Model.Join
                           Spec.PlainSpec Proofs.UpFacts Proofs.C12Clean Proofs.C12Eval.
Local Open Scope list_scope.

(* ------------------------------------------------------------------ *)
(* small facts                                                          *)
(* ------------------------------------------------------------------ *)

Lemma catch_panic_ok : forall {A} (x : res A) v, catch_panic x = Ok v -> x = Ok v.
Proof. intros A [a| | |] v H; cbn in H; try discriminate; exact H. Qed.

Lemma star_not_nav : "*"%string <> nav.
Proof. unfold nav. discriminate. Qed.

Lemma as_array_clean : forall v l, clean v -> as_array v = Ok l -> Forall clean l.
Proof.
  intros v l Hv H. destruct v; cbn in H; try discriminate; inversion H; subst.
  - apply clean_arr_inv, Hv.
  - constructor; [exact Hv|constructor].
Qed.

Lemma process_alias_clean : forall rows alias,
  name_ok alias = true -> Forall clean rows -> Forall clean (process_alias rows alias).
Proof.
  intros rows alias Ha Hr. unfold process_alias. destruct (String.eqb alias ""); [exact Hr|].
  apply Forall_forall. intros x Hx. apply in_map_iff in Hx. destruct Hx as [r [<- Hin]].
  apply clean_obj. constructor; [|constructor]. split; cbn; [apply name_ok_iff, Ha|].
  rewrite Forall_forall in Hr. auto.
Qed.

Lemma mix_array_clean : forall v, clean v -> Forall clean (mix_array v).
Proof.
  induction v using value_ind'; intros Hv; cbn [mix_array]; try (constructor; [exact Hv|constructor]).
  apply clean_arr_inv in Hv. induction l as [|x r IHr]; cbn [flat_map]; [constructor|].
  inversion H as [|? ? Hx Hr]; subst. inversion Hv as [|? ? Hcx Hcr]; subst.
  apply Forall_app. split; [|apply IHr; assumption].
  destruct x; try (constructor; [exact Hcx|constructor]). apply Hx, Hcx.
Qed.

Lemma top_level_fn_clean : forall fn v w, nav_ok v -> top_level_fn fn v = Ok w -> clean w.
Proof.
  intros fn v w Hv H. unfold top_level_fn in H.
  destruct (String.eqb fn "mix").
  - destruct v; try discriminate. inversion H; subst. apply clean_arr. apply (mix_array_clean (VArr l)). exact Hv.
  - destruct (String.eqb fn "distinct"); discriminate.
Qed.

(* LIMIT / OFFSET: a sub-sequence, padded with NULL beyond the length *)
Lemma in_firstn_in12 {A} : forall n (l : list A) x, In x (firstn n l) -> In x l.
Proof.
  induction n as [|n IH]; intros l x H; [destruct H|]. destruct l as [|y l]; [destruct H|].
  destruct H as [H|H]; [left; exact H|right; apply IH, H].
Qed.
Lemma in_skipn_in12 {A} : forall n (l : list A) x, In x (skipn n l) -> In x l.
Proof.
  induction n as [|n IH]; intros l x H; [exact H|]. destruct l as [|y l]; [destruct H|].
  right; apply IH, H.
Qed.

Lemma window_clean : forall rs cap limit offset out,
  Forall clean rs -> window rs cap limit offset = Ok out -> Forall clean out.
Proof.
  intros rs cap limit offset out Hrs H. unfold window in H.
  match type of H with (if ?c then _ else _) = _ => destruct c end; [inversion H; constructor|].
  unfold go_slice in H.
  match type of H with (if ?c then _ else _) = _ => destruct c end; [|discriminate].
  inversion H; subst. apply Forall_forall. intros x Hx.
  apply in_firstn_in12, in_skipn_in12 in Hx.
  apply in_app_or in Hx. destruct Hx as [Hin|Hin].
  - rewrite Forall_forall in Hrs. auto.
  - apply repeat_spec in Hin. subst. apply clean_null.
Qed.

(* ORDER BY permutes *)
Lemma insert_by_Forall : forall (P : value -> Prop) less x l out,
  P x -> Forall P l -> insert_by less x l = Ok out -> Forall P out.
Proof.
  intros P less x. induction l as [|y r IH]; intros out Hx Hl H; cbn in H.
  - inversion H; subst. constructor; [exact Hx|constructor].
  - inversion Hl as [|? ? Hy Hr]; subst.
    destruct (less y x) as [b| | |]; cbn [bind] in H; try discriminate. destruct b.
    + destruct (insert_by less x r) as [r'| | |] eqn:Er; cbn [bind] in H; try discriminate.
      inversion H; subst. constructor; [exact Hy|]. apply IH; auto.
    + inversion H; subst. constructor; [exact Hx|exact Hl].
Qed.

Lemma sort_by_Forall : forall (P : value -> Prop) less l out,
  Forall P l -> sort_by less l = Ok out -> Forall P out.
Proof.
  intros P less. induction l as [|x r IH]; intros out Hl H; cbn in H.
  - inversion H; constructor.
  - inversion Hl as [|? ? Hx Hr]; subst.
    destruct (sort_by less r) as [r'| | |] eqn:Er; cbn [bind] in H; try discriminate.
    eapply insert_by_Forall; [exact Hx|apply IH; [exact Hr|reflexivity]|exact H].
Qed.

Lemma exec_order_by_clean : forall keys rows out,
  Forall clean rows -> exec_order_by keys rows = Ok out -> Forall clean out.
Proof.
  intros keys rows out Hr H. unfold exec_order_by in H. destruct keys as [|k ks].
  - inversion H; subst; exact Hr.
  - apply catch_panic_ok in H. eapply sort_by_Forall; eauto.
Qed.

(* DISTINCT drops rows *)
Lemma distinct_by_Forall : forall (P : value -> Prop) K (fp : value -> K) keq rows seen,
  Forall P rows -> Forall P (distinct_by K fp keq seen rows).
Proof.
  intros P K fp keq. induction rows as [|r rest IH]; intros seen H; cbn; [constructor|].
  inversion H; subst. destruct (existsb (keq (fp r)) seen); [auto|constructor; auto].
Qed.

Lemma exec_distinct_clean : forall d rows, Forall clean rows -> Forall clean (exec_distinct d rows).
Proof. intros d rows H. unfold exec_distinct. destruct d; [apply distinct_by_Forall, H|exact H]. Qed.

(* aggregates return numbers or NULL *)
Lemma eval_agg_ok : forall members f arg r, eval_agg members f arg = Ok r -> raw_ok true r.
Proof.
  intros members f arg r H. unfold eval_agg in H.
  match type of H with bind ?x _ = _ => destruct x as [col| | |]; cbn [bind] in H; try discriminate end.
  destruct (agg_apply f members col) as [v| | |] eqn:Ea; cbn [bind] in H; try discriminate.
  inversion H; subst. cbn.
  unfold agg_apply in Ea.
  destruct f, col; try discriminate; repeat ok_step Ea;
    first [apply clean_num|apply clean_null|destruct (snd _); first [apply clean_num|apply clean_null]].
Qed.

(* ------------------------------------------------------------------ *)
(* GROUP BY                                                             *)
(* ------------------------------------------------------------------ *)

Definition group_ok (g : group) : Prop := Forall entry_clean (fst g) /\ Forall clean (snd g).

(* a grouping column is a path of key and index steps: what it reads is a sub-value (arrays rebuilt element-wise) *)
Lemma key_reader_cons_arr : forall k rest l,
  key_reader (KKey k :: rest) (VArr l) = let! l' := mapM (key_reader (KKey k :: rest)) l in Ok (VArr l').
Proof.
  intros k rest l. cbn [key_reader].
  match goal with |- bind ?a _ = bind ?b _ => assert (Heq : a = b) end.
  { induction l as [|x r IH]; [reflexivity|]. cbn [mapM]. rewrite <- IH. reflexivity. }
  rewrite Heq. reflexivity.
Qed.

Lemma key_reader_clean : forall p v w, clean v -> key_reader p v = Ok w -> clean w.
Proof.
  induction p as [|st rest IHp]; intros v w Hv H.
  - cbn in H. inversion H; subst; exact Hv.
  - destruct st as [k|i].
    + revert w Hv H. induction v using value_ind'; intros w Hv Hr;
        try (cbn in Hr; first [discriminate | inversion Hr; subst; apply clean_null]).
      * rewrite key_reader_cons_arr in Hr.
        destruct (mapM (key_reader (KKey k :: rest)) l) eqn:Em; cbn in Hr; try discriminate.
        inversion Hr; subst. apply clean_arr. apply clean_arr_inv in Hv.
        eapply (mapM_Forall (key_reader (KKey k :: rest)) clean clean); [|exact Em].
        rewrite Forall_forall in *. intros x Hx. split; [auto|]. intros b Hb. apply (H x Hx b); auto.
      * cbn [key_reader] in Hr. eapply IHp; [|exact Hr]. apply clean_obj_get, Hv.
    + destruct v as [| | | |l|kvs]; cbn [key_reader] in H;
        try discriminate; try (inversion H; subst; apply clean_null).
      destruct (i =? -1)%Z; [eapply IHp; [exact Hv|exact H]|].
      destruct ((i <? 0)%Z || (Z.of_nat (List.length l) <=? i)%Z); [discriminate|].
      destruct (nth_error l (Z.to_nat i)) as [x|] eqn:En; [|discriminate].
      eapply IHp; [|exact H]. apply clean_arr_inv in Hv. rewrite Forall_forall in Hv.
      apply Hv. eapply nth_error_In. exact En.
Qed.

Lemma group_key_clean : forall cols it k,
  forallb (fun c => name_ok (gk_name c)) cols = true -> clean it -> group_key cols it = Ok k -> Forall entry_clean k.
Proof.
  intros cols it k Hc Hit H. unfold group_key in H.
  eapply (mapM_Forall' _ (fun c => name_ok (gk_name c) = true) entry_clean); [| |exact H].
  - intros c [c' v] Hn Hb. destruct (key_reader (gk_path c) it) as [w| | |] eqn:Er; cbn [bind] in Hb; try discriminate.
    inversion Hb; subst. split; cbn; [apply name_ok_iff, Hn|eapply key_reader_clean; eauto].
  - apply Forall_forall. intros c Hin. rewrite forallb_forall in Hc. auto.
Qed.

Lemma group_insert_ok : forall key item gs gs',
  Forall entry_clean key -> clean item -> Forall group_ok gs ->
  group_insert key item gs = Ok gs' -> Forall group_ok gs'.
Proof.
  intros key item. induction gs as [|[k ms] rest IH]; intros gs' Hk Hi Hgs H; cbn in H.
  - inversion H; subst. constructor; [|constructor]. split; cbn; [exact Hk|constructor; [exact Hi|constructor]].
  - inversion Hgs as [|? ? [Hgk Hgm] Hrest]; subst. cbn in Hgk, Hgm.
    destruct (keys_match k key) as [m| | |]; cbn [bind] in H; try discriminate. destruct m.
    + inversion H; subst. constructor; [|exact Hrest]. split; cbn; [exact Hgk|].
      apply Forall_app. split; [exact Hgm|constructor; [exact Hi|constructor]].
    + destruct (group_insert key item rest) as [rest'| | |] eqn:Er; cbn [bind] in H; try discriminate.
      inversion H; subst. constructor; [split; assumption|]. apply IH; auto.
Qed.

Lemma group_rows_ok : forall cols items gs gs',
  forallb (fun c => name_ok (gk_name c)) cols = true -> Forall clean items -> Forall group_ok gs ->
  group_rows cols items gs = Ok gs' -> Forall group_ok gs'.
Proof.
  intros cols. induction items as [|it rest IH]; intros gs gs' Hc Hi Hgs H; cbn in H.
  - inversion H; subst; exact Hgs.
  - inversion Hi as [|? ? Hit Hrest]; subst.
    destruct (group_key cols it) as [k| | |] eqn:Ek; cbn [bind] in H; try discriminate.
    destruct (group_insert k it gs) as [gs1| | |] eqn:Eg; cbn [bind] in H; try discriminate.
    eapply IH; [exact Hc|exact Hrest| |exact H].
    eapply group_insert_ok; [eapply group_key_clean; eauto|exact Hit|exact Hgs|exact Eg].
Qed.

(* the group row: the key columns plus `*` holding the member rows *)
Lemma group_row_clean : forall g, group_ok g -> clean (VObj (group_row g)).
Proof.
  intros g [Hk Hm]. unfold group_row. apply clean_obj_set.
  - exact star_not_nav.
  - apply clean_arr, Hm.
  - unfold obj_of_list. apply clean_obj_merge; [apply clean_obj_nil|apply clean_obj, Hk].
Qed.

Lemma exec_group_by_clean : forall (E : env stmt) s rows out,
  forallb (fun c => name_ok (gk_name c)) (s_group s) = true -> Forall clean rows ->
  exec_group_by E s rows = Ok out -> Forall clean out.
Proof.
  intros E s rows out Hc Hr H. unfold exec_group_by in H.
  destruct (s_group s) as [|c cs] eqn:Eg; [inversion H; subst; exact Hr|].
  destruct (group_rows (c :: cs) rows []) as [gs| | |] eqn:Egs; cbn [bind] in H; try discriminate.
  assert (Hgs : Forall group_ok gs) by (eapply group_rows_ok; [exact Hc|exact Hr|constructor|exact Egs]).
  match type of H with bind ?x _ = _ => destruct x as [kept| | |] eqn:Ek; cbn [bind] in H; try discriminate end.
  inversion H; subst. clear H Egs. revert out Ek.
  induction gs as [|g r IH]; intros out Ek.
  - inversion Ek; constructor.
  - inversion Hgs as [|? ? Hg Hrest]; subst.
    destruct (eval_cond E (group_row g) (s_having s)) as [h| | |]; cbn [bind] in Ek; try discriminate.
    match type of Ek with bind ?x _ = _ => destruct x as [rest| | |] eqn:Er; cbn [bind] in Ek; try discriminate end.
    inversion Ek; subst. specialize (IH Hrest _ eq_refl).
    destruct h; [constructor; [apply group_row_clean, Hg|exact IH]|exact IH].
Qed.

(* ------------------------------------------------------------------ *)
(* the interpreter, relative to the interpreter with less fuel          *)
(* ------------------------------------------------------------------ *)

(* the hooks *)
Definition call_ok (call : string -> string -> list value -> row -> res raw) : Prop :=
  forall qual name vs cur r, Forall clean vs -> call qual name vs cur = Ok r -> raw_ok true r.

Definition join_ok (join : jointype -> jstrategy -> list value -> list value -> string -> string ->
                           expr stmt -> row -> res (list value)) : Prop :=
  forall jt st l r lid rid on data rows,
    Forall clean l -> Forall clean r -> name_ok lid = true -> name_ok rid = true ->
    join jt st l r lid rid on data = Ok rows -> Forall clean rows.

(* query.data: a scope copy inside subqueries, clean at the top level; registered CTE bodies are
   admissible at the same level *)
Definition ctes_ok (strict : bool) (ctes : list (string * stmt)) : Prop :=
  Forall (fun c => stmt_ok strict (snd c) = true) ctes.

(* an enclosing query, as a subquery reaches it behind `<-`: its data map and the bodies of its CTE
   thunks are admissible at that query's own level *)
Definition frame_ok (f : frame) : Prop :=
  exists strict, cur_ok strict (fr_data f) /\ ctes_ok strict (fr_ctes f).

Definition ctx_ok (strict : bool) (ctx : qctx) : Prop :=
  (cur_ok strict (c_data ctx) /\ Forall (fun c => stmt_ok strict (snd c) = true) (c_ctes ctx)) /\
  Forall frame_ok (c_up ctx).

(* a prepared SELECT over given rows: only its grouping columns and select list matter *)
Definition rows_select_ok (s : select stmt) : Prop :=
  forallb (fun c => name_ok (gk_name c)) (s_group s) = true /\ forallb (item_ok (stmt_ok true) false) (s_items s) = true.

Definition job_ok (strict : bool) (j : job) : Prop :=
  match j with
  | JStmt q => stmt_ok strict q = true
  | JRows s rows => rows_select_ok s /\ Forall clean rows
  end.

Lemma ident_of_from_ident : forall f : from_clause stmt, from_ident f = ident_of f.
Proof. intros f. destruct f; reflexivity. Qed.

Lemma withs_ok_Forall : forall (same : stmt -> bool) (l : list (string * stmt)),
  (fix go (l : list (string * stmt)) : bool :=
     match l with [] => true | (_, b) :: r => same b && go r end) l = true ->
  Forall (fun c => same (snd c) = true) l.
Proof.
  intros same. induction l as [|[n b] r IH]; intros H; [constructor|].
  apply Bool.andb_true_iff in H. destruct H as [Hb Hr]. constructor; [exact Hb|apply IH, Hr].
Qed.

Section Pipeline.
  Variable rec : qctx -> job -> res value.
  Variable call : string -> string -> list value -> row -> res raw.
  Variable join : jointype -> jstrategy -> list value -> list value -> string -> string ->
                  expr stmt -> row -> res (list value).

  Hypothesis Hcall : call_ok call.
  Hypothesis Hjoin : join_ok join.
  Hypothesis Hrec : forall strict ctx j v,
    ctx_ok strict ctx -> job_ok strict j -> rec ctx j = Ok v -> clean v.

  Lemma mk_env_ok : forall strict ctx s filtered,
    ctx_ok strict ctx -> env_ok (mk_env rec call join ctx s filtered) (stmt_ok true).
  Proof.
    intros strict ctx s filtered [[[Hn Hcl] Hc] Hup]. constructor; cbn.
    - exact Hn.
    - reflexivity.
    - intros q cur v Hq Hcur H. eapply (Hrec true (sub_ctx ctx cur) (JStmt q)); [|exact Hq|exact H].
      split; cbn; [split; [split; [exact Hcur|discriminate]|constructor]|].
      constructor; [|exact Hup]. exists strict. split; [split; assumption|exact Hc].
    - intros f arg cur r H. destruct (s_group s).
      + eapply eval_agg_ok; eauto.
      + destruct (lookup "*" cur) as [[ | | | |ms| ]|]; try discriminate. eapply eval_agg_ok; eauto.
    - exact Hcall.
  Qed.

  (* ExecSelect: rows are objects (evaluated on) or inner dimensions (kept) *)
  Definition row_ok (sc : bool) (r : value) : Prop :=
    match r with VObj kv => cur_ok sc kv | _ => clean r end.

  Lemma exec_select_clean : forall (E : env stmt) sc s rows out,
    env_ok E (stmt_ok true) -> forallb (item_ok (stmt_ok true) sc) (s_items s) = true ->
    Forall (row_ok sc) rows -> exec_select E s rows = Ok out -> Forall clean out.
  Proof.
    intros E sc s rows out HE Hit Hr H. unfold exec_select in H.
    match type of H with (if ?c then _ else _) = _ => destruct c end.
    - destruct (select_expr E [] (s_items s) []) as [r| | |] eqn:Es; cbn [bind] in H; try discriminate.
      inversion H; subst. constructor; [|constructor].
      eapply (select_expr_clean stmt E (stmt_ok true) HE sc []); [apply cur_ok_clean, clean_obj_nil|exact Hit|apply clean_obj_nil|exact Es].
    - eapply (mapM_Forall' _ (row_ok sc) clean); [|exact Hr|exact H].
      intros a b Ha Hb. destruct a; try discriminate.
      + inversion Hb; subst. exact Ha.
      + destruct (select_expr E kvs (s_items s) []) as [r| | |] eqn:Es; cbn [bind] in Hb; try discriminate.
        inversion Hb; subst.
        eapply (select_expr_clean stmt E (stmt_ok true) HE sc kvs); [exact Ha|exact Hit|apply clean_obj_nil|exact Es].
  Qed.

  Lemma clean_rows_ok : forall sc rows, Forall clean rows -> Forall (row_ok sc) rows.
  Proof.
    intros sc rows H. eapply Forall_impl; [|exact H]. intros r Hr. destruct r; try exact Hr.
    apply cur_ok_clean, Hr.
  Qed.

  (* the row loop: kept rows are source rows, inner dimensions are results of the copied query *)
  Lemma filter_rows_clean : forall strict ctx s (E : env stmt) from out,
    ctx_ok strict ctx -> rows_select_ok s -> Forall clean from ->
    filter_rows rec ctx s E from = Ok out -> Forall clean out.
  Proof.
    intros strict ctx s E from out Hctx Hs. unfold filter_rows. revert out.
    induction from as [|cur r IH]; intros out Hf H.
    - inversion H; constructor.
    - inversion Hf as [|? ? Hcur Hr]; subst. destruct cur.
      1-4: apply IH; assumption.
      + match type of H with bind ?x _ = _ => destruct x as [rs| | |] eqn:Ers; cbn [bind] in H; try discriminate end.
        match type of H with bind ?x _ = _ => destruct x as [rest| | |] eqn:Erest; cbn [bind] in H; try discriminate end.
        inversion H; subst. constructor; [|apply IH; [exact Hr|reflexivity]].
        eapply (Hrec strict ctx); [exact Hctx| |exact Ers]. split; [exact Hs|apply clean_arr_inv, Hcur].
      + destruct (eval_cond E kvs (s_where s)) as [keep| | |]; cbn [bind] in H; try discriminate.
        match type of H with bind ?x _ = _ => destruct x as [rest| | |] eqn:Erest; cbn [bind] in H; try discriminate end.
        inversion H; subst. specialize (IH _ Hr eq_refl).
        destruct keep; [constructor; assumption|exact IH].
  Qed.

  (* exec() over resolved rows *)
  Lemma run_select_rows_clean : forall strict ctx s from v,
    ctx_ok strict ctx -> rows_select_ok s -> Forall clean from ->
    run_select rec call join ctx s (Some from) = Ok v -> clean v.
  Proof.
    intros strict ctx s from v Hctx Hs Hf H. unfold run_select in H. apply catch_panic_ok in H.
    destruct (filter_rows rec ctx s (mk_env rec call join ctx s []) from) as [filtered| | |] eqn:Ef;
      cbn [bind] in H; try discriminate.
    assert (Hfil : Forall clean filtered) by (eapply filter_rows_clean; eauto).
    destruct (exec_group_by (mk_env rec call join ctx s filtered) s filtered) as [grouped| | |] eqn:Eg;
      cbn [bind] in H; try discriminate.
    assert (Hgr : Forall clean grouped) by (eapply exec_group_by_clean; [apply Hs|exact Hfil|exact Eg]).
    destruct (exec_select (mk_env rec call join ctx s filtered) s grouped) as [selected| | |] eqn:Es;
      cbn [bind] in H; try discriminate.
    assert (Hsel : Forall clean selected).
    { eapply (exec_select_clean _ false); [eapply mk_env_ok; exact Hctx|apply Hs|apply clean_rows_ok, Hgr|exact Es]. }
    destruct (exec_order_by (s_order s) (exec_distinct (s_distinct s) selected)) as [ordered| | |] eqn:Eo;
      cbn [bind] in H; try discriminate.
    assert (Hord : Forall clean ordered)
      by (eapply exec_order_by_clean; [apply exec_distinct_clean, Hsel|exact Eo]).
    destruct (window ordered (List.length ordered) (s_limit s) (s_offset s)) as [win| | |] eqn:Ew;
      cbn [bind] in H; try discriminate.
    inversion H; subst. apply clean_arr. eapply window_clean; eauto.
  Qed.

  (* exec() of a dual query: the select list is evaluated on query.data itself *)
  Lemma run_select_dual_clean : forall strict ctx s v,
    ctx_ok strict ctx -> forallb (item_ok (stmt_ok true) strict) (s_items s) = true ->
    run_select rec call join ctx s None = Ok v -> clean v.
  Proof.
    intros strict ctx s v Hctx Hit H. unfold run_select in H. apply catch_panic_ok in H.
    destruct (exec_select (mk_env rec call join ctx s []) s [VObj (c_data ctx)]) as [rs| | |] eqn:Es;
      cbn [bind] in H; try discriminate.
    assert (Hrs : Forall clean rs).
    { eapply (exec_select_clean _ strict); [eapply mk_env_ok; exact Hctx|exact Hit| |exact Es].
      constructor; [|constructor]. cbn. apply Hctx. }
    destruct rs as [|r rest]; inversion H; subst; [apply clean_null|].
    inversion Hrs; assumption.
  Qed.

  (* BuildFrom *)
  Lemma build_from_none : forall ctx f, build_from rec join ctx f = Ok None -> is_dual f = true.
  Proof.
    intros ctx f H.
    assert (Hsel : forall sl alias, f = FSel sl alias -> False).
    { intros sl alias ->. cbn [build_from] in H. repeat ok_step H. }
    destruct f; [reflexivity| | |exfalso; exact (Hsel _ _ eq_refl)| |]; clear Hsel; cbn in H |- *; exfalso.
    - destruct path as [|k rest]; [discriminate|].
      destruct (cte_lookup k (c_ctes ctx)).
      + destruct (existsb (String.eqb k) (c_busy ctx)); [discriminate|]. repeat ok_step H.
      + repeat ok_step H.
    - repeat ok_step H.
    - repeat ok_step H.
    - repeat ok_step H.
  Qed.

  Lemma cte_lookup_in : forall k ctes body, cte_lookup k ctes = Some body -> exists n, In (n, body) ctes.
  Proof.
    intros k ctes body H. unfold cte_lookup in H.
    destruct (find (fun c => String.eqb (fst c) k) ctes) as [[n b]|] eqn:Ef; [|discriminate].
    inversion H; subst. apply find_some in Ef. exists n. apply Ef.
  Qed.

  Theorem build_from_clean : forall strict f ctx rows,
    ctx_ok strict ctx -> from_ok (stmt_ok strict) strict f = true ->
    build_from rec join ctx f = Ok (Some rows) -> Forall clean rows.
  Proof.
    intros strict. induction f as [|path alias|fn path alias|sl alias|q alias|jt st l IHl r IHr on];
      intros ctx rows Hctx Hok H; cbn [build_from] in H; cbn [from_ok] in Hok.
    - discriminate.
    - apply Bool.andb_true_iff in Hok. destruct Hok as [Ha Hp].
      destruct path as [|k rest]; [discriminate|].
      destruct (cte_lookup k (c_ctes ctx)) as [body|] eqn:Ec.
      + destruct (existsb (String.eqb k) (c_busy ctx)); [discriminate|].
        match type of H with bind ?x _ = _ => destruct x as [rs| | |] eqn:Ers; cbn [bind] in H; try discriminate end.
        destruct (reader rest rs) as [v| | |] eqn:Er; cbn [bind] in H; try discriminate.
        destruct (as_array v) as [arr| | |] eqn:Ea; cbn [bind] in H; try discriminate.
        inversion H; subst. apply process_alias_clean; [exact Ha|].
        eapply as_array_clean; [|exact Ea]. eapply reader_clean; [|exact Er].
        destruct (cte_lookup_in _ _ _ Ec) as [n Hin].
        eapply (Hrec strict); [|
          |exact Ers].
        * destruct Hctx as [[Hd Hc] Hup]. split; [split; [exact Hd|exact Hc]|exact Hup].
        * cbn. destruct Hctx as [[_ Hc] _]. rewrite Forall_forall in Hc. apply (Hc _ Hin).
      + destruct (up_read ctx (k :: rest)) as [h|] eqn:Eh.
        { (* a thunk of an enclosing query: evaluated at that query's level *)
          destruct (existsb (String.eqb (uh_name h)) (fr_busy (uh_frame h))); [discriminate|].
          match type of H with bind ?x _ = _ => destruct x as [rs| | |] eqn:Ers; cbn [bind] in H; try discriminate end.
          destruct (reader (uh_rest h) rs) as [v| | |] eqn:Er; cbn [bind] in H; try discriminate.
          destruct (as_array v) as [arr| | |] eqn:Ea; cbn [bind] in H; try discriminate.
          inversion H; subst. apply process_alias_clean; [exact Ha|].
          eapply as_array_clean; [|exact Ea]. eapply reader_clean; [|exact Er].
          destruct (up_read_some _ _ _ Eh) as (pre & Hup & Hbody).
          destruct Hctx as [_ Hfr]. rewrite Hup in Hfr. apply Forall_app in Hfr. destruct Hfr as [_ Hfr].
          inversion Hfr as [|? ? Hf Hrest]; subst. destruct Hf as (sf & Hfd & Hfc).
          destruct (cte_lookup_in _ _ _ Hbody) as [n Hin].
          eapply (Hrec sf); [| |exact Ers].
          - split; cbn; [split; assumption|exact Hrest].
          - cbn. unfold ctes_ok in Hfc. rewrite Forall_forall in Hfc. apply (Hfc _ Hin). }
        destruct (reader (k :: rest) (VObj (c_data ctx))) as [v| | |] eqn:Er; cbn [bind] in H; try discriminate.
        assert (Hv : clean v).
        { eapply (value_of_clean strict (c_data ctx) (RCol (k :: rest))); [apply Hctx| |exact Er].
          cbn [raw_ok]. intros ->. destruct (nav_only (k :: rest)); [cbn in Hp; discriminate Hp|reflexivity]. }
        destruct v; try (inversion H; subst; constructor);
          (destruct (as_array _) as [arr| | |] eqn:Ea; cbn [bind] in H; try discriminate;
           inversion H; subst; apply process_alias_clean; [exact Ha|eapply as_array_clean; [exact Hv|exact Ea]]).
    - destruct (up_read ctx path); [discriminate|].
      destruct (reader path (VObj (c_data ctx))) as [v| | |] eqn:Er; cbn [bind] in H; try discriminate.
      destruct (top_level_fn fn v) as [w| | |] eqn:Et; cbn [bind] in H; try discriminate.
      assert (Hw : clean w).
      { eapply top_level_fn_clean; [|exact Et]. eapply reader_nav; [|exact Er]. apply Hctx. }
      destruct w; try (inversion H; subst; constructor);
        (destruct (as_array _) as [arr| | |] eqn:Ea; cbn [bind] in H; try discriminate;
         inversion H; subst; apply process_alias_clean; [exact Hok|eapply as_array_clean; [exact Hw|exact Ea]]).
    - discriminate Hok.
    - apply Bool.andb_true_iff in Hok. destruct Hok as [Ha Hq].
      destruct (rec ctx (JStmt q)) as [v| | |] eqn:Ev; cbn [bind] in H; try discriminate.
      destruct (as_array v) as [arr| | |] eqn:Ea; cbn [bind] in H; try discriminate.
      inversion H; subst. apply process_alias_clean; [exact Ha|].
      eapply as_array_clean; [|exact Ea]. eapply (Hrec strict ctx (JStmt q)); [exact Hctx|exact Hq|exact Ev].
    - apply Bool.andb_true_iff in Hok. destruct Hok as [Hok Hnr].
      apply Bool.andb_true_iff in Hok. destruct Hok as [Hok Hnl].
      apply Bool.andb_true_iff in Hok. destruct Hok as [Hl Hr].
      destruct (build_from rec join ctx l) as [lf| | |] eqn:El; cbn [bind] in H; try discriminate.
      destruct (build_from rec join ctx r) as [rf| | |] eqn:Er; cbn [bind] in H; try discriminate.
      destruct lf as [lrows|]; [|discriminate]. destruct rf as [rrows|]; [|discriminate].
      match type of H with bind ?x _ = _ => destruct x as [jr| | |] eqn:Ej; cbn [bind] in H; try discriminate end.
      inversion H; subst.
      eapply Hjoin; [eapply IHl; eauto|eapply IHr; eauto| | |exact Ej];
        rewrite ident_of_from_ident; assumption.
  Qed.

  Lemma register_ctes_ok : forall strict ctx w,
    ctx_ok strict ctx -> Forall (fun c => stmt_ok strict (snd c) = true) w ->
    ctx_ok strict (register_ctes ctx w).
  Proof.
    intros strict ctx w [[Hd Hc] Hup] Hw. split; [|exact Hup]. split; [exact Hd|]. cbn.
    apply Forall_app. split; [apply Forall_rev, Hw|exact Hc].
  Qed.

  Theorem exec_step_clean : forall strict ctx j v,
    ctx_ok strict ctx -> job_ok strict j -> exec_step rec call join ctx j = Ok v -> clean v.
  Proof.
    intros strict ctx j v Hctx Hj H. destruct j as [[s|all l r limit offset]|s rows]; cbn [exec_step] in H.
    - cbn [job_ok stmt_ok] in Hj. unfold select_ok in Hj.
      repeat (apply Bool.andb_true_iff in Hj; let H' := fresh "Hp" in destruct Hj as [Hj H']).
      assert (Hctx' : ctx_ok strict (register_ctes ctx (s_with s)))
        by (apply register_ctes_ok; [exact Hctx|apply withs_ok_Forall, Hj]).
      destruct (build_from rec join (register_ctes ctx (s_with s)) (s_from s)) as [src| | |] eqn:Eb;
        cbn [bind] in H; try discriminate.
      destruct src as [rows|].
      + assert (Hnd : is_dual (s_from s) = false) by (destruct (s_from s); try reflexivity; discriminate).
        rewrite Hnd, Bool.andb_false_r in Hp.
        eapply (run_select_rows_clean strict _ s rows); [exact Hctx'|split; assumption| |exact H].
        eapply build_from_clean; eauto.
      + rewrite (build_from_none _ _ Eb), Bool.andb_true_r in Hp.
        eapply run_select_dual_clean; eauto.
    - cbn [job_ok stmt_ok] in Hj. apply Bool.andb_true_iff in Hj. destruct Hj as [Hl Hr].
      destruct (rec ctx (JStmt l)) as [lv| | |] eqn:El; cbn [bind] in H; try discriminate.
      destruct (rec ctx (JStmt r)) as [rv| | |] eqn:Er; cbn [bind] in H; try discriminate.
      destruct (as_array lv) as [la| | |] eqn:Ela; cbn [bind] in H; try discriminate.
      destruct (as_array rv) as [ra| | |] eqn:Era; cbn [bind] in H; try discriminate.
      eapply (run_select_rows_clean strict ctx (union_select all limit offset) (la ++ ra)); [exact Hctx|split; reflexivity| |exact H].
      apply Forall_app. split; (eapply as_array_clean; [|eassumption]);
        [eapply (Hrec strict ctx (JStmt l))|eapply (Hrec strict ctx (JStmt r))]; eauto.
    - destruct Hj as [Hs Hrows]. eapply run_select_rows_clean; eauto.
  Qed.
End Pipeline.

(* ------------------------------------------------------------------ *)
(* tying the knot                                                       *)
(* ------------------------------------------------------------------ *)

Theorem exec_clean : forall call join, call_ok call -> join_ok join ->
  forall fuel strict ctx j v,
    ctx_ok strict ctx -> job_ok strict j -> exec call join fuel ctx j = Ok v -> clean v.
Proof.
  intros call join Hcall Hjoin. induction fuel as [|n IH]; intros strict ctx j v Hctx Hj H; cbn [exec] in H.
  - discriminate.
  - eapply (exec_step_clean (exec call join n) call join Hcall Hjoin IH); eauto.
Qed.

Theorem api_run_clean : forall call join, call_ok call -> join_ok join ->
  forall fuel wrapped doc q rows,
    clean doc -> query_ok q = true ->
    api_run call join fuel wrapped doc q = Ok rows -> Forall clean rows.
Proof.
  intros call join Hcall Hjoin fuel wrapped doc q rows Hdoc Hq H. unfold api_run in H.
  match type of H with bind (catch_panic ?x) _ = _ => destruct x as [v| | |] eqn:Ev; cbn [bind catch_panic] in H; try discriminate end.
  assert (Hv : clean v).
  { eapply (exec_clean call join Hcall Hjoin fuel false _ (JStmt q)); [|exact Hq|exact Ev].
    split; cbn; [|constructor]. split; cbn; [|constructor]. apply cur_ok_clean.
    destruct wrapped.
    - apply clean_obj. constructor; [split; [unfold nav; cbn; discriminate|exact Hdoc]|constructor].
    - destruct doc; try apply clean_obj_nil. exact Hdoc. }
  destruct v; inversion H; subst; try (constructor; [exact Hv|constructor]).
  apply clean_arr_inv, Hv.
Qed.
