(* Proofs/C09Denote.v — the code-shaped evaluator (Model/SelReader.v) computes the README
   denotation (Spec/SelectorSpec.v) on the tokens of every well-formed selector. *)
From Coq Require Import ZifyBool ZifyNat ZifyN.
From GenqlV Require Import Base.Prelude Base.Fmt Base.Value
                           Model.SelToken Model.SelFmt Model.SelReader Spec.SelectorSpec
                           Proofs.C09Strings Proofs.C09Parse Proofs.C09Total.
Local Open Scope string_scope.

Lemma mapM_ext {A B} (f g : A -> res B) l : (forall a, f a = g a) -> mapM f l = mapM g l.
Proof. intros H. induction l as [|a l IH]; cbn [mapM]; [reflexivity|]. now rewrite H, IH. Qed.

Lemma bind_ext {A B} (r : res A) (f g : A -> res B) : (forall a, f a = g a) -> bind r f = bind r g.
Proof. intros H. destruct r; cbn; auto. Qed.

(* ---------- dimensions ---------- *)

Lemma idx_list_nth {A} (l : list A) (n : N) :
  (n < N.of_nat (List.length l))%N ->
  idx_list l (Z.of_N n) = match nth_error l (N.to_nat n) with Some x => Ok x | None => Panic end.
Proof.
  intros H. unfold idx_list.
  destruct ((Z.of_N n <? 0)%Z || (Z.of_nat (List.length l) <=? Z.of_N n)%Z) eqn:G; [lia|].
  replace (Z.to_nat (Z.of_N n)) with (N.to_nat n) by lia. reflexivity.
Qed.

Lemma bound_tok_begin b : (if (bound_tok b =? -1)%Z then 0%Z else bound_tok b) = Z.of_N (opt_N 0%N b).
Proof. destruct b as [n|]; cbn [bound_tok opt_N]; [|reflexivity]. destruct (Z.of_N n =? -1)%Z eqn:E; [lia|reflexivity]. Qed.

Lemma bound_tok_end b (len : nat) :
  (if (bound_tok b =? -1)%Z then Z.of_nat len else bound_tok b) = Z.of_N (opt_N (N.of_nat len) b).
Proof.
  destruct b as [n|]; cbn [bound_tok opt_N]; [|replace (-1 =? -1)%Z with true by reflexivity; lia].
  destruct (Z.of_N n =? -1)%Z eqn:E; [lia|reflexivity].
Qed.

Lemma select_dimension_sem ds : forall v, select_dimension v (map dim_tok ds) = dims_sem ds v.
Proof.
  induction ds as [|d ds IH]; intros v; [reflexivity|].
  cbn [map]. destruct d as [|n|b e]; cbn [dim_tok select_dimension dims_sem].
  - (* each *)
    destruct v; try reflexivity. cbn [Z.eqb Pos.eqb]. replace (-1 =? -1)%Z with true by reflexivity.
    f_equal. now apply mapM_ext.
  - (* a number *)
    destruct v as [| | | |l|]; try reflexivity.
    destruct (Z.of_N n =? -1)%Z eqn:E1; [lia|].
    destruct (n <? N.of_nat (List.length l))%N eqn:G.
    + destruct ((Z.of_N n <? 0)%Z || (zlen l <=? Z.of_N n)%Z) eqn:G2; [unfold zlen in G2; lia|].
      rewrite idx_list_nth by lia.
      destruct (nth_error l (N.to_nat n)) eqn:Nth; [cbn [bind]; apply IH|].
      apply nth_error_None in Nth. lia.
    + destruct ((Z.of_N n <? 0)%Z || (zlen l <=? Z.of_N n)%Z) eqn:G2; [reflexivity|unfold zlen in G2; lia].
  - (* a slice *)
    destruct v as [| | | |l|]; try reflexivity.
    rewrite bound_tok_begin. unfold zlen. rewrite bound_tok_end.
    set (b' := opt_N 0%N b). set (e' := opt_N (N.of_nat (List.length l)) e).
    destruct ((b' <=? e')%N && (e' <=? N.of_nat (List.length l))%N) eqn:G.
    + destruct ((Z.of_N b' <? 0)%Z || (Z.of_N e' <? Z.of_N b')%Z || (Z.of_nat (List.length l) <? Z.of_N e')%Z) eqn:G2; [lia|].
      unfold slice_list. rewrite G2. cbn [bind].
      replace (Z.to_nat (Z.of_N e' - Z.of_N b')) with (N.to_nat (e' - b')) by lia.
      replace (Z.to_nat (Z.of_N b')) with (N.to_nat b') by lia. apply IH.
    + destruct ((Z.of_N b' <? 0)%Z || (Z.of_N e' <? Z.of_N b')%Z || (Z.of_nat (List.length l) <? Z.of_N e')%Z) eqn:G2; [reflexivity|lia].
Qed.

(* ---------- flattening ---------- *)

Lemma unwind_flatten n : forall l, unwind l (Z.of_nat n) = flatten_n n l.
Proof.
  induction n as [|n IH]; intros l; [reflexivity|].
  unfold unwind. destruct (Z.of_nat (S n) =? 0)%Z eqn:E; [lia|].
  replace (Z.of_nat (S n) - 1)%Z with (Z.of_nat n) by lia.
  cbn [flatten_n]. apply flat_map_ext. intros x. destruct x; try reflexivity.
  change (unwind_item (Z.of_nat n) (VArr l0)) with (unwind l0 (Z.of_nat n)). apply IH.
Qed.

Lemma select_many_sem l ds :
  ds <> [] -> select_many l (map dim_tok ds) = bracket_sem false ds (VArr l).
Proof.
  intros Hne. unfold select_many, select_many_with, bracket_sem.
  rewrite select_dimension_sem. apply bind_ext. intros r.
  destruct r; try reflexivity. cbn [is_arr negb assert_arr bind].
  unfold zlen. rewrite map_length.
  replace (Z.of_nat (List.length ds) - 1)%Z with (Z.of_nat (List.length ds - 1)).
  - now rewrite unwind_flatten.
  - destruct ds; [congruence|]. cbn [List.length]. lia.
Qed.

(* ---------- pipes ---------- *)

Lemma pipe_one_sem kvs k t acc :
  pipe_one kvs (pipe_tok (k, t)) acc =
  (let! v := convert t (or_null (lookup k kvs)) in Ok (obj_set k v acc)).
Proof.
  unfold pipe_one, pipe_tok. cbn [fst snd pkey].
  destruct t; cbn [ptyp_text convert]; unfold get_type; cbn [ptype String.eqb Ascii.eqb Bool.eqb andb].
  - reflexivity.
  - unfold select_object, or_null. destruct (value_to_string _); reflexivity.
  - unfold select_object, or_null. destruct (match lookup k kvs with Some v => v | None => VNull end); try reflexivity.
    destruct (parse_float s); reflexivity.
Qed.

Lemma pipe_object_sem kvs ps : forall acc, pipe_object kvs (map pipe_tok ps) acc = reshape kvs ps acc.
Proof.
  induction ps as [|[k t] ps IH]; intros acc; [reflexivity|].
  cbn [map pipe_object reshape]. rewrite pipe_one_sem.
  destruct (convert t (or_null (lookup k kvs))); cbn [bind]; auto.
Qed.

(* ---------- paths ---------- *)

Lemma reader_switch_sem f g :
  (forall kvs, f kvs = g kvs) -> forall v, reader_switch f v = on_objects g v.
Proof.
  intros H v. induction v as [| | | |l IH|kvs _] using value_ind'; try reflexivity.
  - cbn [reader_switch on_objects]. f_equal.
    induction IH as [|x r Hx _ IHr]; [reflexivity|]. now rewrite Hx, IHr.
  - apply H.
Qed.

Lemma reader_sem steps :
  forallb wf_step steps = true -> forall v, reader (map step_tok steps) v = steps_sem steps v.
Proof.
  unfold reader. induction steps as [|st r IH]; intros Hwf v; [reflexivity|].
  cbn [forallb] in Hwf. apply andb_true_iff in Hwf as [Hst Hr]. specialize (IH Hr).
  cbn [map]. destruct st as [k|ds|ds|ps]; cbn [step_tok reader_with steps_sem].
  - apply reader_switch_sem. intros kvs. apply IH.
  - unfold on_array. destruct v; try reflexivity.
    change (select_many_with select_dimension l (map dim_tok ds)) with (select_many l (map dim_tok ds)).
    rewrite select_many_sem; [|cbn [wf_step] in Hst; apply wf_dims_inv in Hst; tauto].
    apply bind_ext. intros; apply IH.
  - unfold on_array. destruct v; try reflexivity.
    rewrite select_dimension_sem. unfold bracket_sem.
    destruct (dims_sem ds (VArr l)); cbn [bind]; auto.
  - apply reader_switch_sem. intros kvs. rewrite pipe_object_sem.
    apply bind_ext. intros; apply IH.
Qed.

Lemma reader_executor_sem g v :
  wf_seg g = true -> reader_executor v (seg_toks g) = seg_sem top_level g v.
Proof.
  destruct g as [fn steps]. unfold wf_seg, seg_toks, seg_sem. cbn [seg_fn seg_steps].
  intros H. apply andb_true_iff in H as [_ Hs].
  unfold reader_executor, reader_executor_with. destruct fn as [f|]; cbn [app].
  - fold reader. rewrite (reader_sem steps Hs). apply bind_ext. intros r.
    destruct (top_level f); reflexivity.
  - fold reader. destruct steps as [|st r]; [reflexivity|].
    rewrite <- (reader_sem (st :: r) Hs).
    cbn [map]. destruct st; cbn [step_tok]; destruct (reader _ v); reflexivity.
Qed.

Theorem exec_all_sem a : forallb wf_seg a = true ->
  forall v, exec_all (tokens_of a) v = sel_sem top_level a v.
Proof.
  unfold exec_all, tokens_of. induction a as [|g a IH]; intros Hwf v; [reflexivity|].
  cbn [forallb] in Hwf. apply andb_true_iff in Hwf as [Hg Ha].
  cbn [map exec_all_with sel_sem]. fold reader_executor.
  rewrite (reader_executor_sem g v Hg). apply bind_ext. intros; now apply IH.
Qed.

Theorem denotation a doc :
  wf_sel a = true -> exec_reader doc (print_sel a) = sel_sem top_level a doc.
Proof.
  intros Hwf. unfold exec_reader. rewrite (parse_print a Hwf). cbn [bind].
  apply exec_all_sem. now apply wf_sel_inv in Hwf.
Qed.
