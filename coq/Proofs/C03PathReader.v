(* Proofs/C03PathReader.v — the reading of a GROUP BY column in the engine model ([Exec.key_reader] over the steps
   [Ast.kstep]) IS the selector model of C09 ([SelReader.reader], the executable model of selector.go Reader /
   SelectMany / SelectDimension / Unwind, checked against the real code by the C09 harness) on the tokens those
   steps stand for: a key step is a KeySelector, an index step [i] is an []*IndexSelector with one dimension.
   So ExecGroupBy's  ExecReader(item, keyText)  is modelled by [key_reader] whenever [keyText] parses to those
   tokens; the examples at the end run the parser model on the texts the harness generates. *)
From Coq Require Import Floats.
From GenqlV Require Import Base.Prelude Base.Fmt Base.Value Model.Ast Model.Eval Model.Exec
  Model.SelToken Model.SelFmt.
From GenqlV Require Model.SelReader.
Local Open Scope list_scope.

Definition tok (s : kstep) : token :=
  match s with
  | KKey k => TKey k
  | KIdx i => TIndex [IxIndex i]
  end.

Lemma mapM_ok {A} (l : list A) : mapM (fun x => Ok x) l = Ok l.
Proof. induction l as [|x l IH]; [reflexivity|]. cbn [mapM bind]. rewrite IH. reflexivity. Qed.

(* SelectMany with one dimension: `[each]` keeps the slice, an index in range picks the element (a slice element
   comes back through Unwind at depth 0, i.e. unchanged), anything else is refused *)
Lemma select_many_one (l : list value) (i : Z) :
  SelReader.select_many l [IxIndex i] =
  if (i =? -1)%Z then Ok (VArr l)
  else if ((i <? 0) || (Z.of_nat (List.length l) <=? i))%Z then Err
  else match nth_error l (Z.to_nat i) with Some x => Ok x | None => Panic end.
Proof.
  unfold SelReader.select_many, SelReader.select_many_with. cbn [SelReader.select_dimension].
  destruct (i =? -1)%Z eqn:Hm.
  - change (fun item : value => SelReader.select_dimension item []) with (fun item : value => Ok item).
    rewrite mapM_ok. cbn [bind SelReader.is_arr negb SelReader.assert_arr]. reflexivity.
  - unfold SelReader.zlen.
    destruct ((i <? 0)%Z || (Z.of_nat (List.length l) <=? i)%Z) eqn:Hr; [reflexivity|].
    unfold idx_list. rewrite Hr.
    destruct (nth_error l (Z.to_nat i)) as [x|]; [|reflexivity].
    cbn [bind SelReader.select_dimension].
    destruct x; reflexivity.
Qed.

Lemma sel_reader_key_arr k rest l :
  SelReader.reader (TKey k :: rest) (VArr l) =
  let! l' := mapM (SelReader.reader (TKey k :: rest)) l in Ok (VArr l').
Proof.
  unfold SelReader.reader. cbn [SelReader.reader_with SelReader.reader_switch]. f_equal.
  induction l as [|x l IH]; [reflexivity|]. cbn [mapM]. rewrite <- IH. reflexivity.
Qed.

Lemma key_reader_key_arr k rest l :
  key_reader (KKey k :: rest) (VArr l) = let! l' := mapM (key_reader (KKey k :: rest)) l in Ok (VArr l').
Proof.
  cbn [key_reader]. f_equal. induction l as [|x l IH]; [reflexivity|].
  cbn [mapM]. rewrite <- IH. reflexivity.
Qed.

Theorem key_reader_is_selector_reader : forall p v,
  key_reader p v = SelReader.reader (map tok p) v.
Proof.
  induction p as [|st rest IH]; intros v; [reflexivity|].
  destruct st as [k|i]; cbn [map tok].
  - induction v as [| | | |l IHl|kvs _] using value_ind'; try reflexivity.
    + rewrite key_reader_key_arr, sel_reader_key_arr. f_equal.
      induction IHl as [|x l Hx _ IHl']; [reflexivity|].
      cbn [mapM]. rewrite Hx, IHl'. reflexivity.
    + cbn [key_reader]. unfold SelReader.reader. cbn [SelReader.reader_with SelReader.reader_switch].
      rewrite IH. reflexivity.
  - destruct v as [| | | |l|kvs]; try reflexivity.
    cbn [key_reader]. unfold SelReader.reader. cbn [SelReader.reader_with].
    fold (SelReader.select_many l [IxIndex i]). rewrite select_many_one.
    destruct (i =? -1)%Z; [cbn [bind]; apply IH|].
    destruct ((i <? 0)%Z || (Z.of_nat (List.length l) <=? i)%Z); [reflexivity|].
    destruct (nth_error l (Z.to_nat i)); [cbn [bind]; apply IH|reflexivity].
Qed.
Print Assumptions key_reader_is_selector_reader.

(* ExecReader(item, text) for a text that is one selector (no `::`) parsing to the tokens of [p] *)
Corollary key_reader_is_exec_reader : forall text p v,
  parse_all text = Ok [map tok p] -> SelReader.exec_reader v text = key_reader p v.
Proof.
  intros text p v Hp. unfold SelReader.exec_reader. rewrite Hp. cbn [bind].
  unfold SelReader.exec_all. cbn [SelReader.exec_all_with].
  rewrite key_reader_is_selector_reader.
  assert (H : SelReader.reader_executor_with SelReader.reader v (map tok p) = SelReader.reader (map tok p) v).
  { destruct p as [|[k|i] rest]; reflexivity. }
  rewrite H. destruct (SelReader.reader (map tok p) v); reflexivity.
Qed.
Print Assumptions key_reader_is_exec_reader.

(* the key texts of the harness (harness/r5_c03.go) parse to the steps it hands the model *)
Example key_texts_parse :
  parse_all "g" = Ok [map tok [KKey "g"]] /\
  parse_all "owner.team" = Ok [map tok [KKey "owner"; KKey "team"]] /\
  parse_all "o.p.q" = Ok [map tok [KKey "o"; KKey "p"; KKey "q"]] /\
  parse_all "tags[0]" = Ok [map tok [KKey "tags"; KIdx 0]] /\
  parse_all "tags[1]" = Ok [map tok [KKey "tags"; KIdx 1]] /\
  parse_all "owner.tags[1]" = Ok [map tok [KKey "owner"; KKey "tags"; KIdx 1]] /\
  parse_all "m[0].k" = Ok [map tok [KKey "m"; KIdx 0; KKey "k"]] /\
  parse_all "m[1][0]" = Ok [map tok [KKey "m"; KIdx 1; KIdx 0]].
Proof. vm_compute. repeat split. Qed.
