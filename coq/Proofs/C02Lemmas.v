(* Proofs/C02Lemmas.v — the evaluator of Model/Eval.v computes the wrapper-free denotation of
   Spec/ExprSem.v, and exec_select projects row by row (property C02). *)
From Coq Require Import Floats.
From GenqlV Require Import Base.Prelude Base.Value Model.Ast Model.Num Model.Eval Model.Exec
                           Spec.ExprSem Proofs.StrOrder Proofs.C02Obj.
Local Open Scope Z_scope.
Local Open Scope list_scope.

(* ------------------------------------------------------------------ *)
(* an induction principle for the nested expression type                *)
(* ------------------------------------------------------------------ *)

Section ExprInd.
  Variable Q : Type.
  Variable P : expr Q -> Prop.

  (* constructors the C02 development never recurses into *)
  Definition foreign (e : expr Q) : bool :=
    match e with
    | ELike _ _ _ | EIn _ _ _ | EInSub _ _ _ | EBetween _ _ _ _ | ESub _ | EExists _
    | EAgg _ _ | ECall _ _ _ | ETuple _ => true
    | _ => false
    end.

  Definition opt_P (o : option (expr Q)) : Prop := match o with Some x => P x | None => True end.

  Hypothesis HCol : forall p, P (ECol p).
  Hypothesis HNum : forall f, P (ENum f).
  Hypothesis HStr : forall s, P (EStr s).
  Hypothesis HBool : forall b, P (EBool b).
  Hypothesis HNull : P ENull.
  Hypothesis HAnd : forall a b, P a -> P b -> P (EAnd a b).
  Hypothesis HOr : forall a b, P a -> P b -> P (EOr a b).
  Hypothesis HNot : forall a, P a -> P (ENot a).
  Hypothesis HCmp : forall op a b, P a -> P b -> P (ECmp op a b).
  Hypothesis HIs : forall op a, P a -> P (EIs op a).
  Hypothesis HBin : forall op a b, P a -> P b -> P (EBin op a b).
  Hypothesis HUn : forall op a, P a -> P (EUn op a).
  Hypothesis HCase : forall whens els,
    Forall (fun cv => P (fst cv) /\ P (snd cv)) whens ->
    opt_P els -> P (ECase whens els).
  Hypothesis HForeign : forall e, foreign e = true -> P e.

  Fixpoint expr_ind' (e : expr Q) : P e :=
    match e with
    | ECol p => HCol p
    | ENum f => HNum f
    | EStr s => HStr s
    | EBool b => HBool b
    | ENull => HNull
    | EAnd a b => HAnd a b (expr_ind' a) (expr_ind' b)
    | EOr a b => HOr a b (expr_ind' a) (expr_ind' b)
    | ENot a => HNot a (expr_ind' a)
    | ECmp op a b => HCmp op a b (expr_ind' a) (expr_ind' b)
    | EIs op a => HIs op a (expr_ind' a)
    | EBin op a b => HBin op a b (expr_ind' a) (expr_ind' b)
    | EUn op a => HUn op a (expr_ind' a)
    | ECase whens els =>
        HCase whens els
          ((fix go (l : list (expr Q * expr Q)) : Forall (fun cv => P (fst cv) /\ P (snd cv)) l :=
              match l with
              | [] => Forall_nil _
              | (c, v) :: r => Forall_cons (c, v) (conj (expr_ind' c) (expr_ind' v)) (go r)
              end) whens)
          (match els as o return opt_P o with
           | Some y => expr_ind' y
           | None => I
           end)
    | ELike n a b => HForeign (ELike n a b) eq_refl
    | EIn n a l => HForeign (EIn n a l) eq_refl
    | EInSub n a q => HForeign (EInSub n a q) eq_refl
    | EBetween n a lo hi => HForeign (EBetween n a lo hi) eq_refl
    | ESub q => HForeign (ESub q) eq_refl
    | EExists q => HForeign (EExists q) eq_refl
    | EAgg f a => HForeign (EAgg f a) eq_refl
    | ECall q n a => HForeign (ECall q n a) eq_refl
    | ETuple l => HForeign (ETuple l) eq_refl
    end.
End ExprInd.

Arguments expr_ind' {Q}.
Arguments foreign {Q}.

(* ------------------------------------------------------------------ *)
(* the path reader                                                      *)
(* ------------------------------------------------------------------ *)

(* the two path walkers were written separately and turn out to be convertible *)
Lemma reader_path_get : forall p v, reader p v = path_get p v.
Proof. reflexivity. Qed.

(* missing key => NULL, whatever follows in the path *)
Lemma reader_null : forall p, reader p VNull = Ok VNull.
Proof. destruct p; reflexivity. Qed.

Lemma reader_missing : forall k rest kvs,
  lookup k kvs = None -> reader (k :: rest) (VObj kvs) = Ok VNull.
Proof. intros k rest kvs H. cbn [reader]. unfold obj_get. rewrite H. apply reader_null. Qed.

Lemma reader_present : forall k rest kvs v,
  lookup k kvs = Some v -> reader (k :: rest) (VObj kvs) = reader rest v.
Proof. intros k rest kvs v H. cbn [reader]. unfold obj_get. rewrite H. reflexivity. Qed.

(* ------------------------------------------------------------------ *)
(* compositionality of the evaluator (no grammar restriction)           *)
(* ------------------------------------------------------------------ *)

Section Comp.
  Variable Q : Type.
  Variable E : env Q.

  (* evaluate, then resolve the wrapper *)
  Definition ev (cur : row) (e : expr Q) : res value := bind (eval E cur e) (value_of cur).

  Lemma bin_apply_sem : forall op x y, bin_apply op x y = sem_binop op x y.
  Proof. destruct op; reflexivity. Qed.

  Lemma ev_col : forall cur p, e_hard E = false -> ev cur (ECol p) = path_get p (VObj cur).
  Proof. intros cur p H. unfold ev. cbn. unfold col_path. rewrite H. reflexivity. Qed.

  Lemma ev_bin : forall cur op a b,
    ev cur (EBin op a b) = sem_bin op (ev cur a) (ev cur b).
  Proof.
    intros cur op a b. unfold ev, sem_bin. cbn [eval].
    destruct (eval E cur a) as [ra| | |]; cbn [bind]; try reflexivity.
    destruct (value_of cur ra) as [va| | |]; cbn [bind]; try reflexivity.
    destruct va; cbn [bind as_num value_of]; try reflexivity.
    destruct (eval E cur b) as [rb| | |]; cbn [bind]; try reflexivity.
    destruct (value_of cur rb) as [vb| | |]; cbn [bind]; try reflexivity.
    destruct vb; cbn [bind as_num value_of]; try reflexivity.
    rewrite bin_apply_sem. destruct (sem_binop op f f0); reflexivity.
  Qed.

  Lemma ev_un : forall cur op a, ev cur (EUn op a) = sem_un op (ev cur a).
  Proof.
    intros cur op a. unfold ev, sem_un. cbn [eval].
    destruct (eval E cur a) as [ra| | |]; cbn [bind]; try reflexivity.
    destruct (value_of cur ra) as [va| | |]; cbn [bind]; try reflexivity.
    destruct op, va; cbn [bind as_num as_bool value_of]; try reflexivity.
    destruct (to_int64 f); reflexivity.
  Qed.

  (* CASE consults its conditions exactly as WHERE does (eval_cond) *)
  Lemma eval_case : forall cur whens els,
    eval E cur (ECase whens els) =
    first_true (fun c => eval_cond E cur (Some c)) (eval E cur)
               (match els with None => Ok (RVal VNull) | Some x => eval E cur x end) whens.
  Proof.
    intros cur whens els. cbn [eval].
    induction whens as [|[c v] r IH]; [reflexivity|].
    cbn [first_true eval_cond]. cbn [first_true eval_cond] in IH. rewrite <- IH.
    destruct (eval E cur c) as [rc| | |]; cbn [bind]; try reflexivity.
    destruct rc as [vc| | | | |]; cbn [bind]; try reflexivity.
    destruct vc as [|bc| | | |]; cbn [bind]; reflexivity.
  Qed.

  Lemma bind_first_true : forall {X A B} (cond : X -> res bool) (val : X -> res A) (d : res A)
      (g : A -> res B) ws,
    bind (first_true cond val d ws) g = first_true cond (fun x => bind (val x) g) (bind d g) ws.
  Proof.
    intros X A B cond val d g ws. induction ws as [|[c v] r IH]; [reflexivity|].
    cbn [first_true]. destruct (cond c) as [b| | |]; cbn [bind]; try reflexivity.
    destruct b; [reflexivity|exact IH].
  Qed.

  Lemma ev_case : forall cur whens els,
    ev cur (ECase whens els) =
    first_true (fun c => eval_cond E cur (Some c)) (ev cur)
               (match els with None => Ok VNull | Some x => ev cur x end) whens.
  Proof.
    intros cur whens els. unfold ev at 1. rewrite eval_case, bind_first_true.
    destruct els; reflexivity.
  Qed.

  Lemma first_true_ext : forall {X A} (c1 c2 : X -> res bool) (v1 v2 : X -> res A) d1 d2 ws,
    Forall (fun cv => c1 (fst cv) = c2 (fst cv) /\ v1 (snd cv) = v2 (snd cv)) ws ->
    d1 = d2 -> first_true c1 v1 d1 ws = first_true c2 v2 d2 ws.
  Proof.
    intros X A c1 c2 v1 v2 d1 d2 ws H Hd. induction H as [|[c v] r [Hc Hv] _ IH]; [exact Hd|].
    cbn [first_true fst snd] in *. rewrite Hc, Hv, IH. reflexivity.
  Qed.
End Comp.

Arguments ev {Q}.

(* ------------------------------------------------------------------ *)
(* C02_value_correct                                                    *)
(* ------------------------------------------------------------------ *)

Section Correct.
  Variable Q : Type.
  Variable E : env Q.
  Variable csem : srow -> expr Q -> res bool.
  Hypothesis Hhard : e_hard E = false.

  Definition conds_agree (cur : row) (cs : list (expr Q)) : Prop :=
    forall c, In c cs -> eval_cond E cur (Some c) = csem cur c.

  Theorem value_correct : forall e cur,
    is_c02 e = true -> conds_agree cur (case_conds e) ->
    ev E cur e = sem_expr csem cur e.
  Proof.
    induction e using expr_ind'; intros cur Hg Hc; cbn [is_c02] in Hg; try discriminate Hg.
    - apply ev_col, Hhard.
    - reflexivity.
    - reflexivity.
    - reflexivity.
    - reflexivity.
    - apply andb_true_iff in Hg. destruct Hg as [Ha Hb].
      rewrite ev_bin. cbn [sem_expr case_conds] in *.
      rewrite IHe1, IHe2; auto; intros c Hin; apply Hc, in_or_app; auto.
    - rewrite ev_un. cbn [sem_expr case_conds] in *. rewrite IHe; auto.
    - apply andb_true_iff in Hg. destruct Hg as [Hw He].
      rewrite ev_case. cbn [sem_expr]. cbn [case_conds] in Hc.
      apply first_true_ext.
      + apply Forall_forall. intros [c v] Hin. cbn [fst snd].
        rewrite Forall_forall in H. specialize (H _ Hin). cbn [fst snd] in H. destruct H as [_ Hv].
        rewrite forallb_forall in Hw. specialize (Hw _ Hin). cbn [snd] in Hw.
        assert (Hsub : forall x, In x (c :: case_conds v) -> In x
                  (flat_map (fun cv => fst cv :: case_conds (snd cv)) whens ++
                   match els with None => [] | Some x => case_conds x end)).
        { intros x Hx. apply in_or_app. left. apply in_flat_map. exists (c, v). auto. }
        split.
        * apply Hc, Hsub. left. reflexivity.
        * apply Hv; [exact Hw|]. intros x Hx. apply Hc, Hsub. right. exact Hx.
      + destruct els as [x|]; [|reflexivity]. cbn [opt_P] in H0.
        apply H0; [exact He|]. intros c Hin. apply Hc, in_or_app. right. exact Hin.
    - destruct e; discriminate.
  Qed.
End Correct.

(* ------------------------------------------------------------------ *)
(* the closed instance: conditions from the boolean / comparison grammar *)
(* ------------------------------------------------------------------ *)

Ltac dbind H :=
  repeat match type of H with
         | bind ?x _ = Ok _ => let e := fresh "Eb" in destruct x eqn:e; cbn [bind] in H; try discriminate H
         | match ?x with _ => _ end = Ok _ => destruct x; try discriminate H
         end.

Section ClosedComp.
  Variable Q : Type.
  Variable E : env Q.

  Lemma cmp_holds_sem : forall op c, cmp_holds op c = sem_cmp op c.
  Proof. destruct op; reflexivity. Qed.

  Lemma ev_and : forall cur a b,
    ev E cur (EAnd a b) =
    (let! x := want_bool (ev E cur a) in let! y := want_bool (ev E cur b) in Ok (VBool (x && y))).
  Proof.
    intros cur a b. unfold ev, want_bool. cbn [eval].
    destruct (eval E cur a) as [ra| | |]; cbn [bind]; try reflexivity.
    destruct (value_of cur ra) as [va| | |]; cbn [bind]; try reflexivity.
    destruct va; cbn [bind as_bool]; try reflexivity.
    destruct (eval E cur b) as [rb| | |]; cbn [bind]; try reflexivity.
    destruct (value_of cur rb) as [vb| | |]; cbn [bind]; try reflexivity.
    destruct vb; cbn [bind as_bool]; reflexivity.
  Qed.

  Lemma ev_or : forall cur a b,
    ev E cur (EOr a b) =
    (let! x := want_bool (ev E cur a) in let! y := want_bool (ev E cur b) in Ok (VBool (x || y))).
  Proof.
    intros cur a b. unfold ev, want_bool. cbn [eval].
    destruct (eval E cur a) as [ra| | |]; cbn [bind]; try reflexivity.
    destruct (value_of cur ra) as [va| | |]; cbn [bind]; try reflexivity.
    destruct va; cbn [bind as_bool]; try reflexivity.
    destruct (eval E cur b) as [rb| | |]; cbn [bind]; try reflexivity.
    destruct (value_of cur rb) as [vb| | |]; cbn [bind]; try reflexivity.
    destruct vb; cbn [bind as_bool]; reflexivity.
  Qed.

  Lemma ev_not : forall cur a,
    ev E cur (ENot a) = (let! x := want_bool (ev E cur a) in Ok (VBool (negb x))).
  Proof.
    intros cur a. unfold ev, want_bool. cbn [eval].
    destruct (eval E cur a) as [ra| | |]; cbn [bind]; try reflexivity.
    destruct (value_of cur ra) as [va| | |]; cbn [bind]; try reflexivity.
    destruct va; cbn [bind as_bool]; reflexivity.
  Qed.

  (* comparisons evaluate their operands on the scope copy of the row *)
  Lemma ev_cmp : forall cur op a b,
    ev E cur (ECmp op a b) =
    (let! x := ev E (scope cur (e_data E)) a in
     let! y := ev E (scope cur (e_data E)) b in
     let! c := vcompare x y in Ok (VBool (sem_cmp op c))).
  Proof.
    intros cur op a b. unfold ev. cbn [eval]. set (cur' := scope cur (e_data E)).
    destruct (eval E cur' a) as [ra| | |]; cbn [bind]; try reflexivity.
    destruct (value_of cur' ra) as [va| | |]; cbn [bind]; try reflexivity.
    destruct (eval E cur' b) as [rb| | |]; cbn [bind]; try reflexivity.
    destruct (value_of cur' rb) as [vb| | |]; cbn [bind]; try reflexivity.
    destruct (vcompare va vb) as [c| | |]; cbn [bind value_of]; reflexivity.
  Qed.

  Lemma ev_is_null : forall cur a,
    ev E cur (EIs IsNull a) =
    (let! x := ev E cur a in Ok (VBool (match x with VNull => true | _ => false end))).
  Proof.
    intros cur a. unfold ev. cbn [eval].
    destruct (eval E cur a) as [ra| | |]; cbn [bind]; try reflexivity.
    destruct (value_of cur ra) as [va| | |]; cbn [bind]; reflexivity.
  Qed.

  Lemma ev_is_not_null : forall cur a,
    ev E cur (EIs IsNotNull a) =
    (let! x := ev E cur a in Ok (VBool (match x with VNull => false | _ => true end))).
  Proof.
    intros cur a. unfold ev. cbn [eval].
    destruct (eval E cur a) as [ra| | |]; cbn [bind]; try reflexivity.
    destruct (value_of cur ra) as [va| | |]; cbn [bind]; reflexivity.
  Qed.

  (* a predicate never evaluates to a wrapper *)
  Lemma pred_raw : forall cur c r, is_pred c = true -> eval E cur c = Ok r -> exists v, r = RVal v.
  Proof.
    intros cur c r Hp He. destruct c; try discriminate Hp; cbn [eval] in He.
    - inversion He. eauto.
    - dbind He; inversion He; eauto.
    - dbind He; inversion He; eauto.
    - dbind He; inversion He; eauto.
    - dbind He; inversion He; eauto.
    - destruct op; try discriminate Hp; dbind He; inversion He; eauto.
    - destruct op; try discriminate Hp. dbind He; inversion He; eauto.
  Qed.

  Lemma cond_pred : forall cur c,
    is_pred c = true -> eval_cond E cur (Some c) = want_bool (ev E cur c).
  Proof.
    intros cur c Hp. unfold eval_cond, want_bool, ev.
    destruct (eval E cur c) as [r| | |] eqn:He; cbn [bind]; try reflexivity.
    destruct (pred_raw cur c r Hp He) as [v ->]. cbn [value_of bind].
    destruct v; reflexivity.
  Qed.
End ClosedComp.

Section ClosedCorrect.
  Variable Q : Type.

  (* a plain path does not see the backward-navigation marker of the scope copy *)
  Lemma path_get_scope : forall p d cur,
    plain_path p = true -> path_get p (VObj (obj_set "<-" d cur)) = path_get p (VObj cur).
  Proof.
    intros p d cur Hp. destruct p as [|k rest]; [discriminate Hp|].
    cbn [plain_path] in Hp. apply negb_true_iff, String.eqb_neq in Hp.
    cbn [path_get]. unfold field. rewrite lookup_obj_set_other by exact Hp. reflexivity.
  Qed.

  Lemma sem_x_scope : forall (e : expr Q) d cur,
    is_c02x e = true -> sem_x (obj_set "<-" d cur) e = sem_x cur e.
  Proof.
    induction e using expr_ind'; intros d cur Hg; cbn [is_c02x] in Hg; try discriminate Hg;
      cbn [sem_x]; try reflexivity.
    - apply path_get_scope, Hg.
    - apply andb_true_iff in Hg. destruct Hg as [Ha Hb]. rewrite IHe1, IHe2 by assumption. reflexivity.
    - apply andb_true_iff in Hg. destruct Hg as [Ha Hb]. rewrite IHe1, IHe2 by assumption. reflexivity.
    - rewrite IHe by assumption. reflexivity.
    - apply andb_true_iff in Hg. destruct Hg as [Ha Hb]. rewrite IHe1, IHe2 by assumption. reflexivity.
    - destruct op; try discriminate Hg; rewrite IHe by assumption; reflexivity.
    - apply andb_true_iff in Hg. destruct Hg as [Ha Hb]. rewrite IHe1, IHe2 by assumption. reflexivity.
    - rewrite IHe by assumption. reflexivity.
    - apply andb_true_iff in Hg. destruct Hg as [Hw He].
      apply first_true_ext.
      + apply Forall_forall. intros [c v] Hin. cbn [fst snd].
        rewrite Forall_forall in H. specialize (H _ Hin). cbn [fst snd] in H. destruct H as [Hc Hv].
        rewrite forallb_forall in Hw. specialize (Hw _ Hin). cbn [fst snd] in Hw.
        apply andb_true_iff in Hw. destruct Hw as [Hw Hgv].
        apply andb_true_iff in Hw. destruct Hw as [_ Hgc].
        rewrite Hc, Hv by assumption. split; reflexivity.
      + destruct els as [x|]; [|reflexivity]. cbn [opt_P] in H0. apply H0, He.
    - destruct e; discriminate.
  Qed.

  Variable E : env Q.
  Hypothesis Hhard : e_hard E = false.

  Theorem value_correct_x : forall e cur, is_c02x e = true -> ev E cur e = sem_x cur e.
  Proof.
    induction e using expr_ind'; intros cur Hg; cbn [is_c02x] in Hg; try discriminate Hg;
      cbn [sem_x]; try reflexivity.
    - apply ev_col, Hhard.
    - apply andb_true_iff in Hg. destruct Hg as [Ha Hb].
      rewrite ev_and, IHe1, IHe2 by assumption. reflexivity.
    - apply andb_true_iff in Hg. destruct Hg as [Ha Hb].
      rewrite ev_or, IHe1, IHe2 by assumption. reflexivity.
    - rewrite ev_not, IHe by assumption. reflexivity.
    - apply andb_true_iff in Hg. destruct Hg as [Ha Hb].
      rewrite ev_cmp, IHe1, IHe2 by assumption. unfold scope.
      rewrite !sem_x_scope by assumption. reflexivity.
    - destruct op; try discriminate Hg.
      + rewrite ev_is_null, IHe by assumption. reflexivity.
      + rewrite ev_is_not_null, IHe by assumption. reflexivity.
    - apply andb_true_iff in Hg. destruct Hg as [Ha Hb].
      rewrite ev_bin, IHe1, IHe2 by assumption. reflexivity.
    - rewrite ev_un, IHe by assumption. reflexivity.
    - apply andb_true_iff in Hg. destruct Hg as [Hw He].
      rewrite ev_case. apply first_true_ext.
      + apply Forall_forall. intros [c v] Hin. cbn [fst snd].
        rewrite Forall_forall in H. specialize (H _ Hin). cbn [fst snd] in H. destruct H as [Hc Hv].
        rewrite forallb_forall in Hw. specialize (Hw _ Hin). cbn [fst snd] in Hw.
        apply andb_true_iff in Hw. destruct Hw as [Hw Hgv].
        apply andb_true_iff in Hw. destruct Hw as [Hp Hgc].
        rewrite cond_pred, Hc, Hv by assumption. split; reflexivity.
      + destruct els as [x|]; [|reflexivity]. cbn [opt_P] in H0. apply H0, He.
    - destruct e; discriminate.
  Qed.
End ClosedCorrect.

(* ------------------------------------------------------------------ *)
(* Ommit never comes out of a grammar expression                        *)
(* ------------------------------------------------------------------ *)

Section NoOmit.
  Variable Q : Type.
  Variable E : env Q.

  (* a syntactic class containing both grammars whose raw result is never Ommit *)
  Fixpoint omit_free (e : expr Q) : bool :=
    match e with
    | ECol _ | ENum _ | EStr _ | EBool _ | ENull => true
    | EAnd _ _ | EOr _ _ | ENot _ | ECmp _ _ _ | EIs _ _ | EBin _ _ _ | EUn _ _ => true
    | ECase whens els =>
        forallb (fun cv => omit_free (snd cv)) whens &&
        match els with None => true | Some x => omit_free x end
    | _ => false
    end.

  Lemma first_true_ok : forall {X A} (cond : X -> res bool) (val : X -> res A) d ws a,
    first_true cond val d ws = Ok a -> d = Ok a \/ exists cv, In cv ws /\ val (snd cv) = Ok a.
  Proof.
    intros X A cond val d ws a. induction ws as [|[c v] r IH]; cbn [first_true]; intro H; [auto|].
    destruct (cond c) as [b| | |]; cbn [bind] in H; try discriminate H.
    destruct b.
    - right. exists (c, v). split; [left; reflexivity|exact H].
    - destruct (IH H) as [Hd|[cv [Hin Hv]]]; [auto|]. right. exists cv. split; [right; exact Hin|exact Hv].
  Qed.

  Lemma omit_free_sound : forall e cur r, omit_free e = true -> eval E cur e = Ok r -> r <> ROmit.
  Proof.
    induction e using expr_ind'; intros cur r Hg He; cbn [omit_free] in Hg; try discriminate Hg.
    - cbn [eval] in He. inversion He. discriminate.
    - cbn [eval] in He. inversion He. discriminate.
    - cbn [eval] in He. inversion He. discriminate.
    - cbn [eval] in He. inversion He. discriminate.
    - cbn [eval] in He. inversion He. discriminate.
    - cbn [eval] in He. dbind He; inversion He; discriminate.
    - cbn [eval] in He. dbind He; inversion He; discriminate.
    - cbn [eval] in He. dbind He; inversion He; discriminate.
    - cbn [eval] in He. dbind He; inversion He; discriminate.
    - cbn [eval] in He. dbind He; inversion He; discriminate.
    - cbn [eval] in He. dbind He; inversion He; discriminate.
    - cbn [eval] in He. dbind He; inversion He; discriminate.
    - apply andb_true_iff in Hg. destruct Hg as [Hw Hel].
      rewrite eval_case in He. apply first_true_ok in He. destruct He as [Hd|[cv [Hin Hv]]].
      + destruct els as [x|]; [|inversion Hd; discriminate].
        cbn [opt_P] in H0. eapply H0; eassumption.
      + rewrite Forall_forall in H. destruct (H _ Hin) as [_ HP].
        rewrite forallb_forall in Hw. eapply HP; [apply Hw; exact Hin|exact Hv].
    - destruct e; discriminate.
  Qed.

  Lemma is_c02_omit_free : forall e, is_c02 e = true -> omit_free e = true.
  Proof.
    induction e using expr_ind'; intro Hg; cbn [is_c02] in Hg; try discriminate Hg; try reflexivity.
    - apply andb_true_iff in Hg. destruct Hg as [Hw Hel]. cbn [omit_free]. apply andb_true_iff. split.
      + apply forallb_forall. intros cv Hin. rewrite Forall_forall in H. destruct (H _ Hin) as [_ HP].
        rewrite forallb_forall in Hw. apply HP, Hw, Hin.
      + destruct els as [x|]; [|reflexivity]. cbn [opt_P] in H0. apply H0, Hel.
    - destruct e; discriminate.
  Qed.

  Lemma is_c02x_omit_free : forall e, is_c02x e = true -> omit_free e = true.
  Proof.
    induction e using expr_ind'; intro Hg; cbn [is_c02x] in Hg; try discriminate Hg; try reflexivity.
    - apply andb_true_iff in Hg. destruct Hg as [Hw Hel]. cbn [omit_free]. apply andb_true_iff. split.
      + apply forallb_forall. intros cv Hin. rewrite Forall_forall in H. destruct (H _ Hin) as [_ HP].
        rewrite forallb_forall in Hw. specialize (Hw _ Hin).
        apply andb_true_iff in Hw. destruct Hw as [_ Hv]. apply HP, Hv.
      + destruct els as [x|]; [|reflexivity]. cbn [opt_P] in H0. apply H0, Hel.
    - destruct e; discriminate.
  Qed.
End NoOmit.

Arguments omit_free {Q}.

(* ------------------------------------------------------------------ *)
(* SelectExpr and ExecSelect, for any denotation the evaluator agrees with *)
(* ------------------------------------------------------------------ *)

Definition is_obj (v : value) : bool := match v with VObj _ => true | _ => false end.

Section Project.
  Variable Q : Type.
  Variable E : env Q.
  Variable den : srow -> expr Q -> res value.

  (* the evaluator agrees with [den] on the item expressions, and none of them can be Ommit *)
  Definition items_agree (items : list (sel_item Q)) (cur : row) : Prop :=
    forall e name, In (IExpr e name) items -> omit_free e = true /\ ev E cur e = den cur e.

  Lemma select_expr_project : forall items cur acc,
    items_agree items cur ->
    select_expr E cur items acc = (let! bs := bindings den items cur in Ok (obj_merge acc bs)).
  Proof.
    induction items as [|it rest IH]; intros cur acc Hag; [reflexivity|].
    assert (Hrest : items_agree rest cur).
    { intros e name Hin. apply (Hag e name). right. exact Hin. }
    destruct it as [|e name]; cbn [select_expr bindings item_bindings bind].
    - rewrite IH by exact Hrest.
      destruct (bindings den rest cur) as [bs| | |]; cbn [bind]; try reflexivity.
      rewrite obj_merge_app. reflexivity.
    - destruct (Hag e name (or_introl eq_refl)) as [Hof Hev]. rewrite <- Hev. unfold ev.
      destruct (eval E cur e) as [x| | |] eqn:He; cbn [bind]; try reflexivity.
      pose proof (omit_free_sound Q E e cur x Hof He) as Hno.
      assert (Hm : match x with
                   | ROmit => select_expr E cur rest acc
                   | _ => let! v := value_of cur x in select_expr E cur rest (obj_set name v acc)
                   end = (let! v := value_of cur x in select_expr E cur rest (obj_set name v acc))).
      { destruct x; try reflexivity. congruence. }
      rewrite Hm. destruct (value_of cur x) as [v| | |]; cbn [bind]; try reflexivity.
      rewrite IH by exact Hrest.
      destruct (bindings den rest cur) as [bs| | |]; cbn [bind]; reflexivity.
  Qed.

  Lemma select_expr_project_nil : forall items cur,
    items_agree items cur -> select_expr E cur items [] = project den items cur.
  Proof. intros. rewrite select_expr_project by assumption. reflexivity. Qed.

  (* the names of the bindings, in order *)
  Lemma bindings_names : forall items r bs,
    bindings den items r = Ok bs -> map fst bs = select_keys items r.
  Proof.
    induction items as [|it rest IH]; intros r bs H; cbn [bindings] in H.
    - inversion H. reflexivity.
    - destruct (item_bindings den r it) as [b| | |] eqn:Hb; cbn [bind] in H; try discriminate H.
      destruct (bindings den rest r) as [bs'| | |] eqn:Hbs; cbn [bind] in H; try discriminate H.
      inversion H. subst bs. rewrite map_app. cbn [select_keys flat_map]. f_equal.
      + destruct it as [|e name]; cbn [item_bindings item_names] in *.
        * inversion Hb. reflexivity.
        * destruct (den r e); cbn [bind] in Hb; try discriminate Hb. inversion Hb. reflexivity.
      + apply IH. exact Hbs.
  Qed.

  Lemma project_inv : forall items r o,
    project den items r = Ok o -> exists bs, bindings den items r = Ok bs /\ o = obj_of_list bs.
  Proof.
    intros items r o H. unfold project in H.
    destruct (bindings den items r) as [bs| | |]; cbn [bind] in H; try discriminate H.
    inversion H. eauto.
  Qed.

  (* key set of an output object *)
  Lemma project_keys : forall items r o,
    project den items r = Ok o -> forall k, In k (keys o) <-> In k (select_keys items r).
  Proof.
    intros items r o H k. apply project_inv in H. destruct H as [bs [Hb ->]].
    rewrite keys_obj_of_list. rewrite (bindings_names _ _ _ Hb). reflexivity.
  Qed.

  Lemma project_nodup : forall items r o, project den items r = Ok o -> NoDup (keys o).
  Proof.
    intros items r o H. apply project_inv in H. destruct H as [bs [_ ->]]. apply obj_of_list_nodup.
  Qed.

  (* later duplicates overwrite earlier ones *)
  Lemma project_lookup : forall items r o,
    project den items r = Ok o ->
    exists bs, bindings den items r = Ok bs /\ forall k, lookup k o = lookup k (rev bs).
  Proof.
    intros items r o H. apply project_inv in H. destruct H as [bs [Hb ->]].
    exists bs. split; [exact Hb|]. intro k. apply lookup_obj_of_list.
  Qed.

  Lemma in_select_keys : forall items r k,
    In k (select_keys items r) <->
    (exists e, In (IExpr e k) items) \/ (In (@IStar Q) items /\ In k (keys r)).
  Proof.
    intros items r k. unfold select_keys. rewrite in_flat_map. split.
    - intros [it [Hin Hk]]. destruct it as [|e name]; cbn [item_names] in Hk.
      + right. auto.
      + destruct Hk as [<-|[]]. left. eauto.
    - intros [[e Hin]|[Hin Hk]].
      + exists (IExpr e k). split; [exact Hin|left; reflexivity].
      + exists IStar. auto.
  Qed.
End Project.

Arguments items_agree {Q}.

(* ---------- ExecSelect ---------- *)

Section MapM.
  Context {A B : Type} (f : A -> res B).

  Lemma mapM_length : forall l out, mapM f l = Ok out -> List.length out = List.length l.
  Proof.
    induction l as [|a r IH]; intros out H; cbn [mapM] in H.
    - inversion H. reflexivity.
    - destruct (f a); cbn [bind] in H; try discriminate H.
      destruct (mapM f r) as [bs| | |]; cbn [bind] in H; try discriminate H.
      inversion H. cbn [List.length]. f_equal. apply IH. reflexivity.
  Qed.

  Lemma mapM_forall2 : forall l out, mapM f l = Ok out -> Forall2 (fun a b => f a = Ok b) l out.
  Proof.
    induction l as [|a r IH]; intros out H; cbn [mapM] in H.
    - inversion H. constructor.
    - destruct (f a) eqn:Hf; cbn [bind] in H; try discriminate H.
      destruct (mapM f r) as [bs| | |]; cbn [bind] in H; try discriminate H.
      inversion H. constructor; [exact Hf|apply IH; reflexivity].
  Qed.

  Lemma mapM_ext_in : forall (g : A -> res B) l, (forall a, In a l -> f a = g a) -> mapM f l = mapM g l.
  Proof.
    intros g. induction l as [|a r IH]; intro H; [reflexivity|].
    cbn [mapM]. rewrite H by (left; reflexivity). rewrite IH; [reflexivity|].
    intros x Hx. apply H. right. exact Hx.
  Qed.

  (* position i of the result is computed from element i alone *)
  Lemma mapM_local : forall l1 a l2 out,
    mapM f (l1 ++ a :: l2) = Ok out ->
    exists b, nth_error out (List.length l1) = Some b /\ mapM f [a] = Ok [b].
  Proof.
    induction l1 as [|x r IH]; intros a l2 out H; cbn [app mapM] in H.
    - destruct (f a) as [b| | |] eqn:Hf; cbn [bind] in H; try discriminate H.
      destruct (mapM f l2) as [bs| | |]; cbn [bind] in H; try discriminate H.
      inversion H. exists b. split; [reflexivity|]. cbn [mapM]. rewrite Hf. reflexivity.
    - destruct (f x); cbn [bind] in H; try discriminate H.
      destruct (mapM f (r ++ a :: l2)) as [bs| | |] eqn:Hm; cbn [bind] in H; try discriminate H.
      inversion H. destruct (IH _ _ _ Hm) as [b [Hn Hb]]. exists b. split; [exact Hn|exact Hb].
  Qed.
End MapM.

Section ExecSelect.
  Variable E : env stmt.

  (* ExecSelect takes the per-row branch *)
  Definition per_row (s : select stmt) : bool :=
    negb ((match s_group s with [] => true | _ => false end) && all_aggregate (s_items s)).

  (* the per-row function of ExecSelect *)
  Definition select_row (s : select stmt) (cur : value) : res value :=
    match cur with
    | VArr _ => Ok cur
    | VObj kv => let! r := select_expr E kv (s_items s) [] in Ok (VObj r)
    | _ => Err
    end.

  Lemma exec_select_per_row : forall s rows,
    per_row s = true -> exec_select E s rows = mapM (select_row s) rows.
  Proof.
    intros s rows Hp. unfold exec_select, per_row in *. apply negb_true_iff in Hp. rewrite Hp.
    reflexivity.
  Qed.

  Lemma c02_not_all_aggregate : forall (items : list (sel_item stmt)),
    (forall e name, In (IExpr e name) items -> omit_free e = true) -> all_aggregate items = false.
  Proof.
    intros items H. destruct items as [|it rest]; [reflexivity|].
    cbn [all_aggregate forallb]. destruct it as [|e name]; [reflexivity|].
    specialize (H e name (or_introl eq_refl)). destruct e; try discriminate H; reflexivity.
  Qed.

  (* no other row's data: position i depends on row i only *)
  Theorem exec_select_local : forall s l1 r l2 out,
    per_row s = true -> exec_select E s (l1 ++ r :: l2) = Ok out ->
    exists o, nth_error out (List.length l1) = Some o /\ exec_select E s [r] = Ok [o].
  Proof.
    intros s l1 r l2 out Hp H. rewrite exec_select_per_row in H by exact Hp.
    rewrite exec_select_per_row by exact Hp. eapply mapM_local. exact H.
  Qed.

  Variable den : srow -> expr stmt -> res value.

  (* the specification's per-row function *)
  Definition spec_row (items : list (sel_item stmt)) (cur : value) : res value :=
    match cur with
    | VObj kv => let! o := project den items kv in Ok (VObj o)
    | _ => Err
    end.

  Definition rows_agree (items : list (sel_item stmt)) (rows : list value) : Prop :=
    forall kv, In (VObj kv) rows -> items_agree E den items kv.

  Theorem exec_select_spec : forall s rows,
    per_row s = true -> forallb is_obj rows = true -> rows_agree (s_items s) rows ->
    exec_select E s rows = mapM (spec_row (s_items s)) rows.
  Proof.
    intros s rows Hp Hobj Hag. rewrite exec_select_per_row by exact Hp.
    apply mapM_ext_in. intros cur Hin.
    rewrite forallb_forall in Hobj. specialize (Hobj _ Hin).
    destruct cur; try discriminate Hobj. cbn [select_row spec_row].
    rewrite (select_expr_project_nil stmt E den) by (apply Hag; exact Hin). reflexivity.
  Qed.

  Theorem exec_select_shape : forall s rows out,
    per_row s = true -> forallb is_obj rows = true -> rows_agree (s_items s) rows ->
    exec_select E s rows = Ok out ->
    List.length out = List.length rows /\
    Forall2 (fun r o => exists kv okv, r = VObj kv /\ project den (s_items s) kv = Ok okv /\ o = VObj okv)
            rows out.
  Proof.
    intros s rows out Hp Hobj Hag H. rewrite exec_select_spec in H by assumption.
    split; [eapply mapM_length; exact H|].
    apply mapM_forall2 in H. clear Hobj Hag.
    induction H as [|r o rs os Hr _ IH]; [constructor|]. constructor; [|exact IH].
    destruct r; cbn [spec_row] in Hr; try discriminate Hr.
    destruct (project den (s_items s) kvs) as [okv| | |] eqn:Hpj; cbn [bind] in Hr; try discriminate Hr.
    inversion Hr. eauto.
  Qed.
End ExecSelect.

Arguments per_row s : clear implicits.
Arguments spec_row den items cur : clear implicits.

(* ------------------------------------------------------------------ *)
(* keys of SelectExpr's result for ANY select list: the engine only ever  *)
(* writes an item's name or (for `*`) a key of the current row            *)
(* ------------------------------------------------------------------ *)

Section KeysAny.
  Variable Q : Type.
  Variable E : env Q.

  Lemma select_expr_keys_sub : forall items cur acc o,
    select_expr E cur items acc = Ok o ->
    forall k, In k (keys o) -> In k (keys acc) \/ In k (select_keys items cur).
  Proof.
    induction items as [|it rest IH]; intros cur acc o H k Hk; cbn [select_expr] in H.
    - inversion H. subst o. left. exact Hk.
    - cbn [select_keys flat_map]. rewrite in_app_iff. destruct it as [|e name].
      + destruct (IH _ _ _ H k Hk) as [Ha|Hr]; [|auto].
        apply keys_obj_merge in Ha. cbn [item_names]. tauto.
      + destruct (eval E cur e) as [x| | |]; cbn [bind] in H; try discriminate H.
        assert (Hset : forall v, select_expr E cur rest (obj_set name v acc) = Ok o ->
                       In k (keys acc) \/ In k (item_names cur (IExpr e name)) \/ In k (select_keys rest cur)).
        { intros v Hv. destruct (IH _ _ _ Hv k Hk) as [Ha|Hr]; [|auto].
          apply keys_obj_set in Ha. cbn [item_names In]. destruct Ha as [->|Ha]; auto. }
        destruct x as [v0|p0|s0|o0| |l0].
        1-4, 6: (match type of H with context [value_of ?c ?y] =>
                   destruct (value_of c y) as [v| | |]; cbn [bind] in H; try discriminate H end;
                 apply Hset in H; tauto).
        destruct (IH _ _ _ H k Hk); auto.
  Qed.
End KeysAny.

Lemma Forall2_nth : forall {A B} (R : A -> B -> Prop) l1 l2 i a b,
  Forall2 R l1 l2 -> nth_error l1 i = Some a -> nth_error l2 i = Some b -> R a b.
Proof.
  intros A B R l1 l2 i a b H. revert i. induction H as [|x y r1 r2 Hxy _ IH]; intros i Ha Hb.
  - destruct i; discriminate Ha.
  - destruct i; cbn [nth_error] in *.
    + inversion Ha. inversion Hb. subst. exact Hxy.
    + eapply IH; eassumption.
Qed.

Theorem exec_select_keys_any : forall (E : env stmt) s rows out,
  per_row s = true -> exec_select E s rows = Ok out ->
  forall i kv o, nth_error rows i = Some (VObj kv) -> nth_error out i = Some o ->
  exists okv, o = VObj okv /\
    forall k, In k (keys okv) ->
      (exists e, In (IExpr e k) (s_items s)) \/ (In IStar (s_items s) /\ In k (keys kv)).
Proof.
  intros E s rows out Hp H i kv o Hr Ho. rewrite exec_select_per_row in H by exact Hp.
  apply mapM_forall2 in H. pose proof (Forall2_nth _ _ _ _ _ _ H Hr Ho) as Hs.
  cbn [select_row] in Hs.
  destruct (select_expr E kv (s_items s) []) as [okv| | |] eqn:Hse; cbn [bind] in Hs; try discriminate Hs.
  inversion Hs. exists okv. split; [reflexivity|]. intros k Hk.
  destruct (select_expr_keys_sub _ _ _ _ _ _ Hse k Hk) as [[]|Hin].
  apply in_select_keys in Hin. exact Hin.
Qed.

(* ------------------------------------------------------------------ *)
(* the two instances                                                     *)
(* ------------------------------------------------------------------ *)

Lemma c02_items_in : forall {Q} (items : list (sel_item Q)) e name,
  c02_items items = true -> In (IExpr e name) items -> is_c02 e = true.
Proof.
  intros Q items e name H Hin. unfold c02_items in H. rewrite forallb_forall in H.
  apply (H _ Hin).
Qed.

Lemma c02x_items_in : forall {Q} (items : list (sel_item Q)) e name,
  c02x_items items = true -> In (IExpr e name) items -> is_c02x e = true.
Proof.
  intros Q items e name H Hin. unfold c02x_items in H. rewrite forallb_forall in H.
  apply (H _ Hin).
Qed.

Section Instances.
  Variable E : env stmt.
  Hypothesis Hhard : e_hard E = false.

  Lemma c02_items_agree : forall csem items kv,
    c02_items items = true ->
    (forall c, In c (items_conds items) -> eval_cond E kv (Some c) = csem kv c) ->
    items_agree E (sem_expr csem) items kv.
  Proof.
    intros csem items kv Hg Hc e name Hin. pose proof (c02_items_in _ _ _ Hg Hin) as He. split.
    - apply is_c02_omit_free, He.
    - apply value_correct; [exact Hhard|exact He|].
      intros c Hcin. apply Hc. unfold items_conds. apply in_flat_map.
      exists (IExpr e name). split; [exact Hin|exact Hcin].
  Qed.

  Lemma c02x_items_agree : forall items kv,
    c02x_items items = true -> items_agree E sem_x items kv.
  Proof.
    intros items kv Hg e name Hin. pose proof (c02x_items_in _ _ _ Hg Hin) as He. split.
    - apply is_c02x_omit_free, He.
    - apply value_correct_x; [exact Hhard|exact He].
  Qed.

  Lemma agree_per_row : forall den s kv,
    items_agree E den (s_items s) kv -> per_row s = true.
  Proof.
    intros den s kv H. unfold per_row. rewrite c02_not_all_aggregate.
    - rewrite andb_false_r. reflexivity.
    - intros e name Hin. apply (H e name Hin).
  Qed.

  Lemma c02_per_row : forall s, c02_items (s_items s) = true -> per_row s = true.
  Proof.
    intros s Hg. unfold per_row. rewrite c02_not_all_aggregate.
    - rewrite andb_false_r. reflexivity.
    - intros e name Hin. apply is_c02_omit_free. eapply c02_items_in; eassumption.
  Qed.

  Lemma c02x_per_row : forall s, c02x_items (s_items s) = true -> per_row s = true.
  Proof.
    intros s Hg. unfold per_row. rewrite c02_not_all_aggregate.
    - rewrite andb_false_r. reflexivity.
    - intros e name Hin. apply is_c02x_omit_free. eapply c02x_items_in; eassumption.
  Qed.

  (* what one output row looks like, relative to a projection function of the specification *)
  Definition row_ok (pj : srow -> res (list (string * value))) (names : srow -> list string)
             (r o : value) : Prop :=
    exists kv okv, r = VObj kv /\ pj kv = Ok okv /\ o = VObj okv /\
                   NoDup (keys okv) /\ forall k, In k (keys okv) <-> In k (names kv).

  Lemma shape_row_ok : forall den items rows out,
    Forall2 (fun r o => exists kv okv, r = VObj kv /\ project den items kv = Ok okv /\ o = VObj okv)
            rows out ->
    Forall2 (row_ok (project den items) (@select_keys stmt items)) rows out.
  Proof.
    intros den items rows out H. induction H as [|r o rs os Hr _ IH]; constructor; [|exact IH].
    destruct Hr as [kv [okv [-> [Hp ->]]]]. exists kv, okv.
    repeat split; try assumption.
    - eapply project_nodup; exact Hp.
    - apply (project_keys _ _ _ _ _ Hp).
    - apply (project_keys _ _ _ _ _ Hp).
  Qed.

  Theorem row_shape : forall csem s rows out,
    c02_items (s_items s) = true -> forallb is_obj rows = true ->
    (forall kv c, In (VObj kv) rows -> In c (items_conds (s_items s)) ->
                  eval_cond E kv (Some c) = csem kv c) ->
    exec_select E s rows = Ok out ->
    List.length out = List.length rows /\
    Forall2 (row_ok (sem_project csem (s_items s)) (select_keys (s_items s))) rows out.
  Proof.
    intros csem s rows out Hg Hobj Hc H.
    destruct (exec_select_shape E (sem_expr csem) s rows out) as [Hlen Hf]; try assumption.
    - apply c02_per_row, Hg.
    - intros kv Hin. apply c02_items_agree; [exact Hg|]. intros c Hcin. apply Hc; assumption.
    - split; [exact Hlen|]. apply shape_row_ok. exact Hf.
  Qed.

  Theorem row_shape_x : forall s rows out,
    c02x_items (s_items s) = true -> forallb is_obj rows = true ->
    exec_select E s rows = Ok out ->
    List.length out = List.length rows /\
    Forall2 (row_ok (sem_project_x (s_items s)) (select_keys (s_items s))) rows out.
  Proof.
    intros s rows out Hg Hobj H.
    destruct (exec_select_shape E sem_x s rows out) as [Hlen Hf]; try assumption.
    - apply c02x_per_row, Hg.
    - intros kv Hin. apply c02x_items_agree. exact Hg.
    - split; [exact Hlen|]. apply shape_row_ok. exact Hf.
  Qed.

  (* the model and the specification also fail together *)
  Theorem exec_select_eq_x : forall s rows,
    c02x_items (s_items s) = true -> forallb is_obj rows = true ->
    exec_select E s rows = mapM (spec_row sem_x (s_items s)) rows.
  Proof.
    intros s rows Hg Hobj. apply exec_select_spec; [apply c02x_per_row, Hg|exact Hobj|].
    intros kv Hin. apply c02x_items_agree. exact Hg.
  Qed.
End Instances.

(* in the closed grammar the output at a position does not depend on the environment either: two
   runs over different tables (and different query data) that have the same row somewhere produce
   the same output object for it *)
Theorem locality_x : forall E1 E2 s l1 l2 l1' l2' r out1 out2,
  e_hard E1 = false -> e_hard E2 = false -> c02x_items (s_items s) = true ->
  exec_select E1 s (l1 ++ r :: l2) = Ok out1 ->
  exec_select E2 s (l1' ++ r :: l2') = Ok out2 ->
  exists o, nth_error out1 (List.length l1) = Some o /\ nth_error out2 (List.length l1') = Some o.
Proof.
  intros E1 E2 s l1 l2 l1' l2' r out1 out2 H1 H2 Hg He1 He2.
  pose proof (c02x_per_row s Hg) as Hp.
  destruct (exec_select_local E1 s l1 r l2 out1 Hp He1) as [o1 [Hn1 Hs1]].
  destruct (exec_select_local E2 s l1' r l2' out2 Hp He2) as [o2 [Hn2 Hs2]].
  exists o1. split; [exact Hn1|]. rewrite Hn2. f_equal.
  destruct r as [| | | |l|kv].
  1-4: rewrite exec_select_per_row in Hs1 by exact Hp; discriminate Hs1.
  - rewrite exec_select_per_row in Hs1, Hs2 by exact Hp. cbn in Hs1, Hs2. congruence.
  - rewrite (exec_select_eq_x E1 H1) in Hs1 by (auto; reflexivity).
    rewrite (exec_select_eq_x E2 H2) in Hs2 by (auto; reflexivity). congruence.
Qed.

(* ------------------------------------------------------------------ *)
(* NULL rules, at the level of the evaluator (no grammar restriction)    *)
(* ------------------------------------------------------------------ *)

Section Null.
  Variable Q : Type.
  Variable E : env Q.

  (* a reference whose first key is missing from the row is NULL *)
  Lemma null_missing_key : forall cur k rest,
    e_hard E = false -> lookup k cur = None -> ev E cur (ECol (k :: rest)) = Ok VNull.
  Proof.
    intros cur k rest Hh Hl. rewrite ev_col by exact Hh. rewrite <- reader_path_get.
    apply reader_missing, Hl.
  Qed.

  (* deeper: the path reaches an object that lacks the next key *)
  Lemma null_missing_nested : forall cur k1 k2 rest kvs,
    e_hard E = false -> lookup k1 cur = Some (VObj kvs) -> lookup k2 kvs = None ->
    ev E cur (ECol (k1 :: k2 :: rest)) = Ok VNull.
  Proof.
    intros cur k1 k2 rest kvs Hh H1 H2. rewrite ev_col by exact Hh. rewrite <- reader_path_get.
    rewrite (reader_present _ _ _ _ H1). apply reader_missing, H2.
  Qed.

  (* NULL left operand: the raw result is the nil *float64, which ValueOf turns into NULL *)
  Lemma null_bin_left : forall cur op a b,
    ev E cur a = Ok VNull ->
    eval E cur (EBin op a b) = Ok (RNumPtr None) /\ ev E cur (EBin op a b) = Ok VNull.
  Proof.
    intros cur op a b Ha. unfold ev in *. cbn [eval].
    destruct (eval E cur a) as [ra| | |]; cbn [bind] in *; try discriminate Ha.
    rewrite Ha. cbn [bind]. split; reflexivity.
  Qed.

  Lemma null_bin_right : forall cur op a b x,
    ev E cur a = Ok (VNum x) -> ev E cur b = Ok VNull ->
    eval E cur (EBin op a b) = Ok (RNumPtr None) /\ ev E cur (EBin op a b) = Ok VNull.
  Proof.
    intros cur op a b x Ha Hb. unfold ev in *. cbn [eval].
    destruct (eval E cur a) as [ra| | |]; cbn [bind] in *; try discriminate Ha.
    rewrite Ha. cbn [bind as_num].
    destruct (eval E cur b) as [rb| | |]; cbn [bind] in *; try discriminate Hb.
    rewrite Hb. cbn [bind]. split; reflexivity.
  Qed.

  (* a unary operator on NULL is an error *)
  Lemma null_un : forall cur op a, ev E cur a = Ok VNull -> ev E cur (EUn op a) = Err.
  Proof. intros cur op a Ha. rewrite ev_un, Ha. destruct op; reflexivity. Qed.
End Null.

(* the environments the pipeline builds never set the join-only option *)
Lemma mk_env_hard : forall rec call join ctx s filtered,
  e_hard (mk_env rec call join ctx s filtered) = false.
Proof. reflexivity. Qed.

(* later bindings of a name overwrite earlier ones; with unique source keys `*` contributes the
   source row's own values *)
Lemma project_later_wins : forall {Q} (den : srow -> expr Q -> res value) items r o,
  project den items r = Ok o ->
  exists bs, bindings den items r = Ok bs /\ map fst bs = select_keys items r /\
             forall k, lookup k o = lookup k (rev bs).
Proof.
  intros Q den items r o H. destruct (project_lookup _ den _ _ _ H) as [bs [Hb Hl]].
  exists bs. repeat split; try assumption. eapply bindings_names. exact Hb.
Qed.

Lemma project_star : forall {Q} (den : srow -> expr Q -> res value) r k,
  NoDup (keys r) -> exists o, project den [IStar] r = Ok o /\ lookup k o = lookup k r.
Proof.
  intros Q den r k Hnd. unfold project. cbn [bindings item_bindings bind]. rewrite app_nil_r.
  eexists. split; [reflexivity|]. rewrite lookup_obj_of_list. apply lookup_rev_nodup, Hnd.
Qed.
