(* Proofs/C09Total.v — the repaired selector code never panics: every checked primitive of
   Model/SelToken.v and Model/SelReader.v is shown to be reached only inside its bounds, for
   arbitrary byte strings and arbitrary documents. *)
From Coq Require Import ZifyBool ZifyNat ZifyN Floats.
From GenqlV Require Import Base.Prelude Base.Fmt Base.Value
                           Model.SelToken Model.SelFmt Model.SelReader.
Local Open Scope string_scope.

Definition nopanic {A} (r : res A) : Prop := r <> Panic.

Lemma nopanic_ok {A} (a : A) : nopanic (Ok a).
Proof. discriminate. Qed.
Lemma nopanic_err {A} : nopanic (@Err A).
Proof. discriminate. Qed.
Lemma nopanic_oom {A} : nopanic (@OutOfModel A).
Proof. discriminate. Qed.
#[export] Hint Resolve nopanic_ok nopanic_err nopanic_oom : c09.

Lemma nopanic_bind {A B} (r : res A) (f : A -> res B) :
  nopanic r -> (forall a, r = Ok a -> nopanic (f a)) -> nopanic (bind r f).
Proof.
  intros Hr Hf. destruct r as [a| | |]; cbn;
    [apply Hf; reflexivity | discriminate | exfalso; apply Hr; reflexivity | discriminate].
Qed.

Lemma nopanic_mapM {A B} (f : A -> res B) (l : list A) :
  (forall a, In a l -> nopanic (f a)) -> nopanic (mapM f l).
Proof.
  induction l as [|a l IH]; intros H; cbn [mapM]; auto with c09.
  apply nopanic_bind; [apply H; now left|]. intros b _.
  apply nopanic_bind; [apply IH; intros a0 Ha0; apply H; now right|]. intros ? _; auto with c09.
Qed.

(* ---------- FindAllString only returns non-empty matches ---------- *)

Lemma find_all_nonempty m s k : Forall (fun t => t <> EmptyString) (find_all m s k).
Proof.
  revert k. induction s as [|c r IH]; intros k; cbn [find_all]; [constructor|].
  destruct k as [|k]; [|apply IH].
  destruct (m (String c r)) as [[|c' t]|]; try apply IH.
  constructor; [discriminate|apply IH].
Qed.

Lemma byte0_nonempty s : s <> EmptyString -> exists c, byte0 s = Ok c.
Proof. destruct s; [congruence|]. intros _. eexists; reflexivity. Qed.

(* ---------- strings.Split returns at least one part ---------- *)

Lemma split_char_length c s : (1 <= List.length (split_char c s))%nat.
Proof.
  induction s as [|a r IH]; cbn [split_char]; [cbn; lia|].
  destruct (ceq a c); [cbn; lia|].
  destruct (split_char c r); cbn in *; lia.
Qed.

Lemma idx_list_ok {A} (l : list A) (i : Z) :
  (0 <= i < Z.of_nat (List.length l))%Z -> exists x, idx_list l i = Ok x.
Proof.
  intros H. unfold idx_list.
  destruct ((i <? 0)%Z || (Z.of_nat (List.length l) <=? i)%Z) eqn:E; [lia|].
  destruct (nth_error l (Z.to_nat i)) eqn:N; [eexists; reflexivity|].
  apply nth_error_None in N. lia.
Qed.

Lemma slice_list_ok {A} (l : list A) (b e : Z) :
  (0 <= b <= e)%Z -> (e <= Z.of_nat (List.length l))%Z -> exists x, slice_list l b e = Ok x.
Proof.
  intros H1 H2. unfold slice_list.
  destruct ((b <? 0)%Z || (e <? b)%Z || (Z.of_nat (List.length l) <? e)%Z) eqn:E; [lia|].
  eexists; reflexivity.
Qed.

(* ---------- parsing ---------- *)

Lemma atoi_nopanic s : nopanic (atoi s).
Proof.
  unfold atoi.
  destruct (split_sign s) as [neg body]. destruct body; auto with c09.
  destruct (digits_val _ _); auto with c09.
  destruct (_ || _)%bool; auto with c09.
Qed.

Lemma read_index_nopanic s : nopanic (read_index s).
Proof.
  unfold read_index. apply nopanic_bind; [apply atoi_nopanic|]. intros a _.
  destruct (a <? 0)%Z; auto with c09.
Qed.

Lemma read_bound_nopanic kw s : nopanic (read_bound kw s).
Proof. unfold read_bound. destruct (String.eqb s kw); auto using read_index_nopanic with c09. Qed.

Lemma read_range_nopanic m : nopanic (read_range m).
Proof.
  unfold read_range.
  set (split := split_char c_col _).
  destruct (Nat.eqb (List.length split) 2) eqn:E; cbn [negb]; auto with c09.
  apply Nat.eqb_eq in E.
  destruct (idx_list_ok split 0) as [s0 H0]; [lia|]. rewrite H0. cbn [bind].
  apply nopanic_bind; [apply read_bound_nopanic|]. intros b _.
  destruct (idx_list_ok split 1) as [s1 H1]; [lia|]. rewrite H1. cbn [bind].
  apply nopanic_bind; [apply read_bound_nopanic|]. intros ? _; auto with c09.
Qed.

Lemma parse_dim_nopanic m : m <> EmptyString -> nopanic (parse_dim m).
Proof.
  intros H. unfold parse_dim. destruct (byte0_nonempty m H) as [c Hc]. rewrite Hc. cbn [bind].
  destruct (ceq c c_lpar); [apply read_range_nopanic|].
  destruct (String.eqb m "each"); auto with c09.
  apply nopanic_bind; [apply read_index_nopanic|]. intros ? _; auto with c09.
Qed.

Lemma parse_array_nopanic m : nopanic (parse_array m).
Proof.
  unfold parse_array.
  set (m1 := trim_right c_rbra (trim_left c_lbra m)).
  destruct (match strip_prefix "keep=>" m1 with Some r => (true, r) | None => (false, m1) end) as [keep m2].
  apply nopanic_bind; [|intros ? _; auto with c09].
  apply nopanic_mapM. intros a Ha. apply parse_dim_nopanic.
  pose proof (find_all_nonempty m_array m2 0) as F. rewrite Forall_forall in F. now apply F.
Qed.

Lemma parse_pipe_item_nopanic m : nopanic (parse_pipe_item m).
Proof.
  unfold parse_pipe_item. set (split := split_char c_pipe m).
  pose proof (split_char_length c_pipe m) as L. fold split in L.
  destruct (idx_list_ok split 0) as [k0 H0]; [lia|]. rewrite H0. cbn [bind].
  destruct (Nat.eqb (List.length split) 1); auto with c09.
  destruct (Nat.eqb (List.length split) 2) eqn:E; auto with c09.
  apply Nat.eqb_eq in E.
  destruct (idx_list_ok split 1) as [t H1]; [lia|]. rewrite H1. cbn [bind]. auto with c09.
Qed.

Lemma parse_pipe_nopanic m : nopanic (parse_pipe m).
Proof. unfold parse_pipe. apply nopanic_mapM. intros ? _; apply parse_pipe_item_nopanic. Qed.

Lemma parse_token_nopanic m : m <> EmptyString -> nopanic (parse_token m).
Proof.
  intros H. unfold parse_token. destruct (byte0_nonempty m H) as [c Hc]. rewrite Hc. cbn [bind].
  destruct (ceq c c_lbra); [apply parse_array_nopanic|].
  destruct (ceq c c_lcur); auto with c09.
  apply nopanic_bind; [apply parse_pipe_nopanic|]. intros ? _; auto with c09.
Qed.

Lemma parse_tokens_nopanic s : nopanic (mapM parse_token (find_all m_full s 0)).
Proof.
  apply nopanic_mapM. intros a Ha. apply parse_token_nopanic.
  pose proof (find_all_nonempty m_full s 0) as F. rewrite Forall_forall in F. now apply F.
Qed.

Lemma parse_selector_nopanic s : nopanic (parse_selector s).
Proof.
  unfold parse_selector.
  destruct (match split_arrow s with
            | Some (f, rest) => if contains_open f then ([], s) else ([TFn f], rest)
            | None => ([], s) end) as [pre s'].
  apply nopanic_bind; [apply parse_tokens_nopanic|]. intros ? _; auto with c09.
Qed.

Lemma parse_all_nopanic s : nopanic (parse_all s).
Proof. unfold parse_all. apply nopanic_mapM. intros ? _; apply parse_selector_nopanic. Qed.

(* ---------- SelectDimension: the repaired guards protect every index and slice ---------- *)

Lemma select_dimension_nopanic dims : forall data, nopanic (select_dimension data dims).
Proof.
  induction dims as [|ix rest IH]; intros data; cbn [select_dimension]; auto with c09.
  destruct ix as [i|b e]; destruct data as [| | | |array|]; auto with c09.
  - destruct (i =? -1)%Z.
    + apply nopanic_bind; [apply nopanic_mapM; intros ? _; apply IH|]. intros ? _; auto with c09.
    + destruct ((i <? 0)%Z || (zlen array <=? i)%Z) eqn:G; auto with c09.
      destruct (idx_list_ok array i) as [x Hx]; [unfold zlen in G; lia|].
      rewrite Hx. cbn [bind]. apply IH.
  - set (b' := if (b =? -1)%Z then 0%Z else b).
    set (e' := if (e =? -1)%Z then zlen array else e).
    destruct ((b' <? 0)%Z || (e' <? b')%Z || (zlen array <? e')%Z) eqn:G; auto with c09.
    destruct (slice_list_ok array b' e') as [x Hx]; [lia|unfold zlen in G; lia|].
    rewrite Hx. cbn [bind]. apply IH.
Qed.

Lemma select_many_nopanic l dims : nopanic (select_many l dims).
Proof.
  unfold select_many, select_many_with.
  apply nopanic_bind; [apply select_dimension_nopanic|]. intros rs _.
  destruct rs; cbn; auto with c09.
Qed.

(* ---------- conversions ---------- *)

Lemma num_to_string_nopanic f : nopanic (num_to_string f).
Proof.
  unfold num_to_string. destruct (Prim2SF f) as [s|s| |s m e]; auto with c09.
  destruct (dyadic_is_int m e); auto with c09. destruct (_ <? _)%Z; auto with c09.
Qed.

Lemma value_to_string_nopanic v : nopanic (value_to_string v).
Proof.
  destruct v; cbn [value_to_string]; try (destruct (fmt_value _); auto with c09).
  apply num_to_string_nopanic.
Qed.

Lemma parse_float_nopanic s : nopanic (parse_float s).
Proof.
  unfold parse_float.
  destruct (split_sign s) as [neg body].
  match goal with |- nopanic (match ?x with _ => _ end) => destruct x as [[ip fp]|] end.
  - destruct (Nat.leb _ 15); auto with c09. destruct (digits_val _ _); auto with c09.
  - destruct (_ || _)%bool; auto with c09.
Qed.

Lemma pipe_one_nopanic data p copy : nopanic (pipe_one data p copy).
Proof.
  unfold pipe_one. destruct (get_type p); auto with c09.
  - apply nopanic_bind; [apply value_to_string_nopanic|]. intros ? _; auto with c09.
  - destruct (select_object data (pkey p)); auto with c09.
    apply nopanic_bind; [apply parse_float_nopanic|]. intros ? _; auto with c09.
Qed.

Lemma pipe_object_nopanic data ps : forall copy, nopanic (pipe_object data ps copy).
Proof.
  induction ps as [|p r IH]; intros copy; cbn [pipe_object]; auto with c09.
  apply nopanic_bind; [apply pipe_one_nopanic|]. intros ? _; apply IH.
Qed.

(* ---------- Reader ---------- *)

Lemma reader_switch_arr f l :
  reader_switch f (VArr l) = (let! l' := mapM (reader_switch f) l in Ok (VArr l')).
Proof.
  cbn [reader_switch]. f_equal.
  induction l as [|x r IH]; cbn [mapM]; [reflexivity|]. now rewrite IH.
Qed.

Lemma reader_switch_nopanic f :
  (forall kvs, nopanic (f kvs)) -> forall d, nopanic (reader_switch f d).
Proof.
  intros Hf d. induction d as [| | | |l IH|kvs _] using value_ind';
    [cbn; auto with c09 | cbn; auto with c09 | cbn; auto with c09 | cbn; auto with c09 | | ].
  - rewrite reader_switch_arr. apply nopanic_bind; [|intros ? _; auto with c09].
    apply nopanic_mapM. rewrite Forall_forall in IH. exact IH.
  - apply Hf.
Qed.

Lemma reader_nopanic sels : forall data, nopanic (reader sels data).
Proof.
  unfold reader. induction sels as [|sel rest IH]; intros data; cbn [reader_with]; auto with c09.
  destruct sel as [f|k|ds|ds|ps].
  - destruct data; auto with c09.
  - apply reader_switch_nopanic. intros ?; apply IH.
  - destruct data; auto with c09.
    apply nopanic_bind; [apply select_many_nopanic|]. intros ? _; apply IH.
  - destruct data; auto with c09.
    apply nopanic_bind; [apply select_dimension_nopanic|]. intros ? _; apply IH.
  - apply reader_switch_nopanic. intros kvs.
    apply nopanic_bind; [apply pipe_object_nopanic|]. intros ? _; apply IH.
Qed.

(* ---------- top-level functions ---------- *)

Lemma set_fresh_nopanic k v acc : nopanic (set_fresh k v acc).
Proof. unfold set_fresh. destruct (lookup k acc); auto with c09. Qed.

Lemma set_all_fresh_nopanic pre kvs : forall acc, nopanic (set_all_fresh pre kvs acc).
Proof.
  induction kvs as [|[ik iv] r IH]; intros acc; cbn [set_all_fresh]; auto with c09.
  apply nopanic_bind; [apply set_fresh_nopanic|]. intros ? _; apply IH.
Qed.

Lemma mix_object_nopanic v : nopanic (mix_object v).
Proof.
  induction v as [| | | |l _|kvs IH] using value_ind'; try (cbn; auto with c09).
  cbn [mix_object]. generalize (@nil (string * value)) as acc.
  induction IH as [|[k item] r Hitem _ IHr]; intros acc; auto with c09.
  cbn [snd] in Hitem.
  destruct item; try (apply nopanic_bind; [apply set_fresh_nopanic|intros ? _; apply IHr]).
  apply nopanic_bind; [exact Hitem|]. intros rs _.
  apply nopanic_bind; [apply set_all_fresh_nopanic|]. intros ? _; apply IHr.
Qed.

Lemma mix_nopanic v : nopanic (mix v).
Proof.
  destruct v; cbn [mix]; auto with c09.
  apply nopanic_bind; [apply mix_object_nopanic|]. intros ? _; auto with c09.
Qed.

Lemma distinct_go_nopanic l : forall seen, nopanic (distinct_go l seen).
Proof.
  induction l as [|x r IH]; intros seen; cbn [distinct_go]; auto with c09.
  destruct (fmt_value x); auto with c09.
  destruct (existsb _ seen); [apply IH|].
  apply nopanic_bind; [apply IH|]. intros ? _; auto with c09.
Qed.

Lemma distinct_nopanic v : nopanic (distinct v).
Proof.
  destruct v; cbn [distinct]; auto with c09.
  apply nopanic_bind; [apply distinct_go_nopanic|]. intros ? _; auto with c09.
Qed.

Lemma top_level_nopanic name f v : top_level name = Some f -> nopanic (f v).
Proof.
  unfold top_level. destruct (String.eqb name "mix"); [intros [= <-]; apply mix_nopanic|].
  destruct (String.eqb name "distinct"); [intros [= <-]; apply distinct_nopanic|discriminate].
Qed.

Lemma reader_executor_nopanic data sels : nopanic (reader_executor data sels).
Proof.
  unfold reader_executor, reader_executor_with.
  destruct sels as [|t rest]; auto with c09.
  destruct t; try apply reader_nopanic.
  apply nopanic_bind; [apply reader_nopanic|]. intros rs _.
  destruct (top_level f) eqn:T; auto with c09. eapply top_level_nopanic; eauto.
Qed.

Lemma exec_all_nopanic all : forall data, nopanic (exec_all all data).
Proof.
  unfold exec_all. induction all as [|item r IH]; intros data; cbn [exec_all_with]; auto with c09.
  apply nopanic_bind; [apply reader_executor_nopanic|]. intros ? _; apply IH.
Qed.

Theorem exec_reader_nopanic doc s : nopanic (exec_reader doc s).
Proof.
  unfold exec_reader. apply nopanic_bind; [apply parse_all_nopanic|]. intros ? _; apply exec_all_nopanic.
Qed.

Theorem exec_reader_total doc s :
  (exists r, exec_reader doc s = Ok r) \/ exec_reader doc s = Err \/ exec_reader doc s = OutOfModel.
Proof.
  pose proof (exec_reader_nopanic doc s) as H. unfold nopanic in H.
  destruct (exec_reader doc s); eauto; congruence.
Qed.
