(* Proofs/C05Lemmas.v — ORDER BY sorts, LIMIT/OFFSET return the exact window: the statements of
   Properties/C05.v, assembled from C05Window (slice arithmetic), C05Order (the comparator) and
   C05Sort (the sorting contract). *)
From Coq Require Import Floats ZifyBool Sorting.Permutation.
From GenqlV Require Import Base.Prelude Base.Value Model.Ast Model.Eval Model.Exec.
From GenqlV Require Import Spec.WindowSpec Spec.SortSpec.
From GenqlV Require Import Proofs.C05Window Proofs.C05Order Proofs.C05Sort.
Local Open Scope Z_scope.

Definition rows_of (rows : list value) : value -> Prop := fun r => In r rows.

(* ---------- the comparator ---------- *)

Lemma order_less_swo rows keys : sort_scope (rows_of rows) keys ->
  total_on (rows_of rows) (order_less keys) /\
  strict_weak_order (rows_of rows) (lt_of (order_less keys)).
Proof. apply less_strict_weak_order. Qed.

Lemma order_less_null_never_less k asc rest a b :
  reader k a = Ok VNull -> order_less ((k, asc) :: rest) a b = Ok false.
Proof. apply less_null_left. Qed.

Lemma order_less_nonnull_before_null k asc rest a b x :
  reader k a = Ok x -> x <> VNull -> reader k b = Ok VNull ->
  order_less ((k, asc) :: rest) a b = Ok true.
Proof. apply less_null_right. Qed.

(* ---------- ExecOrderBy ---------- *)

Lemma sort_by_meets_contract less rows :
  total_on (rows_of rows) less -> strict_weak_order (rows_of rows) (lt_of less) ->
  exists out, sort_by less rows = Ok out /\ sorted_perm less rows out.
Proof. apply sort_by_sorted_perm. Qed.

Lemma sort_by_sorted less rows :
  total_on (rows_of rows) less -> strict_weak_order (rows_of rows) (lt_of less) ->
  exists out, sort_by less rows = Ok out /\ adjacent_ok less out.
Proof.
  intros T W. destruct (sort_by_sorted_perm less rows T W) as (out & E & _ & A). eauto.
Qed.

Lemma sort_by_perm less rows :
  total_on (rows_of rows) less -> strict_weak_order (rows_of rows) (lt_of less) ->
  exists out, sort_by less rows = Ok out /\ Permutation rows out.
Proof.
  intros T W. destruct (sort_by_sorted_perm less rows T W) as (out & E & P & _). eauto.
Qed.

Lemma exec_order_by_sorted_perm keys rows : sort_scope (rows_of rows) keys ->
  exists out, exec_order_by keys rows = Ok out /\ sorted_perm (order_less keys) rows out.
Proof.
  intros HS. destruct (order_less_swo rows keys HS) as [T W].
  destruct keys as [|p keys'].
  - exists rows. split; [reflexivity|]. split; [apply Permutation_refl|].
    intros i a b _ _. reflexivity.
  - destruct (sort_by_sorted_perm _ rows T W) as (out & E & SP).
    exists out. split; [|exact SP]. unfold exec_order_by. rewrite E. reflexivity.
Qed.

(* ---------- what any output meeting the contract looks like ---------- *)

Lemma perm_in_back (rows out : list value) : Permutation rows out ->
  forall i a, nth_error out i = Some a -> In a rows.
Proof.
  intros P i a H. eapply Permutation_in; [apply Permutation_sym; exact P|].
  eapply nth_error_In; eauto.
Qed.

Lemma sorted_all_pairs_nullstop rows keys out :
  sort_scope (rows_of rows) keys -> sorted_perm (order_less keys) rows out ->
  forall i j a b, (i < j)%nat -> nth_error out i = Some a -> nth_error out j = Some b ->
  lex_le_nullstop keys a b.
Proof.
  intros HS SP i j a b Hij Ha Hb.
  destruct (order_less_swo rows keys HS) as [T W].
  pose proof (sorted_perm_pairwise _ rows out T W SP i j a b Hij Ha Hb) as H.
  destruct SP as [P _].
  apply (less_false_lex (rows_of rows) keys HS a b); try assumption.
  - eapply perm_in_back; eauto.
  - eapply perm_in_back; eauto.
Qed.

Lemma sorted_adjacent_nullstop rows keys out :
  sort_scope (rows_of rows) keys -> sorted_perm (order_less keys) rows out ->
  forall i a b, nth_error out i = Some a -> nth_error out (S i) = Some b ->
  lex_le_nullstop keys a b.
Proof.
  intros HS SP i a b Ha Hb.
  apply (sorted_all_pairs_nullstop rows keys out HS SP i (S i)); auto.
Qed.

Lemma sorted_all_pairs rows keys out :
  sort_scope (rows_of rows) keys -> nulls_only_in_last_key (rows_of rows) keys ->
  sorted_perm (order_less keys) rows out ->
  forall i j a b, (i < j)%nat -> nth_error out i = Some a -> nth_error out j = Some b ->
  lex_le keys a b.
Proof.
  intros HS HN SP i j a b Hij Ha Hb.
  apply (nullstop_lex (rows_of rows) keys HN).
  - eapply perm_in_back; [apply SP|eauto].
  - eapply perm_in_back; [apply SP|eauto].
  - eapply sorted_all_pairs_nullstop; eauto.
Qed.

Lemma sorted_adjacent rows keys out :
  sort_scope (rows_of rows) keys -> nulls_only_in_last_key (rows_of rows) keys ->
  sorted_perm (order_less keys) rows out ->
  Permutation rows out /\
  forall i a b, nth_error out i = Some a -> nth_error out (S i) = Some b -> lex_le keys a b.
Proof.
  intros HS HN SP. split; [apply SP|]. intros i a b Ha Hb.
  apply (sorted_all_pairs rows keys out HS HN SP i (S i)); auto.
Qed.

(* conversely, a permutation whose adjacent pairs are in (engine) lexicographic order meets the
   contract: [sorted_perm (order_less keys)] says neither more nor less than the specification *)
Lemma lex_adjacent_sorted_perm rows keys out :
  sort_scope (rows_of rows) keys -> Permutation rows out ->
  (forall i a b, nth_error out i = Some a -> nth_error out (S i) = Some b ->
                 lex_le_nullstop keys a b) ->
  sorted_perm (order_less keys) rows out.
Proof.
  intros HS P H. split; [exact P|]. intros i a b Ha Hb.
  apply (lex_less_false (rows_of rows) keys HS a b).
  - eapply perm_in_back; eauto.
  - eapply perm_in_back; eauto.
  - eapply H; eauto.
Qed.

(* rows whose most significant key is NULL come after all rows where it is not *)
Lemma nulls_last_first_key rows k asc rest out :
  sort_scope (rows_of rows) ((k, asc) :: rest) ->
  sorted_perm (order_less ((k, asc) :: rest)) rows out ->
  forall i j a b, (i < j)%nat -> nth_error out i = Some a -> nth_error out j = Some b ->
  reader k a = Ok VNull -> reader k b = Ok VNull.
Proof.
  intros HS SP i j a b Hij Ha Hb Na.
  destruct (order_less_swo rows _ HS) as [T W].
  pose proof (sorted_perm_pairwise _ rows out T W SP i j a b Hij Ha Hb) as H.
  assert (Db : rows_of rows b) by (eapply perm_in_back; [apply SP|eauto]).
  destruct HS as [HR _]. destruct (HR b k asc Db (or_introl eq_refl)) as [y Hy].
  rewrite (order_less_step _ _ _ _ _ _ _ Hy Na) in H.
  destruct (is_null y) eqn:Ny; [|discriminate H].
  rewrite Hy. f_equal. apply is_null_true. exact Ny.
Qed.

Lemma nulls_last rows k asc out :
  sort_scope (rows_of rows) [(k, asc)] ->
  sorted_perm (order_less [(k, asc)]) rows out ->
  forall i j a b, (i < j)%nat -> nth_error out i = Some a -> nth_error out j = Some b ->
  reader k a = Ok VNull -> reader k b = Ok VNull.
Proof. apply nulls_last_first_key. Qed.

(* ---------- the boolean scope check is sound ---------- *)

Lemma mapM_ok_in {A B} (f : A -> res B) : forall l out, mapM f l = Ok out ->
  forall a, In a l -> exists b, f a = Ok b /\ In b out.
Proof.
  induction l as [|x l IH]; intros out E a Ha; [destruct Ha|].
  cbn [mapM] in E. destruct (f x) as [y| | |] eqn:Ex; try discriminate E. cbn [bind] in E.
  destruct (mapM f l) as [ys| | |] eqn:El; try discriminate E. cbn [bind] in E.
  inversion E; subst out. destruct Ha as [<-|Ha].
  - exists y. split; [exact Ex|left; reflexivity].
  - destruct (IH ys eq_refl a Ha) as (b & Hb & Hin). exists b. split; [exact Hb|right; exact Hin].
Qed.

Lemma NumLaws_mono (F G : float -> Prop) : (forall f, G f -> F f) -> NumLaws F -> NumLaws G.
Proof.
  intros S L. constructor.
  - intros x Hx. apply (nl_refl _ L); auto.
  - intros x y Hx Hy. apply (nl_antisym _ L); auto.
  - intros x y z Hx Hy Hz. apply (nl_trans _ L); auto.
Qed.

Lemma fcmp_laws_b_sound l : fcmp_laws_b l = true -> NumLaws (fun f => In f l).
Proof.
  unfold fcmp_laws_b. rewrite forallb_forall. intros H. constructor.
  - intros x Hx. specialize (H x Hx). apply andb_true_iff in H. destruct H as [H _]. lia.
  - intros x y Hx Hy. specialize (H x Hx). apply andb_true_iff in H. destruct H as [_ H].
    rewrite forallb_forall in H. specialize (H y Hy). apply andb_true_iff in H.
    destruct H as [H _]. lia.
  - intros x y z Hx Hy Hz H1 H2. specialize (H x Hx). apply andb_true_iff in H.
    destruct H as [_ H]. rewrite forallb_forall in H. specialize (H y Hy).
    apply andb_true_iff in H. destruct H as [_ H]. rewrite forallb_forall in H.
    specialize (H z Hz).
    replace (fcmp x y <=? 0) with true in H by lia.
    replace (fcmp y z <=? 0) with true in H by lia. cbn in H. lia.
Qed.

Lemma column_ok_sound vals (V : value -> Prop) :
  column_ok_b vals = true -> (forall v, V v -> v <> VNull /\ In v vals) -> one_kind V.
Proof.
  unfold column_ok_b. set (nn := filter (fun v => negb (is_null v)) vals). intros H HV.
  assert (Hnn : forall v, V v -> In v nn).
  { intros v Vv. destruct (HV v Vv) as [N I]. apply filter_In. split; [exact I|].
    destruct v; try reflexivity. contradiction N. reflexivity. }
  apply orb_true_iff in H. destruct H as [H|H]; [apply orb_true_iff in H; destruct H as [H|H]|].
  - left. intros v Vv. rewrite forallb_forall in H. specialize (H v (Hnn v Vv)).
    destruct v; try discriminate H. eauto.
  - right. left. intros v Vv. rewrite forallb_forall in H. specialize (H v (Hnn v Vv)).
    destruct v; try discriminate H. eauto.
  - right. right. apply andb_true_iff in H. destruct H as [H L]. split.
    + intros v Vv. rewrite forallb_forall in H. specialize (H v (Hnn v Vv)).
      destruct v; try discriminate H. eauto.
    + apply (NumLaws_mono (fun f => In f (nums nn))); [|apply fcmp_laws_b_sound; exact L].
      intros f Vf. unfold nums. apply in_flat_map. exists (VNum f).
      split; [apply Hnn; exact Vf|left; reflexivity].
Qed.

Lemma sort_scope_b_one_kind rows keys :
  sort_scope_b rows keys = true -> one_kind_keys (rows_of rows) keys.
Proof.
  unfold sort_scope_b. rewrite forallb_forall. intros H. split.
  - intros r k asc Hr Hin. specialize (H (k, asc) Hin). cbn [fst] in H.
    destruct (mapM (reader k) rows) as [vals| | |] eqn:E; try discriminate H.
    destruct (mapM_ok_in _ _ _ E r Hr) as (b & Hb & _). eauto.
  - intros k asc Hin. specialize (H (k, asc) Hin). cbn [fst] in H.
    destruct (mapM (reader k) rows) as [vals| | |] eqn:E; try discriminate H.
    apply (column_ok_sound vals); [exact H|].
    intros v [N (r & Hr & Er)]. split; [exact N|].
    destruct (mapM_ok_in _ _ _ E r Hr) as (b & Hb & Hinb). congruence.
Qed.

Lemma sort_scope_b_sound rows keys :
  sort_scope_b rows keys = true -> sort_scope (rows_of rows) keys.
Proof. intros H. apply one_kind_in_scope. apply sort_scope_b_one_kind. exact H. Qed.

Lemma nulls_only_in_last_key_b_sound rows : forall keys,
  nulls_only_in_last_key_b rows keys = true -> nulls_only_in_last_key (rows_of rows) keys.
Proof.
  induction keys as [|[k asc] rest IH]; intros H; [exact I|].
  cbn [nulls_only_in_last_key nulls_only_in_last_key_b] in *.
  destruct rest as [|p rest']; [exact I|].
  apply andb_true_iff in H. destruct H as [H1 H2]. split; [|apply IH; exact H2].
  intros r Hr E. rewrite forallb_forall in H1. specialize (H1 r Hr). rewrite E in H1.
  discriminate H1.
Qed.

(* ---------- ORDER BY then LIMIT/OFFSET ---------- *)

Lemma order_then_window keys rows limit offset :
  sort_scope (rows_of rows) keys -> bound_ok limit -> bound_ok offset ->
  exists ordered,
    exec_order_by keys rows = Ok ordered /\
    sorted_perm (order_less keys) rows ordered /\
    (let! o := exec_order_by keys rows in window o (List.length o) limit offset)
      = Ok (window_spec ordered limit offset).
Proof.
  intros HS Hl Ho. destruct (exec_order_by_sorted_perm keys rows HS) as (ordered & E & SP).
  exists ordered. split; [exact E|]. split; [exact SP|].
  rewrite E. cbn [bind]. apply window_exact; auto.
Qed.

(* the tail of exec(): whatever the earlier stages produced, the answer is the window of the
   ordered rows *)
Lemma run_select_tail rec call join ctx (s : select stmt) from filtered grouped selected ordered :
  filter_rows rec ctx s (mk_env rec call join ctx s []) from = Ok filtered ->
  exec_group_by (mk_env rec call join ctx s filtered) s filtered = Ok grouped ->
  exec_select (mk_env rec call join ctx s filtered) s grouped = Ok selected ->
  exec_order_by (s_order s) (exec_distinct (s_distinct s) selected) = Ok ordered ->
  bound_ok (s_limit s) -> bound_ok (s_offset s) ->
  run_select rec call join ctx s (Some from)
    = Ok (VArr (window_spec ordered (s_limit s) (s_offset s))).
Proof.
  intros Hf Hg Hs Ho Hl Hoff. unfold run_select. cbv zeta.
  rewrite Hf. cbn [bind]. rewrite Hg. cbn [bind]. rewrite Hs. cbn [bind]. rewrite Ho. cbn [bind].
  rewrite window_exact by auto. reflexivity.
Qed.

Lemma run_select_order_window rec call join ctx (s : select stmt) from filtered grouped selected :
  filter_rows rec ctx s (mk_env rec call join ctx s []) from = Ok filtered ->
  exec_group_by (mk_env rec call join ctx s filtered) s filtered = Ok grouped ->
  exec_select (mk_env rec call join ctx s filtered) s grouped = Ok selected ->
  sort_scope (rows_of (exec_distinct (s_distinct s) selected)) (s_order s) ->
  bound_ok (s_limit s) -> bound_ok (s_offset s) ->
  exists ordered,
    sorted_perm (order_less (s_order s)) (exec_distinct (s_distinct s) selected) ordered /\
    run_select rec call join ctx s (Some from)
      = Ok (VArr (window_spec ordered (s_limit s) (s_offset s))).
Proof.
  intros Hf Hg Hs HS Hl Hoff.
  destruct (exec_order_by_sorted_perm _ _ HS) as (ordered & E & SP).
  exists ordered. split; [exact SP|]. eapply run_select_tail; eauto.
Qed.

(* ---------- concrete tables: the premises are satisfiable, the results are the expected ones --- *)

Definition row_ns (n : option float) (s : option string) : value :=
  VObj [("n"%string, match n with Some f => VNum f | None => VNull end);
        ("s"%string, match s with Some t => VStr t | None => VNull end)].

(* ORDER BY n DESC, s ASC *)
Definition ex_keys : list sort_key := [(["n"%string], false); (["s"%string], true)].

(* ties (rows 1 and 5), a NULL in each key column *)
Definition ex_rows : list value :=
  [ row_ns (Some 2%float) (Some "b"%string);
    row_ns (Some 1%float) None;
    row_ns (Some 2%float) (Some "a"%string);
    row_ns None (Some "c"%string);
    row_ns (Some 2%float) (Some "b"%string) ].

(* the same with NULLs in the last key only *)
Definition ex_rows' : list value :=
  [ row_ns (Some 2%float) (Some "b"%string);
    row_ns (Some 1%float) None;
    row_ns (Some 2%float) (Some "a"%string);
    row_ns (Some 3%float) None;
    row_ns (Some 2%float) None ].

Lemma ex_in_scope :
  sort_scope_b ex_rows ex_keys = true /\
  sort_scope_b ex_rows' ex_keys = true /\ nulls_only_in_last_key_b ex_rows' ex_keys = true /\
  nulls_only_in_last_key_b ex_rows ex_keys = false.
Proof. vm_compute. repeat split. Qed.

Lemma ex_sorted :
  exec_order_by ex_keys ex_rows =
    Ok [ row_ns (Some 2%float) (Some "a"%string);
         row_ns (Some 2%float) (Some "b"%string);
         row_ns (Some 2%float) (Some "b"%string);
         row_ns (Some 1%float) None;
         row_ns None (Some "c"%string) ] /\
  exec_order_by ex_keys ex_rows' =
    Ok [ row_ns (Some 3%float) None;
         row_ns (Some 2%float) (Some "a"%string);
         row_ns (Some 2%float) (Some "b"%string);
         row_ns (Some 2%float) None;
         row_ns (Some 1%float) None ].
Proof. vm_compute. split; reflexivity. Qed.

(* a window on a slice with spare capacity, straddling the end *)
Lemma ex_window :
  window ex_rows 8 (Some 3) (Some 3) =
    Ok [ row_ns None (Some "c"%string); row_ns (Some 2%float) (Some "b"%string) ] /\
  window ex_rows 8 (Some 0) (Some 1) = Ok [] /\
  window ex_rows 8 (Some 2) (Some 7) = Ok [] /\
  window ex_rows 8 None (Some 4) = Ok [ row_ns (Some 2%float) (Some "b"%string) ] /\
  (List.length ex_rows <= 8)%nat.
Proof. vm_compute. repeat split; try reflexivity. lia. Qed.

(* ---------- two rows that are both NULL on a key are not ordered by the keys after it ---------- *)

Definition nt_keys : list sort_key := [(["n"%string], true); (["s"%string], true)].
Definition nt_rows : list value := [ row_ns None (Some "b"%string); row_ns None (Some "a"%string) ].

Lemma null_tie_not_refined :
  sort_scope_b nt_rows nt_keys = true /\
  exec_order_by nt_keys nt_rows = Ok nt_rows /\
  ~ lex_le nt_keys (row_ns None (Some "b"%string)) (row_ns None (Some "a"%string)).
Proof.
  split; [vm_compute; reflexivity|]. split; [vm_compute; reflexivity|].
  intros H. cbn [lex_le nt_keys] in H.
  destruct H as (x & y & Hx & Hy & H). vm_compute in Hx, Hy.
  inversion Hx; inversion Hy; subst x y. cbn [is_null] in H.
  destruct H as (x & y & Hx' & Hy' & H). vm_compute in Hx', Hy'.
  inversion Hx'; inversion Hy'; subst x y. cbn [is_null] in H.
  destruct H as (c & E & H). vm_compute in E. inversion E; subst c. cbn in H. lia.
Qed.

(* ---------- why the scope says "one scalar kind": numbers are compared by value, a number and a
   string by their texts, so a column mixing them has a cycle 9 < 10 < "5" < 9; and NaN is "less"
   than itself ---------- *)

Definition kv (v : value) : value := VObj [("k"%string, v)].

Lemma mixed_kinds_cycle :
  let less := order_less [(["k"%string], true)] in
  less (kv (VNum 9%float)) (kv (VNum 10%float)) = Ok true /\
  less (kv (VNum 10%float)) (kv (VStr "5")) = Ok true /\
  less (kv (VStr "5")) (kv (VNum 9%float)) = Ok true /\
  less (kv (VNum nan)) (kv (VNum nan)) = Ok true /\
  sort_scope_b [kv (VNum 9%float); kv (VNum 10%float); kv (VStr "5")] [(["k"%string], true)] = false /\
  sort_scope_b [kv (VNum nan)] [(["k"%string], true)] = false.
Proof. vm_compute. repeat split. Qed.
