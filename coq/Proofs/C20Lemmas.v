(* Proofs/C20Lemmas.v — the stateful interpreter of Model/Vars.v performs exactly the register
   history a query denotes (Spec/VarsHistory.v) under the textbook register semantics
   (Spec/RegisterSpec.v).  All statements are for arbitrary select lists, tables, stores and
   sequences of queries; proofs are inductions over those lists. *)
From Coq Require Import Floats.
From GenqlV Require Import Base.Prelude Base.Value Model.Ast Model.Eval Model.Vars
                           Spec.RegisterSpec Spec.VarsHistory Proofs.C20Eval.
Local Open Scope list_scope.

(* ================================================================== *)
(* 1. the register specification on its own                            *)
(* ================================================================== *)

Lemma rd_wr_same : forall r k v, rd (wr r k v) k = v.
Proof. intros. unfold rd, wr. rewrite String.eqb_refl. reflexivity. Qed.

Lemma rd_wr_other : forall r k k' v, k' <> k -> rd (wr r k v) k' = rd r k'.
Proof.
  intros r k k' v H. unfold rd, wr. apply String.eqb_neq in H. rewrite H. reflexivity.
Qed.

Lemma rd_unset : forall r k, r k = None -> rd r k = VNull.
Proof. intros r k H. unfold rd. rewrite H. reflexivity. Qed.

Lemma run_reg_app : forall h1 h2 r,
  run_reg r (h1 ++ h2) =
  let '(rs1, r1, ab1) := run_reg r h1 in
  if ab1 then (rs1, r1, true)
  else let '(rs2, r2, ab2) := run_reg r1 h2 in (rs1 ++ rs2, r2, ab2).
Proof.
  induction h1 as [|o h1 IH]; intros h2 r.
  - cbn [app run_reg]. destruct (run_reg r h2) as [[rs2 r2] ab2]. reflexivity.
  - cbn [app]. destruct o as [k|k f| |arms els]; cbn [run_reg].
    + rewrite IH. destruct (run_reg r h1) as [[rs1 r1] ab1]. destruct ab1; [reflexivity|].
      destruct (run_reg r1 h2) as [[rs2 r2] ab2]. reflexivity.
    + destruct (f r) as [v|]; [apply IH|reflexivity].
    + reflexivity.
    + destruct (case_out r arms els) as [l [w|]]; [|reflexivity].
      rewrite IH. destruct (run_reg (wr_opt r w) h1) as [[rs1 r1] ab1]. destruct ab1; [reflexivity|].
      destruct (run_reg r1 h2) as [[rs2 r2] ab2]. rewrite app_assoc. reflexivity.
Qed.

(* last write wins; registers nobody wrote keep their contents *)
Lemma regs_after_writes : forall h r k,
  regs_of (run_reg r h) k =
  match last_write k (writes r h) with Some v => Some v | None => r k end.
Proof.
  induction h as [|o h IH]; intros r k.
  - reflexivity.
  - destruct o as [k0|k0 f| |arms els]; cbn [run_reg writes].
    + specialize (IH r k). destruct (run_reg r h) as [[rs r'] ab]. exact IH.
    + destruct (f r) as [v|]; [|reflexivity].
      rewrite IH. cbn [last_write].
      destruct (last_write k (writes (wr r k0 v) h)); [reflexivity|].
      unfold wr. destruct (String.eqb k k0); reflexivity.
    + reflexivity.
    + destruct (case_out r arms els) as [l [[[k0 v]|]|]]; cbn [wr_opt]; [ | |reflexivity].
      * specialize (IH (wr r k0 v) k). destruct (run_reg (wr r k0 v) h) as [[rs r'] ab].
        cbn [regs_of fst snd] in *. rewrite IH. cbn [last_write].
        destruct (last_write k (writes (wr r k0 v) h)); [reflexivity|].
        unfold wr. destruct (String.eqb k k0); reflexivity.
      * specialize (IH r k). destruct (run_reg r h) as [[rs r'] ab]. exact IH.
Qed.

(* a read returns the last value written before it, else what the register held at the start *)
Lemma get_sees_last_set : forall h1 k h2 r,
  aborted (run_reg r h1) = false ->
  reads_of (run_reg r (h1 ++ RGet k :: h2)) =
  reads_of (run_reg r h1) ++
  (match last_write k (writes r h1) with Some v => v | None => rd r k end)
    :: reads_of (run_reg (regs_of (run_reg r h1)) h2).
Proof.
  intros h1 k h2 r Hab. rewrite run_reg_app.
  pose proof (regs_after_writes h1 r k) as Hw.
  destruct (run_reg r h1) as [[rs1 r1] ab1]. cbn [aborted snd] in Hab. subst ab1.
  cbn [regs_of reads_of fst snd] in *. cbn [run_reg].
  destruct (run_reg r1 h2) as [[rs2 r2] ab2]. cbn [fst]. f_equal. f_equal.
  unfold rd at 1. rewrite Hw. unfold rd. destruct (last_write k (writes r h1)); reflexivity.
Qed.

(* ================================================================== *)
(* 2. stores and register files                                        *)
(* ================================================================== *)

Definition agree (st : store) (r : regs) : Prop := forall k, lookup k st = r k.

Lemma agree_abs : forall st, agree st (abs st).
Proof. intros st k. reflexivity. Qed.

Lemma agree_set : forall st r k v, agree st r -> agree (obj_set k v st) (wr r k v).
Proof.
  intros st r k v H k'. rewrite c20_lookup_set. unfold wr. destruct (String.eqb k' k); auto.
Qed.

Lemma agree_get : forall st r k, agree st r -> map_get k (Some st) = rd r k.
Proof. intros st r k H. unfold map_get, rd. rewrite (H k). reflexivity. Qed.

Section Lin.
  Variable Q : Type.
  Variable data : value.

  Notation item := (item Q).

  (* an expression that reads the store sees it only through lookups *)
  Lemma call_rd_regs : forall st r qual name args cur,
    agree st r -> call_rd (Some st) qual name args cur = call_regs r qual name args cur.
  Proof.
    intros st r qual name args cur H. unfold call_rd, call_regs.
    destruct (String.eqb qual "" && String.eqb name "getvar")%bool; [|reflexivity].
    unfold get_var_func, guard.
    destruct args as [|a [|b l]]; cbn [List.length Nat.eqb bind]; try reflexivity.
    destruct (key_of a) as [k| | |]; cbn [bind]; try reflexivity.
    rewrite (agree_get st r k H). reflexivity.
  Qed.

  Lemma eval_rd_regs : forall st r cur (e : expr Q),
    agree st r -> eval (env_rd data (Some st)) cur e = eval (env_regs data r) cur e.
  Proof.
    intros st r cur e H.
    apply (eval_ext Q (env_rd data (Some st)) (env_regs data r)); try reflexivity.
    intros q n a c. cbn [env_rd env_regs mk_env e_call]. apply call_rd_regs. exact H.
  Qed.

  Lemma arg_rd_regs : forall st r cur (e : expr Q),
    agree st r -> arg (env_rd data (Some st)) cur e = arg (env_regs data r) cur e.
  Proof.
    intros st r cur e H. unfold arg. rewrite (eval_rd_regs st r cur e H). reflexivity.
  Qed.

  (* SelectExpr's tail against pure_val *)
  Lemma sel_store_pure : forall cur acc name (e : expr Q),
    (let! x := eval (env_pure data) cur e in sel_store cur acc name x) =
    match pure_val data cur e with
    | Ok (Some v) => Ok (obj_set name v acc)
    | Ok None => Ok acc
    | bad => cast bad
    end.
  Proof.
    intros cur acc name e. unfold pure_val.
    destruct (eval (env_pure data) cur e) as [x| | |]; cbn [bind cast]; try reflexivity.
    destruct x; cbn [sel_store]; try reflexivity;
      match goal with |- context[value_of ?c ?x] => destruct (value_of c x); reflexivity end.
  Qed.

  Lemma key_at_some : forall cur (k : expr Q) ks,
    key_at data cur k = Some ks ->
    exists kv, arg (env_pure data) cur k = Ok kv /\ key_of kv = Ok ks.
  Proof.
    intros cur k ks H. unfold key_at in H.
    destruct (arg (env_pure data) cur k) as [kv| | |]; cbn [bind opt] in H; try discriminate H.
    exists kv. split; [reflexivity|].
    destruct (key_of kv); cbn [opt] in H; inversion H. reflexivity.
  Qed.

  Lemma key_at_none : forall cur (k : expr Q),
    key_at data cur k = None ->
    is_ok (arg (env_pure data) cur k) = false \/
    exists kv, arg (env_pure data) cur k = Ok kv /\ is_ok (key_of kv) = false.
  Proof.
    intros cur k H. unfold key_at in H.
    destruct (arg (env_pure data) cur k) as [kv| | |]; cbn [bind opt] in H; auto.
    right. exists kv. split; [reflexivity|]. destruct (key_of kv); [discriminate H|reflexivity..].
  Qed.

  Lemma is_ok_cast : forall A B (x : res A), is_ok (@cast A B x) = false.
  Proof. intros A B x. destruct x; reflexivity. Qed.

  (* ---------------- SETVAR(k, e), as an item or as a CASE result ---------------- *)

  Lemma set_lin : forall st r cur acc (k e : expr Q) name,
    agree st r ->
    match key_at data cur k with
    | Some ks =>
        match opt (arg (env_regs data r) cur e) with
        | Some v => run_set data (Some st) cur acc k e name = (Ok acc, Some (obj_set ks v st))
        | None => exists o, run_set data (Some st) cur acc k e name = (o, Some st) /\ is_ok o = false
        end
    | None => exists o, run_set data (Some st) cur acc k e name = (o, Some st) /\ is_ok o = false
    end.
  Proof.
    intros st r cur acc k e name Hag. unfold run_set.
    destruct (key_at data cur k) as [ks|] eqn:Hk.
    - destruct (key_at_some _ _ _ Hk) as [kv [Hkv Hks]].
      rewrite <- (arg_rd_regs st r cur e Hag). rewrite Hkv. cbn [bind].
      destruct (arg (env_rd data (Some st)) cur e) as [ev| | |] eqn:Hev; cbn [bind opt cast].
      + unfold set_var_func, guard. cbn [List.length Nat.eqb bind]. rewrite Hks. cbn [bind map_put].
        cbn [sel_store]. reflexivity.
      + exists Err. auto.
      + exists Panic. auto.
      + exists OutOfModel. auto.
    - destruct (key_at_none _ _ Hk) as [Hbad|[kv [Hkv Hbad]]].
      + destruct (arg (env_pure data) cur k); try discriminate Hbad; cbn [bind cast];
          eexists; auto.
      + rewrite Hkv. cbn [bind].
        destruct (arg (env_rd data (Some st)) cur e) as [ev| | |]; cbn [bind cast];
          try (eexists; split; reflexivity).
        unfold set_var_func, guard. cbn [List.length Nat.eqb bind].
        destruct (key_of kv); try discriminate Hbad; cbn [bind cast]; eexists; auto.
  Qed.

  (* ---------------- CASE: the branch taken ---------------- *)

  Lemma pick_choose : forall (whens : list (expr Q * branch Q)) els st r cur,
    agree st r ->
    match choose r (map (fun w => (guard_at data cur (fst w), act_at data cur (snd w))) whens)
                 (els_at data cur els) with
    | (l, None) => is_ok (pick data (Some st) cur whens els) = false
    | (l, Some a) =>
        exists ob, pick data (Some st) cur whens els = Ok ob /\ a = els_at data cur ob /\
                   forall rest, taken whens els (l ++ rest) = (ob, rest)
    end.
  Proof.
    induction whens as [|[c b] ws IH]; intros els st r cur Hag.
    - cbn [map choose pick]. exists els. split; [reflexivity|]. split; [reflexivity|].
      intros rest. reflexivity.
    - cbn [map choose pick fst snd]. unfold guard_at at 1.
      rewrite <- (eval_rd_regs st r cur c Hag).
      destruct (eval (env_rd data (Some st)) cur c) as [rc| | |]; cbn [bind opt]; try reflexivity.
      destruct rc as [[| [|] | | | |]| | | | |]; cbn [opt]; try reflexivity.
      + exists (Some b). split; [reflexivity|]. split; [reflexivity|]. intros rest. reflexivity.
      + specialize (IH els st r cur Hag).
        destruct (choose r (map (fun w => (guard_at data cur (fst w), act_at data cur (snd w))) ws)
                         (els_at data cur els)) as [l [a|]]; [|exact IH].
        destruct IH as [ob [Hp [Ha Ht]]]. exists ob. split; [exact Hp|]. split; [exact Ha|].
        intros rest. cbn [app taken]. apply Ht.
  Qed.

  (* ---------------- one select item ---------------- *)

  Lemma item_lin : forall (it : item) st r cur acc,
    agree st r ->
    let '(rs, r', ab) := run_reg r (ops data cur it) in
    exists o st', run_item data (Some st) cur acc it = (o, Some st') /\ agree st' r' /\
      (if ab then is_ok o = false
       else exists acc', o = Ok acc' /\
            forall items rest,
              assemble_row data cur (it :: items) (rs ++ rest) acc =
              assemble_row data cur items rest acc').
  Proof.
    intros it st r cur acc Hag. destruct it as [k e|k name|e name|whens els name]; cbn [ops].
    - (* SETVAR *)
      pose proof (set_lin st r cur acc k e "" Hag) as Hs. cbn [run_item].
      destruct (key_at data cur k) as [ks|] eqn:Hk; cbn [run_reg].
      + destruct (opt (arg (env_regs data r) cur e)) as [ev|].
        * rewrite Hs.
          exists (Ok acc), (obj_set ks ev st). split; [reflexivity|]. split; [apply agree_set; exact Hag|].
          exists acc. split; [reflexivity|]. intros items rest. reflexivity.
        * destruct Hs as [o [-> Ho]]. exists o, st. auto.
      + destruct Hs as [o [-> Ho]]. exists o, st. auto.
    - (* GETVAR *)
      destruct (key_at data cur k) as [ks|] eqn:Hk.
      + destruct (key_at_some _ _ _ Hk) as [kv [Hkv Hks]].
        cbn [run_reg run_item]. rewrite Hkv. cbn [bind].
        unfold get_var_func, guard. cbn [List.length Nat.eqb bind]. rewrite Hks. cbn [bind sel_store value_of].
        rewrite (agree_get st r ks Hag).
        exists (Ok (obj_set name (rd r ks) acc)), st. split; [reflexivity|]. split; [exact Hag|].
        eexists. split; [reflexivity|]. intros items rest. reflexivity.
      + cbn [run_reg run_item].
        destruct (key_at_none _ _ Hk) as [Hbad|[kv [Hkv Hbad]]].
        * destruct (arg (env_pure data) cur k); try discriminate Hbad; cbn [bind];
            eexists _, st; auto.
        * rewrite Hkv. cbn [bind]. unfold get_var_func, guard. cbn [List.length Nat.eqb bind].
          destruct (key_of kv); try discriminate Hbad; cbn [bind]; eexists _, st; auto.
    - (* pure item *)
      cbn [run_item]. unfold run_pure. rewrite sel_store_pure.
      destruct (pure_val data cur e) as [[v|]| | |] eqn:Hp; cbn [run_reg cast].
      + eexists _, st. split; [reflexivity|]. split; [exact Hag|].
        eexists. split; [reflexivity|]. intros items rest. cbn [app assemble_row]. rewrite Hp. reflexivity.
      + eexists _, st. split; [reflexivity|]. split; [exact Hag|].
        eexists. split; [reflexivity|]. intros items rest. cbn [app assemble_row]. rewrite Hp. reflexivity.
      + eexists _, st. auto.
      + eexists _, st. auto.
      + eexists _, st. auto.
    - (* CASE *)
      cbn [run_reg run_item]. unfold case_out.
      pose proof (pick_choose whens els st r cur Hag) as Hp.
      destruct (choose r (map (fun w => (guard_at data cur (fst w), act_at data cur (snd w))) whens)
                       (els_at data cur els)) as [l [a|]].
      + destruct Hp as [ob [Hpick [-> Htk]]]. rewrite Hpick.
        destruct ob as [[e|k e]|]; cbn [els_at act_at run_branch].
        * (* a call-free branch *)
          unfold run_pure. rewrite sel_store_pure.
          destruct (pure_val data cur e) as [[v|]| | |] eqn:Hpv; cbn [act_out wr_opt cast];
            try (eexists _, st; auto; fail).
          -- eexists _, st. split; [reflexivity|]. split; [exact Hag|].
             eexists. split; [reflexivity|]. intros items rest. rewrite app_nil_r.
             cbn [assemble_row]. rewrite Htk. cbn [branch_val]. rewrite Hpv. reflexivity.
          -- eexists _, st. split; [reflexivity|]. split; [exact Hag|].
             eexists. split; [reflexivity|]. intros items rest. rewrite app_nil_r.
             cbn [assemble_row]. rewrite Htk. cbn [branch_val]. rewrite Hpv. reflexivity.
        * (* a SETVAR branch *)
          pose proof (set_lin st r cur acc k e name Hag) as Hs.
          destruct (key_at data cur k) as [ks|] eqn:Hk; cbn [act_out].
          -- destruct (opt (arg (env_regs data r) cur e)) as [ev|]; cbn [wr_opt].
             ++ rewrite Hs.
                exists (Ok acc), (obj_set ks ev st). split; [reflexivity|].
                split; [apply agree_set; exact Hag|].
                exists acc. split; [reflexivity|]. intros items rest. rewrite app_nil_r.
                cbn [assemble_row]. rewrite Htk. reflexivity.
             ++ destruct Hs as [o [-> Ho]]. exists o, st. auto.
          -- destruct Hs as [o [-> Ho]]. exists o, st. auto.
        * (* no branch: NULL under the item's name *)
          cbn [act_out wr_opt].
          eexists _, st. split; [reflexivity|]. split; [exact Hag|].
          eexists. split; [reflexivity|]. intros items rest. rewrite app_nil_r.
          cbn [assemble_row]. rewrite Htk. reflexivity.
      + destruct (pick data (Some st) cur whens els); [discriminate Hp|..]; cbn [cast];
          eexists _, st; auto.
  Qed.

  (* ---------------- one row: items left to right ---------------- *)

  Lemma row_lin : forall (items : list item) st r cur acc,
    agree st r ->
    let '(rs, r', ab) := run_reg r (row_history data items cur) in
    exists o st', run_row data (Some st) cur items acc = (o, Some st') /\ agree st' r' /\
      (if ab then is_ok o = false
       else exists out, o = Ok out /\
            forall rest, assemble_row data cur items (rs ++ rest) acc = (out, rest)).
  Proof.
    induction items as [|it items IH]; intros st r cur acc Hag.
    - cbn [row_history flat_map run_reg run_row].
      exists (Ok acc), st. split; [reflexivity|]. split; [exact Hag|].
      exists acc. split; [reflexivity|]. intros rest. reflexivity.
    - unfold row_history. cbn [flat_map]. fold (row_history data items cur).
      rewrite run_reg_app.
      pose proof (item_lin it st r cur acc Hag) as Hit.
      destruct (run_reg r (ops data cur it)) as [[rs1 r1] ab1].
      destruct Hit as [o1 [st1 [Hrun [Hag1 Hres]]]].
      cbn [run_row]. rewrite Hrun.
      destruct ab1.
      + exists o1, st1. split; [destruct o1; [discriminate Hres|reflexivity..]|]. auto.
      + destruct Hres as [acc1 [-> Hasm]].
        specialize (IH st1 r1 cur acc1 Hag1).
        destruct (run_reg r1 (row_history data items cur)) as [[rs2 r2] ab2].
        destruct IH as [o2 [st2 [Hrun2 [Hag2 Hres2]]]].
        exists o2, st2. split; [exact Hrun2|]. split; [exact Hag2|].
        destruct ab2; [exact Hres2|].
        destruct Hres2 as [out [-> Hasm2]]. exists out. split; [reflexivity|].
        intros rest. rewrite <- app_assoc. rewrite Hasm. apply Hasm2.
  Qed.

  (* ---------------- the table: rows in source order ---------------- *)

  Lemma rows_lin : forall rows (items : list item) st r,
    agree st r ->
    let '(rs, r', ab) := run_reg r (query_history data items rows) in
    exists o st', run_rows data (Some st) items rows = (o, Some st') /\ agree st' r' /\
      (if ab then is_ok o = false
       else exists outs, o = Ok outs /\
            forall rest, assemble data items rows (rs ++ rest) = (outs, rest)).
  Proof.
    induction rows as [|cur rows IH]; intros items st r Hag.
    - cbn [query_history flat_map run_reg run_rows].
      exists (Ok []), st. split; [reflexivity|]. split; [exact Hag|].
      exists []. split; [reflexivity|]. intros rest. reflexivity.
    - unfold query_history. cbn [flat_map]. fold (query_history data items rows).
      rewrite run_reg_app.
      pose proof (row_lin items st r cur [] Hag) as Hrow.
      destruct (run_reg r (row_history data items cur)) as [[rs1 r1] ab1].
      destruct Hrow as [o1 [st1 [Hrun [Hag1 Hres]]]].
      cbn [run_rows]. rewrite Hrun.
      destruct ab1.
      + exists (cast o1), st1.
        split; [destruct o1; [discriminate Hres|reflexivity..]|].
        split; [exact Hag1|apply is_ok_cast].
      + destruct Hres as [out1 [-> Hasm]].
        specialize (IH items st1 r1 Hag1).
        destruct (run_reg r1 (query_history data items rows)) as [[rs2 r2] ab2].
        destruct IH as [o2 [st2 [Hrun2 [Hag2 Hres2]]]].
        rewrite Hrun2.
        destruct ab2.
        * exists o2, st2. split; [destruct o2; [discriminate Hres2|reflexivity..]|]. auto.
        * destruct Hres2 as [outs [-> Hasm2]].
          exists (Ok (out1 :: outs)), st2. split; [reflexivity|]. split; [exact Hag2|].
          exists (out1 :: outs). split; [reflexivity|].
          intros rest. cbn [assemble]. rewrite <- app_assoc. rewrite Hasm. rewrite Hasm2. reflexivity.
  Qed.

  (* ---------------- the query ---------------- *)

  Lemma exec_where_none : forall m rows, exec_where data m (@None (expr Q)) rows = Ok rows.
  Proof.
    intros m rows. induction rows as [|cur rows IH]; [reflexivity|].
    cbn [exec_where eval_cond bind]. rewrite IH. reflexivity.
  Qed.

  Lemma catch_panic_not_ok : forall A (x : res A), is_ok x = false -> is_ok (catch_panic x) = false.
  Proof. intros A x H. destruct x; [discriminate H|reflexivity..]. Qed.

  Theorem linearisation_where : forall st (q : query Q) rows kept,
    exec_where data (Some st) (q_where q) rows = Ok kept ->
    let '(rs, r', ab) := run_reg (abs st) (query_history data (q_items q) kept) in
    exists o st', run_query data (Some st) q rows = (o, Some st') /\
      (forall k, lookup k st' = r' k) /\
      (if ab then is_ok o = false else o = Ok (fst (assemble data (q_items q) kept rs))).
  Proof.
    intros st q rows kept Hw.
    pose proof (rows_lin kept (q_items q) st (abs st) (agree_abs st)) as H.
    destruct (run_reg (abs st) (query_history data (q_items q) kept)) as [[rs r'] ab].
    destruct H as [o [st' [Hrun [Hag Hres]]]].
    exists (catch_panic o), st'. unfold run_query. rewrite Hw, Hrun.
    split; [reflexivity|]. split; [exact Hag|].
    destruct ab.
    - apply catch_panic_not_ok. exact Hres.
    - destruct Hres as [outs [-> Hasm]]. cbn [catch_panic].
      specialize (Hasm []). rewrite app_nil_r in Hasm. rewrite Hasm. reflexivity.
  Qed.

  Theorem linearisation : forall st (q : query Q) rows,
    q_where q = None ->
    let '(rs, r', ab) := run_reg (abs st) (query_history data (q_items q) rows) in
    exists o st', run_query data (Some st) q rows = (o, Some st') /\
      (forall k, lookup k st' = r' k) /\
      (if ab then is_ok o = false else o = Ok (fst (assemble data (q_items q) rows rs))).
  Proof.
    intros st q rows Hn. apply linearisation_where. rewrite Hn. apply exec_where_none.
  Qed.

  (* a WHERE clause that fails leaves the store alone *)
  Theorem where_error_keeps_store : forall m (q : query Q) rows,
    is_ok (exec_where data m (q_where q) rows) = false ->
    snd (run_query data m q rows) = m /\ is_ok (fst (run_query data m q rows)) = false.
  Proof.
    intros m q rows H. unfold run_query.
    destruct (exec_where data m (q_where q) rows); [discriminate H| | |]; split; reflexivity.
  Qed.

  (* after the query: last write wins per key, untouched keys unchanged *)
  Theorem final_store : forall st (q : query Q) rows kept,
    exec_where data (Some st) (q_where q) rows = Ok kept ->
    exists st', snd (run_query data (Some st) q rows) = Some st' /\
      forall k, lookup k st' =
                match last_write k (writes (abs st) (query_history data (q_items q) kept)) with
                | Some v => Some v
                | None => lookup k st
                end.
  Proof.
    intros st q rows kept Hw.
    pose proof (linearisation_where st q rows kept Hw) as H.
    pose proof (regs_after_writes (query_history data (q_items q) kept) (abs st)) as Hlw.
    destruct (run_reg (abs st) (query_history data (q_items q) kept)) as [[rs r'] ab].
    destruct H as [o [st' [Hrun [Hag _]]]].
    exists st'. rewrite Hrun. split; [reflexivity|].
    intros k. rewrite Hag. exact (Hlw k).
  Qed.

  (* ---------------- the output rows ---------------- *)

  Lemma set_var_func_omit : forall m args x m', set_var_func m args = Ok (x, m') -> x = ROmit.
  Proof.
    intros m args x m' H. unfold set_var_func in H.
    destruct (guard 2 args) as [u| | |]; cbn [bind] in H; try discriminate H.
    destruct args as [|a [|v l]]; try discriminate H.
    destruct (key_of a) as [ks| | |]; cbn [bind] in H; try discriminate H.
    destruct (map_put ks v m); cbn [bind] in H; try discriminate H.
    inversion H. reflexivity.
  Qed.

  Lemma env_pure_no_omit : forall cur (e : expr Q), eval (env_pure data) cur e <> Ok ROmit.
  Proof.
    intros cur e. apply eval_no_omit; intros; cbn [env_pure mk_env e_agg e_call]; unfold call_pure; discriminate.
  Qed.

  Lemma sel_store_keys : forall cur acc name x out,
    x <> ROmit -> sel_store cur acc name x = Ok out ->
    forall n, In n (keys out) <-> n = name \/ In n (keys acc).
  Proof.
    intros cur acc name x out Hx H n.
    assert (Hv : exists v, out = obj_set name v acc).
    { destruct x; cbn [sel_store] in H; try (exfalso; apply Hx; reflexivity);
        match type of H with bind ?a _ = _ => destruct a as [vv| | |]; cbn [bind] in H; try discriminate H end;
        inversion H; eexists; reflexivity. }
    destruct Hv as [v ->]. apply c20_keys_set.
  Qed.

  Lemma run_set_acc : forall m cur acc (k e : expr Q) name out m',
    run_set data m cur acc k e name = (Ok out, m') -> out = acc.
  Proof.
    intros m cur acc k e name out m' H. unfold run_set in H.
    destruct (let! kv := arg (env_pure data) cur k in
              let! ev := arg (env_rd data m) cur e in set_var_func m [kv; ev]) as [[x m1]| | |] eqn:Hs;
      cbn [cast] in H; try (inversion H; fail).
    assert (x = ROmit).
    { destruct (arg (env_pure data) cur k); cbn [bind] in Hs; try discriminate Hs.
      destruct (arg (env_rd data m) cur e); cbn [bind] in Hs; try discriminate Hs.
      eapply set_var_func_omit; exact Hs. }
    subst x. cbn [sel_store] in H. inversion H. reflexivity.
  Qed.

  (* the item's name does not matter to a SETVAR: what it returns is the Ommit marker *)
  Lemma run_set_name : forall m cur acc (k e : expr Q) name name',
    run_set data m cur acc k e name = run_set data m cur acc k e name'.
  Proof.
    intros m cur acc k e name name'. unfold run_set.
    destruct (let! kv := arg (env_pure data) cur k in
              let! ev := arg (env_rd data m) cur e in set_var_func m [kv; ev]) as [[x m1]| | |] eqn:Hs;
      try reflexivity.
    assert (x = ROmit).
    { destruct (arg (env_pure data) cur k); cbn [bind] in Hs; try discriminate Hs.
      destruct (arg (env_rd data m) cur e); cbn [bind] in Hs; try discriminate Hs.
      eapply set_var_func_omit; exact Hs. }
    subst x. reflexivity.
  Qed.

  Lemma run_pure_keys : forall cur acc (e : expr Q) name out,
    run_pure data cur acc e name = Ok out ->
    forall n, In n (keys out) <-> n = name \/ In n (keys acc).
  Proof.
    intros cur acc e name out H. unfold run_pure in H.
    destruct (eval (env_pure data) cur e) as [x| | |] eqn:He; cbn [bind] in H; try discriminate H.
    assert (Hx : x <> ROmit) by (intro; subst x; exact (env_pure_no_omit _ _ He)).
    exact (sel_store_keys _ _ _ _ _ Hx H).
  Qed.

  (* the key set after one item: what was there, plus the column the item produces on this row *)
  Lemma item_keys : forall (it : item) m cur acc out m',
    run_item data m cur acc it = (Ok out, m') ->
    forall n, In n (keys out) <-> In n (keys acc) \/ In n (item_cols data m cur it).
  Proof.
    intros it m cur acc out m' H n.
    destruct it as [k e|k name|e name|whens els name]; cbn [run_item item_cols] in *.
    - rewrite (run_set_acc _ _ _ _ _ _ _ _ H). cbn [In]. intuition.
    - inversion H as [[H1 H2]]. clear H.
      destruct (arg (env_pure data) cur k) as [kv| | |]; cbn [bind] in H1; try discriminate H1.
      unfold get_var_func in H1. destruct (guard 1 [kv]); cbn [bind] in H1; try discriminate H1.
      destruct (key_of kv) as [ks| | |]; cbn [bind] in H1; try discriminate H1.
      assert (Hx : RVal (map_get ks m) <> ROmit) by discriminate.
      rewrite (sel_store_keys _ _ _ _ _ Hx H1). cbn [In]. intuition.
    - inversion H as [[H1 H2]]. clear H.
      rewrite (run_pure_keys _ _ _ _ _ H1). cbn [In]. intuition.
    - destruct (pick data m cur whens els) as [[[e|k e]|]| | |]; cbn [cast run_branch] in H;
        try (inversion H; fail).
      + inversion H as [[H1 H2]]. rewrite (run_pure_keys _ _ _ _ _ H1). cbn [In]. intuition.
      + rewrite (run_set_acc _ _ _ _ _ _ _ _ H). cbn [In]. intuition.
      + assert (H1 : run_pure data cur acc (@ENull Q) name = Ok out) by (inversion H; reflexivity).
        rewrite (run_pure_keys _ _ _ _ _ H1). cbn [In]. intuition.
  Qed.

  (* the map an item leaves does not depend on the output row under construction *)
  Lemma run_item_store_acc : forall (it : item) m cur acc acc',
    snd (run_item data m cur acc it) = snd (run_item data m cur acc' it).
  Proof.
    assert (Hs : forall m cur acc acc' (k e : expr Q) name,
               snd (run_set data m cur acc k e name) = snd (run_set data m cur acc' k e name)).
    { intros m cur acc acc' k e name. unfold run_set.
      destruct (let! kv := arg (env_pure data) cur k in
                let! ev := arg (env_rd data m) cur e in set_var_func m [kv; ev]) as [[x m1]| | |];
        reflexivity. }
    intros it m cur acc acc'. destruct it as [k e|k name|e name|whens els name]; cbn [run_item];
      try reflexivity.
    - apply Hs.
    - destruct (pick data m cur whens els) as [[[e|k e]|]| | |]; cbn [run_branch]; try reflexivity.
      apply Hs.
  Qed.

  (* the key set of an output row: what was there, plus the columns the items produce on this row
     (every item but the SETVARs and the CASE items that take a SETVAR branch) *)
  Theorem setvar_no_column : forall (items : list item) m cur acc out m',
    run_row data m cur items acc = (Ok out, m') ->
    forall n, In n (keys out) <-> In n (keys acc) \/ In n (row_cols data m cur items).
  Proof.
    induction items as [|it items IH]; intros m cur acc out m' H n.
    - cbn [run_row] in H. inversion H. subst. cbn [row_cols In]. intuition.
    - cbn [run_row] in H.
      destruct (run_item data m cur acc it) as [[acc1| | |] m1] eqn:Hit; try (inversion H; fail).
      rewrite (IH _ _ _ _ _ H). rewrite (item_keys _ _ _ _ _ _ Hit).
      cbn [row_cols]. rewrite in_app_iff.
      rewrite (run_item_store_acc it m cur [] acc). rewrite Hit. cbn [snd]. intuition.
  Qed.

  Theorem setvar_no_column_rows : forall rows (items : list item) m outs m',
    run_rows data m items rows = (Ok outs, m') ->
    Forall2 (fun out cols => forall n, In n (keys out) <-> In n cols)
            outs (rows_cols data m items rows).
  Proof.
    induction rows as [|cur rows IH]; intros items m outs m' H.
    - cbn [run_rows] in H. inversion H. constructor.
    - cbn [run_rows] in H.
      destruct (run_row data m cur items []) as [[o| | |] m1] eqn:Hr; cbn [cast] in H; try (inversion H; fail).
      destruct (run_rows data m1 items rows) as [[os| | |] m2] eqn:Hrs; try (inversion H; fail).
      inversion H. subst. cbn [rows_cols]. rewrite Hr. cbn [snd]. constructor.
      + intros n. rewrite (setvar_no_column _ _ _ _ _ _ Hr n). cbn [keys map In]. intuition.
      + eapply IH. exact Hrs.
  Qed.

  (* no CASE item: the columns are the same on every row, whatever the map (the statements as they
     were before CASE items existed) *)
  Lemma row_cols_case_free : forall (items : list item) m cur,
    case_free items -> row_cols data m cur items = item_names items.
  Proof.
    induction items as [|it items IH]; intros m cur Hc; [reflexivity|].
    destruct it as [k e|k name|e name|whens els name]; cbn [case_free] in Hc; [..|contradiction];
      cbn [row_cols item_cols item_names app]; rewrite (IH _ _ Hc); reflexivity.
  Qed.

  (* whatever the branches taken, no column other than the items' names appears *)
  Lemma row_cols_names : forall (items : list item) m cur n,
    In n (row_cols data m cur items) -> In n (item_names items).
  Proof.
    induction items as [|it items IH]; intros m cur n H; [exact H|].
    cbn [row_cols] in H. apply in_app_or in H. destruct H as [H|H].
    - destruct it as [k e|k name|e name|whens els name]; cbn [item_cols item_names] in *.
      + destruct H.
      + destruct H as [H|[]]. left. exact H.
      + destruct H as [H|[]]. left. exact H.
      + destruct (pick data m cur whens els) as [[[e|k e]|]| | |]; cbn [In] in H;
          try (destruct H as [H|[]]; left; exact H). destruct H.
    - apply IH in H. destruct it; cbn [item_names In]; auto.
  Qed.

  Theorem setvar_no_column_static : forall (items : list item) m cur acc out m',
    case_free items ->
    run_row data m cur items acc = (Ok out, m') ->
    forall n, In n (keys out) <-> In n (keys acc) \/ In n (item_names items).
  Proof.
    intros items m cur acc out m' Hc H n.
    rewrite (setvar_no_column _ _ _ _ _ _ H n). rewrite (row_cols_case_free _ _ _ Hc). reflexivity.
  Qed.

  Theorem setvar_no_foreign_column : forall (items : list item) m cur acc out m',
    run_row data m cur items acc = (Ok out, m') ->
    forall n, In n (keys out) -> In n (keys acc) \/ In n (item_names items).
  Proof.
    intros items m cur acc out m' H n Hn.
    apply (setvar_no_column _ _ _ _ _ _ H n) in Hn. destruct Hn as [Hn|Hn]; [left; exact Hn|].
    right. eapply row_cols_names. exact Hn.
  Qed.

  Theorem setvar_no_column_rows_static : forall rows (items : list item) m outs m',
    case_free items ->
    run_rows data m items rows = (Ok outs, m') ->
    Forall (fun out => forall n, In n (keys out) <-> In n (item_names items)) outs.
  Proof.
    induction rows as [|cur rows IH]; intros items m outs m' Hc H.
    - cbn [run_rows] in H. inversion H. constructor.
    - cbn [run_rows] in H.
      destruct (run_row data m cur items []) as [[o| | |] m1] eqn:Hr; cbn [cast] in H; try (inversion H; fail).
      destruct (run_rows data m1 items rows) as [[os| | |] m2] eqn:Hrs; try (inversion H; fail).
      inversion H. subst. constructor.
      + intros n. rewrite (setvar_no_column_static _ _ _ _ _ _ Hc Hr n). cbn [keys map In]. intuition.
      + eapply IH; [exact Hc|exact Hrs].
  Qed.

  (* ---------------- CASE items: the branch taken decides ---------------- *)

  Theorem pick_nil : forall m cur (els : option (branch Q)), pick data m cur [] els = Ok els.
  Proof. reflexivity. Qed.

  Theorem pick_true : forall m cur (c : expr Q) b ws els,
    eval (env_rd data m) cur c = Ok (RVal (VBool true)) ->
    pick data m cur ((c, b) :: ws) els = Ok (Some b).
  Proof. intros m cur c b ws els H. cbn [pick]. rewrite H. reflexivity. Qed.

  Theorem pick_false : forall m cur (c : expr Q) b ws els,
    eval (env_rd data m) cur c = Ok (RVal (VBool false)) ->
    pick data m cur ((c, b) :: ws) els = pick data m cur ws els.
  Proof. intros m cur c b ws els H. cbn [pick]. rewrite H. reflexivity. Qed.

  (* (a) a CASE item whose taken branch is a call-free expression IS the pure item  e AS name  on
     that row; the map is left alone *)
  Theorem case_takes_expr : forall m cur acc whens els name (e : expr Q),
    pick data m cur whens els = Ok (Some (BExpr e)) ->
    run_item data m cur acc (VCase whens els name) = run_item data m cur acc (VPure e name) /\
    snd (run_item data m cur acc (VCase whens els name)) = m.
  Proof.
    intros m cur acc whens els name e H. cbn [run_item]. rewrite H. cbn [run_branch snd]. auto.
  Qed.

  (* (b) a CASE item whose taken branch is SETVAR(k, v) IS the item SETVAR(k, v) on that row: same
     outcome, same map afterwards; and when it succeeds the output row is untouched (no column) *)
  Theorem case_takes_set : forall m cur acc whens els name (k v : expr Q),
    pick data m cur whens els = Ok (Some (BSet k v)) ->
    run_item data m cur acc (VCase whens els name) = run_item data m cur acc (VSet k v) /\
    (forall out m', run_item data m cur acc (VCase whens els name) = (Ok out, m') -> out = acc).
  Proof.
    intros m cur acc whens els name k v H. cbn [run_item]. rewrite H. cbn [run_branch].
    split; [apply run_set_name|]. intros out m' Hr. eapply run_set_acc. exact Hr.
  Qed.

  (* no condition holds and there is no ELSE: NULL under the item's name, the map is left alone *)
  Theorem case_takes_nothing : forall m cur acc (whens : list (expr Q * branch Q)) name,
    pick data m cur whens (@None (branch Q)) = Ok None ->
    run_item data m cur acc (VCase whens None name) = (Ok (obj_set name VNull acc), m).
  Proof. intros m cur acc whens name H. cbn [run_item]. rewrite H. reflexivity. Qed.

  (* a condition that fails, or is not a truth value: the item fails, the map is left alone *)
  Theorem case_cond_fails : forall m cur acc (whens : list (expr Q * branch Q)) els name,
    is_ok (pick data m cur whens els) = false ->
    is_ok (fst (run_item data m cur acc (VCase whens els name))) = false /\
    snd (run_item data m cur acc (VCase whens els name)) = m.
  Proof.
    intros m cur acc whens els name H. cbn [run_item].
    destruct (pick data m cur whens els); [discriminate H|..]; split; reflexivity.
  Qed.

  (* the store effect of SETVAR(k, v), as an item or as the branch a CASE item takes *)
  Theorem setvar_effect : forall st cur acc (k v : expr Q) kv ks vv,
    arg (env_pure data) cur k = Ok kv -> key_of kv = Ok ks ->
    arg (env_rd data (Some st)) cur v = Ok vv ->
    run_item data (Some st) cur acc (VSet k v) = (Ok acc, Some (obj_set ks vv st)).
  Proof.
    intros st cur acc k v kv ks vv Hk Hks Hv. cbn [run_item]. unfold run_set.
    rewrite Hk. cbn [bind]. rewrite Hv. cbn [bind].
    unfold set_var_func, guard. cbn [List.length Nat.eqb bind]. rewrite Hks. reflexivity.
  Qed.

  Theorem case_set_effect : forall st cur acc whens els name (k v : expr Q) kv ks vv,
    pick data (Some st) cur whens els = Ok (Some (BSet k v)) ->
    arg (env_pure data) cur k = Ok kv -> key_of kv = Ok ks ->
    arg (env_rd data (Some st)) cur v = Ok vv ->
    run_item data (Some st) cur acc (VCase whens els name) = (Ok acc, Some (obj_set ks vv st)).
  Proof.
    intros st cur acc whens els name k v kv ks vv Hp Hk Hks Hv.
    rewrite (proj1 (case_takes_set _ _ _ _ _ _ _ _ Hp)). eapply setvar_effect; eassumption.
  Qed.

  (* the two-armed forms, read off the condition *)
  Theorem case_then_set : forall m cur acc (c k v e : expr Q) name,
    (eval (env_rd data m) cur c = Ok (RVal (VBool true)) ->
     run_item data m cur acc (VCase [(c, BSet k v)] (Some (BExpr e)) name) =
     run_item data m cur acc (VSet k v)) /\
    (eval (env_rd data m) cur c = Ok (RVal (VBool false)) ->
     run_item data m cur acc (VCase [(c, BSet k v)] (Some (BExpr e)) name) =
     run_item data m cur acc (VPure e name)).
  Proof.
    intros m cur acc c k v e name. split; intros H.
    - apply case_takes_set. apply pick_true. exact H.
    - apply case_takes_expr. rewrite (pick_false _ _ _ _ _ _ H). reflexivity.
  Qed.

  Theorem case_else_set : forall m cur acc (c k v e : expr Q) name,
    (eval (env_rd data m) cur c = Ok (RVal (VBool true)) ->
     run_item data m cur acc (VCase [(c, BExpr e)] (Some (BSet k v)) name) =
     run_item data m cur acc (VPure e name)) /\
    (eval (env_rd data m) cur c = Ok (RVal (VBool false)) ->
     run_item data m cur acc (VCase [(c, BExpr e)] (Some (BSet k v)) name) =
     run_item data m cur acc (VSet k v)).
  Proof.
    intros m cur acc c k v e name. split; intros H.
    - apply case_takes_expr. apply pick_true. exact H.
    - apply case_takes_set. rewrite (pick_false _ _ _ _ _ _ H). reflexivity.
  Qed.

  (* ---------------- concrete read-after-write and unset reads ---------------- *)

  Lemma arg_str : forall (E : env Q) cur s, arg E cur (EStr s) = Ok (VStr s).
  Proof. reflexivity. Qed.

  Theorem set_then_get_row : forall st cur k (e : expr Q) name v,
    arg (env_rd data (Some st)) cur e = Ok v ->
    run_row data (Some st) cur [VSet (EStr k) e; VGet (EStr k) name] [] =
    (Ok [(name, v)], Some (obj_set k v st)).
  Proof.
    intros st cur k e name v He.
    cbn [run_row run_item]. unfold run_set. rewrite !arg_str. cbn [bind]. rewrite He. cbn [bind].
    unfold set_var_func, get_var_func, guard, key_of, fmt_res.
    cbn [List.length Nat.eqb bind fmt_value map_put sel_store map_get value_of].
    rewrite c20_lookup_set_same. reflexivity.
  Qed.

  Theorem unset_is_null : forall st cur k name,
    lookup k st = None ->
    run_row data (Some st) cur [@VGet Q (EStr k) name] [] = (Ok [(name, VNull)], Some st).
  Proof.
    intros st cur k name H.
    cbn [run_row run_item]. rewrite arg_str. cbn [bind].
    unfold get_var_func, guard, key_of, fmt_res.
    cbn [List.length Nat.eqb bind fmt_value sel_store map_get value_of]. rewrite H. reflexivity.
  Qed.

  (* ---------------- without WithVars ---------------- *)

  Lemma run_item_nil : forall (it : item) cur acc, snd (run_item data None cur acc it) = None.
  Proof.
    assert (Hs : forall cur acc (k e : expr Q) name, snd (run_set data None cur acc k e name) = None).
    { intros cur acc k e name. unfold run_set.
      destruct (arg (env_pure data) cur k); cbn [bind]; try reflexivity.
      destruct (arg (env_rd data None) cur e); cbn [bind]; try reflexivity.
      unfold set_var_func. destruct (guard 2 [a; a0]); cbn [bind]; try reflexivity.
      destruct (key_of a); reflexivity. }
    intros it cur acc. destruct it as [k e|k name|e name|whens els name]; cbn [run_item]; try reflexivity.
    - apply Hs.
    - destruct (pick data None cur whens els) as [[[e|k e]|]| | |]; cbn [run_branch]; try reflexivity.
      apply Hs.
  Qed.

  Theorem setvar_nil_map_fails : forall cur acc (k e : expr Q),
    is_ok (fst (run_item data None cur acc (VSet k e))) = false.
  Proof.
    intros cur acc k e. cbn [run_item]. unfold run_set.
    destruct (arg (env_pure data) cur k); cbn [bind]; try reflexivity.
    destruct (arg (env_rd data None) cur e); cbn [bind]; try reflexivity.
    unfold set_var_func. destruct (guard 2 [a; a0]); cbn [bind]; try reflexivity.
    destruct (key_of a); reflexivity.
  Qed.

  (* the same for a SETVAR reached through a CASE item *)
  Theorem case_set_nil_map_fails : forall cur acc whens els name (k e : expr Q),
    pick data None cur whens els = Ok (Some (BSet k e)) ->
    is_ok (fst (run_item data None cur acc (VCase whens els name))) = false.
  Proof.
    intros cur acc whens els name k e H.
    rewrite (proj1 (case_takes_set _ _ _ _ _ _ _ _ H)). apply setvar_nil_map_fails.
  Qed.

  (* exec()'s recover frame: no panic escapes, whatever the map *)
  Theorem no_panic : forall m (q : query Q) rows, fst (run_query data m q rows) <> Panic.
  Proof.
    intros m q rows. unfold run_query.
    destruct (exec_where data m (q_where q) rows) as [kept| | |]; cbn [catch_panic fst]; try discriminate.
    destruct (run_rows data m (q_items q) kept) as [o m']. cbn [fst]. destruct o; discriminate.
  Qed.

  (* ---------------- sequences of queries sharing one map ---------------- *)

  Definition plain_seq (qs : list (query Q * list row)) : list (list item * list row) :=
    map (fun q => (q_items (fst q), snd q)) qs.

  Definition final_vars (m : vars) (l : list (res (list row) * vars)) : vars :=
    last (map snd l) m.

  Lemma run_queries_step : forall m (q : query Q) rows qs,
    run_queries data m ((q, rows) :: qs) =
    (let '(o, m') := run_query data m q rows in (o, m') :: run_queries data m' qs).
  Proof. reflexivity. Qed.

  Lemma last_cons_cons : forall A (a : A) l d, last (a :: l) d = last l a.
  Proof.
    intros A a l. revert a. induction l as [|b l IH]; intros a d; [reflexivity|].
    change (last (a :: b :: l) d) with (last (b :: l) d). rewrite !IH. reflexivity.
  Qed.

  Theorem across_queries : forall (qs : list (query Q * list row)) st,
    Forall (fun q => q_where (fst q) = None) qs ->
    let '(rs, r', ab) := run_reg (abs st) (seq_history data (plain_seq qs)) in
    ab = false ->
    exists st', final_vars (Some st) (run_queries data (Some st) qs) = Some st' /\
      (forall k, lookup k st' = r' k) /\
      map fst (run_queries data (Some st) qs) = map Ok (assemble_seq data (plain_seq qs) rs).
  Proof.
    intros qs st Hw.
    assert (G : forall r, agree st r ->
      let '(rs, r', ab) := run_reg r (seq_history data (plain_seq qs)) in
      ab = false ->
      exists st', final_vars (Some st) (run_queries data (Some st) qs) = Some st' /\
        agree st' r' /\
        forall rest, map fst (run_queries data (Some st) qs) =
                     map Ok (assemble_seq data (plain_seq qs) (rs ++ rest))).
    2:{ specialize (G (abs st) (agree_abs st)).
        destruct (run_reg (abs st) (seq_history data (plain_seq qs))) as [[rs r'] ab].
        intros Hab. destruct (G Hab) as [st' [Hf [Hag Hm]]]. exists st'. split; [exact Hf|].
        split; [exact Hag|]. specialize (Hm []). rewrite app_nil_r in Hm. exact Hm. }
    revert st. induction Hw as [|[q rows] qs Hq _ IH]; intros st r Hag.
    - cbn. intros _. exists st. split; [reflexivity|]. split; [exact Hag|]. reflexivity.
    - cbn [fst] in Hq. cbn [plain_seq map fst snd]. fold (plain_seq qs).
      unfold seq_history. cbn [flat_map fst snd]. fold (seq_history data (plain_seq qs)).
      rewrite run_reg_app.
      pose proof (rows_lin rows (q_items q) st r Hag) as H1.
      destruct (run_reg r (query_history data (q_items q) rows)) as [[rs1 r1] ab1].
      destruct H1 as [o1 [st1 [Hrun [Hag1 Hres]]]].
      destruct ab1; [intros Hab; discriminate Hab|].
      destruct Hres as [outs [-> Hasm]].
      specialize (IH st1 r1 Hag1).
      destruct (run_reg r1 (seq_history data (plain_seq qs))) as [[rs2 r2] ab2].
      intros Hab. destruct (IH Hab) as [st' [Hf [Hag2 Hm]]].
      rewrite run_queries_step. unfold run_query. rewrite Hq, exec_where_none, Hrun. cbn [catch_panic].
      exists st'. split.
      { unfold final_vars in *. cbn [map snd]. rewrite last_cons_cons. exact Hf. }
      split; [exact Hag2|].
      intros rest. cbn [map fst assemble_seq]. rewrite <- app_assoc. rewrite Hasm.
      cbn [map]. f_equal. apply Hm.
  Qed.
End Lin.
