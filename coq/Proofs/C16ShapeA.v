(* Proofs/C16ShapeA.v -- sanitizer side of C16_shape: the parts of [lex] split at the first
   placeholder:  lex (r ++ "$" ++ ds ++ t') = PRaw r :: PArg (number of ds) :: lex t'. *)
From Coq Require Import Lia ZifyBool ZifyN ZifyNat.
From GenqlV Require Import Base.Prelude Model.MySqlString Model.Sanitizer Spec.C16Spec
  Proofs.C16Bytes Proofs.C16SimA Proofs.C16SimB Proofs.C16Pos Proofs.C16Tokens.
Local Open Scope string_scope.
Local Open Scope bool_scope.
Local Opaque code wrap64.

(* the text before the first placeholder the lexer starts, and the text after its '$' *)
Fixpoint split_ph (s : sstate) (t : bytes) : option (bytes * bytes) :=
  match t with
  | EmptyString => None
  | String c rest =>
      if enters_place s c rest then Some (EmptyString, rest)
      else match split_ph (snext s c rest) rest with
           | Some (r, rest1) => Some (String c r, rest1)
           | None => None
           end
  end.

Fixpoint take_digits (s : bytes) : bytes :=
  match s with
  | String c r => if is_digit c then String c (take_digits r) else EmptyString
  | EmptyString => EmptyString
  end.

(* placeholderState's accumulation: num = num*10 + digit, in Go int arithmetic *)
Fixpoint accw (n : Z) (ds : bytes) : Z :=
  match ds with
  | EmptyString => n
  | String c r => accw (wrap64 (n * 10 + digit_val c)) r
  end.

Lemma take_skip s : s = take_digits s ++ skip_digits s.
Proof. induction s as [|c r IH]; [reflexivity|]. cbn. destruct (is_digit c); cbn; congruence. Qed.

Lemma take_all_digits s : all_digits (take_digits s) = true.
Proof. induction s as [|c r IH]; [reflexivity|]. cbn. destruct (is_digit c) eqn:E; cbn; [now rewrite E|reflexivity]. Qed.

Lemma skip_no_digit s : nxt_sat (skip_digits s) is_digit = false.
Proof. induction s as [|c r IH]; [reflexivity|]. cbn. destruct (is_digit c) eqn:E; [exact IH|]. cbn. exact E. Qed.

Lemma take_nonempty s : nxt_sat s is_digit = true -> take_digits s <> EmptyString.
Proof. destruct s as [|c r]; [discriminate|]. cbn. intros ->. discriminate. Qed.

Lemma take_length s : String.length (take_digits s) = count_digits s.
Proof. induction s as [|c r IH]; [reflexivity|]. cbn. destruct (is_digit c); cbn; congruence. Qed.

Lemma no_place_step s c rest :
  to_place s = false -> enters_place s c rest = false -> to_place (snext s c rest) = false.
Proof.
  intros Hs He. destruct s as [ctl| |k ctl|ctl|ctl]; try discriminate.
  - destruct ctl; try (apply snext_no_place; congruence). exact He.
  - apply snext_no_place; congruence.
  - apply snext_no_place; congruence.
  - apply snext_no_place; congruence.
Qed.

Lemma enters_is_dollar s c rest : enters_place s c rest = true -> c = "$"%char /\ nxt_sat rest is_digit = true.
Proof.
  intro H. assert (Hp : ph_here c rest = true).
  { destruct s as [[]| | | |]; cbn [enters_place] in H; try discriminate; rewrite run_next_place in H.
    - exact H.
    - apply andb_prop in H. tauto. }
  unfold ph_here in Hp. apply andb_prop in Hp. destruct Hp as [Hc Hd]. apply is_true_iff in Hc. auto.
Qed.

Lemma snoc_app acc c r : snoc acc c ++ r = acc ++ String c r.
Proof. unfold snoc. now rewrite app_assoc_s. Qed.

(* one step of a non-placeholder state that does not start a placeholder only extends acc *)
Lemma sdata_plain s acc num c rest :
  to_place s = false -> enters_place s c rest = false ->
  exists num', sdata s acc num c rest = ([], (snoc acc c, num')).
Proof.
  intros Hs He. destruct s as [ctl| |k ctl|ctl|ctl]; try discriminate; cbn [sdata]; eauto.
  unfold run_data. destruct ctl.
  - cbn [enters_place] in He. destruct (run_next CRaw c rest); try discriminate; eauto.
  - pose proof (snext_no_place (SRun CSQ) c rest ltac:(congruence) ltac:(congruence)) as H. cbn [snext] in H.
    destruct (run_next CSQ c rest); try discriminate; eauto.
  - pose proof (snext_no_place (SRun CDQ) c rest ltac:(congruence) ltac:(congruence)) as H. cbn [snext] in H.
    destruct (run_next CDQ c rest); try discriminate; eauto.
  - pose proof (snext_no_place (SRun CEsc) c rest ltac:(congruence) ltac:(congruence)) as H. cbn [snext] in H.
    destruct (run_next CEsc c rest); try discriminate; eauto.
  - pose proof (snext_no_place (SRun CBT) c rest ltac:(congruence) ltac:(congruence)) as H. cbn [snext] in H.
    destruct (run_next CBT c rest); try discriminate; eauto.
  - pose proof (snext_no_place (SRun CLine) c rest ltac:(congruence) ltac:(congruence)) as H. cbn [snext] in H.
    destruct (run_next CLine c rest); try discriminate; eauto.
  - pose proof (snext_no_place (SRun CBlock) c rest ltac:(congruence) ltac:(congruence)) as H. cbn [snext] in H.
    destruct (run_next CBlock c rest); try discriminate; eauto.
Qed.

Definition raw_part (x : bytes) : list part := match x with EmptyString => [] | _ => [PRaw x] end.

Lemma sfinish_plain s acc num : to_place s = false -> sfinish s acc num = raw_part acc.
Proof. destruct s; try discriminate; destruct acc; reflexivity. Qed.

(* no placeholder at all: the whole text is one raw part *)
Lemma split_none : forall t s acc num,
  to_place s = false -> split_ph s t = None ->
  lex_from s acc num t = raw_part (acc ++ t).
Proof.
  induction t as [|c rest IH]; intros s acc num Hs Hsp.
  - cbn [lex_from]. rewrite app_nil_r_s. now apply sfinish_plain.
  - cbn [split_ph] in Hsp. destruct (enters_place s c rest) eqn:He; [discriminate|].
    destruct (split_ph (snext s c rest) rest) as [[r rest1]|] eqn:Hrec; [discriminate|].
    cbn [lex_from]. destruct (sdata_plain s acc num c rest Hs He) as [num' ->]. cbn [app].
    rewrite (IH _ (snoc acc c) num' (no_place_step _ _ _ Hs He) Hrec). now rewrite snoc_app.
Qed.

Lemma split_some : forall t s acc num r rest1,
  to_place s = false -> split_ph s t = Some (r, rest1) ->
  t = r ++ String "$" rest1 /\ nxt_sat rest1 is_digit = true /\
  lex_from s acc num t = PRaw (acc ++ r) :: lex_from SPlace EmptyString 0%Z rest1.
Proof.
  induction t as [|c rest IH]; intros s acc num r rest1 Hs Hsp; [discriminate|].
  cbn [split_ph] in Hsp. destruct (enters_place s c rest) eqn:He.
  - inversion Hsp; subst r rest1. destruct (enters_is_dollar _ _ _ He) as [-> Hd].
    split; [reflexivity|]. split; [exact Hd|].
    destruct s as [[]| | | |]; try discriminate. cbn [enters_place] in He.
    cbn [lex_from sdata snext]. unfold run_data. destruct (run_next CRaw "$" rest); try discriminate.
    cbn [app]. now rewrite app_nil_r_s.
  - destruct (split_ph (snext s c rest) rest) as [[r' rest1']|] eqn:Hrec; [|discriminate].
    inversion Hsp; subst r rest1.
    destruct (sdata_plain s acc num c rest Hs He) as [num' Hd].
    destruct (IH _ (snoc acc c) num' _ _ (no_place_step _ _ _ Hs He) Hrec) as [Ht [Hdig Hl]].
    split; [cbn; congruence|]. split; [exact Hdig|].
    cbn [lex_from]. rewrite Hd. cbn [app]. rewrite Hl. now rewrite snoc_app.
Qed.

(* outside placeholderState the value of num is never read *)
Lemma num_irrelevant : forall t s acc n n',
  to_place s = false -> lex_from s acc n t = lex_from s acc n' t.
Proof.
  induction t as [|c rest IH]; intros s acc n n' Hs.
  - cbn [lex_from]. now rewrite !sfinish_plain.
  - cbn [lex_from]. destruct (enters_place s c rest) eqn:He.
    + destruct s as [[]| | | |]; try discriminate. cbn [enters_place] in He. cbn [sdata snext]. unfold run_data.
      destruct (run_next CRaw c rest); try discriminate. reflexivity.
    + destruct (sdata_plain s acc n c rest Hs He) as [k ->].
      destruct (sdata_plain s acc n' c rest Hs He) as [k' ->]. cbn [app].
      apply IH. now apply no_place_step.
Qed.

(* the digits of a placeholder, then the rest is lexed from rawState with an empty accumulator *)
Lemma place_block : forall ds t' n,
  all_digits ds = true -> nxt_sat t' is_digit = false ->
  lex_from SPlace EmptyString n (ds ++ t') = PArg (accw n ds) :: lex t'.
Proof.
  induction ds as [|d r IH]; intros t' n Hd Ht.
  - cbn [append accw]. destruct t' as [|f rest].
    + reflexivity.
    + cbn [nxt_sat] in Ht. cbn [lex_from sdata snext]. rewrite Ht.
      unfold lex. rewrite (num_irrelevant (String f rest) (SRun CRaw) EmptyString 0%Z n eq_refl).
      cbn [lex_from sdata snext].
      destruct (run_data CRaw EmptyString n f rest) as [out [acc' num']]. reflexivity.
  - cbn [all_digits] in Hd. apply andb_prop in Hd. destruct Hd as [Hd Hr].
    cbn [append lex_from sdata snext accw]. rewrite Hd. cbn [app]. now apply IH.
Qed.

Theorem lex_split : forall t r rest1,
  split_ph (SRun CRaw) t = Some (r, rest1) ->
  t = r ++ String "$" (take_digits rest1 ++ skip_digits rest1) /\
  nxt_sat rest1 is_digit = true /\
  lex t = PRaw r :: PArg (accw 0 (take_digits rest1)) :: lex (skip_digits rest1).
Proof.
  intros t r rest1 H. destruct (split_some t (SRun CRaw) EmptyString 0%Z r rest1 eq_refl H) as [Ht [Hd Hl]].
  split; [now rewrite <- take_skip|]. split; [exact Hd|].
  unfold lex at 1. rewrite Hl. cbn [append]. f_equal.
  rewrite (take_skip rest1) at 1. apply place_block; [apply take_all_digits|apply skip_no_digit].
Qed.

Theorem lex_nosplit : forall t,
  split_ph (SRun CRaw) t = None -> lex t = raw_part t.
Proof. intros t H. unfold lex. now rewrite (split_none t (SRun CRaw) EmptyString 0%Z eq_refl H). Qed.
