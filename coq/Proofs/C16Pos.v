(* Proofs/C16Pos.v -- placeholders are substituted exactly at the offsets where the consumer's
   tokenizer is in Default mode and sees "$digit" (by induction on the template, through the
   step lemma of the simulation), and the link from those offsets to the PArg parts of [lex]. *)
From Coq Require Import Lia ZifyBool ZifyN ZifyNat.
From GenqlV Require Import Base.Prelude Model.MySqlString Model.Sanitizer Spec.C16Spec
  Proofs.C16Bytes Proofs.C16SimA Proofs.C16SimB.
Local Open Scope string_scope.
Local Open Scope bool_scope.
Local Opaque code.

Definition to_place (s : sstate) : bool := match s with SPlace => true | _ => false end.

(* the lexer enters placeholderState at this byte (which then is the '$') *)
Definition enters_place (s : sstate) (c : ascii) (rest : bytes) : bool :=
  match s with
  | SRun CRaw => to_place (run_next CRaw c rest)
  | SPlace => negb (is_digit c) && to_place (run_next CRaw c rest)
  | _ => false
  end.

Definition is_default (l : mode) : bool := match l with Default => true | _ => false end.

(* offsets at which the sanitizer starts a placeholder *)
Fixpoint san_ph_from (s : sstate) (t : bytes) (o : nat) : list nat :=
  match t with
  | EmptyString => []
  | String c rest =>
      let tl := san_ph_from (snext s c rest) rest (S o) in
      if enters_place s c rest then o :: tl else tl
  end.

(* offsets at which the consumer is in Default mode and the text reads "$digit" *)
Fixpoint my_ph_from (m : mstate) (t : bytes) (o : nat) : list nat :=
  match t with
  | EmptyString => []
  | String c rest =>
      let tl := my_ph_from (mstep m c rest) rest (S o) in
      if is_default (mlabel m c rest) && ph_here c rest then o :: tl else tl
  end.

Lemma run_next_place c rest : to_place (run_next CRaw c rest) = ph_here c rest.
Proof.
  unfold run_next, ph_here. destruct (N.ltb_spec (code c) 128) as [Hlo|Hhi].
  - rewrite decode_ascii by assumption. cbn [ascii_next]. unfold raw_next.
    destruct (is c "$") eqn:Hd.
    + apply is_true_iff in Hd. subst c. cbn. destruct (nxt_sat rest is_digit); reflexivity.
    + cbn [andb].
      repeat match goal with
      | |- context [if ?b then _ else _] => destruct b eqn:?
      end; reflexivity.
  - assert (is c "$" = false) as -> by (apply hi_not_ascii; [assumption|vm_compute; reflexivity]).
    destruct (decode_hi c rest Hhi) as [->|[k [-> _]]]; reflexivity.
Qed.

Lemma rawlike_label m c rest :
  rawlike m = true -> mlabel m c rest = Default \/ mlabel m c rest = InWord.
Proof.
  intro H. unfold mlabel. destruct (mcont m c rest); [|now left].
  destruct m; try discriminate; now right.
Qed.

Lemma ph_local prev s m c rest :
  rel s m (String c rest) = true -> wf_at prev m c rest = true ->
  enters_place s c rest = is_default (mlabel m c rest) && ph_here c rest.
Proof.
  intros Hrel Hwf.
  destruct (ph_here c rest) eqn:Hp.
  2: { rewrite andb_false_r. destruct s as [[]| | | |]; cbn [enters_place]; rewrite ?run_next_place, ?Hp, ?andb_false_r; reflexivity. }
  rewrite andb_true_r.
  pose proof (wf_W1 _ _ _ _ Hwf Hp) as W1.
  assert (Hc : is c "$" = true) by (unfold ph_here in Hp; now apply andb_prop in Hp).
  apply is_true_iff in Hc. subst c.
  destruct s as [ctl| |k ctl|ctl|ctl]; cbn [enters_place rel] in *.
  - destruct ctl; cbn [rel_ctl] in Hrel; rewrite ?run_next_place, ?Hp.
    + (* CRaw *) apply orb_prop in Hrel. destruct Hrel as [Hr|Hs].
      * destruct (rawlike_label m "$" rest Hr) as [E|E]; rewrite E in *; [reflexivity|contradiction].
      * destruct m as [ | | | | | | | | | | | | | | | | | | | | | | | lbl nx]; try discriminate.
        destruct nx; try discriminate; cbn [nxt_is] in Hs; try (vm_compute in Hs; discriminate).
        apply andb_prop in Hs. destruct Hs as [Hs Hd]. apply is_true_iff in Hs. subst d. vm_compute in Hd. discriminate.
    + destruct m; try discriminate.
      * pose proof (wf_W5 _ _ _ _ Hwf) as W5. cbn in W5. discriminate.
      * pose proof (wf_W5 _ _ _ _ Hwf) as W5. cbn in W5. discriminate.
      * unfold mlabel. cbn [mcont]. apply is_true_iff in Hrel. subst d. reflexivity.
    + destruct m; try discriminate. unfold mlabel. cbn [mcont]. apply is_true_iff in Hrel. subst d. reflexivity.
    + destruct m; try discriminate. unfold mlabel. cbn [mcont]. apply is_true_iff in Hrel. subst d. reflexivity.
    + destruct m; try discriminate; reflexivity.
    + destruct m; try discriminate; reflexivity.
    + destruct m; try discriminate; reflexivity.
  - destruct m; try discriminate. rewrite run_next_place, Hp. cbn in W1. contradiction.
  - destruct k; [discriminate|]. apply andb_prop in Hrel. destruct Hrel as [Hk _].
    cbn [conts] in Hk. apply andb_prop in Hk. destruct Hk as [Hk _]. exfalso. revert Hk. vm_compute. discriminate.
  - destruct m as [ | | | | | | | | | | | | | | | | | | | | | | | lbl nx].
    24: { apply andb_prop in Hrel. destruct Hrel as [_ Hl]. unfold mlabel. cbn [mcont]. destruct lbl; try discriminate; reflexivity. }
    all: destruct ctl; try discriminate; apply andb_prop in Hrel; destruct Hrel as [_ Hq]; cbn in Hq; discriminate.
  - destruct m as [ | | | | | | | | | | | | | | | | | | d | | | | | lbl nx]; try discriminate.
    + apply andb_prop in Hrel. destruct Hrel as [_ Hrel]. discriminate.
    + destruct lbl; try discriminate. reflexivity.
Qed.

(* the two lexers find the same placeholder offsets *)
Theorem ph_agree : forall t prev s m o,
  rel s m t = true -> wf_from prev m t = true ->
  san_ph_from s t o = my_ph_from m t o.
Proof.
  induction t as [|c rest IH]; intros prev s m o Hrel Hwf; [reflexivity|].
  cbn [wf_from] in Hwf. apply andb_prop in Hwf. destruct Hwf as [Hwf Hrest].
  cbn [san_ph_from my_ph_from].
  rewrite (ph_local _ _ _ _ _ Hrel Hwf).
  rewrite (IH (Some c) (snext s c rest) (mstep m c rest) (S o)); [reflexivity| |assumption].
  eapply step_sim; eassumption.
Qed.

Lemma rel_init t : rel (SRun CRaw) MDef t = true.
Proof. reflexivity. Qed.

Corollary ph_agree_template t :
  wf_template t -> san_ph_from (SRun CRaw) t 0 = my_ph_from MDef t 0.
Proof. intro H. eapply ph_agree; [apply rel_init|exact H]. Qed.


Lemma my_ph_is_spec m t o : my_ph_from m t o = default_ph_from m t o.
Proof. revert m o. induction t as [|c rest IH]; intros; [reflexivity|]. cbn. now rewrite IH. Qed.

(* ---------------------------------------------------------------- membership form *)

Lemma default_ph_from_spec : forall t m o k,
  In k (default_ph_from m t o) <->
  exists i, k = (o + i)%nat /\ nth_error (mmodes m t) i = Some Default /\ ph_at t i = true.
Proof.
  induction t as [|c rest IH]; intros m o k.
  - cbn. split; [tauto|]. intros [i [_ [H _]]]. destruct i; discriminate.
  - cbn [default_ph_from mmodes].
    assert (Hrec : In k (default_ph_from (mstep m c rest) rest (S o)) <->
                   exists i, k = (o + S i)%nat /\ nth_error (mmodes (mstep m c rest) rest) i = Some Default /\ ph_at rest i = true).
    { rewrite IH. split; intros [i [H1 H2]]; exists i; (split; [lia|exact H2]). }
    split.
    + intro H.
      destruct ((match mlabel m c rest with Default => true | _ => false end) && ph_here c rest) eqn:E.
      * destruct H as [<-|H].
        -- exists 0%nat. apply andb_prop in E. destruct E as [E1 E2].
           split; [lia|]. split; [|exact E2]. cbn. destruct (mlabel m c rest); try discriminate; reflexivity.
        -- apply Hrec in H. destruct H as [i [H1 [H2 H3]]]. exists (S i). auto.
      * apply Hrec in H. destruct H as [i [H1 [H2 H3]]]. exists (S i). auto.
    + intros [i [H1 [H2 H3]]]. destruct i as [|i].
      * cbn in H2, H3. unfold ph_at in H3. cbn in H3. inversion H2 as [H2']. rewrite H2', H3. cbn. left. lia.
      * assert (In k (default_ph_from (mstep m c rest) rest (S o))) as Hin by (apply Hrec; exists i; auto).
        destruct (_ && _); [right|]; exact Hin.
Qed.

Lemma mysql_placeholder_offsets_spec t k :
  In k (mysql_placeholder_offsets t) <-> mysql_mode t k = Some Default /\ ph_at t k = true.
Proof.
  unfold mysql_placeholder_offsets, mysql_mode. rewrite default_ph_from_spec. split.
  - intros [i [-> H]]. exact H.
  - intro H. exists k. split; [reflexivity|exact H].
Qed.

(* ---------------------------------------------------------------- from offsets to the parts of [lex] *)

Definition is_parg (p : part) : bool := match p with PArg _ => true | PRaw _ => false end.

(* [lex] instrumented with the offset of the '$' of every placeholder it emits *)
Fixpoint lexp_from (st : sstate) (num : Z) (start : nat) (s : bytes) (o : nat) : list (nat * Z) :=
  match s with
  | EmptyString => if to_place st then [(start, num)] else []
  | String c rest =>
      let emit := if to_place st && negb (is_digit c) then [(start, num)] else [] in
      let num' := snd (snd (sdata st EmptyString num c rest)) in
      let start' := if enters_place st c rest then o else start in
      (emit ++ lexp_from (snext st c rest) num' start' rest (S o))%list
  end.
Definition lex_placeholders (t : bytes) : list (nat * Z) := lexp_from (SRun CRaw) 0%Z 0%nat t 0%nat.

Lemma sdata_num_acc st acc num c rest :
  snd (snd (sdata st acc num c rest)) = snd (snd (sdata st EmptyString num c rest)).
Proof.
  destruct st; cbn [sdata]; try reflexivity.
  - unfold run_data. destruct (run_next c0 c rest); reflexivity.
  - destruct (is_digit c); reflexivity.
Qed.

Lemma ascii_next_no_place ctl c rest : ctl <> CRaw -> to_place (ascii_next ctl c rest) = false.
Proof.
  intro H. destruct ctl; try congruence; cbn [ascii_next]; unfold quoted_next;
  repeat match goal with |- context [if ?b then _ else _] => destruct b end; reflexivity.
Qed.

Lemma snext_no_place st c rest :
  st <> SRun CRaw -> st <> SPlace -> to_place (snext st c rest) = false.
Proof.
  intros H1 H2. destruct st as [ctl| |k ctl|ctl|ctl]; try congruence; cbn [snext].
  - unfold run_next. destruct (decode_rune (String c rest)); try reflexivity.
    apply ascii_next_no_place. congruence.
  - destruct k as [|[|k]]; reflexivity.
  - reflexivity.
  - destruct (decode_rune (String c rest)); reflexivity.
Qed.

Lemma lexp_offsets : forall t st num start o,
  map fst (lexp_from st num start t o) =
  ((if to_place st then [start] else []) ++ san_ph_from st t o)%list.
Proof.
  induction t as [|c rest IH]; intros st num start o.
  - cbn. destruct (to_place st); reflexivity.
  - cbn [lexp_from san_ph_from]. rewrite map_app, IH.
    destruct st as [ctl| |k ctl|ctl|ctl].
    + destruct ctl; cbn [to_place andb enters_place map app].
      1: { cbn [snext]. destruct (to_place (run_next CRaw c rest)); reflexivity. }
      all: rewrite snext_no_place by congruence; reflexivity.
    + cbn [to_place andb enters_place snext]. destruct (is_digit c); cbn [negb andb map app to_place].
      * reflexivity.
      * destruct (to_place (run_next CRaw c rest)); reflexivity.
    + cbn [to_place andb enters_place map app]. rewrite snext_no_place by congruence. reflexivity.
    + cbn [to_place andb enters_place map app]. rewrite snext_no_place by congruence. reflexivity.
    + cbn [to_place andb enters_place map app]. rewrite snext_no_place by congruence. reflexivity.
Qed.

Lemma filter_app_parg (a b : list part) : filter is_parg (a ++ b) = (filter is_parg a ++ filter is_parg b)%list.
Proof. apply filter_app. Qed.

Lemma lexp_nums : forall t st acc num start o,
  map (fun p => PArg (snd p)) (lexp_from st num start t o) = filter is_parg (lex_from st acc num t).
Proof.
  induction t as [|c rest IH]; intros st acc num start o.
  - cbn. destruct st; cbn; try reflexivity; destruct acc; reflexivity.
  - cbn [lexp_from lex_from].
    pose proof (sdata_num_acc st acc num c rest) as Hn.
    destruct (sdata st acc num c rest) as [out [acc' num']] eqn:Hd. cbn [snd] in Hn.
    rewrite filter_app_parg, map_app. rewrite <- Hn.
    rewrite <- (IH (snext st c rest) acc' num' (if enters_place st c rest then o else start) (S o)).
    f_equal.
    destruct st as [ctl| |k ctl|ctl|ctl]; cbn [sdata to_place andb] in *.
    + unfold run_data in Hd. destruct (run_next ctl c rest); inversion Hd; reflexivity.
    + destruct (is_digit c); cbn [negb].
      * inversion Hd; reflexivity.
      * unfold run_data in Hd. destruct (run_next CRaw c rest); inversion Hd; reflexivity.
    + inversion Hd; reflexivity.
    + inversion Hd; reflexivity.
    + inversion Hd; reflexivity.
Qed.

(* C16_placeholder_positions *)
Theorem placeholder_positions : forall t,
  wf_template t ->
  map fst (lex_placeholders t) = mysql_placeholder_offsets t /\
  map (fun p => PArg (snd p)) (lex_placeholders t) = filter is_parg (lex t).
Proof.
  intros t Hwf. split.
  - unfold lex_placeholders. rewrite lexp_offsets. cbn [to_place app].
    rewrite (ph_agree_template t Hwf). apply my_ph_is_spec.
  - apply lexp_nums.
Qed.

Corollary placeholder_positions_iff : forall t o,
  wf_template t ->
  (In o (map fst (lex_placeholders t)) <-> mysql_mode t o = Some Default /\ ph_at t o = true).
Proof.
  intros t o Hwf. destruct (placeholder_positions t Hwf) as [-> _]. apply mysql_placeholder_offsets_spec.
Qed.
