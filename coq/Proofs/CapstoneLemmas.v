(* Proofs/CapstoneLemmas.v — composition of the per-property theorems (C01 WHERE, C03 GROUP BY /
   HAVING / aggregates, C02 projection, C06 DISTINCT, C05 ORDER BY and window, F64 float laws, C07 /
   C08 lifting to exec / api_run) into one statement about [run_select] and [api_run] against the
   denotation of Spec/QuerySpec.v.  Glue lemmas only; every stage fact is imported. *)
From Coq Require Import Floats ZArith Lia Bool Sorting.Permutation.
From GenqlV Require Import Base.Prelude Base.Value Model.Ast Model.Eval Model.Exec.
From GenqlV Require Import Spec.PredSem Spec.GroupSpec Spec.ExprSem Spec.DistinctSpec
  Spec.SortSpec Spec.WindowSpec Spec.QuerySpec.
From GenqlV Require Import Proofs.C01Lemmas Proofs.C02Obj Proofs.C02Lemmas Proofs.C02Pipeline
  Proofs.C03Lemmas Proofs.C05Window Proofs.C05Lemmas Proofs.C06Lemmas Proofs.C07Lemmas
  Proofs.C08Lemmas Proofs.F64Laws Proofs.F64Corollaries.
Local Open Scope list_scope.

(* ================================================================== *)
(* 0. small facts                                                       *)
(* ================================================================== *)

Lemma bind_assoc {A B C} (r : res A) (f : A -> res B) (g : B -> res C) :
  (let! a := r in let! b := f a in g b) = (let! b := (let! a := r in f a) in g b).
Proof. destruct r; reflexivity. Qed.

Lemma is_object_c01 v : is_object v = C01Lemmas.is_obj v.
Proof. reflexivity. Qed.

Lemma is_object_c02 v : is_object v = C02Lemmas.is_obj v.
Proof. reflexivity. Qed.

Lemma is_object_obj_rows ms : forallb is_object ms = obj_rows ms.
Proof. reflexivity. Qed.

Lemma forallb_filter {A} (p q : A -> bool) l :
  forallb p l = true -> forallb p (filter q l) = true.
Proof.
  induction l as [|a l IH]; cbn [forallb filter]; intros H; [reflexivity|].
  apply andb_true_iff in H. destruct H as [Ha Hl]. destruct (q a); cbn [forallb].
  - rewrite Ha, IH by exact Hl. reflexivity.
  - apply IH, Hl.
Qed.

Lemma aggregate_list_all (items : list (sel_item stmt)) : aggregate_list items = all_aggregate items.
Proof. reflexivity. Qed.

Lemma bound_okb_ok o : bound_okb o = true -> bound_ok o.
Proof. destruct o as [z|]; cbn; [|trivial]. intros H. apply Z.leb_le, H. Qed.

Lemma order_scope_f64 rows keys : order_scope rows keys = sort_scope_f64_b rows keys.
Proof. reflexivity. Qed.

Lemma group_tuple_row g : group_tuple g = group_row g.
Proof. reflexivity. Qed.

(* ================================================================== *)
(* 1. aggregate calls: the engine's value is the specification's        *)
(* ================================================================== *)

Lemma agg_value_sem ms f arg :
  agg_scope ms f arg = true -> agg_value ms f arg = agg_sem ms f arg.
Proof.
  unfold agg_scope. intros H. apply andb_true_iff in H. destruct H as [Ho H].
  rewrite is_object_obj_rows in Ho.
  destruct arg as [[|c [|c' rest]]|]; try discriminate H.
  - (* f(c) *)
    destruct f.
    + (* COUNT(c) needs no numeric column *)
      unfold agg_value, agg_sem. rewrite C03Lemmas.reader_arr, (mapM_reader_column c ms Ho). reflexivity.
    + rewrite (agg_value_column ms ASum c Ho H). reflexivity.
    + rewrite (agg_value_column ms AMin c Ho H). reflexivity.
    + rewrite (agg_value_column ms AMax c Ho H). reflexivity.
    + rewrite (agg_value_column ms AAvg c Ho H). reflexivity.
  - (* f( * ) *)
    unfold agg_value, agg_sem. cbn [bind]. rewrite (agg_apply_spec f ms None I). reflexivity.
Qed.

(* ================================================================== *)
(* 2. SelectExpr on a select list of `*`, aggregates, C02 expressions   *)
(* ================================================================== *)

Lemma item_sem_c02x ms r (e : expr stmt) : is_c02x e = true -> item_sem ms r e = sem_x r e.
Proof. destruct e; try reflexivity. discriminate. Qed.

Lemma agg_item_scope_inv ms e name :
  agg_item_scope ms (IExpr e name) = true ->
  (exists f arg, e = EAgg f arg /\ agg_scope ms f arg = true) \/ is_c02x e = true.
Proof.
  destruct e; cbn [agg_item_scope]; intros H; try (right; exact H).
  left. eauto.
Qed.

Lemma select_expr_items (E : env stmt) ms cur items : forall acc,
  e_hard E = false ->
  (forall f arg, e_agg E f arg cur = eval_agg ms f arg) ->
  forallb (agg_item_scope ms) items = true ->
  select_expr E cur items acc =
  (let! bs := bindings (item_sem ms) items cur in Ok (obj_merge acc bs)).
Proof.
  intros acc Hh Hagg. revert acc.
  induction items as [|it items IH]; intros acc Hs; [reflexivity|].
  cbn [forallb] in Hs. apply andb_true_iff in Hs. destruct Hs as [Hi Hs].
  destruct it as [|e name]; cbn [select_expr bindings item_bindings bind].
  - rewrite IH by exact Hs.
    destruct (bindings (item_sem ms) items cur) as [bs| | |]; cbn [bind]; try reflexivity.
    rewrite C02Obj.obj_merge_app. reflexivity.
  - destruct (agg_item_scope_inv ms e name Hi) as [(f & arg & -> & Hsc)|Hx].
    + cbn [eval item_sem]. rewrite Hagg, eval_agg_value, (agg_value_sem ms f arg Hsc).
      destruct (agg_sem ms f arg) as [v| | |]; cbn [bind value_of]; try reflexivity.
      rewrite IH by exact Hs.
      destruct (bindings (item_sem ms) items cur) as [bs| | |]; cbn [bind]; reflexivity.
    + rewrite (item_sem_c02x ms cur e Hx).
      rewrite <- (value_correct_x stmt E Hh e cur Hx). unfold ev.
      destruct (eval E cur e) as [x| | |] eqn:He; cbn [bind]; try reflexivity.
      pose proof (omit_free_sound stmt E e cur x (is_c02x_omit_free stmt e Hx) He) as Hno.
      assert (Hm : match x with
                   | ROmit => select_expr E cur items acc
                   | _ => let! v := value_of cur x in select_expr E cur items (obj_set name v acc)
                   end = (let! v := value_of cur x in select_expr E cur items (obj_set name v acc))).
      { destruct x; try reflexivity. congruence. }
      rewrite Hm. destruct (value_of cur x) as [v| | |]; cbn [bind]; try reflexivity.
      rewrite IH by exact Hs.
      destruct (bindings (item_sem ms) items cur) as [bs| | |]; cbn [bind]; reflexivity.
Qed.

Lemma select_expr_items_nil (E : env stmt) ms cur items :
  e_hard E = false ->
  (forall f arg, e_agg E f arg cur = eval_agg ms f arg) ->
  forallb (agg_item_scope ms) items = true ->
  select_expr E cur items [] = project (item_sem ms) items cur.
Proof. intros. rewrite (select_expr_items E ms cur items []) by assumption. reflexivity. Qed.

(* ================================================================== *)
(* 3. the front of the pipeline: WHERE, GROUP BY, HAVING, select list   *)
(* ================================================================== *)

Section Front.
  Variable rec : qctx -> job -> res value.
  Variable call : string -> string -> list value -> row -> res raw.
  Variable join : jointype -> jstrategy -> list value -> list value -> string -> string ->
                  expr stmt -> row -> res (list value).
  Notation env_of := (mk_env rec call join).

  (* ---- WHERE (C01) ---- *)

  Lemma where_scope_ok ctx s tbl :
    where_scope s tbl = true -> where_ok (env_of ctx s []) s (where_sem s) tbl.
  Proof.
    unfold where_scope. intros H. apply andb_true_iff in H. destruct H as [Hobj Hw].
    intros r Hr. rewrite forallb_forall in Hobj. pose proof (Hobj r Hr) as Ho.
    destruct r as [| | | | |kv]; try discriminate Ho. exists kv. split; [reflexivity|].
    unfold where_sem. destruct (s_where s) as [p|]; [|reflexivity].
    rewrite forallb_forall in Hw. specialize (Hw _ Hr). cbn [elem_in_scope] in Hw.
    unfold eval_cond. rewrite (eval_pred (env_of ctx s []) eq_refl kv p Hw). reflexivity.
  Qed.

  Lemma kept_rows_objects s tbl :
    where_scope s tbl = true -> forallb is_object (kept_rows s tbl) = true.
  Proof.
    unfold where_scope. intros H. apply andb_true_iff in H. destruct H as [Hobj _].
    apply forallb_filter, Hobj.
  Qed.

  (* ---- HAVING: the evaluator computes [having_sem] on every group in scope (C01 + C03) ---- *)

  Lemma hoperand_eval ctx s filtered g e v :
    s_group s <> [] ->
    hoperand_scope (snd g) e = true ->
    hoperand (snd g) (group_tuple g) e = Some v ->
    let E := env_of ctx s filtered in
    let cur := scope (group_row g) (e_data E) in
    exists x, eval E cur e = Ok x /\ value_of cur x = Ok v.
  Proof.
    intros Hg Hsc Hop E cur.
    assert (Hgen : forall e', e = e' -> (forall f arg, e' <> EAgg f arg) ->
                   exists x, eval E cur e = Ok x /\ value_of cur x = Ok v).
    { intros e' <- Hne.
      assert (Ho : operand (group_tuple g) e = Some v).
      { destruct e; try exact Hop. exfalso. eapply Hne. reflexivity. }
      exact (operand_eval E eq_refl (group_row g) cur e v (reads_like_scope _ _) Ho). }
    destruct e; try (apply (Hgen _ eq_refl); intros; discriminate).
    (* an aggregate call: evaluated on the scope copy of the group's row, it reads the members *)
    cbn [hoperand hoperand_scope] in Hop, Hsc.
    destruct (agg_sem (snd g) f arg) as [w| | |] eqn:Hw; try discriminate Hop.
    inversion Hop; subst w. exists (RVal v). split; [|reflexivity].
    cbn [eval]. subst E cur. rewrite (mk_env_agg_group_scoped rec call join ctx s filtered f arg g _ Hg).
    rewrite eval_agg_value, (agg_value_sem _ _ _ Hsc), Hw. reflexivity.
  Qed.

  Lemma hkind_inv ms r e k : hkind ms r e = Some k ->
    exists v, hoperand ms r e = Some v /\ kind_of v = Some k.
  Proof. unfold hkind. destruct (hoperand ms r e) as [v|]; [eauto|discriminate]. Qed.

  Lemma having_eval ctx s filtered g p :
    s_group s <> [] ->
    having_scope (snd g) (group_tuple g) p = true ->
    eval (env_of ctx s filtered) (group_row g) p =
    Ok (RVal (VBool (having_sem (snd g) (group_tuple g) p))).
  Proof.
    intros Hg. set (E := env_of ctx s filtered).
    induction p; intros Hs; cbn [having_scope] in Hs;
      try (cbn [having_sem]; rewrite group_tuple_row in *;
           exact (eval_pred E eq_refl _ _ Hs)).
    - (* EAnd *)
      apply andb_true_iff in Hs as [H1 H2]. rewrite eval_EAnd.
      rewrite (bool_operand_of_eval E _ _ _ (IHp1 H1)), (bool_operand_of_eval E _ _ _ (IHp2 H2)).
      reflexivity.
    - (* EOr *)
      apply andb_true_iff in Hs as [H1 H2]. rewrite eval_EOr.
      rewrite (bool_operand_of_eval E _ _ _ (IHp1 H1)), (bool_operand_of_eval E _ _ _ (IHp2 H2)).
      reflexivity.
    - (* ENot *)
      rewrite eval_ENot. rewrite (bool_operand_of_eval E _ _ _ (IHp Hs)). reflexivity.
    - (* ECmp *)
      apply andb_true_iff in Hs as [Hsc Hk]. apply andb_true_iff in Hsc as [Hs1 Hs2].
      destruct (hkind (snd g) (group_tuple g) p1) as [k1|] eqn:Hk1; [|discriminate].
      destruct (hkind (snd g) (group_tuple g) p2) as [k2|] eqn:Hk2; [|discriminate].
      assert (k2 = k1) by (destruct k1, k2; try discriminate; reflexivity). subst k2.
      apply hkind_inv in Hk1 as (va & Hoa & Hka). apply hkind_inv in Hk2 as (vb & Hob & Hkb).
      destruct (hoperand_eval ctx s filtered g p1 va Hg Hs1 Hoa) as (xa & Ea & Va).
      destruct (hoperand_eval ctx s filtered g p2 vb Hg Hs2 Hob) as (xb & Eb & Vb).
      destruct (vcompare_same_kind k1 va vb Hka Hkb) as (c & Htw & Hvc & Hrange).
      subst E. rewrite eval_ECmp. cbv zeta.
      rewrite Ea. cbn [bind]. rewrite Va. cbn [bind]. rewrite Eb. cbn [bind]. rewrite Vb. cbn [bind].
      rewrite Hvc. cbn [bind having_sem]. unfold hval. rewrite Hoa, Hob. unfold cmp_sem. rewrite Htw.
      rewrite (cmp_holds_rel _ _ Hrange). reflexivity.
  Qed.

  Lemma having_cond ctx s filtered g :
    s_group s <> [] ->
    match s_having s with
    | None => True
    | Some p => having_scope (snd g) (group_tuple g) p = true
    end ->
    eval_cond (env_of ctx s filtered) (group_row g) (s_having s) = Ok (having_of s g).
  Proof.
    intros Hg Hs. unfold having_of. destruct (s_having s) as [p|]; [|reflexivity].
    unfold eval_cond. rewrite (having_eval ctx s filtered g p Hg Hs). reflexivity.
  Qed.

  (* ---- GROUP BY + HAVING + select list = [selected_sem] (C03 + C02) ---- *)

  Lemma spec_row_row_project items r : spec_row sem_x items r = row_project items r.
  Proof. reflexivity. Qed.

  Lemma front_select ctx s kept :
    forallb is_object kept = true ->
    select_scope s kept = true ->
    let E := env_of ctx s kept in
    (let! grouped := exec_group_by E s kept in exec_select E s grouped) = selected_sem s kept.
  Proof.
    intros Hobj Hsc E. unfold select_scope, selected_sem in *.
    destruct (s_group s) as [|c cs] eqn:Hg.
    - (* no GROUP BY *)
      apply andb_true_iff in Hsc. destruct Hsc as [_ Hsc].
      rewrite (exec_group_by_nogroup E s kept Hg). cbn [bind].
      destruct (aggregate_list (s_items s)) eqn:Ha.
      + (* whole-table aggregates: one row over the kept rows *)
        rewrite (exec_select_whole E s kept Hg Ha).
        rewrite (select_expr_items_nil E kept [] (s_items s) eq_refl); [reflexivity| |exact Hsc].
        intros f arg. apply mk_env_agg_nogroup. exact Hg.
      + (* one output row per kept row *)
        rewrite (exec_select_eq_x E eq_refl s kept Hsc Hobj). reflexivity.
    - (* GROUP BY c, cs *)
      apply andb_true_iff in Hsc. destruct Hsc as [Hsc Hitems].
      apply andb_true_iff in Hsc. destruct Hsc as [Hrows Hhav].
      assert (Hne : s_group s <> []) by (rewrite Hg; discriminate).
      rewrite (exec_group_by_spec float_eq_laws_f64 E s kept c cs (having_of s) Hg Hrows).
      + cbn [bind]. rewrite (exec_select_groups E s c cs _ Hg).
        unfold groups_sem in Hitems |- *. rewrite Hg in Hitems |- *.
        apply mapM_ext_in. intros g Hin.
        rewrite forallb_forall in Hitems. specialize (Hitems g Hin).
        unfold group_project. change (group_tuple g) with (group_row g).
        rewrite (select_expr_items_nil E (snd g) (group_row g) (s_items s) eq_refl); [reflexivity| |exact Hitems].
        intros f arg. apply mk_env_agg_group. exact Hne.
      + intros g Hin. apply having_cond; [exact Hne|].
        rewrite forallb_forall in Hhav. specialize (Hhav g Hin).
        destruct (s_having s); [exact Hhav|exact I].
  Qed.

  (* ---- DISTINCT (C06 + F64) ---- *)

  Lemma exec_distinct_sem d rows : exec_distinct d rows = distinct_sem d rows.
  Proof. destruct d; [apply (exec_distinct_exact feq_laws_f64)|reflexivity]. Qed.

  (* ---- the front equation: everything before ORDER BY is the specification's, including the
          cases where the projection fails (error / recovered panic) ---- *)

  Theorem run_select_front ctx s tbl :
    front_scope s tbl = true ->
    run_select rec call join ctx s (Some tbl) =
    catch_panic
      (let! unsorted := query_unsorted s tbl in
       let! ordered := exec_order_by (s_order s) unsorted in
       let! win := window ordered (List.length ordered) (s_limit s) (s_offset s) in
       Ok (VArr win)).
  Proof.
    unfold front_scope. intros H. apply andb_true_iff in H. destruct H as [Hw Hs].
    rewrite (run_select_sees_filtered rec call join ctx s (where_sem s) tbl (where_scope_ok ctx s tbl Hw)).
    cbv zeta. fold (kept_rows s tbl). rewrite bind_assoc.
    rewrite (front_select ctx s (kept_rows s tbl) (kept_rows_objects s tbl Hw) Hs).
    unfold query_unsorted.
    destruct (selected_sem s (kept_rows s tbl)) as [sel| | |]; cbn [bind]; try reflexivity.
    rewrite exec_distinct_sem. reflexivity.
  Qed.
End Front.

(* ================================================================== *)
(* 4. the whole SELECT: run_select against query_sem                    *)
(* ================================================================== *)

Section Whole.
  Variable rec : qctx -> job -> res value.
  Variable call : string -> string -> list value -> row -> res raw.
  Variable join : jointype -> jstrategy -> list value -> list value -> string -> string ->
                  expr stmt -> row -> res (list value).

  (* in scope the engine returns, without error, the window of an ordering of the specification's
     unsorted result that meets the sort.Slice contract - the one computed by its own sort *)
  (* the general form: the ORDER BY scope as the (propositional) premise of C05 / F64 on the rows
     that reach ORDER BY, i.e. on the specification's unsorted result *)
  Theorem run_select_query_general ctx s tbl u :
    front_scope s tbl = true ->
    bound_ok (s_limit s) -> bound_ok (s_offset s) ->
    query_unsorted s tbl = Ok u ->
    one_kind_keys_f64 (rows_of u) (s_order s) ->
    exists sorted,
      exec_order_by (s_order s) u = Ok sorted /\
      oracle_order (s_order s) u sorted /\
      run_select rec call join ctx s (Some tbl) =
      Ok (VArr (window_spec sorted (s_limit s) (s_offset s))).
  Proof.
    intros Hfront Hlim Hoff Hu Hord.
    destruct (order_then_window_f64 u (s_order s) Hord (s_limit s) (s_offset s) Hlim Hoff)
      as (sorted & Hex & Hsp & Hwin).
    exists sorted. split; [exact Hex|]. split.
    - unfold oracle_order. destruct (s_order s) as [|k ks] eqn:Hk; [|exact Hsp].
      cbn [exec_order_by] in Hex. inversion Hex. reflexivity.
    - rewrite (run_select_front rec call join ctx s tbl Hfront), Hu. cbn [bind].
      rewrite Hex in Hwin |- *. cbn [bind] in Hwin |- *. rewrite Hwin. reflexivity.
  Qed.

  Theorem run_select_sem_general ctx s tbl u :
    front_scope s tbl = true ->
    bound_ok (s_limit s) -> bound_ok (s_offset s) ->
    query_unsorted s tbl = Ok u ->
    one_kind_keys_f64 (rows_of u) (s_order s) ->
    exists rows,
      run_select rec call join ctx s (Some tbl) = Ok (VArr rows) /\
      query_sem s tbl rows /\
      query_run exec_order_by s tbl = Ok rows.
  Proof.
    intros Hf Hl Ho Hu Hord.
    destruct (run_select_query_general ctx s tbl u Hf Hl Ho Hu Hord) as (sorted & Hex & Hor & Hrun).
    exists (window_spec sorted (s_limit s) (s_offset s)). split; [exact Hrun|]. split.
    - exists u, sorted. repeat split; assumption.
    - unfold query_run. rewrite Hu. cbn [bind]. rewrite Hex. reflexivity.
  Qed.

  Theorem run_select_query ctx s tbl :
    query_scope s tbl = true ->
    exists unsorted sorted,
      query_unsorted s tbl = Ok unsorted /\
      exec_order_by (s_order s) unsorted = Ok sorted /\
      oracle_order (s_order s) unsorted sorted /\
      run_select rec call join ctx s (Some tbl) =
      Ok (VArr (window_spec sorted (s_limit s) (s_offset s))).
  Proof.
    unfold query_scope. intros H.
    apply andb_true_iff in H. destruct H as [H Hord].
    apply andb_true_iff in H. destruct H as [H Hoff].
    apply andb_true_iff in H. destruct H as [Hfront Hlim].
    destruct (query_unsorted s tbl) as [u| | |] eqn:Hu; try discriminate Hord.
    rewrite order_scope_f64 in Hord. apply sort_scope_f64_b_sound in Hord.
    destruct (run_select_query_general ctx s tbl u Hfront (bound_okb_ok _ Hlim) (bound_okb_ok _ Hoff)
                Hu Hord) as (sorted & Hex & Hor & Hrun).
    exists u, sorted. auto.
  Qed.

  Theorem run_select_sem ctx s tbl :
    query_scope s tbl = true ->
    exists rows,
      run_select rec call join ctx s (Some tbl) = Ok (VArr rows) /\
      query_sem s tbl rows /\
      query_run exec_order_by s tbl = Ok rows.
  Proof.
    intros H. destruct (run_select_query ctx s tbl H) as (u & sorted & Hu & Hex & Hord & Hrun).
    exists (window_spec sorted (s_limit s) (s_offset s)). split; [exact Hrun|]. split.
    - exists u, sorted. repeat split; assumption.
    - unfold query_run. rewrite Hu. cbn [bind]. rewrite Hex. reflexivity.
  Qed.
End Whole.

(* ================================================================== *)
(* 5. through exec / api_run                                            *)
(* ================================================================== *)

(* the data New() puts under the query: the document itself, or the document under "root" *)
Definition api_data (wrapped : bool) (doc : value) : row :=
  if wrapped then [("root"%string, doc)] else match doc with VObj kv => kv | _ => [] end.

Section Api.
  Variable call : string -> string -> list value -> row -> res raw.
  Variable join : jointype -> jstrategy -> list value -> list value -> string -> string ->
                  expr stmt -> row -> res (list value).

  (* SELECT ... FROM path, path resolving to an array of the document: one unit of fuel is enough
     (the fragment has no subquery, CTE or inner dimension, so the recursive interpreter is never
     entered) and every larger amount gives the same answer *)
  Theorem api_run_sem n wrapped doc s k rest tbl :
    s_with s = [] -> s_from s = FTable (k :: rest) "" ->
    reader (k :: rest) (VObj (api_data wrapped doc)) = Ok (VArr tbl) ->
    query_scope s tbl = true ->
    exists rows,
      api_run call join (S n) wrapped doc (SSelect s) = Ok rows /\
      query_sem s tbl rows /\
      query_run exec_order_by s tbl = Ok rows.
  Proof.
    intros Hw Hf Hr Hs.
    set (ctx := {| c_data := api_data wrapped doc; c_ctes := []; c_busy := []; c_up := [] |}).
    change (api_run call join (S n) wrapped doc (SSelect s)) with
      (let! v := catch_panic (exec_step (exec call join n) call join ctx (JStmt (SSelect s))) in
       match v with VArr l => Ok l | _ => Ok [v] end).
    rewrite (select_from_table (exec call join n) call join ctx s k rest tbl Hw Hf eq_refl
               (up_read_nil ctx (k :: rest) eq_refl) Hr).
    cbn [exec_step].
    destruct (run_select_sem (exec call join n) call join ctx s tbl Hs) as (rows & Hrun & Hsem & Hq).
    exists rows. rewrite Hrun. cbn [catch_panic bind]. auto.
  Qed.
End Api.

(* ================================================================== *)
(* 6. corollaries of the denotation                                     *)
(* ================================================================== *)

(* ---- list facts ---- *)

Lemma filter_len_le {A} (f : A -> bool) l : (List.length (filter f l) <= List.length l)%nat.
Proof.
  induction l as [|a l IH]; cbn [filter List.length]; [lia|].
  destruct (f a); cbn [List.length]; lia.
Qed.

Lemma nodup_first_length {A} (eqb : A -> A -> bool) l :
  (List.length (nodup_first eqb l) <= List.length l)%nat.
Proof.
  induction l as [|x l IH]; cbn [nodup_first List.length]; [lia|].
  pose proof (filter_len_le (fun y => negb (eqb x y)) (nodup_first eqb l)). lia.
Qed.

Lemma nodup_first_in {A} (eqb : A -> A -> bool) l x : In x (nodup_first eqb l) -> In x l.
Proof.
  induction l as [|y l IH]; cbn [nodup_first]; intros H; [exact H|].
  destruct H as [H|H]; [left; exact H|]. apply filter_In in H. right. apply IH, H.
Qed.

Lemma distinct_sem_length d rows : (List.length (distinct_sem d rows) <= List.length rows)%nat.
Proof. destruct d; cbn [distinct_sem]; [apply nodup_first_length|lia]. Qed.

Lemma distinct_sem_in d rows x : In x (distinct_sem d rows) -> In x rows.
Proof. destruct d; cbn [distinct_sem]; [apply nodup_first_in|trivial]. Qed.

Lemma window_spec_length {A} (l : list A) limit offset :
  (List.length (window_spec l limit offset) <= List.length l)%nat.
Proof.
  unfold window_spec. destruct limit as [z|].
  - rewrite firstn_length, skipn_length. lia.
  - rewrite skipn_length. lia.
Qed.

Lemma window_spec_in {A} (l : list A) limit offset x : In x (window_spec l limit offset) -> In x l.
Proof.
  unfold window_spec. destruct limit as [z|]; intros H.
  - apply in_firstn_in in H. eapply in_skipn_in. exact H.
  - eapply in_skipn_in. exact H.
Qed.

(* position i of the window is position offset + i of the sequence *)
Lemma window_spec_nth {A} (l : list A) limit offset i a :
  nth_error (window_spec l limit offset) i = Some a ->
  nth_error l ((match offset with Some o => Z.to_nat o | None => O end) + i) = Some a.
Proof.
  unfold window_spec. destruct limit as [z|]; intros H.
  - rewrite nth_error_firstn_lt in H. destruct (i <? Z.to_nat z)%nat; [|discriminate].
    rewrite nth_error_skipn_plus in H. exact H.
  - rewrite nth_error_skipn_plus in H. exact H.
Qed.

Lemma oracle_order_perm keys u sorted : oracle_order keys u sorted -> Permutation u sorted.
Proof.
  unfold oracle_order. destruct keys; [intros ->; apply Permutation_refl|intros [H _]; exact H].
Qed.

Lemma mapM_in_out {A B} (f : A -> res B) : forall l out b,
  mapM f l = Ok out -> In b out -> exists a, In a l /\ f a = Ok b.
Proof.
  induction l as [|x l IH]; intros out b E Hb.
  - inversion E; subst. destruct Hb.
  - cbn [mapM] in E. destruct (f x) as [y| | |] eqn:Ex; try discriminate E. cbn [bind] in E.
    destruct (mapM f l) as [ys| | |] eqn:El; try discriminate E. cbn [bind] in E.
    inversion E; subst. destruct Hb as [<-|Hb].
    + exists x. split; [left; reflexivity|exact Ex].
    + destruct (IH ys b eq_refl Hb) as (a & Ha & Hf). exists a. split; [right; exact Ha|exact Hf].
Qed.

Lemma first_keys_from_length {R K} (key : R -> K) (keq : K -> K -> bool) rows : forall seen,
  (List.length (first_keys_from key keq seen rows) <= List.length rows)%nat.
Proof.
  induction rows as [|r rows IH]; intros seen; cbn [first_keys_from List.length]; [lia|].
  destruct (existsb (fun k => keq k (key r)) seen); cbn [List.length].
  - specialize (IH seen). lia.
  - specialize (IH (key r :: seen)). lia.
Qed.

Lemma group_spec_length cols rows : (List.length (group_spec cols rows) <= List.length rows)%nat.
Proof.
  unfold group_spec, group_by. rewrite map_length. apply first_keys_from_length.
Qed.

(* ---- the selected rows, case by case ---- *)

Definition per_row_query (s : select stmt) : Prop :=
  s_group s = [] /\ aggregate_list (s_items s) = false.
Definition whole_table_query (s : select stmt) : Prop :=
  s_group s = [] /\ aggregate_list (s_items s) = true.
Definition grouped_query (s : select stmt) : Prop := s_group s <> [].

Lemma selected_per_row s kept :
  per_row_query s -> selected_sem s kept = mapM (row_project (s_items s)) kept.
Proof. intros [Hg Ha]. unfold selected_sem. rewrite Hg, Ha. reflexivity. Qed.

Lemma selected_grouped s kept :
  grouped_query s -> selected_sem s kept = mapM (group_project (s_items s)) (groups_sem s kept).
Proof. unfold grouped_query, selected_sem. destruct (s_group s); [contradiction|reflexivity]. Qed.

Lemma selected_whole s kept :
  whole_table_query s ->
  selected_sem s kept = (let! o := project (item_sem kept) (s_items s) [] in Ok [VObj o]).
Proof. intros [Hg Ha]. unfold selected_sem. rewrite Hg, Ha. reflexivity. Qed.

Lemma selected_length s kept sel :
  selected_sem s kept = Ok sel ->
  (whole_table_query s /\ List.length sel = 1%nat) \/
  (per_row_query s /\ List.length sel = List.length kept) \/
  (grouped_query s /\ List.length sel = List.length (groups_sem s kept) /\
   (List.length sel <= List.length kept)%nat).
Proof.
  intros H. destruct (s_group s) as [|c cs] eqn:Hg.
  - destruct (aggregate_list (s_items s)) eqn:Ha.
    + left. split; [split; assumption|].
      rewrite (selected_whole s kept (conj Hg Ha)) in H.
      destruct (project (item_sem kept) (s_items s) []); try discriminate H.
      inversion H. reflexivity.
    + right. left. split; [split; assumption|].
      rewrite (selected_per_row s kept (conj Hg Ha)) in H. exact (mapM_length _ _ _ H).
  - right. right. assert (Hq : grouped_query s) by (unfold grouped_query; rewrite Hg; discriminate).
    split; [exact Hq|]. rewrite (selected_grouped s kept Hq) in H.
    pose proof (mapM_length _ _ _ H) as Hl. split; [exact Hl|]. rewrite Hl. unfold groups_sem.
    eapply Nat.le_trans; [apply filter_len_le|apply group_spec_length].
Qed.

(* ---- cardinality ---- *)

Lemma query_sem_parts s tbl rows :
  query_sem s tbl rows ->
  exists sel sorted,
    selected_sem s (kept_rows s tbl) = Ok sel /\
    oracle_order (s_order s) (distinct_sem (s_distinct s) sel) sorted /\
    rows = window_spec sorted (s_limit s) (s_offset s).
Proof.
  intros (u & sorted & Hu & Hord & Hrows). unfold query_unsorted in Hu.
  destruct (selected_sem s (kept_rows s tbl)) as [sel| | |] eqn:Hsel; try discriminate Hu.
  cbn [bind] in Hu. inversion Hu; subst u. exists sel, sorted. auto.
Qed.

Theorem cardinality s tbl rows :
  query_sem s tbl rows ->
  (whole_table_query s -> (List.length rows <= 1)%nat) /\
  (~ whole_table_query s -> (List.length rows <= List.length (kept_rows s tbl))%nat) /\
  (List.length (kept_rows s tbl) <= List.length tbl)%nat /\
  (per_row_query s -> s_distinct s = false -> s_limit s = None -> s_offset s = None ->
   List.length rows = List.length (kept_rows s tbl)).
Proof.
  intros H. destruct (query_sem_parts s tbl rows H) as (sel & sorted & Hsel & Hord & ->).
  pose proof (Permutation_length (oracle_order_perm _ _ _ Hord)) as Hp.
  pose proof (distinct_sem_length (s_distinct s) sel) as Hd.
  pose proof (window_spec_length sorted (s_limit s) (s_offset s)) as Hw.
  pose proof (selected_length s _ sel Hsel) as Hcases.
  repeat split.
  - intros Hq. destruct Hcases as [[_ Hl]|[[[Hg Ha] _]|[Hg _]]]; [lia| |].
    + destruct Hq as [_ Ha']. congruence.
    + destruct Hq as [Hg' _]. contradiction.
  - intros Hq. destruct Hcases as [[Hq' _]|[[_ Hl]|[_ [_ Hl]]]]; [contradiction|lia|lia].
  - apply filter_len_le.
  - intros Hq Hdis Hlim Hoff. rewrite Hlim, Hoff. cbn [window_spec skipn].
    rewrite Hdis in Hp. cbn [distinct_sem] in Hp.
    destruct Hcases as [[[_ Ha] _]|[[_ Hl]|[Hg _]]].
    + destruct Hq as [_ Ha']. congruence.
    + lia.
    + destruct Hq as [Hg' _]. contradiction.
Qed.

(* ---- provenance ---- *)

Lemma query_sem_row_selected s tbl rows o :
  query_sem s tbl rows -> In o rows ->
  exists sel, selected_sem s (kept_rows s tbl) = Ok sel /\ In o sel.
Proof.
  intros H Hin. destruct (query_sem_parts s tbl rows H) as (sel & sorted & Hsel & Hord & ->).
  exists sel. split; [exact Hsel|].
  apply window_spec_in in Hin.
  apply (Permutation_in _ (Permutation_sym (oracle_order_perm _ _ _ Hord))) in Hin.
  eapply distinct_sem_in. exact Hin.
Qed.

(* no GROUP BY: every output row is the projection of a table row that satisfies WHERE; before
   DISTINCT the correspondence is one-to-one and in source order *)
Theorem provenance_rows s tbl rows :
  query_sem s tbl rows -> per_row_query s ->
  (exists sel, selected_sem s (kept_rows s tbl) = Ok sel /\
               Forall2 (fun r o => row_project (s_items s) r = Ok o) (kept_rows s tbl) sel /\
               forall o, In o rows -> In o sel) /\
  forall o, In o rows ->
    exists r, In r tbl /\ where_sem s r = true /\ row_project (s_items s) r = Ok o.
Proof.
  intros H Hq. split.
  - destruct (query_sem_parts s tbl rows H) as (sel & sorted & Hsel & Hord & ->).
    exists sel. split; [exact Hsel|]. split.
    + rewrite (selected_per_row s _ Hq) in Hsel. apply mapM_forall2, Hsel.
    + intros o Hin. apply window_spec_in in Hin.
      apply (Permutation_in _ (Permutation_sym (oracle_order_perm _ _ _ Hord))) in Hin.
      eapply distinct_sem_in. exact Hin.
  - intros o Hin. destruct (query_sem_row_selected s tbl rows o H Hin) as (sel & Hsel & Ho).
    rewrite (selected_per_row s _ Hq) in Hsel.
    destruct (mapM_in_out _ _ _ _ Hsel Ho) as (r & Hr & Hf).
    unfold kept_rows in Hr. apply filter_In in Hr. destruct Hr as [Hr Hw]. eauto.
Qed.

(* GROUP BY: every output row is computed from one group of the kept rows that satisfies HAVING;
   the groups partition the kept rows (each kept row is a member of exactly one group) *)
Theorem provenance_groups s tbl rows :
  query_sem s tbl rows -> grouped_query s ->
  (forall o, In o rows ->
     exists g, In g (group_spec (s_group s) (kept_rows s tbl)) /\ having_of s g = true /\
               group_project (s_items s) g = Ok o) /\
  (rows_ok (s_group s) (kept_rows s tbl) = true ->
   forall r, In r (kept_rows s tbl) ->
     exists g, In g (group_spec (s_group s) (kept_rows s tbl)) /\ In r (snd g) /\
               forall g', In g' (group_spec (s_group s) (kept_rows s tbl)) -> In r (snd g') -> g' = g).
Proof.
  intros H Hq. split.
  - intros o Hin. destruct (query_sem_row_selected s tbl rows o H Hin) as (sel & Hsel & Ho).
    rewrite (selected_grouped s _ Hq) in Hsel.
    destruct (mapM_in_out _ _ _ _ Hsel Ho) as (g & Hg & Hf).
    unfold groups_sem in Hg. apply filter_In in Hg. destruct Hg as [Hg Hh]. eauto.
  - intros Hok r Hr. exact (group_spec_exactly_one float_eq_laws_f64 _ _ r Hok Hr).
Qed.

(* ---- order ---- *)

(* in the ORDER BY scope the oracle contract says exactly: a permutation whose adjacent rows are in
   lexicographic key order *)
Theorem oracle_iff_lex keys u sorted :
  order_scope u keys = true -> (oracle_order keys u sorted <-> lex_order keys u sorted).
Proof.
  intros Hs. rewrite order_scope_f64 in Hs. apply sort_scope_f64_b_sound in Hs.
  unfold oracle_order, lex_order. destruct keys as [|k ks]; [tauto|]. split.
  - intros Hsp. split; [exact (proj1 Hsp)|]. intros i a b Ha Hb.
    eapply (sorted_all_pairs_nullstop_f64 u (k :: ks) Hs sorted Hsp i (S i)); [lia|exact Ha|exact Hb].
  - intros [Hp Hadj]. exact (lex_adjacent_sorted_perm_f64 u (k :: ks) Hs sorted Hp Hadj).
Qed.

Theorem query_sem_iff_lex s tbl rows :
  (forall u, query_unsorted s tbl = Ok u -> order_scope u (s_order s) = true) ->
  (query_sem s tbl rows <-> query_sem_lex s tbl rows).
Proof.
  intros Hs. unfold query_sem, query_sem_lex, query_sem_ord.
  split; intros (u & sorted & Hu & Hord & Hrows); exists u, sorted;
    (split; [exact Hu|]); (split; [|exact Hrows]);
    apply (oracle_iff_lex _ _ _ (Hs u Hu)); exact Hord.
Qed.

(* any two rows of the RESULT stand in key order, earlier before later *)
Theorem result_in_key_order s tbl rows :
  query_sem s tbl rows ->
  (forall u, query_unsorted s tbl = Ok u -> order_scope u (s_order s) = true) ->
  forall i j a b, (i < j)%nat -> nth_error rows i = Some a -> nth_error rows j = Some b ->
  lex_le_nullstop (s_order s) a b.
Proof.
  intros (u & sorted & Hu & Hord & ->) Hs i j a b Hij Ha Hb.
  specialize (Hs u Hu). rewrite order_scope_f64 in Hs. apply sort_scope_f64_b_sound in Hs.
  apply window_spec_nth in Ha. apply window_spec_nth in Hb.
  unfold oracle_order in Hord. destruct (s_order s) as [|k ks]; [exact I|].
  eapply (sorted_all_pairs_nullstop_f64 u (k :: ks) Hs sorted Hord); [|exact Ha|exact Hb]. lia.
Qed.

(* ... and in the textbook order [lex_le] when NULL keys occur in the last key column only *)
Theorem result_in_textbook_order s tbl rows :
  query_sem s tbl rows ->
  (forall u, query_unsorted s tbl = Ok u ->
     order_scope u (s_order s) = true /\ nulls_only_in_last_key (rows_of u) (s_order s)) ->
  forall i j a b, (i < j)%nat -> nth_error rows i = Some a -> nth_error rows j = Some b ->
  lex_le (s_order s) a b.
Proof.
  intros (u & sorted & Hu & Hord & ->) Hs i j a b Hij Ha Hb.
  destruct (Hs u Hu) as [Hsc Hn]. rewrite order_scope_f64 in Hsc. apply sort_scope_f64_b_sound in Hsc.
  apply window_spec_nth in Ha. apply window_spec_nth in Hb.
  unfold oracle_order in Hord. destruct (s_order s) as [|k ks]; [exact I|].
  eapply (sorted_all_pairs_f64 u (k :: ks) Hsc sorted Hn Hord); [|exact Ha|exact Hb]. lia.
Qed.

(* ---- the window ---- *)

Theorem window_exact_sem s tbl rows :
  query_sem s tbl rows ->
  exists unsorted sorted,
    query_unsorted s tbl = Ok unsorted /\ Permutation unsorted sorted /\
    rows = window_spec sorted (s_limit s) (s_offset s) /\
    (forall i, nth_error rows i = window_at sorted (s_limit s) (s_offset s) i) /\
    (forall l o, s_limit s = Some l -> s_offset s = Some o ->
       rows = firstn (Z.to_nat l) (skipn (Z.to_nat o) sorted) /\
       List.length rows = Nat.min (Z.to_nat l) (List.length unsorted - Z.to_nat o)).
Proof.
  intros (u & sorted & Hu & Hord & ->). exists u, sorted.
  pose proof (oracle_order_perm _ _ _ Hord) as Hp.
  split; [exact Hu|]. split; [exact Hp|]. split; [reflexivity|]. split.
  - intros i. unfold window_spec, window_at. destruct (s_limit s) as [l|].
    + rewrite nth_error_firstn_lt. destruct (i <? Z.to_nat l)%nat; [|reflexivity].
      apply nth_error_skipn_plus.
    + apply nth_error_skipn_plus.
  - intros l o Hl Ho. rewrite Hl, Ho. cbn [window_spec]. split; [reflexivity|].
    rewrite firstn_length, skipn_length, (Permutation_length Hp). reflexivity.
Qed.

(* ================================================================== *)
(* 7. the pipeline theorem read clause by clause                        *)
(* ================================================================== *)

Section Readable.
  Variable rec : qctx -> job -> res value.
  Variable call : string -> string -> list value -> row -> res raw.
  Variable join : jointype -> jstrategy -> list value -> list value -> string -> string ->
                  expr stmt -> row -> res (list value).

  Lemma run_select_selected ctx s tbl :
    query_scope s tbl = true ->
    exists sel sorted,
      selected_sem s (kept_rows s tbl) = Ok sel /\
      oracle_order (s_order s) (distinct_sem (s_distinct s) sel) sorted /\
      run_select rec call join ctx s (Some tbl) =
      Ok (VArr (window_spec sorted (s_limit s) (s_offset s))).
  Proof.
    intros H. destruct (run_select_query rec call join ctx s tbl H) as (u & sorted & Hu & _ & Hord & Hrun).
    unfold query_unsorted in Hu.
    destruct (selected_sem s (kept_rows s tbl)) as [sel| | |]; try discriminate Hu.
    cbn [bind] in Hu. inversion Hu; subst u. exists sel, sorted. auto.
  Qed.

  (* WITHOUT GROUP BY: filter -> project each row -> distinct -> order -> window *)
  Theorem run_select_ungrouped ctx s tbl :
    per_row_query s -> query_scope s tbl = true ->
    exists sel sorted,
      mapM (row_project (s_items s)) (filter (where_sem s) tbl) = Ok sel /\
      oracle_order (s_order s) (distinct_sem (s_distinct s) sel) sorted /\
      run_select rec call join ctx s (Some tbl) =
      Ok (VArr (window_spec sorted (s_limit s) (s_offset s))).
  Proof.
    intros Hq H. destruct (run_select_selected ctx s tbl H) as (sel & sorted & Hsel & Hrest).
    rewrite (selected_per_row s _ Hq) in Hsel. exists sel, sorted. split; [exact Hsel|exact Hrest].
  Qed.

  (* WITH GROUP BY: filter -> textbook groups -> HAVING -> one row per group -> distinct -> order ->
     window *)
  Theorem run_select_grouped ctx s tbl :
    grouped_query s -> query_scope s tbl = true ->
    exists sel sorted,
      mapM (group_project (s_items s))
           (filter (having_of s) (group_spec (s_group s) (filter (where_sem s) tbl))) = Ok sel /\
      oracle_order (s_order s) (distinct_sem (s_distinct s) sel) sorted /\
      run_select rec call join ctx s (Some tbl) =
      Ok (VArr (window_spec sorted (s_limit s) (s_offset s))).
  Proof.
    intros Hq H. destruct (run_select_selected ctx s tbl H) as (sel & sorted & Hsel & Hrest).
    rewrite (selected_grouped s _ Hq) in Hsel. exists sel, sorted. split; [exact Hsel|exact Hrest].
  Qed.

  (* no GROUP BY, aggregates only: the kept rows are one group and there is exactly one row (before
     OFFSET / LIMIT) *)
  Theorem run_select_whole ctx s tbl :
    whole_table_query s -> query_scope s tbl = true ->
    exists o,
      project (item_sem (filter (where_sem s) tbl)) (s_items s) [] = Ok o /\
      run_select rec call join ctx s (Some tbl) =
      Ok (VArr (window_spec [VObj o] (s_limit s) (s_offset s))).
  Proof.
    intros Hq H. destruct (run_select_selected ctx s tbl H) as (sel & sorted & Hsel & Hord & Hrun).
    rewrite (selected_whole s _ Hq) in Hsel. fold (kept_rows s tbl).
    destruct (project (item_sem (kept_rows s tbl)) (s_items s) []) as [o| | |]; try discriminate Hsel.
    cbn [bind] in Hsel. inversion Hsel; subst sel. exists o. split; [reflexivity|].
    assert (Hs : sorted = [VObj o]).
    { apply oracle_order_perm in Hord. destruct (s_distinct s); cbn in Hord;
        apply Permutation_length_1_inv in Hord; exact Hord. }
    rewrite Hs in Hrun. exact Hrun.
  Qed.

  (* without ORDER BY the denotation is a function, and the engine computes it: equivalence *)
  Theorem run_select_unordered_iff ctx s tbl rows :
    query_scope s tbl = true -> s_order s = [] ->
    (run_select rec call join ctx s (Some tbl) = Ok (VArr rows) <-> query_sem s tbl rows).
  Proof.
    intros H Ho. destruct (run_select_query rec call join ctx s tbl H) as (u & sorted & Hu & _ & Hord & Hrun).
    rewrite Ho in Hord. cbn [oracle_order] in Hord. subst sorted. split.
    - intros Hr. rewrite Hrun in Hr. inversion Hr. exists u, u. rewrite Ho. repeat split. exact Hu.
    - intros (u' & sorted' & Hu' & Hord' & ->). rewrite Ho in Hord'. cbn [oracle_order] in Hord'.
      subst sorted'. rewrite Hu in Hu'. inversion Hu'; subst u'. exact Hrun.
  Qed.

  (* whatever the engine returns in scope satisfies the denotation, and it always returns *)
  Theorem run_select_sound ctx s tbl :
    query_scope s tbl = true ->
    (exists rows, run_select rec call join ctx s (Some tbl) = Ok (VArr rows)) /\
    forall rows, run_select rec call join ctx s (Some tbl) = Ok (VArr rows) -> query_sem s tbl rows.
  Proof.
    intros H. destruct (run_select_sem rec call join ctx s tbl H) as (rows & Hrun & Hsem & _). split.
    - exists rows. exact Hrun.
    - intros rows' Hr. rewrite Hrun in Hr. inversion Hr; subst rows'. exact Hsem.
  Qed.
End Readable.

(* ================================================================== *)
(* 8. scope propagation: conditions on the TABLE that imply the         *)
(*    conditions the later stages need on their input                   *)
(* ================================================================== *)

(* grouping keys in scope on the table => in scope on the rows that pass WHERE *)
Lemma rows_ok_kept s cols tbl : rows_ok cols tbl = true -> rows_ok cols (kept_rows s tbl) = true.
Proof. apply forallb_filter. Qed.

Lemma numeric_col_filter c (p : value -> bool) rows :
  numeric_col (map (column c) rows) = true -> numeric_col (map (column c) (filter p rows)) = true.
Proof.
  unfold numeric_col. induction rows as [|r rows IH]; cbn [map filter forallb]; intros H; [reflexivity|].
  apply andb_true_iff in H. destruct H as [Hr Hrows]. destruct (p r); cbn [map forallb].
  - rewrite Hr, IH by exact Hrows. reflexivity.
  - apply IH, Hrows.
Qed.

(* an aggregate call in scope over all kept rows is in scope over the members of every group *)
Lemma agg_scope_group cols kept f arg g :
  agg_scope kept f arg = true -> In g (group_spec cols kept) -> agg_scope (snd g) f arg = true.
Proof.
  unfold agg_scope. intros H Hin. rewrite (group_spec_members cols kept g Hin).
  apply andb_true_iff in H. destruct H as [Ho H]. apply andb_true_iff. split.
  - apply forallb_filter, Ho.
  - destruct arg as [[|c [|c' rest]]|]; try exact H. destruct f; try exact H;
      apply numeric_col_filter, H.
Qed.

(* hence: a grouped select list whose items are in scope on the kept rows is in scope on each group *)
Lemma agg_items_scope_group cols kept items g :
  forallb (agg_item_scope kept) items = true -> In g (group_spec cols kept) ->
  forallb (agg_item_scope (snd g)) items = true.
Proof.
  intros H Hin. rewrite forallb_forall in *. intros it Hit. specialize (H it Hit).
  destruct it as [|e name]; [reflexivity|]. destruct e; try exact H.
  cbn [agg_item_scope] in *. eapply agg_scope_group; eassumption.
Qed.

(* ---- the API theorem for the common spelling: FROM t, t a key of the document ---- *)

Section ApiTable.
  Variable call : string -> string -> list value -> row -> res raw.
  Variable join : jointype -> jstrategy -> list value -> list value -> string -> string ->
                  expr stmt -> row -> res (list value).

  Theorem api_run_sem_table n kv s t tbl :
    s_with s = [] -> s_from s = FTable [t] "" ->
    lookup t kv = Some (VArr tbl) ->
    query_scope s tbl = true ->
    exists rows,
      api_run call join (S n) false (VObj kv) (SSelect s) = Ok rows /\
      query_sem s tbl rows /\
      query_run exec_order_by s tbl = Ok rows.
  Proof.
    intros Hw Hf Hl Hs. apply (api_run_sem call join n false (VObj kv) s t [] tbl Hw Hf); [|exact Hs].
    cbn [api_data reader]. unfold obj_get. rewrite Hl. reflexivity.
  Qed.
End ApiTable.

(* ================================================================== *)
(* 9. what the tuple of a group holds, in textbook terms                *)
(* ================================================================== *)

(* the grouping columns read as in the group's first member (all members agree on them up to key
   equality), and "*" reads the member list *)
Lemma group_tuple_reading cols rows g :
  names_unambiguous cols ->
  rows_ok cols rows = true -> In g (group_spec cols rows) ->
  exists r rest, snd g = r :: rest /\ In r rows /\
    (forall c : gkey, In c cols -> gk_name c <> "*"%string ->
       lookup (gk_name c) (group_tuple g) = Some (key_value c r)) /\
    lookup "*"%string (group_tuple g) = Some (VArr (snd g)).
Proof.
  intros Hun Hok Hin.
  destruct (group_spec_first_member float_eq_laws_f64 cols rows g Hok Hin) as (r & rest & Hs & Hf).
  exists r, rest. split; [exact Hs|]. split.
  - pose proof (group_spec_members cols rows g Hin) as Hm. rewrite Hs in Hm.
    assert (Hr : In r (r :: rest)) by (left; reflexivity). rewrite Hm in Hr.
    apply filter_In in Hr. exact (proj1 Hr).
  - split.
    + intros c Hc Hne. destruct g as [k ms]. cbn [fst snd] in *. subst k.
      exact (lookup_key_group_row cols r ms c Hun Hc Hne).
    + apply lookup_star_group_row.
Qed.

(* ================================================================== *)
(* 10. ORDER BY scope, propagated from the SOURCE table                 *)
(*     (queries without GROUP BY whose sort keys are projected columns) *)
(* ================================================================== *)

Definition no_star (items : list (sel_item stmt)) : bool :=
  forallb (fun it => match it with IStar => false | IExpr _ _ => true end) items.

(* the sort key [name] is the output name of the select item `c AS name` and column c of the kept
   rows holds strings only, booleans only, or non-NaN numbers only (plus NULLs / missing) *)
Definition key_from_column (s : select stmt) (tbl : list value) (k : sort_key) : Prop :=
  exists name c, fst k = [name] /\ In (IExpr (ECol [c]) name) (s_items s) /\
                 order_column_ok (map (column c) (kept_rows s tbl)) = true.

Lemma select_keys_no_star (items : list (sel_item stmt)) r :
  no_star items = true -> select_keys items r = map item_name items.
Proof.
  induction items as [|it items IH]; cbn [no_star forallb]; intros H; [reflexivity|].
  apply andb_true_iff in H. destruct H as [Hi H]. destruct it as [|e name]; [discriminate|].
  cbn [select_keys flat_map item_names map item_name app]. f_equal. apply IH, H.
Qed.

Lemma bindings_item {Q} (den : srow -> expr Q -> res value) items r bs e name :
  bindings den items r = Ok bs -> In (IExpr e name) items ->
  exists v, den r e = Ok v /\ In (name, v) bs.
Proof.
  revert bs. induction items as [|it items IH]; intros bs H Hin; [destruct Hin|].
  cbn [bindings] in H.
  destruct (item_bindings den r it) as [b| | |] eqn:Hb; cbn [bind] in H; try discriminate H.
  destruct (bindings den items r) as [bs'| | |] eqn:Hbs; cbn [bind] in H; try discriminate H.
  inversion H; subst bs. destruct Hin as [->|Hin].
  - cbn [item_bindings] in Hb. destruct (den r e) as [v| | |]; cbn [bind] in Hb; try discriminate Hb.
    inversion Hb; subst b. exists v. split; [reflexivity|]. apply in_or_app. left. left. reflexivity.
  - destruct (IH bs' eq_refl Hin) as (v & Hv & Hi). exists v. split; [exact Hv|].
    apply in_or_app. right. exact Hi.
Qed.

Lemma lookup_in_nodup k v (m : list (string * value)) :
  NoDup (keys m) -> In (k, v) m -> lookup k m = Some v.
Proof.
  unfold keys. induction m as [|[k0 v0] m IH]; intros Hnd Hin; [destruct Hin|].
  cbn [map fst] in Hnd. inversion Hnd as [|? ? Hnot Hnd']; subst. cbn [lookup].
  destruct Hin as [Heq|Hin].
  - inversion Heq; subst. rewrite String.eqb_refl. reflexivity.
  - destruct (String.eqb k k0) eqn:He.
    + apply String.eqb_eq in He. subst k0. exfalso. apply Hnot.
      apply in_map_iff. exists (k, v). split; [reflexivity|exact Hin].
    + apply IH; assumption.
Qed.

(* the projected column of an output row is the source column of the row it came from *)
Lemma projected_column_value items kv okv c name :
  no_star items = true -> NoDup (map item_name items) ->
  In (IExpr (ECol [c]) name) items ->
  sem_project_x items kv = Ok okv ->
  reader [name] (VObj okv) = Ok (column c (VObj kv)).
Proof.
  intros Hns Hnd Hin Hp.
  destruct (project_lookup stmt sem_x items kv okv Hp) as (bs & Hbs & Hl).
  destruct (bindings_item sem_x items kv bs _ _ Hbs Hin) as (v & Hv & Hi).
  cbn [sem_x path_get] in Hv. inversion Hv; subst v.
  assert (Hk : NoDup (keys bs)).
  { unfold keys. rewrite (bindings_names stmt sem_x _ _ _ Hbs), (select_keys_no_star _ _ Hns). exact Hnd. }
  cbn [reader]. unfold obj_get. rewrite (Hl name), (lookup_rev_nodup bs name Hk).
  rewrite (lookup_in_nodup _ _ _ Hk Hi). reflexivity.
Qed.

Lemma forallb_subset {A} (P : A -> bool) small big :
  (forall x, In x small -> In x big) -> forallb P big = true -> forallb P small = true.
Proof.
  intros Hsub H. rewrite forallb_forall in *. intros x Hx. apply H, Hsub, Hx.
Qed.

(* a column check passes on any list of values drawn from a column that passes *)
Lemma order_column_ok_subset small big :
  (forall v, In v small -> In v big) -> order_column_ok big = true -> order_column_ok small = true.
Proof.
  intros Hsub. unfold order_column_ok.
  set (nn := fun v : value => negb (SortSpec.is_null v)).
  assert (Hf : forall v, In v (filter nn small) -> In v (filter nn big)).
  { intros v Hv. apply filter_In in Hv. destruct Hv as [Hv Hn]. apply filter_In. split; [apply Hsub, Hv|exact Hn]. }
  intros H. apply orb_true_iff in H. destruct H as [H|H]; [apply orb_true_iff in H; destruct H as [H|H]|].
  - rewrite (forallb_subset _ _ _ Hf H). reflexivity.
  - rewrite (forallb_subset _ _ _ Hf H). apply orb_true_iff. left. apply orb_true_r.
  - rewrite (forallb_subset _ _ _ Hf H). apply orb_true_r.
Qed.

Lemma mapM_all_ok {A B} (f : A -> res B) (P : B -> Prop) l :
  (forall a, In a l -> exists b, f a = Ok b /\ P b) ->
  exists out, mapM f l = Ok out /\ forall b, In b out -> P b.
Proof.
  induction l as [|a l IH]; intros H.
  - exists []. split; [reflexivity|]. intros b [].
  - destruct (H a (or_introl eq_refl)) as (b & Hb & Pb).
    destruct IH as (out & Ho & Hall); [intros a' Ha'; apply H; right; exact Ha'|].
    exists (b :: out). split.
    + cbn [mapM]. rewrite Hb. cbn [bind]. rewrite Ho. reflexivity.
    + intros b' [<-|Hb']; [exact Pb|apply Hall, Hb'].
Qed.

(* PROPAGATION.  Without GROUP BY, if every sort key is the output name of a projected plain column
   whose SOURCE column (over the rows passing WHERE) holds one scalar kind, the item names are
   pairwise different and there is no `*`, then the ORDER BY scope holds on the output rows -
   whatever the other select items are. *)
Theorem order_scope_from_table s tbl :
  per_row_query s ->
  no_star (s_items s) = true -> NoDup (map item_name (s_items s)) ->
  (forall k, In k (s_order s) -> key_from_column s tbl k) ->
  forall u, query_unsorted s tbl = Ok u -> order_scope u (s_order s) = true.
Proof.
  intros Hq Hns Hnd Hkeys u Hu. unfold query_unsorted in Hu.
  destruct (selected_sem s (kept_rows s tbl)) as [sel| | |] eqn:Hsel; try discriminate Hu.
  cbn [bind] in Hu. inversion Hu; subst u. rewrite (selected_per_row s _ Hq) in Hsel.
  unfold order_scope. apply forallb_forall. intros k Hk.
  destruct (Hkeys k Hk) as (name & c & Hfst & Hitem & Hcol). rewrite Hfst.
  destruct (mapM_all_ok (reader [name]) (fun v => In v (map (column c) (kept_rows s tbl)))
              (distinct_sem (s_distinct s) sel)) as (vals & Hvals & Hall).
  - intros o Ho. apply distinct_sem_in in Ho.
    destruct (mapM_in_out _ _ _ _ Hsel Ho) as (r & Hr & Hp).
    destruct r as [| | | | |kv]; try discriminate Hp. cbn [row_project] in Hp.
    destruct (sem_project_x (s_items s) kv) as [okv| | |] eqn:Hpj; try discriminate Hp.
    cbn [bind] in Hp. inversion Hp; subst o.
    exists (column c (VObj kv)). split.
    + exact (projected_column_value _ _ _ _ _ Hns Hnd Hitem Hpj).
    + apply in_map. exact Hr.
  - rewrite Hvals. exact (order_column_ok_subset _ _ Hall Hcol).
Qed.

(* hence the whole scope, with the ORDER BY condition stated on the source table *)
Theorem query_scope_from_table s tbl u :
  per_row_query s -> front_scope s tbl = true ->
  bound_okb (s_limit s) = true -> bound_okb (s_offset s) = true ->
  query_unsorted s tbl = Ok u ->
  no_star (s_items s) = true -> NoDup (map item_name (s_items s)) ->
  (forall k, In k (s_order s) -> key_from_column s tbl k) ->
  query_scope s tbl = true.
Proof.
  intros Hq Hf Hl Ho Hu Hns Hnd Hk. unfold query_scope. rewrite Hf, Hl, Ho, Hu. cbn [andb].
  exact (order_scope_from_table s tbl Hq Hns Hnd Hk u Hu).
Qed.
