(* Proofs/C16SimA.v -- the simulation relation between the sanitizer's lexer (Model/Sanitizer.v)
   and the consumer's tokenizer (Model/MySqlString.v); UTF-8 decoding facts; Lemma A. *)
From Coq Require Import Lia ZifyBool ZifyN ZifyNat.
From GenqlV Require Import Base.Prelude Model.MySqlString Model.Sanitizer Spec.C16Spec Proofs.C16Bytes.
Local Open Scope string_scope.
Local Open Scope bool_scope.
Local Opaque code.

(* ---------------------------------------------------------------- the simulation relation *)

Definition rawlike (m : mstate) : bool :=
  match m with
  | MDef | MIdent | MAt | MAtAt | MAtVar | MColon | MColon2 | MBind | MDigits
  | MNZero | MNInt | MNFrac | MNExpMark | MNExp | MNHex | MNBin => true
  | _ => false
  end.

Fixpoint conts (k : nat) (s : bytes) : bool :=
  match k with
  | O => true
  | S k' => match s with String c r => (128 <=? code c)%N && conts k' r | EmptyString => false end
  end.

Definition strict_ctl (ctl : sctl) (m : mstate) : bool :=
  match ctl, m with
  | CRaw, MDef => true
  | CSQ, MStr d | CEsc, MStr d => is d c_sq
  | CDQ, MStr d => is d c_dq
  | CBT, MBT => true
  | CLine, MLine => true
  | CBlock, MBlock => true
  | _, _ => false
  end.

Definition rel_ctl (ctl : sctl) (m : mstate) (s : bytes) : bool :=
  match ctl with
  | CRaw =>
      rawlike m ||
      match m with
      | MSkip _ (MStr d) => nxt_is s d && (is d c_sq || is d c_dq)
      | MSkip _ MHexLit | MSkip _ MBitLit => nxt_is s c_sq
      | _ => false
      end
  | CSQ => match m with MStr d => is d c_sq | MHexLit | MBitLit => true | _ => false end
  | CEsc => match m with MStr d => is d c_sq | _ => false end
  | CDQ => match m with MStr d => is d c_dq | _ => false end
  | CBT => match m with MBT | MBT0 => true | _ => false end
  | CLine => match m with MLine => true | _ => false end
  | CBlock => match m with MBlock => true | _ => false end
  end.

Definition quoted_lbl (l : mode) : bool :=
  match l with Default | InWord => false | _ => true end.

Definition tl_s (s : bytes) : bytes := match s with String _ r => r | EmptyString => s end.

(* [rest] is the unread input INCLUDING the byte at the current offset *)
Definition rel (s : sstate) (m : mstate) (rest : bytes) : bool :=
  match s with
  | SRun ctl => rel_ctl ctl m rest
  | SPlace => match m with MIdent => true | _ => false end
  | SCont (S k) ctl => conts (S k) rest && strict_ctl ctl m
  | SCont O _ => false
  | SPeek ctl =>
      match m with
      | MSkip lbl m' => rel_ctl ctl m' (tl_s rest) && quoted_lbl lbl
      | _ =>
          (* e' / E' seen by rawState: the peeked byte is the quote that opens the string *)
          match ctl with CEsc => rawlike m && nxt_is rest c_sq | _ => false end
      end
  | SEscNext ctl =>
      match m with
      | MSkip (InStr _) (MStr d) => strict_ctl ctl (MStr d)
      | MStr d => strict_ctl ctl (MStr d) && match rest with EmptyString => true | _ => false end
      | _ => false
      end
  end.

(* ---------------------------------------------------------------- utf8 decoding facts *)

Lemma decode_ascii c rest : (code c < 128)%N -> decode_rune (String c rest) = RAscii c.
Proof. intro H. unfold decode_rune. destruct (code c <? 128)%N eqn:E; [reflexivity|lia]. Qed.

Lemma decode_hi c rest :
  (128 <= code c)%N ->
  decode_rune (String c rest) = RBad \/
  exists k, decode_rune (String c rest) = RMulti (S (S k)) /\ conts (S k) rest = true.
Proof.
  intro H. unfold decode_rune.
  destruct (code c <? 128)%N eqn:E; [lia|].
  destruct ((code c <? 194)%N || (244 <? code c)%N); [now left|].
  destruct rest as [|c1 r1]; [now left|].
  destruct (negb (in_range c1 _ _)) eqn:E1; [now left|].
  assert (H1 : (128 <=? code c1)%N = true).
  { unfold in_range in E1. destruct (code c =? 224)%N, (code c =? 240)%N, (code c =? 237)%N, (code c =? 244)%N; lia. }
  destruct (code c <? 224)%N.
  { right. exists 0%nat. split; [reflexivity|]. cbn. now rewrite H1. }
  destruct r1 as [|c2 r2]; [now left|].
  destruct (negb (cont_byte c2)) eqn:E2; [now left|].
  assert (H2 : (128 <=? code c2)%N = true) by (unfold cont_byte, in_range in E2; lia).
  destruct (code c <? 240)%N.
  { right. exists 1%nat. split; [reflexivity|]. cbn. now rewrite H1, H2. }
  destruct r2 as [|c3 r3]; [now left|].
  destruct (cont_byte c3) eqn:E3; [|now left].
  assert (H3 : (128 <=? code c3)%N = true) by (unfold cont_byte, in_range in E3; lia).
  right. exists 2%nat. split; [reflexivity|]. cbn. now rewrite H1, H2, H3.
Qed.

(* ---------------------------------------------------------------- Lemma A *)

(* the dispatcher of rawState against the dispatcher of Scan, on an ASCII byte *)
Lemma raw_vs_def c rest :
  (code c < 128)%N ->
  rel (raw_next c rest) (step_def c rest) rest = true.
Proof.
  intro Hc. unfold raw_next.
  destruct rest as [|c1 rest1]; [|destruct rest1 as [|c2 rest2]];
  cbn [nxt_is nxt_sat peek2 blank_or_eof].
  all: repeat match goal with
       | |- context [if ?b then _ else _] => destruct b eqn:?
       end.
  all: unfold step_def; cbn [nxt_is nxt_sat peek2 blank_or_eof].
  all: repeat match goal with
       | |- context [if ?b then _ else _] => destruct b eqn:?; try (exfalso; arith)
       end.
  all: cbn; try reflexivity; try arith.
Qed.
